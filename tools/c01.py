"""C01 — no input crashes the shell: parse, expand and run always end in a status.

Three layers (DESIGN.md, section C01):
 1. proof: `Props/C01.lean` — panic-freedom / termination theorems about the checked hot-spot model
    `Model/Checked.lean` (full, or `_partial` under a decidable guard + a proved `_cex`);
 2. correspondence: the same hot spots through brush's real entry points (harness `c01`, in-process,
    `catch_unwind`) on the boundary grid, value-or-error-kind compared with the model; a PANIC/HANG that is
    observed *or* predicted is a failure of the property, classified by clause;
 3. exploration (fuzzing, labelled so in the evidence): corpus/mutated/grammar-generated texts through
    every parser, the highlighter, completion and prompt expansion in-process, and generated scripts
    (own safe vocabulary, nesting <= 64, Unicode, boundary operands) through the brush binary under a
    timeout.  Observables: exit status 101/134, death by signal, `panicked at`, timeout.
"""
import glob
import json
import os
import re
import resource
import shutil
import subprocess
import tempfile
import time
import lib
from lib import esc, unesc

BIN = "c01"
MIN, MAX = -(2 ** 63), 2 ** 63 - 1
WATCHDOG_MS = 4000

# ---------------------------------------------------------------------------------------------
# known defect classes: (clause, where it dies, message, feature the *input* must show)
# A panic/hang is explained by a clause only if location, message AND input feature all match, so a
# different crash in the same file is still a VIOLATION.
SUBSTR_FEATURE = r"\$\{[^}]*:[^}]*:[^}]*-"
BRACE_NUM_FEATURE = r"\{[^{}]*\d{19,}"
BRACE_SEQ_FEATURE = r"\{[-+]?(\d+|[A-Za-z])\.\.[-+]?(\d+|[A-Za-z])\.\.[-+]?\d+\}"
HEREDOC_FEATURE = r"<<"
KNOWN_PANICS = [
    ("backquote_escape_span_boundary", r"brush-interactive/src/highlighting\.rs$", r"char boundary", r"`[^`]*\\"),
]
HANG_EMPTY_TAG = re.compile(r"<<-?(''|\"\")?[ \t]+\Z")
HANG_CHAR_INC = re.compile(r"\{[A-Za-z]\.\.[A-Za-z]\.\.[-+]?(\d{10,})\}")


# five or more directly nested openers: brush's PEG grammars backtrack exponentially on them.
# "Nested opener" = a unit of 1..24 characters that holds an opening character or a compound keyword
# and is repeated at least five times in a row.
_REPEAT = re.compile(r"(.{1,24}?)\1{4,}", re.S)
_OPENER = re.compile(r"[(\[{`'\"]|\b(case|if|while|until|for|select|function)\b")


def deep_nest(text):
    for m in _REPEAT.finditer(text):
        if _OPENER.search(m.group(1)):
            return True
    # mixed nests: eight or more brackets open at once
    depth = best = 0
    for ch in text:
        if ch in "([{":
            depth += 1
            best = max(best, depth)
        elif ch in ")]}" and depth:
            depth -= 1
    return best >= 8


EXP_STAGES = ("program", "text:brace", "token:brace", "text:word", "token:word", "token:arithmetic", "text:arithmetic", "token:parameter",
              "token:heredoc", "text:pattern", "token:pattern", "text:prompt")


def known_hang_clause(text, stage=None):
    if deep_nest(text) and (stage is None or stage in EXP_STAGES):
        return "nested_construct_exponential_backtracking"
    return None


def canon_file(f):
    """the same canonical panic location as the harness prints (independent of checkout / registry dirs)"""
    i = f.rfind("/brush-")
    if i >= 0:
        return f[i + 1:]
    i = f.rfind("/.cargo/registry/src/")
    if i >= 0:
        rest = f[i + 21:]
        return "dep:" + (rest.split("/", 1)[1] if "/" in rest else rest)
    i = f.rfind("/library/")
    if i >= 0:
        return "std:" + f[i + 9:]
    return f


def cheap_hang(text):
    """inputs known to hang that are cheap to recognise before sending them (none at present: the
    here-document and character-increment hangs are repaired)"""
    return False


def panic_clause(loc, msg, text):
    f = loc.rsplit(":", 1)[0]
    for clause, fre, mre, feat in KNOWN_PANICS:
        if re.search(fre, f) and re.search(mre, msg) and re.search(feat, text, re.S):
            return clause
    return None


# ---------------------------------------------------------------------------------------------
# harness runner that survives a HANG / abort of the harness process

MAX_RESTARTS = 10
_SMALL_PATH = None


def small_path():
    """a PATH with a handful of commands: command-name completion scans every PATH directory at every
    cursor, which on a loaded machine is slow enough to look like a hang"""
    global _SMALL_PATH
    if _SMALL_PATH is None:
        d = os.path.join(lib.BUILD, "c01-path")
        os.makedirs(d, exist_ok=True)
        for c in ("echo", "cat", "ls", "true", "env"):
            src = shutil.which(c, path="/usr/bin:/bin")
            dst = os.path.join(d, c)
            if src and not os.path.lexists(dst):
                try:
                    os.symlink(src, dst)
                except OSError:
                    pass
        _SMALL_PATH = d
    return _SMALL_PATH


HARNESS_MEM_GB = 4


def _run_vh_limited(lines, timeout):
    """`lib.run_vh` with an address-space ceiling: a case that allocates without bound (a brace sequence
    of 2^31 words on a tree that lacks the size check) must take down the harness process, not the machine."""
    def limits():
        lim = HARNESS_MEM_GB * 1024 ** 3
        resource.setrlimit(resource.RLIMIT_AS, (lim, lim))
        resource.setrlimit(resource.RLIMIT_CORE, (0, 0))
    e = dict(os.environ)
    e.update({"C01_WATCHDOG_MS": str(WATCHDOG_MS), "PATH": small_path()})
    data = ("\n".join(lines) + "\n").encode("utf-8")
    p = subprocess.run([os.path.join(lib.BIN, BIN)], input=data, stdout=subprocess.PIPE, stderr=subprocess.PIPE,
                       timeout=timeout, env=e, preexec_fn=limits)
    # response lines carry a marker; anything else on stdout is stray output of the code under test
    mark = "@@C01@@ "
    out = [l.split(mark, 1)[1] for l in p.stdout.decode("utf-8", "replace").split("\n") if mark in l]
    return p.returncode, out, p.stderr.decode("utf-8", "replace")


def run_harness(lines, timeout=900):
    """Returns one response per line. A harness that exits early (watchdog → `HANG`, stack overflow,
    abort) is restarted on the remaining lines; the line it died on answers `HANG` or `DIED <how>`.
    After MAX_RESTARTS restarts the remaining lines answer `SKIPPED` (the run has failed by then; it must
    not also take for ever)."""
    out = []
    rest = list(lines)
    restarts = 0
    while rest:
        rc, got, err = _run_vh_limited(rest, timeout)
        if len(got) >= len(rest):
            out.extend(got[:len(rest)])
            break
        # process ended before answering everything: `got` holds the answers so far, the last of which is
        # `HANG` when the watchdog fired; otherwise the case after them killed the process
        if got and got[-1].startswith("HANG"):
            out.extend(got)
            rest = rest[len(got):]
        else:
            out.extend(got)
            how = "abort" if rc in (134, -6) else ("segv" if rc in (139, -11) else "rc%d" % rc)
            tail = err.strip().split("\n")[-3:]
            if "overflowed its stack" in err:
                how = "stack-overflow"
            out.append("DIED " + how + " " + esc(" | ".join(tail))[:300])
            rest = rest[len(got) + 1:]
        restarts += 1
        if restarts > MAX_RESTARTS:
            out.extend(["SKIPPED"] * len(rest))
            break
    return out


def run_harness_parallel(lines, workers=None):
    if not lines:
        return []
    workers = workers or min(lib.NCPU, 8)
    parts = lib.chunked(lines, workers)
    res = lib.pmap(run_harness, parts, workers=workers)
    return [x for r in res for x in r]


# ---------------------------------------------------------------------------------------------
# 2. hot-spot grid

def grid_for(n):
    """boundary values around a length n"""
    vals = {0, 1, -1, 2, -2, n - 1, n, n + 1, -n, -n - 1, -n + 1, MIN, MIN + 1, MAX, MAX - 1, 2 ** 31, -(2 ** 31),
            2 ** 32, 2 ** 62, MIN + n, MAX - n}
    return sorted(v for v in vals if MIN <= v <= MAX)


STRS = ["", "a", "abc", "h\u00e9llo", "\u65e5\u672c\u8a9e", "a b\tc", "e\u0301x"]
ARITH_OPS = ["+", "-", "*", "/", "%", "**", "<<", ">>", "&", "|", "^", "<", ">", "<=", ">=", "==", "!=", "&&", "||", ","]
ARITH_VALS = [0, 1, -1, 2, -2, 3, 63, 64, 65, -63, -64, 2 ** 31, 2 ** 32, -(2 ** 31), 2 ** 62, MAX, MAX - 1, MIN, MIN + 1]
BRACE_NUMS = ["0", "1", "-1", "5", "-5", "+3", "007", "-0", str(MAX), str(MAX - 1), str(MAX - 4), str(-MAX), str(-MAX + 1), str(-MAX + 4),
              str(2 ** 63), str(-(2 ** 63)), str(2 ** 64), "99999999999999999999", str(2 ** 31), str(2 ** 31 - 3), str(2 ** 31 - 2)]
BRACE_INCS = ["-", "0", "1", "-1", "2", "-2", "3", "7", "200", str(2 ** 31), str(2 ** 32), str(2 ** 32 + 1), str(MAX), str(-MAX),
              str(2 ** 63), str(-(2 ** 63)), "99999999999999999999"]
CHAR_INCS = ["-", "0", "1", "-1", "2", "-3", "25", "26", "64", "65", "66", "90", "96", "97", "98", "121", "122", "123", "200",
             str(2 ** 31), str(2 ** 32 - 1), str(2 ** 32), str(2 ** 32 + 1), str(2 ** 33), str(2 ** 32 + 97), str(MAX), str(-MAX),
             str(2 ** 63), "99999999999999999999"]
LETTERS = ["a", "b", "e", "m", "z", "A", "B", "Z", "M"]
MAX_SEQ = 3000
SEQ_LIMIT = 2 ** 31 - 3   # INT_MAX - 2: a numeric sequence with more elements is not expanded (word stays literal), as in bash


def _num(t):
    try:
        v = int(t)
    except ValueError:
        return None
    return v


def brace_count(s, e, i):
    """words an (unpanicking) numeric sequence produces; None when a literal does not fit i64"""
    vs = [_num(s), _num(e), 1 if i == "-" else _num(i)]
    if any(v is None or v < MIN or v > MAX for v in vs):
        return None
    a, b, inc = vs
    inc = abs(inc) or 1
    return abs(b - a) // inc + 1


def hot_cases(ctx):
    """(kind, harness line, driver line). kind buckets the distribution."""
    cs = []

    def add(kind, h, d=None):
        cs.append((kind, h, d if d is not None else h))

    for s in STRS:
        n = len(s)
        g = grid_for(n)
        for o in g:
            for l in ["-"] + g:
                add("substr", "SUBSTR %s %d %s" % (esc(s), o, l))
    for n in (0, 1, 3, 4):
        g = grid_for(n)
        for o in g:
            for l in ["-"] + g:
                add("asubstr", "ASUBSTR %d %d %s" % (n, o, l))
        g = grid_for(n + 1)
        for o in g:
            for l in ["-"] + g:
                add("psubstr", "PSUBSTR %d %d %s" % (n, o, l))
    for n in (0, 1, 3):
        for what in ("get", "set", "unset"):
            for i in grid_for(n):
                add("index", "INDEX %s %d %d" % (what, n, i))
    for s in BRACE_NUMS:
        for e in BRACE_NUMS:
            for i in BRACE_INCS:
                c = brace_count(s, e, i)
                if c is not None and MAX_SEQ < c <= SEQ_LIMIT:
                    # expanded for real: too many words to materialise in a test
                    ctx.bucket("brace_num_skipped_huge_count")
                    continue
                word = "{%s..%s%s}" % (s, e, "" if i == "-" else ".." + i)
                add("brace_num", "BRACE %s" % esc("p" + word), "BRACEN p %s %s %s" % (s, e, i))
    for a in LETTERS:
        for b in LETTERS:
            if a.islower() != b.islower():
                continue   # a range across the two cases produces ` and \, which the later expansion steps interpret
            for i in CHAR_INCS:
                word = "{%s..%s%s}" % (a, b, "" if i == "-" else ".." + i)
                add("brace_char", "BRACE %s" % esc(word), "BRACEC %% %s %s %s" % (a, b, i))
    for n in range(0, 5):
        for m in ["-", 0, 1, 2, n - 1, n, n + 1, n + 2, 2 ** 31, 2 ** 63 - 1, 2 ** 63, 2 ** 64 - 1]:
            if m == "-" or m >= 0:
                add("hist", "HIST %d %s" % (n, m))
    for kw in "bc":
        for n in list(range(-130, 131)) + [200, 32767, 2 ** 31, MAX]:
            add("loop", "LOOP %s %d" % (kw, n))
    for op in ARITH_OPS:
        for l in ARITH_VALS:
            for r in ARITH_VALS:
                add("arith", "ARITH %s %d %d" % (esc(op), l, r))
    for op in ["+", "-", "~", "!"]:
        for x in ARITH_VALS:
            add("unary", "UNARY %s %d" % (op, x))
    return cs


def rand_hot_cases(ctx, count):
    rng = ctx.rng
    cs = []

    def bv(n=0):
        r = rng.random()
        if r < 0.35:
            return rng.choice(grid_for(n))
        if r < 0.7:
            return rng.randint(-8, 8)
        if r < 0.85:
            return rng.choice([MIN, MAX, 2 ** 31, 2 ** 32, -(2 ** 31)]) + rng.randint(-3, 3) if False else max(MIN, min(MAX, rng.choice([MIN, MAX, 2 ** 31, 2 ** 32, -(2 ** 31)]) + rng.randint(-3, 3)))
        return rng.randint(MIN, MAX)

    alpha = "ab \u00e9\u65e5\u0301$*'\"\\x"
    for _ in range(count):
        r = rng.random()
        if r < 0.3:
            s = "".join(rng.choice(alpha) for _ in range(rng.randint(0, 9)))
            n = len(s)
            cs.append(("substr", "SUBSTR %s %d %s" % (esc(s), bv(n), rng.choice(["-", bv(n), bv(n)]))))
        elif r < 0.5:
            n = rng.randint(0, 6)
            cs.append(("asubstr", "%s %d %d %s" % (rng.choice(["ASUBSTR", "PSUBSTR"]), n, bv(n), rng.choice(["-", bv(n), bv(n)]))))
        elif r < 0.6:
            n = rng.randint(0, 5)
            cs.append(("index", "INDEX %s %d %d" % (rng.choice(["get", "set", "unset"]), n, bv(n))))
        elif r < 0.85:
            op = rng.choice(ARITH_OPS)
            cs.append(("arith", "ARITH %s %d %d" % (esc(op), bv(64), bv(64))))
        elif r < 0.9:
            n = rng.randint(0, 6)
            cs.append(("hist", "HIST %d %d" % (n, rng.choice([0, 1, n, n + 1, rng.randint(0, 9), 2 ** 40]))))
        else:
            a = rng.randint(-40, 40) + rng.choice([0, 0, MAX - 40, -MAX + 40])
            b = a + rng.randint(-30, 30)
            if abs(a) > MAX or abs(b) > MAX:
                continue
            i = rng.choice(["-", str(rng.randint(-9, 9)), str(bv()), str(rng.choice([MAX, -MAX, 2 ** 32]))])
            if i.startswith("-9223372036854775808"):
                i = "-"
            pre = rng.choice(["", "x", "\u00e9"])
            word = "{%d..%d%s}" % (a, b, "" if i == "-" else ".." + i)
            cs.append(("brace_num", "BRACE %s" % esc(pre + word), "BRACEN %s %d %d %s" % (esc(pre), a, b, i)))
    return [(c[0], c[1], c[2] if len(c) > 2 else c[1]) for c in cs]


def split_resp(r):
    """harness/driver response → (kind, payload, location, message)"""
    if r.startswith("PANIC"):
        p = r.split(" ", 2)
        return "PANIC", "", (p[1] if len(p) > 1 else ""), (unesc(p[2]) if len(p) > 2 else "")
    if r.startswith("HANG"):
        return "HANG", "", "", ""
    if r.startswith("DIED"):
        return "DIED", r[5:], "", ""
    if r.startswith("ERR"):
        return "ERR", r[3:].strip(), "", ""
    if r.startswith("OK"):
        return "OK", r[2:].strip(), "", ""
    return "?", r, "", ""


HOT_CLAUSE = {}   # no open clause on a hot spot: every panic there is a VIOLATION


def hot_clause(kind, loc, msg, hline):
    if kind in HOT_CLAUSE:
        want = HOT_CLAUSE[kind]
        for clause, fre, mre, _ in KNOWN_PANICS:
            if clause == want and re.search(fre, loc.rsplit(":", 1)[0]) and re.search(mre, msg):
                return clause
        return None
    if kind in ("brace_num", "brace_char"):
        word = unesc(hline.split(" ", 1)[1])
        return panic_clause(loc, msg, word)
    return None


def hot_stage(ctx):
    cases = []
    cdir = os.path.join(lib.ROOT, "corpus", "C01")
    for f in sorted(glob.glob(os.path.join(cdir, "*.hot"))):
        for l in open(f, encoding="utf-8"):
            l = l.rstrip("\n")
            if l and not l.startswith("//"):
                h, _, d = l.partition("\t")
                cases.append(("corpus:" + h.split(" ")[0], h, d or h))
    cases += hot_cases(ctx)
    cases += rand_hot_cases(ctx, ctx.size(4000, 60000))
    mouts = lib.run_drv_parallel(["C01 " + d for _, _, d in cases])
    # cases the model predicts never to come back are not run in-process (they would take the harness
    # down by memory); a few of them go through the binary under a memory limit and a timeout instead
    hang_pred = [(k, h, d) for (k, h, d), m in zip(cases, mouts) if m == "HANG"]
    runnable = [(c, m) for c, m in zip(cases, mouts) if m != "HANG"]
    bouts = run_harness_parallel([h for (_, h, _), _ in runnable])
    nviol = 0
    for ((kind, h, d), m), b in zip(runnable, bouts):
        kb = kind
        if kind.startswith("corpus:"):
            op = h.split(" ")[0]
            kb = {"SUBSTR": "substr", "ASUBSTR": "asubstr", "PSUBSTR": "psubstr", "HIST": "hist", "INDEX": "index",
                  "LOOP": "loop", "ARITH": "arith", "UNARY": "unary"}.get(op, "brace_char" if d.startswith("BRACEC") else "brace_num")
        if b == "SKIPPED":
            ctx.bucket("skipped_after_too_many_harness_restarts")
            continue
        bk, bp, loc, msg = split_resp(b)
        mk, mp, _, _ = split_resp(m)
        ctx.count(h, nontrivial=True, bucket="hot_" + kb)
        ctx.impl_validated += 1
        same = (bk == mk and (bk != "OK" or bp == mp))
        case = {"hot": h, "drv": d, "brush": b, "model": m}
        if bk in ("PANIC", "HANG", "DIED"):
            ctx.bucket("hot_panics_observed")
            clause = hot_clause(kb, loc, msg, h) if bk == "PANIC" else None
            if same and clause:
                ctx.known_or_violation(clause, "brush panics at %s (%s); the checked model predicts it" % (loc, msg[:60]), case)
            elif nviol < 25:
                nviol += 1
                ctx.violation("brush %s at %s (%s) on a hot-spot input%s" % (bk, loc or "?", msg[:60], "" if same else "; the checked model predicts " + m[:40]),
                              case, kind="property")
        elif not same:
            if mk == "PANIC" and bk in ("OK", "ERR"):
                # the recorded defect no longer shows on this input (it was repaired): the property holds on
                # brush here; DESIGN.md section 4: pass, noted in the evidence (the model should be brought up to date)
                if len(ctx.notes) < 20:
                    ctx.notes.append("finding_not_reproduced: model predicts PANIC, brush answers %s on %s" % (b[:40], h))
                ctx.bucket("finding_not_reproduced")
            elif nviol < 25:
                nviol += 1
                ctx.violation("checked model and brush disagree on a hot-spot input", case, kind="correspondence")
    # predicted hangs → binary, bounded
    take = hang_pred[:: max(1, len(hang_pred) // 2)][:2] if hang_pred else []
    ctx.bucket("hot_hang_predicted", len(hang_pred))
    res = lib.pmap(lambda c: run_script("echo " + unesc(c[1].split(" ", 1)[1]), timeout=6, mem_gb=1), take, workers=2)
    for (kind, h, d), r in zip(take, res):
        ctx.count(h, bucket="hot_hang_in_binary")
        ctx.impl_validated += 1
        word = unesc(h.split(" ", 1)[1])
        case = {"script": "echo " + word, "model": "HANG", "brush": r["how"]}
        if r["how"] in ("timeout", "oom"):
            cl = known_hang_clause(word)
            if cl:
                ctx.known_or_violation(cl, "brush never finishes (%s); the checked model predicts it" % r["how"], case)
            else:
                ctx.violation("brush never finishes (%s) on a brace sequence" % r["how"], case)
        else:
            ctx.notes.append("finding_not_reproduced: model predicts HANG, brush ends with %s on %s" % (r["how"], word))
            ctx.bucket("finding_not_reproduced")
    if runnable:
        for i in (0, len(runnable) // 2, len(runnable) - 1):
            (k, h, d), m = runnable[i]
            ctx.sample({"hot": h, "brush": bouts[i], "model": m})


# ---------------------------------------------------------------------------------------------
# 2b. recursion shapes: everything that re-enters evaluation must be bounded (binary only: an
#     unbounded one overflows the native stack, which no in-process harness survives)

# environments of scalars (C07's variable universe) whose contents refer to each other
CYC_ENVS = [
    ("self", {"x": "x"}), ("self_expr", {"x": "x+1"}), ("two", {"x": "y", "y": "x"}), ("three", {"x": "y", "y": "z", "z": "x"}),
    ("sub_self", {"x": "a[x]"}), ("sub_two", {"x": "a[y]", "y": "x"}), ("sub_nested", {"x": "a[a[x]]"}), ("sub_expr", {"x": "b[x+1]*2"}),
    ("elem0_self", {"a": "a[a[0]]"}), ("elem0_plain", {"a": "a[0]"}), ("cond", {"x": "x?1:2"}), ("assign_in", {"x": "y=x"}),
    ("sub_assign", {"x": "a[x]=1"}), ("sub_inc", {"x": "a[x]++"}), ("paren", {"x": "(x)"}), ("neg", {"x": "-x"}),
    ("fine_chain", {"x": "y", "y": "z", "z": "7"}), ("fine_sub", {"x": "a[y]", "y": "2"}), ("fine_lit", {"x": "5"}),
]
CYC_EXPRS = ["x", "x+0", "a[x]", "a[x]=1", "a[x]++", "++a[x]", "a[x]+=1", "a[x]<<=1", "x=1", "++x", "x++", "x+=1", "-x", "!x", "x&&1", "0&&x", "1||x",
             "1?2:x", "0?2:x", "x,1", "a[a[x]]", "b[x]=a[x]", "y", "a", "a[0]", "a[0]=1"]
# shell contexts that evaluate arithmetic on a name (N = the cyclic name)
CYC_CONTEXTS = [
    "echo $((N))", "((N)); echo $?", "let N; echo $?", "let 'a[N]=1'; echo $?", "(( a[N] = 1 )); echo $?", "(( a[N]++ )); echo $?", "(( a[N] += 2 )); echo $?",
    "echo \"${a[N]}\"", "a[N]=v; echo $?", "a[N]+=v; echo $?", "s=abcdef; echo \"${s:N:1}\"", "s=abcdef; echo \"${s:0:N}\"", "b=(1 2 3); echo \"${b[@]:N:1}\"",
    "declare -i n; n=N; echo $?", "declare -i n=N; echo $?", "declare -i n=1; n+=N; echo $?", "[[ N -eq 0 ]]; echo $?", "[[ 0 -lt N ]]; echo $?",
    "for ((;N;)); do break; done; echo $?", "for ((k=0;k<1;k+=N+1)); do :; done; echo $?", "echo $[N]", "unset 'a[N]'; echo $?", "[[ -v a[N] ]]; echo $?",
    "read 'a[N]' <<< 1; echo $?", "printf -v 'a[N]' %s 1; echo $?", "b=([N]=1); echo $?", "declare -a b=([N]=1); echo $?", "while ((N)); do break; done; echo $?",
    "case $((N)) in *) echo c;; esac", "echo $(( ${N} ))", "echo \"${#a[N]}\"", "echo \"${a[N]:-d}\"", "shift N; echo $?", "echo ${!a[N]}; echo $?",
    "f() { return N; }; f; echo $?", "echo $((N)) | cat", "echo $(echo $((N)))", "( echo $((N)) )", "eval 'echo $((N))'", "x() { echo $((N)); }; x",
]
CYC_SETUPS = [  # (name, setup text, the cyclic name) — also arrays and associative arrays, which the scalar model does not cover
    ("scalar_sub", "i='a[i]'", "i"), ("scalar_two", "i=j; j='a[i]'", "i"), ("elem", "a[0]='a[a[0]]'", "a[0]"), ("elem1", "a[1]='a[a[1]]'; i=1", "a[i]"),
    ("assoc", "declare -A m; m[k]='m[k]'", "m[k]"), ("self", "i=i", "i"), ("expr", "i='i+1'", "i"), ("fine", "i=2; a[2]=3", "i"),
]
OTHER_RECURSION = [
    ("alias_two", "shopt -s expand_aliases\nalias a=b b=a\na; echo $?\n"), ("alias_self", "shopt -s expand_aliases\nalias a='a x'\na; echo $?\n"),
    ("alias_chain", "shopt -s expand_aliases\nalias a='b ' b='c ' c='a '\na a a; echo $?\n"), ("alias_trailing_blank", "shopt -s expand_aliases\nalias e='echo ' w='w2' w2='w'\ne w\n"),
    ("indirect_self", "v=v; echo \"${!v}\""), ("indirect_two", "v=w; w=v; echo \"${!v}\" \"${!w}\""), ("indirect_sub", "v='a[v]'; echo \"${!v}\"; echo $?"),
    ("nameref_self", "declare -n r=r; echo $?; echo \"$r\"; r=1; echo $?"), ("nameref_two", "declare -n p=q q=p; echo \"$p\"; p=1; echo $?; unset p; echo $?"),
    ("nameref_sub", "declare -n r='a[r]'; echo \"$r\"; r=1; echo $?"), ("nameref_arith", "declare -n r=s; s=r; echo $((r)); echo $?"),
    ("func_64", "f() { (($1)) && f $(($1-1)); }; f 64; echo done $?"), ("func_200", "f() { (($1)) && f $(($1-1)); }; f 200; echo done $?"),
    ("func_mutual_64", "f() { (($1)) && g $(($1-1)); }; g() { (($1)) && f $(($1-1)); }; f 64; echo done"),
    ("func_subst_32", "f() { (($1)) && echo $(f $(($1-1))) || echo leaf; }; f 32"), ("func_pipe_32", "f() { (($1)) && { f $(($1-1)) | cat; } || echo leaf; }; f 32"),
    ("func_subshell_64", "f() { (($1)) && ( f $(($1-1)) ) || echo leaf; }; f 64"),
    ("eval_64", "e0='echo hi'; for k in {1..64}; do eval \"e$k='eval \\\"\\$e$((k-1))\\\"'\"; done; eval \"$e64\""),
    ("cmdsub_64", "c='echo hi'; for k in {1..64}; do c=\"echo \\$($c)\"; done; eval \"$c\""),
    ("subshell_64", "c='echo hi'; for k in {1..64}; do c=\"( $c )\"; done; eval \"$c\""), ("group_64", "c='echo hi'; for k in {1..64}; do c=\"{ $c; }\"; done; eval \"$c\""),
    ("arith_paren_64", "c=1; for k in {1..64}; do c=\"($c+1)\"; done; echo $(($c))"), ("param_default_64", "c=x; for k in {1..64}; do c=\"\\${u:-$c}\"; done; eval \"echo $c\""),
    ("source_self_bounded", "n=0; printf 'n=$((n+1)); ((n<40)) && . ./s.sh; :\\n' > s.sh; . ./s.sh; echo $n"),
    ("trap_in_trap", "trap 'trap \"echo inner\" EXIT; echo outer' EXIT"), ("debug_trap_func", "f() { :; }; trap 'f' DEBUG; f; trap - DEBUG; echo ok"),
    ("err_trap_fail", "trap 'false' ERR; false; echo $?"), ("prompt_command", "PROMPT_COMMAND='PROMPT_COMMAND=x'; echo ok"),
    ("chain_1000", "for k in {0..999}; do eval \"v$k=v$((k+1))\"; done; v1000=7; echo $((v0))"),
    ("chain_1100", "for k in {0..1099}; do eval \"v$k=v$((k+1))\"; done; v1100=7; echo $((v0)); echo $?"),
    ("chain_sub_600", "for k in {0..599}; do eval \"v$k='a[v$((k+1))]'\"; done; v600=0; a[0]=7; echo $((v0)); echo $?"),
    ("ps4_cmdsub", "PS4='$(echo x) '; set -x; echo hi"), ("ps4_arith", "PS4='$((1+1))> '; set -x; echo hi"), ("ps4_func", "p() { echo q; }; PS4='$(p) '; set -x; echo hi; p"),
    ("prompt_command_subst", "x='$(echo y)'; echo \"${x@P}\""),
    ("cnf_handler", "command_not_found_handle() { echo h; return 3; }; nosuchcmd; echo $?"),
]


RECURSION_KNOWN = [
]


def _outcome(r):
    """how a run ended, as the property sees it"""
    return r["how"] if r["how"] != "status" else "status"


def recursion_stage(ctx):
    cases = []   # (bucket, script, model request or None)
    quick_exprs = ["x", "x+0", "a[x]", "a[x]=1", "a[x]++", "a[x]+=1", "++x", "x+=1", "0&&x", "1?2:x", "a[a[x]]", "y", "a", "a[0]=1"]
    quick_setups = ("scalar_sub", "elem", "assoc", "fine")
    for ename, env in CYC_ENVS:
        setup = "; ".join("%s='%s'" % kv for kv in env.items())
        req_env = " ".join("%s=%s" % (k, esc(v)) for k, v in env.items())
        for e in CYC_EXPRS:
            if ctx.quick and e not in quick_exprs and not ename.startswith("fine"):
                continue
            cases.append(("cyc_model", "%s; echo $((%s))" % (setup, e), "C07 E %s %s" % (esc(e), req_env)))
    for sname, setup, name in CYC_SETUPS:
        if ctx.quick and sname not in quick_setups:
            continue
        for c in CYC_CONTEXTS:
            cases.append(("cyc_context", setup + "; " + c.replace("N", name), None))
    for oname, script in OTHER_RECURSION:
        cases.append(("recursion_other", script, None))
    reqs = [c[2] for c in cases if c[2]]
    mouts = iter(lib.run_drv_parallel(reqs)) if reqs else iter(())
    preds = [next(mouts) if c[2] else None for c in cases]

    def one(c):
        b = run_script(c[1], timeout=15, mem_gb=2)
        # the oracle is only needed to tell an unbounded script from an unbounded shell
        o = run_script(c[1], timeout=15, mem_gb=2, which="bash") if b["how"] != "status" else None
        return b, o

    res = lib.pmap(one, cases, workers=min(lib.NCPU, 8))
    nviol = 0
    for (bucket, script, req), pred, (b, o) in zip(cases, preds, res):
        ctx.count(("rec", script), bucket=bucket)
        ctx.impl_validated += 1
        case = {"script": script, "brush": {k: b[k] for k in ("how", "rc", "loc", "msg")}, "stderr_tail": b["err"][-200:]}
        if o is not None:
            case["bash"] = {k: o[k] for k in ("how", "rc")}
        if b["how"] != "status":
            # bash dying of the same script (signal / timeout) means the script itself is unbounded
            if o is not None and o["how"] != "status":
                ctx.bucket("recursion_unbounded_in_bash_too")
                continue
            cl = next((c for c, fre in RECURSION_KNOWN if re.search(fre, script, re.S)), None)
            if cl:
                ctx.known_or_violation(cl, "brush does not end in a status (%s); bash ends with status %s" % (b["how"], o["rc"] if o else "?"), case)
                continue
            if nviol < 10:
                nviol += 1
                ctx.violation("brush does not end in a status (%s) on a bounded recursion shape; bash ends with status %s"
                              % (b["how"], o["rc"] if o else "?"), case)
            continue
        if pred is not None:
            # tie to the evaluator model (C07's `eval`, the one the depth theorems are about)
            case["model"] = pred
            head = pred.split(" | ")[0]
            bout = b.get("out", "")
            if head.startswith("v "):
                good = b["rc"] == 0 and bout.strip() == head[2:]
            elif head == "e recursion":
                good = b["rc"] != 0 and "recursion" in b["err"]
            else:
                good = b["rc"] != 0
            if not good and nviol < 10:
                nviol += 1
                case["brush_out"] = bout[:100]
                ctx.violation("evaluator model and brush disagree on a self-referential arithmetic input", case, kind="correspondence")
    ctx.sample({"recursion_script": cases[4][1], "model": preds[4], "brush": res[4][0]["how"]})


# ---------------------------------------------------------------------------------------------
# 2c. builtin arguments: option values, patterns, formats and indices handed to builtins, drawn from
#     small adversarial alphabets (in-process; output discarded). Any panic / abort / hang is the violation.

def sq(t):
    return "'" + t.replace("'", "'\\''") + "'"


X_ALPHA = ["&", "\\&", "!", "*", "?", "a", "\u00e9", "\u65e5"]
X_WORDS = ["", "a", "ab", "\u00e9", "\u00e9\u00e9", "\U0001f600", "&"]
ADV_STR = ["", "a", "\u00e9", "&", "$(echo x)", "`echo x`", "'", '"', "\\", "%s", "-", "\u65e5\u672c", "a b", "*", "$x", "\U0001f600"]
WORDLISTS = ["a b", "'a b' c", "$(echo x y)", "a\tb\nc", "$x", "\"q\" 'r'", "a:b", "", "*", "${x:1}", "$((1/0))", "\u00e9 \u65e5 \u00e9\u00e9", "& \\&",
             "alpha beta", "a'b", "a\"b", "`echo q`", "$(", "${"]
GLOBS = ["*", "?", "[a-z]*", "**", "[", "!(x)", "@(a|b)", "", "\u00e9*", "*/", "~", "{a,b}"]
ACTIONS = ["alias", "arrayvar", "binding", "builtin", "command", "directory", "disabled", "enabled", "export", "file", "function", "group",
           "helptopic", "hostname", "job", "keyword", "running", "service", "setopt", "shopt", "signal", "stopped", "user", "variable", "nosuch"]
COMP_OPTS = ["bashdefault", "default", "dirnames", "filenames", "noquote", "nosort", "nospace", "plusdirs", "nosuch"]
COMP_FUNCS = ("f_ok() { COMPREPLY=(alpha beta '\u00e9\u00e9' 'a b'); }; f_fail() { return 1; }; f_unset() { unset COMPREPLY; }; f_124() { return 124; }; "
              "f_scalar() { COMPREPLY=x; }; f_assoc() { unset COMPREPLY; declare -gA COMPREPLY=([k]=v); }; f_opt() { compopt -o nospace +o filenames; COMPREPLY=(a); }; "
              "f_ro() { readonly COMPREPLY; }; f_big() { COMPREPLY=({1..2000}); }; f_rec() { ((depth++ < 4)) && compgen -F f_rec -- x; COMPREPLY=(r$depth); }; "
              "f_vars() { COMPREPLY=(\"$COMP_LINE\" \"$COMP_POINT\" \"${COMP_WORDS[@]}\" \"$COMP_CWORD\" \"$1\" \"$2\" \"$3\"); }; "
              "f_edit() { COMP_WORDS=(); COMP_CWORD=99; COMP_POINT=-1; COMPREPLY=(\"${COMP_WORDS[COMP_CWORD]}\"); }; f_exit() { exit 3; }; "
              "f_empty() { COMPREPLY=(); }; f_spec() { complete -r; COMPREPLY=(z); }; x=abc")
FUNC_NAMES = ["f_ok", "f_fail", "f_unset", "f_124", "f_scalar", "f_assoc", "f_opt", "f_ro", "f_big", "f_rec", "f_vars", "f_edit", "f_exit", "f_empty", "f_spec", "nosuchfunc"]
COMP_CMDS = ["echo x", "false", "nosuchcmd", "echo \"$COMP_LINE\"", "printf 'a\\nb\\n'", "echo '\u00e9 \u65e5'", ""]
COMPL_LINES = ["mycmd ", "mycmd a", "mycmd \u00e9", "mycmd \u00e9\u00e9 x", "mycmd \U0001f600", "mycmd 'a", "mycmd \"\u00e9", "mycmd $x", "mycmd a b c", "mycmd  ",
               "", " ", "mycmd &", "mycmd \u00e9|", "\u00e9", "mycmd ~", "mycmd a/", "mycmd \u65e5\u672c \u00e9", "other \u00e9", "mycmd -", "mycmd a\\ b", "mycmd $(", "mycmd ${x"]
NUMS = ["0", "1", "-1", "2", "127", "128", "255", "256", "32767", "65536", "2147483647", "2147483648", "4294967295", "4294967296", "9223372036854775807",
        "9223372036854775808", "18446744073709551615", "18446744073709551616", "-9223372036854775808", "-9223372036854775809", "99999999999999999999",
        "", "a", "1a", "0x10", "1.5", "+1", " 1", "\u00e9", "-0", "007", "1e3"]
# numbers that are used as an amount of work (widths, repeat counts): small ones, and ones that no implementation can honour
AMOUNTS = ["0", "1", "-1", "5", "-5", "100", "4096", "4294967296", "9223372036854775807", "9223372036854775808", "-9223372036854775808", "99999999999999999999", "", "a", "1.5", "\u00e9"]
PRINTF_FORMATS = ["%d", "%5d", "%-5d|", "%05d", "%+d", "% d", "%'d", "%x", "%#x", "%#o", "%X", "%u", "%i", "%c", "%s", "%5s|", "%-5s|", "%.2s", "%b", "%q", "%Q", "%e", "%g", "%a", "%f",
                  "%.3f", "%10.3f", "%ld", "%lld", "%hhd", "%hd", "%zd", "%jd", "%Lf", "%n", "%%", "%", "%-", "%.", "%5", "%l", "%(%Y)T", "%(%Q)T", "%(", "%(%Y", "%(%s)T", "%()T",
                  "%1$d", "%2$s %1$s", "%1$*2$d", "%0$d", "%99999999999$d", "\\x", "\\x4", "\\x41", "\\u", "\\u00e9", "\\U0010FFFF", "\\U00110000", "\\UD800", "\\777", "\\400", "\\0",
                  "\\c", "\\", "%s\\c%s", "%d %d %d", "%s %s %s %s", "\u00e9%s\u65e5", "%\u00e9", "%5\u00e9", "%v", "%C", "%S", "%p", "%m", "%I", "%z"]
STAR_FORMATS = ["%*d", "%-*d|", "%.*d", "%*.*d", "%*s|", "%.*s|", "%*c", "%*x", "%0*d", "%.*f", "%*.*f", "%*b", "%*q"]
TEST_UN = ["-a", "-b", "-c", "-d", "-e", "-f", "-g", "-h", "-k", "-n", "-p", "-r", "-s", "-t", "-u", "-w", "-x", "-z", "-G", "-L", "-N", "-O", "-S", "-v", "-R", "-o", "!"]
TEST_BIN = ["=", "==", "!=", "<", ">", "-eq", "-ne", "-lt", "-le", "-gt", "-ge", "-nt", "-ot", "-ef", "-a", "-o", "=~"]
TEST_OPS = ["", "a", "1", "-1", "9223372036854775808", "\u00e9", "(", ")", "!", "-a", "x[0]", "arr[\u00e9]", "arr[99999999999999999999]", "/", ".", "-z", "0x10", " 1 "]


def x_filters(maxlen):
    import itertools
    out = [""]
    for k in range(1, maxlen + 1):
        out += ["".join(t) for t in itertools.product(X_ALPHA, repeat=k)]
    return out


def builtin_cases(ctx):
    """(bucket, op, fields). Seed-independent core + seeded random combinations."""
    rng = ctx.rng
    cs = []

    def run(bucket, script, interactive=False):
        # one case per line (a fatal expansion error in one line would hide the lines after it); lines that
        # only define functions / set options stay in front of each
        lines = script.split("\n")
        pre = [l for l in lines if ("() {" in l and not l.lstrip().startswith("compgen")) and len(lines) > 1 and l is lines[0]]
        body = [l for l in lines if l not in pre]
        if bucket.startswith("compgen_X") or len(body) <= 1:
            cs.append((bucket, "RUNI" if interactive else "RUN", [script]))
            return
        for l in body:
            cs.append((bucket, "RUNI" if interactive else "RUN", ["\n".join(pre + [l])]))

    # --- compgen -X: every filter up to length 3 (quick) / 4 (thorough) x every word, one script per filter
    filters = x_filters(ctx.size(3, 4))
    if ctx.quick:
        filters += ["".join(rng.choice(X_ALPHA) for _ in range(4)) for _ in range(400)]
    for flt in filters:
        lines = ["compgen -W 'alpha beta \u00e9\u00e9 ab a &' -X %s -- %s" % (sq(flt), sq(w)) for w in X_WORDS]
        run("compgen_X", "\n".join(lines))
    # --- compgen with the other options
    base_w = "-W 'alpha beta \u00e9\u00e9 ab'"
    for v in ADV_STR:
        for w in ("", "a", "\u00e9"):
            run("compgen_PS", "compgen -P %s %s -- %s\ncompgen -S %s %s -- %s\ncompgen -P %s -S %s -A variable -- %s" % (sq(v), base_w, sq(w), sq(v), base_w, sq(w), sq(v), sq(v), sq(w)))
    for wl in WORDLISTS:
        for w in ("", "a", "\u00e9", "&"):
            run("compgen_W", "x=abc; IFS=$' \\t\\n'; compgen -W %s -- %s\nIFS=:; compgen -W %s -- %s\nIFS=; compgen -W %s -- %s" % (sq(wl), sq(w), sq(wl), sq(w), sq(wl), sq(w)))
    for g in GLOBS:
        for w in ("", "a", "\u00e9"):
            run("compgen_G", "shopt -s extglob; compgen -G %s -- %s\ncompgen -G %s -X %s -- %s" % (sq(g), sq(w), sq(g), sq(w or "*"), sq(w)))
    for a in ACTIONS:
        run("compgen_A", "compgen -A %s -- ''\ncompgen -A %s -- a\ncompgen -A %s -X '&*' -P '<' -S '>' -- \u00e9" % (a, a, a))
    for o in COMP_OPTS:
        run("compgen_o", "compgen -o %s %s -- a\ncompgen -o %s -f -- ''\ncompgen -o %s -d -- \u00e9" % (o, base_w, o, o))
    for fn in FUNC_NAMES:
        for w in ("", "a", "\u00e9"):
            run("compgen_F", COMP_FUNCS + "; depth=0; compgen -F %s -- %s\ndepth=0; compgen -F %s %s -X '&' -- %s" % (fn, sq(w), fn, base_w, sq(w)))
    for c in COMP_CMDS:
        run("compgen_C", "compgen -C %s -- a\ncompgen -C %s -X '!&*' -- \u00e9" % (sq(c), sq(c)))
    for flag in ["-a", "-b", "-c", "-d", "-e", "-f", "-g", "-j", "-k", "-s", "-u", "-v", "-abcdefgjksuv", "-E", "-D", "-I", "-r", "-p", "--", "-z", "-o", "-A", "-W", "-X", "-P", "-F"]:
        run("compgen_flag", "compgen %s -- a\ncompgen %s\ncomplete %s mycmd\ncomplete %s\ncomplete -p mycmd" % (flag, flag, flag, flag))
    # --- complete + completion at a cursor
    specs = []
    for flt in ["&&", "&", "!&*", "\\&", "*", "&&&&", "\u00e9&", "!&", "?&?"]:
        specs.append("complete -W 'alpha beta \u00e9\u00e9 ab a &' -X %s mycmd" % sq(flt))
    for v in ADV_STR[:10]:
        specs.append("complete %s -P %s -S %s mycmd" % (base_w, sq(v), sq(v)))
    for fn in FUNC_NAMES:
        specs.append(COMP_FUNCS + "; depth=0; complete -F %s mycmd" % fn)
        specs.append(COMP_FUNCS + "; depth=0; complete -o nospace -o filenames -F %s -X '&' -P p mycmd" % fn)
    for c in COMP_CMDS:
        specs.append("complete -C %s mycmd" % sq(c))
    for o in COMP_OPTS:
        specs.append("complete -o %s %s mycmd" % (o, base_w))
    for g in GLOBS[:8]:
        specs.append("shopt -s extglob; complete -G %s mycmd" % sq(g))
    for a in ("variable", "function", "builtin", "alias", "file", "directory", "command", "user", "signal"):
        specs.append("complete -A %s -X '&&' mycmd" % a)
    specs += ["complete -D %s" % base_w, "complete -E %s" % base_w, "complete -I %s -X '&&'" % base_w, "complete -D -F f_124; f_124() { return 124; }",
              "complete %s -X '&&' '\u00e9'" % base_w, "complete %s ''" % base_w, "complete -r", "complete %s mycmd; complete -r mycmd" % base_w,
              "alias mycmd='other x'; complete %s -X '&&' other" % base_w]
    lines = COMPL_LINES if not ctx.quick else COMPL_LINES
    for i, sp in enumerate(specs):
        for ln in lines:
            if ctx.quick and (i + len(ln)) % 3 and not sp.startswith("complete -W"):
                continue
            cs.append(("complete_cursor", "COMPL2", [sp, ln]))
    for sp in specs[:12] + specs[-6:]:
        for ln in ("mycmd \u00e9", "mycmd \u00e9\u00e9 x", "mycmd \U0001f600", "\u00e9", "mycmd \u65e5\u672c \u00e9"):
            cs.append(("complete_cursor_bytes", "COMPL2B", [sp, ln]))
    # --- printf
    for f in PRINTF_FORMATS:
        run("printf", "printf %s\nprintf %s 1 a\nprintf %s 9223372036854775808 -1\nprintf %s \u00e9 '' 1.5\nprintf -v v %s 7; printf -v 'arr[2]' %s 7" % (sq(f), sq(f), sq(f), sq(f), sq(f), sq(f)))
    for f in STAR_FORMATS:
        for a in AMOUNTS:
            run("printf_star", "printf %s %s 7\nprintf %s %s %s 7\nprintf %s %s" % (sq(f), sq(a), sq(f), sq(a), sq(a), sq(f), sq(a)))
    for n in NUMS:
        run("printf_num", "printf '%%d %%u %%x %%o %%c %%e %%s\\n' %s %s %s %s %s %s %s\nprintf '%%(%%Y-%%m-%%d)T\\n' %s\nprintf '%%.%sd|%%%sd\\n' 1 1" % ((sq(n),) * 8 + (n if n.isdigit() and len(n) < 5 else "3", n if n.isdigit() and len(n) < 5 else "3")))
    # --- read / mapfile / getopts
    for n in NUMS:
        q = sq(n)
        run("read", "read -n %s v <<< 'a\u00e9\u65e5b c'\nread -N %s v <<< 'a\u00e9\u65e5b c'\nread -t %s v <<< abc\nread -u %s v\nread -n %s -d \u00e9 -r -a arr <<< 'a \u00e9 b'" % (q, q, q, q, q))
        run("mapfile", "cb() { :; }; mapfile -s %s arr <<< $'a\\nb\\nc'\nmapfile -n %s arr <<< $'a\\nb\\nc'\nmapfile -O %s arr <<< $'a\\nb'\nmapfile -C cb -c %s arr <<< $'a\\nb\\nc'\nmapfile -u %s arr\nmapfile -t -d %s arr <<< $'a\\nb'" % (q, q, q, q, q, q))
        run("shift_etc", "set -- a b c; shift %s; echo $#\npushd +%s; pushd -%s; popd +%s; popd -%s; dirs +%s; dirs -%s\ncaller %s\nwait %s\nwait %%%s; jobs %%%s; fg %%%s; bg %%%s; disown %%%s\nkill -l %s\ntrap '' %s; trap - %s; trap -p\nreturn %s" % ((q,) + (n,) * 6 + (q, q) + (n,) * 5 + (q, q, q, q)))
        run("history_fc", "history %s\nhistory -d %s\nhistory -d %s-%s\nfc -l %s\nfc -l %s %s\nfc -l -%s\nhistory -s x; history -p %s" % (q, q, n, n, q, q, q, n, q), interactive=True)
        run("param_num", "set -- a b c; echo \"${%s}\" \"$%s\" \"${@:%s}\" \"${*:%s:%s}\" \"${!%s}\"\ndeclare -i iv=%s; echo $iv\narr=(1 2 3); echo \"${arr[%s]}\" \"${arr[@]:%s}\"; arr[%s]=x; unset 'arr[%s]'\nb=([%s]=x y); declare -a c=([%s]=x y)\necho ~+%s ~-%s ~%s" % ((n or "1", n or "1") + (n or "0",) * 4 + (q,) + (n or "0",) * 6 + (n.strip(),) * 3))
    for tv in ["0", "0.0", "0.5", "1e-9", "1e3", "1e30", "1e400", "inf", "-inf", "nan", "-0.0", "-1", "18446744073709551616", "9223372036854775807.5", ".", "1.", ".5", "0x1p3", "\u00e9", ""]:
        run("read_t", "read -t %s v <<< abc\nread -t %s -n 2 v <<< abc\nread -t %s v < /dev/null" % (sq(tv), sq(tv), sq(tv)))
    for d in ["", "a", "\u00e9", "ab", "\\", "\u65e5", "\n", "\t", " "]:
        run("read_d", "read -d %s v <<< 'xa\u00e9\u65e5b'\nread -d %s -n 3 v <<< '\u00e9\u00e9\u00e9\u00e9'\nmapfile -d %s arr <<< 'xa\u00e9\u65e5b'\nIFS=%s read -r a b c <<< 'xa\u00e9\u65e5b'" % (sq(d), sq(d), sq(d), sq(d)))
    for ostr in ["", ":", "a", "a:", ":a:", "::", "a::", "\u00e9", "-", "?", ":?", "ab:c", "a:\u00e9:", " ", "$"]:
        for args in ["-a", "-ab", "-b", "--", "-", "-\u00e9", "-a -b x", "", "-a\u00e9", "x -a", "-aaaa"]:
            run("getopts", "\n".join("OPTIND=%s; getopts %s o %s; echo $o $OPTARG $OPTIND; getopts %s o %s" % (n, sq(ostr), args, sq(ostr), args)
                                     for n in ("1", "0", "2", "3", "99", "-1", "9223372036854775807", "99999999999999999999", "a", "")))
    # --- test / [ / [[
    for u in TEST_UN:
        run("test", "\n".join("test %s %s; [ %s %s ]; [ ! %s %s ]; [[ %s %s ]]" % ((u, sq(o)) * 4) for o in TEST_OPS))
    for b in TEST_BIN:
        run("test", "\n".join("test %s %s %s; [ %s %s %s ]; [ %s %s %s -a %s %s %s ]" % ((sq(x), b, sq(y)) * 4) for x in TEST_OPS[:9] for y in TEST_OPS[:6]))
    run("test", "test; [ ]; [ ; test '('; test '(' ')'; test ! ; test ! ! ! a; test '(' a ')'; test '(' '(' a ')' ')'; [ a -a ]; [ -a -a -a ]; [ '(' = ')' ]; [ ! = ! ]; test -t; test -t 99999999999999999999")
    for _ in range(ctx.size(300, 4000)):
        k = rng.randint(1, 7)
        toks = [rng.choice(TEST_UN + TEST_BIN + TEST_OPS + ["(", ")", "!", "-a", "-o"]) for _ in range(k)]
        run("test_random", "test %s; [ %s ]" % (" ".join(sq(t) for t in toks), " ".join(sq(t) for t in toks)))
    # --- seeded random compgen/complete combinations
    for _ in range(ctx.size(600, 8000)):
        parts = []
        for _k in range(rng.randint(1, 4)):
            r = rng.random()
            if r < 0.25:
                parts.append("-X " + sq("".join(rng.choice(X_ALPHA + ["", "[", "]", "@(", ")", "|"]) for _ in range(rng.randint(0, 5)))))
            elif r < 0.4:
                parts.append("-W " + sq(rng.choice(WORDLISTS)))
            elif r < 0.5:
                parts.append(rng.choice(["-P ", "-S "]) + sq(rng.choice(ADV_STR)))
            elif r < 0.6:
                parts.append("-G " + sq(rng.choice(GLOBS)))
            elif r < 0.7:
                parts.append("-A " + rng.choice(ACTIONS))
            elif r < 0.8:
                parts.append("-o " + rng.choice(COMP_OPTS))
            elif r < 0.9:
                parts.append("-F " + rng.choice(FUNC_NAMES))
            else:
                parts.append("-C " + sq(rng.choice(COMP_CMDS)))
        w = rng.choice(X_WORDS + ["al", "\u00e9\u00e9\u00e9", "a b"])
        if rng.random() < 0.6:
            run("compgen_random", COMP_FUNCS + "; depth=0; shopt -s extglob; compgen %s -- %s" % (" ".join(parts), sq(w)))
        else:
            cs.append(("complete_random", "COMPL2", [COMP_FUNCS + "; depth=0; shopt -s extglob; complete %s mycmd" % " ".join(parts), rng.choice(COMPL_LINES)]))
    return cs


# ulimit / umask act on the process: through the binary
PROCESS_BUILTIN_ARGS = ["0", "022", "777", "0777", "1000", "8", "-S", "u=rwx", "a+x", "u=rwx,g=rx", "=", "u", "\u00e9", "99999999999", "-p", "-S 022", "u=s", "-1", "",
                        "18446744073709551615", "unlimited", "hard", "soft", "9223372036854775808", "1.5", "a"]


def builtin_args_stage(ctx):
    cases = builtin_cases(ctx)
    lines = ["%s %s" % (op, " ".join(esc(f) for f in fields)) for _, op, fields in cases]
    order = sorted(range(len(lines)), key=lambda i: i % 8)
    outs_o = run_harness_parallel([lines[i] for i in order])
    outs = [None] * len(lines)
    for i, o in zip(order, outs_o):
        outs[i] = o
    nviol = 0
    for (bucket, op, fields), o in zip(cases, outs):
        ctx.count((op, tuple(fields)), bucket="builtin_" + bucket)
        ctx.impl_validated += 1
        if o == "SKIPPED":
            ctx.bucket("skipped_after_too_many_harness_restarts")
            continue
        k, pl, loc, msg = split_resp(o)
        text = "\n".join(fields)
        case = {"op": op, "fields": fields, "brush": o}
        if k in ("OK", "ERR") and "RANGE" not in pl:
            continue
        if o == "SETUP-ERR":
            continue
        if k == "PANIC":
            # the smallest failing line of a multi-line script
            if op in ("RUN", "RUNI") and "\n" in fields[0]:
                pre = [l for l in fields[0].split("\n") if "() {" in l or l.startswith("shopt") or l.startswith("x=")]
                for l in fields[0].split("\n"):
                    r1 = run_harness(["%s %s" % (op, esc("\n".join(pre + [l]) if l not in pre else l))])[0]
                    if r1.startswith("PANIC"):
                        case = {"op": op, "fields": ["\n".join(pre + [l]) if l not in pre else l], "brush": r1}
                        text = case["fields"][0]
                        k, pl, loc, msg = split_resp(r1)
                        break
            cl = builtin_panic_clause(op, loc, msg, text)
            if cl:
                ctx.known_or_violation(cl, "%s panics at %s (%s)" % (op, loc, msg[:60]), case)
            elif nviol < 12:
                nviol += 1
                ctx.violation("a builtin argument panics the shell at %s (%s)" % (loc, msg[:80]), case)
        elif nviol < 12:
            nviol += 1
            ctx.violation("a builtin argument takes the shell down or hangs it: %s" % o[:80], case)
    # ulimit / umask in the binary
    scripts = ["umask %s; umask; umask -S\nulimit -S -c %s; ulimit -c\nulimit %s\nulimit -H -c %s\nulimit -a > /dev/null\nulimit -x %s\nulimit -S -s %s; ulimit -s" % ((a,) * 6)
               for a in PROCESS_BUILTIN_ARGS]
    res = lib.pmap(lambda sc: run_script(sc, timeout=10, mem_gb=3), scripts, workers=min(lib.NCPU, 8))
    for sc, r in zip(scripts, res):
        ctx.count(("ulimit", sc), bucket="builtin_umask_ulimit")
        ctx.impl_validated += 1
        if r["how"] != "status" and nviol < 12:
            nviol += 1
            ctx.violation("umask/ulimit argument: brush does not end in a status (%s %s %s)" % (r["how"], r["loc"], r["msg"][:60]),
                          {"script": sc, "brush": {k: r[k] for k in ("how", "rc", "loc", "msg")}})
    if cases:
        ctx.sample({"builtin_case": cases[len(cases) // 2][2], "brush": outs[len(cases) // 2]})


BUILTIN_KNOWN_PANICS = [
    # (clause, op regex, file regex, message regex, input feature regex)
    ("printf_star_width_i64_min", r"^RUNI?$", r"^dep:uucore-[^/]*/src/lib/features/format/spec\.rs$", r"negate with overflow", r"printf\b.*\*.*-9223372036854775808"),
]


def builtin_panic_clause(op, loc, msg, text):
    f = loc.rsplit(":", 1)[0]
    for clause, ore, fre, mre, feat in BUILTIN_KNOWN_PANICS:
        if re.search(ore, op) and re.search(fre, f) and re.search(mre, msg) and re.search(feat, text, re.S):
            return clause
    return panic_clause(loc, msg, text)


# ---------------------------------------------------------------------------------------------
# 3a. exploration in-process: parsers, highlighter, completion, prompt

_YAML_CACHE = None


def corpus_scripts():
    """stdin scripts of brush's own test cases (read as text: no yaml module needed at run time)."""
    global _YAML_CACHE
    if _YAML_CACHE is not None:
        return _YAML_CACHE
    out = []
    for f in sorted(glob.glob(os.path.join(lib.REPO, "brush-shell/tests/cases/**/*.yaml"), recursive=True)):
        try:
            lines = open(f, encoding="utf-8").read().split("\n")
        except OSError:
            continue
        i = 0
        while i < len(lines):
            m = re.match(r"^(\s*)stdin:\s*\|[-+]?\s*$", lines[i])
            if m:
                ind = len(m.group(1))
                body = []
                i += 1
                while i < len(lines) and (lines[i].strip() == "" or len(lines[i]) - len(lines[i].lstrip()) > ind):
                    body.append(lines[i])
                    i += 1
                nonblank = [b for b in body if b.strip()]
                if nonblank:
                    k = min(len(b) - len(b.lstrip()) for b in nonblank)
                    out.append("\n".join(b[k:] for b in body).strip("\n") + "\n")
            else:
                i += 1
    _YAML_CACHE = out
    return out


TOKENS = ["$(", ")", "`", "${", "}", "$((", "))", "((", "<<", "<<-", "<<<", "<(", ">(", "'", '"', "\\", "\n", ";", ";;", "&", "&&", "||",
          "|", "|&", "!", "{", "}", "(", ")", "[[", "]]", "[", "]", "if", "then", "fi", "for", "do", "done", "case", "esac", "in", "while",
          "function", "select", "coproc", "time", "=", "+=", "=(", "$'", '$"', "#", "~", "*", "?", "@(", "!(", "+(", "..", ",", ":", "-",
          "%", "/", "^", "@", "\t", " ", "\u00e9", "\u65e5", "\u0301", "\U0001f600", "\x00", "\x7f", "\u200b", "\ud7ff", "\ufffd",
          str(MAX), str(MIN), str(2 ** 63), "99999999999999999999", "0x", "64#", "2#", "{1..3}", "{a..c}", "$x", "$@", "$*", "$#", "$?", "$!",
          "$-", "$$", "$0", "${x:1:2}", "${x//a/b}", "${!x}", "${#x}", "${x@Q}", "2>&1", ">&", "<&-", "&>", ">|", "EOF", "<<EOF\n"]


def mutate(rng, s):
    cs = list(s)
    for _ in range(rng.randint(1, 4)):
        r = rng.random()
        if not cs:
            cs = list(rng.choice(TOKENS))
        elif r < 0.25:
            i = rng.randrange(len(cs))
            del cs[i:i + rng.randint(1, 6)]
        elif r < 0.55:
            i = rng.randrange(len(cs) + 1)
            cs[i:i] = list(rng.choice(TOKENS))
        elif r < 0.7:
            i = rng.randrange(len(cs))
            cs[i] = rng.choice(TOKENS)[:1] or "x"
        elif r < 0.8:
            i = rng.randrange(len(cs))
            j = rng.randrange(len(cs))
            cs[i], cs[j] = cs[j], cs[i]
        elif r < 0.9:
            i = rng.randrange(len(cs))
            cs = cs[:i]          # truncation: what an interactive user has typed so far
        else:
            i = rng.randrange(len(cs))
            j = min(len(cs), i + rng.randint(1, 20))
            cs[i:i] = cs[i:j]    # duplication
    return "".join(cs).replace("\ud7ff", "\u00ff")


def nested(rng, depth):
    """one construct nested `depth` times (depth <= 64)"""
    kinds = [("$(", ")"), ("(", ")"), ("{ ", "; }"), ("$((", "))"), ("${x:-", "}"), ("\"$(", ")\""), ("`", "`"), ("if ", "; then :; fi"),
             ("a[", "]"), ("((", "))"), ("[[ ! ", " ]]"), ("{a,", "}"), ("<(", ")"), ("@(", ")"), ("!(", ")"), ("echo +(", ")"), ("while ", "; do break; done"),
             ("f() { ", "; }"), ("case x in x) ", ";; esac"), ("eval '", "'"), ("${x/", "/y}"), ("$'", "'")]
    o, c = rng.choice(kinds)
    core = rng.choice(["echo x", "1", "x", ":", "", "$x", "\u00e9"])
    if rng.random() < 0.3:   # mixed nest
        pairs = [rng.choice(kinds) for _ in range(depth)]
        return "".join(p[0] for p in pairs) + core + "".join(p[1] for p in reversed(pairs))
    if rng.random() < 0.15:  # unbalanced
        return o * depth + core + c * rng.randint(0, depth)
    return o * depth + core + c * depth


PROMPT_BITS = ["\\u", "\\h", "\\H", "\\w", "\\W", "\\$", "\\d", "\\t", "\\T", "\\@", "\\A", "\\D{%Y}", "\\D{}", "\\D{%", "\\D{%Q}", "\\D{%!}",
               "\\D", "\\D{", "\\[", "\\]", "\\e", "\\a", "\\n", "\\r", "\\s", "\\v", "\\V", "\\j", "\\l", "\\!", "\\#", "\\\\", "\\", "\\0", "\\033",
               "\\777", "\\400", "\\8", "\\x", "\\q", "a", " ", "\u00e9", "\u65e5", "$x", "${x:1}", "${x:2:-5}", "$((1/0))", "$((", "${", "'", '"', "!", "!!",
               "\\D{%s %N %:z %::z %#z %3f %-5d %_e %^a %+ %%}", "\\D{%9999999999d}", "\\D{\u00e9}", "\\1", "\\12", "\\123", "\\1234"]


def explore_inproc(ctx):
    rng = ctx.rng
    texts = []   # (bucket, op, text)
    cdir = os.path.join(lib.ROOT, "corpus", "C01")
    for f in sorted(glob.glob(os.path.join(cdir, "*.txt"))):
        for l in open(f, encoding="utf-8"):
            l = l.rstrip("\n")
            if l and not l.startswith("//"):
                op, _, t = l.partition(" ")
                texts.append(("corpus", op, unesc(t)))
    scripts = corpus_scripts()
    ctx.bucket("suite_scripts_available", len(scripts))
    # seed-independent: every suite script through every parser; a slice through highlighter/completion
    for i, s in enumerate(scripts):
        texts.append(("suite", "PARSE", s))
    step = ctx.size(12, 2)
    for s in scripts[::step]:
        line = s.strip("\n").split("\n")
        texts.append(("suite", "HL", "\n".join(line[:6])[:160]))
        texts.append(("suite", "COMPL", line[0][:60]))
    # seed-independent: exhaustive short strings over the structural alphabet through all parsers
    alpha = ["$", "(", ")", "{", "}", "<", "'", '"', "\\", "`", "\n", " ", "a", "1", ".", ",", "[", "|", "\u00e9"]
    import itertools
    for k in (1, 2, 3):
        for t in itertools.product(alpha, repeat=k):
            s = "".join(t)
            if cheap_hang(s) or cheap_hang("$(" + s):
                ctx.bucket("skipped_known_hang_feature")
                continue
            texts.append(("exh%d" % k, "PARSE", s))
    for k in (1, 2):
        for t in itertools.product(alpha, repeat=k):
            s = "".join(t)
            if cheap_hang(s):
                continue
            texts.append(("exh%d" % k, "HL", s))
            texts.append(("exh%d" % k, "COMPL", s))
    for a in PROMPT_BITS:
        texts.append(("prompt1", "PROMPT", a))
    # strftime formats inside \D{…}: every string up to length 3 over conversion syntax AND multi-byte letters
    # (a `%` specification may be ended by any alphabetic character; found missing by seed C01-2)
    fmt_alpha = ["%", "-", "5", "Y", "z", ":", " ", "}", "\u00e9", "\u65e5", "\U0001f600", "\u0301"]
    for k in (1, 2, 3):
        for t in itertools.product(fmt_alpha, repeat=k):
            f = "".join(t)
            if "%" in f:
                texts.append(("strftime%d" % k, "PROMPT", "\\D{" + f + "}"))
    # nesting, every depth up to 64
    for d in list(range(1, 65)):
        for _ in range(ctx.size(2, 8)):
            t = nested(rng, d)
            texts.append(("nest", "PARSE", t))
            if d <= 64 and rng.random() < 0.5:
                texts.append(("nest", "HL", t[:400]))
    # seeded: mutated suite scripts
    n = ctx.size(2500, 40000)
    for _ in range(n):
        s = rng.choice(scripts) if scripts else "echo hi"
        lines = s.split("\n")
        i = rng.randrange(len(lines))
        frag = "\n".join(lines[i:i + rng.randint(1, 4)])
        t = mutate(rng, frag)
        r = rng.random()
        if r < 0.6:
            texts.append(("mut", "PARSE", t))
        elif r < 0.85:
            texts.append(("mut", "HL", t[:200]))
        else:
            texts.append(("mut", "COMPL", t.split("\n")[0][:80]))
    for _ in range(ctx.size(300, 4000)):
        t = "".join(rng.choice(PROMPT_BITS) for _ in range(rng.randint(1, 6)))
        texts.append(("prompt", "PROMPT", t))
    # word-level expansion of generated words without command substitution
    g = Gen(rng)
    for _ in range(ctx.size(600, 8000)):
        w = g.word(2, nocmd=True)
        if unsafe_count(w):
            continue
        texts.append(("word", "EXPAND", w))
    # known hang inputs cost a watchdog period each: at most a couple per run
    kept, hangs = [], 0
    for b, op, t in texts:
        if op in ("PARSE", "HL", "COMPL") and cheap_hang(t):
            hangs += 1
            if hangs > 2 and b != "corpus":
                ctx.bucket("skipped_known_hang_feature")
                continue
        if "\x00" in t and op in ("PROMPT", "EXPAND"):
            continue
        kept.append((b, op, t))
    texts = kept
    # heavy first so that chunks balance: interleave by index
    lines = ["%s %s" % (op, esc(t)) for _, op, t in texts]
    order = sorted(range(len(lines)), key=lambda i: i % 12)
    outs_o = run_harness_parallel([lines[i] for i in order])
    outs = [None] * len(lines)
    for i, o in zip(order, outs_o):
        outs[i] = o
    nviol = 0
    for (b, op, t), o in zip(texts, outs):
        ctx.count((op, t), nontrivial=len(t) > 1, bucket="explore_%s_%s" % (op.lower(), b))
        ctx.impl_validated += 1
        k, p, loc, msg = split_resp(o)
        case = {"op": op, "text": t, "brush": o}
        if k == "PANIC":
            cl = panic_clause(loc, msg, t)
            if cl:
                ctx.known_or_violation(cl, "%s panics at %s (%s)" % (op, loc, msg[:60]), case)
            elif nviol < 25:
                nviol += 1
                ctx.violation("%s panics at %s (%s)" % (op, loc, msg[:80]), case)
        elif k == "HANG":
            cl = known_hang_clause(t, o[5:].strip() if op == "PARSE" else None)
            if cl:
                ctx.known_or_violation(cl, "%s never returns" % op, case)
            elif nviol < 25:
                nviol += 1
                ctx.violation("%s never returns (watchdog %d ms) %s" % (op, WATCHDOG_MS, o), case)
        elif k == "DIED":
            if nviol < 25:
                nviol += 1
                ctx.violation("%s takes the process down (%s)" % (op, p[:80]), case)
        elif k == "OK" and "RANGE" in p:
            if nviol < 25:
                nviol += 1
                ctx.violation("completion returned a range outside the line / off a char boundary: " + p, case)
        elif o == "SKIPPED":
            ctx.bucket("skipped_after_too_many_harness_restarts")
        elif k not in ("OK", "ERR"):
            ctx.broken.append("harness c01 answered %r to %s" % (o[:60], op))
    if texts:
        ctx.sample({"explore": texts[len(texts) // 2][1], "text": texts[len(texts) // 2][2][:120], "brush": outs[len(texts) // 2]})


# ---------------------------------------------------------------------------------------------
# 3b. exploration through the binary: generated scripts (own vocabulary: nothing destructive)

BOUNDARY = [0, 1, -1, 2, 7, 63, 64, 65, 127, 128, 255, 256, 2 ** 31 - 1, 2 ** 31, 2 ** 32, 2 ** 62, MAX - 1, MAX, MIN + 1]
WORDS = ["a", "foo", "'q s'", '"d q"', "\u00e9\u65e5", "e\u0301", "\U0001f600", "", "''", "-n", "--", "*", "?", "[a-z]*", "~", "a=b",
         "$'\\x41\\u00e9\\0'", "$'\\c'", '$"loc"', "\\\\", "\\$", "a\\ b"]
VARS = ["x", "y", "z", "arr", "m", "n", "un", "IFS", "PATH", "RANDOM", "LINENO", "BASH_SOURCE", "FUNCNAME", "PIPESTATUS", "_", "1", "@", "*", "#", "?", "0", "-"]


def unsafe_count(text):
    """True when the text could ask for unbounded work: a numeric brace range with a big span, a printf
    width / repetition / loop bound beyond 10^4. Such inputs are the clause brace_sequence_unbounded
    (a resource question), kept out of the generated stream."""
    for m in re.finditer(r"\{([-+]?\d+)\.\.([-+]?\d+)(?:\.\.([-+]?\d+))?\}", text):
        try:
            a, b = int(m.group(1)), int(m.group(2))
            inc = abs(int(m.group(3))) if m.group(3) else 1
        except ValueError:
            continue
        if a < MIN or a > MAX or b < MIN or b > MAX or inc > 2 ** 63:
            continue
        if 5000 < abs(b - a) // (inc or 1) + 1 <= SEQ_LIMIT:
            return True
    return False


class Gen:
    def __init__(self, rng):
        self.rng = rng

    def num(self):
        r = self.rng
        x = r.random()
        if x < 0.5:
            return str(r.randint(-3, 12))
        if x < 0.9:
            return str(r.choice(BOUNDARY) * r.choice([1, 1, -1]))
        return r.choice([str(2 ** 63), "99999999999999999999", "0x7fffffffffffffff", "0xffffffffffffffff", "64#@_", "2#" + "1" * 64, "08", "1e3", "1.5", ""])

    def small(self):
        return str(self.rng.randint(0, 5))

    def arith(self, d):
        r = self.rng
        if d <= 0 or r.random() < 0.3:
            return r.choice([self.num(), "x", "y", "n", "arr[1]", "un", "m[k]", "$x", "${#x}", "RANDOM", "cy", "cx", "arr[cy]", "arr[cx]"])
        x = r.random()
        if x < 0.6:
            return "%s %s %s" % (self.arith(d - 1), r.choice(ARITH_OPS + ["=", "+=", "<<=", "**", "/", "%"]), self.arith(d - 1))
        if x < 0.7:
            return "(%s)" % self.arith(d - 1)
        if x < 0.8:
            return "%s%s" % (r.choice(["-", "!", "~", "+", "++", "--"]), self.arith(d - 1))
        if x < 0.9:
            return "%s ? %s : %s" % (self.arith(d - 1), self.arith(d - 1), self.arith(d - 1))
        return "n%s" % r.choice(["++", "--"])

    def param(self, d, nocmd):
        r = self.rng
        v = r.choice(VARS)
        sub = r.choice(["", "", "[0]", "[@]", "[*]", "[%s]" % self.num(), "[-1]", "[k]"]) if v in ("arr", "m", "x") else ""
        w = self.word(d - 1, nocmd) if d > 0 else "w"
        ops = ["", ":-" + w, ":=" + w, ":+" + w, ":?" + w, "-" + w, "#" + w, "##" + w, "%" + w, "%%" + w, "/" + w + "/" + w, "//" + w, "/#" + w + "/r",
               "/%" + w + "/r", "^", "^^", ",", ",,", "@Q", "@E", "@P", "@A", "@a", "@U", "@u", "@L", "@K", "@k",
               ":" + self.num(), ":" + self.num() + ":" + self.num(), ":cy:1", ":0:cx", ":arr[cy]", ": " + self.num() + ": " + self.num(), ":(%s)" % self.arith(1)]
        op = r.choice(ops)
        if v in ("un", "1") and op.startswith(":?"):
            op = ":-d"
        if op.startswith(":="):
            v = r.choice(["x", "y", "un"])
            sub = ""
        pre = r.choice(["", "", "", "#", "!"])
        if pre == "#":
            return "${#%s%s}" % (v, sub)
        return "${%s%s%s%s}" % (pre, v, sub, op)

    def brace(self):
        r = self.rng
        x = r.random()
        if x < 0.4:
            return "{%s}" % ",".join(r.choice(["a", "b", "", "1", "\u00e9", "{x,y}", "$x"]) for _ in range(r.randint(1, 4)))
        if x < 0.7:
            a = r.randint(-12, 12) + r.choice([0, 0, 0, MAX - 20, -MAX + 20])
            b = a + r.randint(-9, 9)
            b = max(-MAX, min(MAX, b))
            a = max(-MAX, min(MAX, a))
            inc = r.choice(["", "", "..%d" % r.randint(-4, 4), "..%s" % self.num()])
            return "{%d..%d%s}" % (a, b, inc)
        a, b = r.choice("abezAMZ"), r.choice("abezAMZ")
        inc = r.choice(["", "", "..%d" % r.randint(-4, 4), "..%d" % r.choice([25, 64, 65, 96, 97, 2 ** 31, 2 ** 32 + 1])])
        return "{%s..%s%s}" % (a, b, inc)

    def word(self, d, nocmd=False):
        r = self.rng
        x = r.random()
        if d <= 0 or x < 0.25:
            return r.choice(WORDS)
        if x < 0.5:
            return self.param(d, nocmd)
        if x < 0.6:
            return "$((%s))" % self.arith(2)
        if x < 0.68:
            return self.brace()
        if x < 0.78:
            return '"%s %s"' % (self.word(d - 1, nocmd).replace('"', ""), self.param(d - 1, nocmd))
        if x < 0.84:
            return self.word(d - 1, nocmd) + self.word(d - 1, nocmd)
        if x < 0.88:
            return r.choice(["@(a|b)", "!(x)", "+([0-9])", "?(a)*", "[[:alpha:]]", "[!a-c]", "[]]", "[a-", "**/x"])
        if nocmd:
            return r.choice(WORDS)
        if x < 0.95:
            return "$(%s)" % self.cmd(d - 1)
        if x < 0.98:
            return "`%s`" % self.simple(d - 1).replace("`", "")
        return "<(%s)" % self.simple(d - 1)

    def redir(self, d):
        r = self.rng
        return r.choice(["> o%d" % r.randint(0, 2), ">> o1", "< /dev/null", "2>&1", "2> /dev/null", "&> o2", ">&2", "<&-", "3>&1", ">| o0",
                         "<<< %s" % self.word(d), "<<E\n%s\nE\n" % self.word(d).replace("\n", " "), "<<-'E'\n\tx $y\n\tE\n", "< nofile", "{fd}> o1",
                         "%d>&%d" % (r.choice([1, 2, 9, 255, 1023, 2 ** 31]), r.choice([1, 2, 7]))])

    def simple(self, d):
        r = self.rng
        x = r.random()
        w = lambda: self.word(d)
        if x < 0.2:
            return "echo %s %s" % (w(), w())
        if x < 0.3:
            return "printf %s %s %s" % (r.choice(["'%s\\n'", "'%d\\n'", "'%q '", "'%5s|%-5s|'", "'%x %o %c\\n'", "'%b\\n'", "'%.3s\\n'", "-v y '%s'",
                                                  "'%*d\\n' " + self.small(), "'%(%Y)T\\n'", "'%08.3f\\n'", "'\\x41\\u00e9\\101\\c'", "'%'", "'%z'"]), w(), self.num())
        if x < 0.38:
            return "%s=%s" % (r.choice(["x", "y", "n", "arr[%s]" % self.num(), "m[k]", "arr", "x+"]).replace("x+", "x") , w())
        if x < 0.43:
            return r.choice(["arr=(%s %s)" % (w(), w()), "arr+=(%s)" % w(), "declare -A m=([k]=%s [j]=2)" % w(), "arr=([%s]=a [2]=b)" % self.num(),
                             "declare -i n=%s" % self.num(), "declare -n ref=x", "declare -r ro=1", "declare -l lo=%s" % w(), "local q=1", "export x",
                             "unset x", "unset 'arr[%s]'" % self.num(), "unset -v un", "readonly y", "declare -p x arr m", "typeset -a arr"])
        if x < 0.5:
            return r.choice(["((%s))" % self.arith(2), "let '%s'" % self.arith(1).replace("'", ""), "[[ %s %s %s ]]" % (w(), r.choice(["==", "!=", "=~", "<", ">", "-eq", "-lt", "-nt"]), w()),
                             "[ %s %s %s ]" % (w(), r.choice(["=", "!=", "-eq", "-gt", "-a", "-o"]), w()), "test %s %s" % (r.choice(["-z", "-n", "-e", "-d", "-v", "-t", "!"]), w()),
                             "[[ -v %s ]]" % r.choice(["x", "arr[1]", "m[k]"]), "[[ %s =~ (a|b)+ ]]" % w(), "test %s -eq %s" % (self.num(), self.num())])
        if x < 0.62:
            return r.choice(["set -- %s %s" % (w(), w()), "shift %s" % self.num(), "break %s" % self.num(), "continue %s" % self.num(), "return %s" % self.num(),
                             "eval %s" % w(), "eval 'echo %s'" % self.num(), "read -r q <<< %s" % w(), "read -n %s q < /dev/null" % self.num(), "mapfile -t q < /dev/null",
                             "mapfile -n %s -s %s q <<< $'a\\nb'" % (self.num(), self.num()), "getopts ab: o %s" % w(), "trap 'echo t' EXIT", "trap - ERR", "trap 'n=1' DEBUG", "trap -p",
                             "type echo", "type -a nosuch", "alias q=%s" % w(), "unalias -a", "shopt -s extglob nullglob", "shopt -u extglob", "set -o pipefail", "set +e", "set -u",
                             "set -f", "set -x", "set +x", "hash -r", "command -v echo", "builtin echo x", "true", "false", ":", "wait", "jobs", "times", "umask", "pwd", "dirs",
                             "pushd . ", "popd", "cd .", "history", "history %s" % self.small(), "fc -l", "help echo", "caller %s" % self.num(), "enable -n", "declare -f",
                             "compgen -W 'a b' %s" % w(), "complete -p", "printf '%%d' %s" % self.num(), "echo ${x:%s:%s}" % (self.num(), self.num()),
                             "echo ${arr[@]:%s:%s}" % (self.num(), self.num()), "echo ${@:%s:%s}" % (self.num(), self.num()), "exit %s" % self.num(), "kill -l %s" % self.num(),
                             "ulimit -n", "bind -l", "let", "declare -a 'arr=(1 2)'", "f %s" % w(), "g", "nosuchcmd %s" % w(), "./o1", "command cat < /dev/null", "cat o0 2>/dev/null", "exec 3>&1",
                             "exec {fd}>&-", "select q in a b; do break; done", "time :", "echo $BASHPID ${BASH_VERSINFO[0]} $SECONDS $EPOCHSECONDS > /dev/null"])
        return "echo %s" % w()

    def cmd(self, d):
        r = self.rng
        if d <= 0:
            return self.simple(0)
        x = r.random()
        c = lambda: self.cmd(d - 1)
        if x < 0.35:
            s = self.simple(d)
            if r.random() < 0.3:
                s += " " + self.redir(d - 1)
            return s
        if x < 0.45:
            return "%s %s %s" % (c(), r.choice(["|", "&&", "||", ";", "|&", "\n"]), c())
        if x < 0.5:
            return "if %s; then %s; %sfi" % (c(), c(), r.choice(["", "else %s; " % c(), "elif %s; then %s; " % (c(), c())]))
        if x < 0.57:
            return "for q in %s %s; do %s; done" % (self.word(d - 1), self.word(d - 1), c())
        if x < 0.62:
            return "for ((i%d=0; i%d<%s; i%d++)); do %s; done" % (d, d, self.small(), d, c())
        if x < 0.67:
            return "j%d=0; while ((j%d++ < %s)); do %s; done" % (d, d, self.small(), c())
        if x < 0.7:
            return "k%d=0; until ((k%d++ > %s)); do %s; done" % (d, d, self.small(), c())
        if x < 0.76:
            return "case %s in %s) %s %s %s|*) %s;; esac" % (self.word(d - 1), self.word(d - 1), c(), r.choice([";;", ";&", ";;&"]), self.word(d - 1), c())
        if x < 0.81:
            return "( %s )" % c()
        if x < 0.86:
            return "{ %s; }%s" % (c(), r.choice(["", " " + self.redir(d - 1), " | cat", " &\nwait"]))
        if x < 0.91:
            # generated scripts never recurse: inside a function body nested definitions become plain groups
            # and calls of f/g become `:`
            name = r.choice(["f", "g"])
            body = re.sub(r"\b[fg]\(\) \{", "{", c())
            body = re.sub(r"\b[fg]\b", ":", body)
            return "%s() { %s; }; %s %s" % (name, body, name, self.word(d - 1))
        if x < 0.94:
            return "! %s" % c()
        if x < 0.97:
            return "%s &\nwait" % self.simple(d - 1)
        return "x=%s y=%s %s" % (self.word(d - 1), self.word(d - 1), self.simple(d - 1))

    def script(self):
        r = self.rng
        pre = "x=abc; y='a b  c'; z=; arr=(1 2 3); declare -A m=([k]=v); n=5; cy='arr[cy]'; cx=cx; set -- p1 'p 2' p3\n"
        body = "\n".join(self.cmd(r.randint(1, 4)) for _ in range(r.randint(1, 4)))
        # token mutation only where it cannot unbound a counting loop
        if r.random() < 0.15 and not re.search(r"\b(while|until)\b|for \(\(", body):
            body = token_mutate(r, body)
        return pre + body + "\n"


def token_mutate(rng, s):
    toks = re.findall(r"\s+|[A-Za-z_0-9]+|.", s, re.S)
    for _ in range(rng.randint(1, 3)):
        if not toks:
            break
        i = rng.randrange(len(toks))
        x = rng.random()
        if x < 0.4:
            del toks[i]
        elif x < 0.7:
            toks.insert(i, rng.choice(["(", ")", "{", "}", "'", '"', "$(", "`", ";", "fi", "done", "esac", "<<", "\\", "$((", "))", "${", "|", "&", "\u00e9"]))
        else:
            toks[i] = toks[rng.randrange(len(toks))]
    return "".join(toks)


RECURSIVE = re.compile(r"\b(\w+)\(\)\s*\{[^}]*\b\1\b", re.S)


def run_script(script, timeout=10, mem_gb=3, which="brush", interactive=False, stdin=None):
    """One script under the brush binary (or bash) in a scratch directory, with a memory ceiling and a
    wall-clock limit. Returns dict(how, rc, loc, msg, err)."""
    d = tempfile.mkdtemp(prefix="c01run-")
    e = dict(lib.BASE_ENV)
    e["HOME"] = d
    e["TMPDIR"] = d
    if interactive:
        e["HISTFILE"] = os.path.join(d, "hist")
    if which == "brush":
        cmd = [lib.BRUSH, "--norc", "--noprofile", "--no-config"]
        if interactive:
            cmd += ["-i", "--input-backend", "minimal"]
    else:
        cmd = [lib.BASH, "--norc", "--noprofile"] + (["-i"] if interactive else [])
    if stdin is None:
        cmd += ["-c", script]

    def limits():
        os.setsid()
        lim = mem_gb * 1024 ** 3
        resource.setrlimit(resource.RLIMIT_AS, (lim, lim))
        resource.setrlimit(resource.RLIMIT_CORE, (0, 0))
        resource.setrlimit(resource.RLIMIT_FSIZE, (64 * 1024 ** 2, 64 * 1024 ** 2))

    t0 = time.time()
    try:
        p = subprocess.Popen(cmd, cwd=d, env=e, stdin=subprocess.PIPE if stdin is not None else subprocess.DEVNULL,
                             stdout=subprocess.PIPE, stderr=subprocess.PIPE, preexec_fn=limits)
        try:
            out, err = p.communicate(stdin.encode("utf-8", "surrogateescape") if stdin is not None else None, timeout=timeout)
            rc = p.returncode
            to = False
        except subprocess.TimeoutExpired:
            try:
                os.killpg(p.pid, 9)
            except OSError:
                pass
            try:
                out, err = p.communicate(timeout=5)
            except Exception:
                out, err = b"", b""
            rc, to = -9, True
        finally:
            try:
                os.killpg(p.pid, 9)   # no children left behind
            except OSError:
                pass
    finally:
        shutil.rmtree(d, ignore_errors=True)
    err = err.decode("utf-8", "replace")
    res = {"rc": rc, "how": "status", "loc": "", "msg": "", "err": err[-600:], "secs": round(time.time() - t0, 2),
           "out": out.decode("utf-8", "replace")[:2000]}
    m = re.search(r"panicked at ([^\s:]+):(\d+):\d+:\s*\n([^\n]*)", err)
    if to:
        res["how"] = "timeout"
    elif m:
        f = canon_file(m.group(1))
        res.update(how="panic", loc="%s:%s" % (f, m.group(2)), msg=m.group(3))
    elif "has overflowed its stack" in err:
        res["how"] = "stack-overflow"
    elif "memory allocation of" in err and rc in (134, -6):
        res["how"] = "oom"
    elif rc in (101, 134) or rc < 0:
        res["how"] = "signal" if rc < 0 else "abort-status-%d" % rc
    return res


def explore_binary(ctx):
    rng = ctx.rng
    g = Gen(rng)
    scripts = []
    cdir = os.path.join(lib.ROOT, "corpus", "C01")
    for f in sorted(glob.glob(os.path.join(cdir, "*.sh.json"))):
        for ent in json.load(open(f, encoding="utf-8")):
            scripts.append(("corpus", ent["script"], ent.get("interactive", False), ent.get("mem_gb", 3)))
    n = ctx.size(900, 12000)
    tries = 0
    while len(scripts) < n and tries < n * 3:
        tries += 1
        s = g.script()
        if unsafe_count(s) or known_hang_clause(s) or "\x00" in s:
            ctx.bucket("gen_rejected_unbounded")
            continue
        scripts.append(("gen", s, False, 3))
    # deep nesting through the binary, every depth 1..64
    for d in range(1, 65, ctx.size(3, 1)):
        t = nested(rng, d)
        if not known_hang_clause(t):
            scripts.append(("nest", "x=1\n" + t + "\n", False, 3))

    def one(ent):
        kind, s, inter, mem = ent
        if inter:
            return run_script(None, stdin=s, interactive=True, timeout=10, mem_gb=mem)
        return run_script(s, timeout=10, mem_gb=mem)

    res = lib.pmap(one, scripts, workers=min(lib.NCPU, 8))
    nviol = 0
    for (kind, s, inter, mem), r in zip(scripts, res):
        ctx.count(("bin", s), bucket="binary_" + kind)
        ctx.bucket("binary_outcome_" + r["how"])
        ctx.impl_validated += 1
        case = {"script": s, "interactive": inter, "brush": {k: r[k] for k in ("how", "rc", "loc", "msg")}, "stderr_tail": r["err"][-300:]}
        if r["how"] == "status":
            continue
        if r["how"] == "panic":
            cl = builtin_panic_clause("RUNI" if inter else "RUN", r["loc"], r["msg"], s)
            if cl:
                ctx.known_or_violation(cl, "brush panics at %s (%s)" % (r["loc"], r["msg"][:60]), case)
            elif nviol < 25:
                nviol += 1
                ctx.violation("brush panics at %s (%s)" % (r["loc"], r["msg"][:80]), case)
            continue
        if r["how"] in ("timeout", "oom", "stack-overflow"):
            cl = known_hang_clause(s)
            if cl is None:
                cl = next((c for c, fre in RECURSION_KNOWN if re.search(fre, s, re.S)), None)
            if cl is None and unsafe_count(s):
                cl = "brace_sequence_unbounded"
            if cl is None and RECURSIVE.search(s) and r["how"] in ("stack-overflow", "oom"):
                cl = "unbounded_function_recursion_aborts"
            if cl:
                ctx.known_or_violation(cl, "brush does not end in a status (%s)" % r["how"], case)
                continue
            if r["how"] == "timeout":
                # a script that loops for ever by its own meaning is no defect: ask the oracle
                o = run_script(s, timeout=10, which="bash", interactive=inter, stdin=s if inter else None)
                if o["how"] == "timeout":
                    ctx.bucket("binary_both_shells_time_out")
                    continue
        if nviol < 25:
            nviol += 1
            ctx.violation("brush does not end in a status: %s (rc %s)" % (r["how"], r["rc"]), case)
    if scripts:
        ctx.sample({"script": scripts[-1][1][-200:], "brush": res[-1]["how"]})


# ---------------------------------------------------------------------------------------------

def warm_private_target():
    """A VERIF_REPO run builds into a private target dir; a cold one rebuilds ~400 dependency crates
    (10+ minutes on a loaded machine). Dependencies do not depend on the checkout, so start from a copy
    of the main target's artefacts (taken under the main target's cargo lock): only brush's own crates and
    the harness are rebuilt."""
    main = os.path.join(lib.BUILD, "target")
    if lib.TARGET == main or os.path.isdir(os.path.join(lib.TARGET, "debug")) or not os.path.isdir(os.path.join(main, "debug")):
        return
    t0 = time.time()
    with lib.flock("cargo-target"):
        dst = os.path.join(lib.TARGET, "debug")
        os.makedirs(dst, exist_ok=True)
        for sub in ("deps", ".fingerprint", "build"):
            src = os.path.join(main, "debug", sub)
            if os.path.isdir(src):
                subprocess.run(["cp", "-a", src, dst + "/"], check=False)
        for f in (".rustc_info.json", "CACHEDIR.TAG"):
            if os.path.exists(os.path.join(main, f)):
                shutil.copy2(os.path.join(main, f), os.path.join(lib.TARGET, f))
    lib.log("warmed %s from the main target in %.0f s" % (lib.TARGET, time.time() - t0))


def run(ctx):
    try:
        warm_private_target()
    except Exception as ex:  # a cold build is only slower
        lib.log("could not warm the private target: %r" % (ex,))
    ok, out = lib.cargo_build([BIN])
    if not ok:
        lib.log(out[-4000:])
        ctx.broken.append("harness c01 does not build against the current tree: " + lib._first_errors(out))
    ctx.proof_stage()
    if not ok:
        return
    lib.sweep_tmp("vh-c01-")         # directories of harness processes that were killed by their watchdog in earlier runs
    recursion_stage(ctx)
    hot_stage(ctx)
    builtin_args_stage(ctx)
    explore_inproc(ctx)
    explore_binary(ctx)
    ctx.cov["rule"] = (
        "hot spots: exhaustive boundary grid {0,±1,±2,len-1,len,len+1,-len,-len-1,i64 MIN/MAX(±1),2^31,2^32,2^62} for offset × length × "
        "%d strings / 4 array sizes, every i8 and beyond for break/continue, %d brace literals^2 × %d increments, %d char pairs × %d increments, "
        "20 operators × %d^2 operands, plus seeded random around the same boundaries — brush (in-process, catch_unwind) vs the checked Lean model; "
        "recursion shapes (binary, bash as oracle for unbounded scripts): %d self-/mutually-referential variable environments x %d arithmetic expressions compared with C07's evaluator model, "
        "%d cyclic setups (scalar, array element, associative element) x %d shell contexts that evaluate arithmetic, %d other bounded recursion shapes (alias loops, ${!v}, namerefs, "
        "functions/eval/command substitution/subshell/group nesting to depth 64, chains at the 1024 dereference bound); "
        "exploration (FUZZING, not proof): every stdin script of brush's suite + all strings of length <= 3 over a 19-symbol structural alphabet "
        "through tokenizer/program/word/brace/pattern/arithmetic/prompt/test parsers; highlighter and completion at every cursor; nesting depth 1..64 of 20 "
        "constructs; seeded byte/token mutation of suite scripts (parsed, highlighted, completed — never executed); generated scripts over a safe "
        "vocabulary run in the brush binary (timeout 10 s, 3 GB, scratch cwd). non-trivial = more than one character / any hot-spot case"
        % (len(STRS), len(BRACE_NUMS), len(BRACE_INCS), len(LETTERS) ** 2, len(CHAR_INCS), len(ARITH_VALS),
           len(CYC_ENVS), len(CYC_EXPRS), len(CYC_SETUPS), len(CYC_CONTEXTS), len(OTHER_RECURSION)))
    ctx.assumptions += [
        "the theorems cover the modelled integer/index hot spots only; tokenizer, PEG parsers, interpreter, highlighter, completion and prompt "
        "expansion are explored by fuzzing, not proved",
        "mutated suite scripts are parsed/highlighted/completed but never executed (they contain rm, kill, exec …); executed scripts come from the "
        "generator's own vocabulary",
        "numeric brace ranges spanning more than 5000 words, printf widths and loop bounds are kept small in generated scripts (resource use; beyond INT_MAX-2 elements the word stays literal, as in bash)",
        "a timeout that bash shows as well is the script's own meaning, not a hang of brush",
    ]


def replay(ctx, rp):
    ok, out = lib.cargo_build([BIN])
    case = rp["case"]
    fails = 0
    if "hot" in case:
        b = run_harness([case["hot"]])[0]
        m = lib.run_drv(["C01 " + case.get("drv", case["hot"])])[0]
        print("request:", case["hot"])
        print("brush:  ", b)
        print("model:  ", m)
        k = split_resp(b)[0]
        print("property on brush:", "FAILS (%s)" % k if k in ("PANIC", "HANG", "DIED") else "holds")
        bk, bp, _, _ = split_resp(b)
        mk, mp, _, _ = split_resp(m)
        fails = 1 if (k in ("PANIC", "HANG", "DIED") or bk != mk or (bk == "OK" and bp != mp)) else 0
    elif "op" in case:
        flds = case["fields"] if "fields" in case else [case["text"]]
        b = run_harness(["%s %s" % (case["op"], " ".join(esc(x) for x in flds))])[0]
        print("op:    ", case["op"])
        for x in flds:
            print("text:  ", repr(x))
        print("brush: ", b)
        k = split_resp(b)[0]
        print("property on brush:", "FAILS (%s)" % k if k in ("PANIC", "HANG", "DIED") or "RANGE" in b else "holds")
        fails = 1 if (k in ("PANIC", "HANG", "DIED") or "RANGE" in b) else 0
    elif "script" in case:
        inter = case.get("interactive", False)
        r = run_script(None if inter else case["script"], stdin=case["script"] if inter else None, interactive=inter, mem_gb=case.get("mem_gb", 3))
        o = run_script(None if inter else case["script"], stdin=case["script"] if inter else None, interactive=inter, which="bash", mem_gb=case.get("mem_gb", 3))
        print("script:", repr(case["script"]))
        print("brush: ", {k: r[k] for k in ("how", "rc", "loc", "msg")})
        print("bash:  ", {k: o[k] for k in ("how", "rc")})
        bad = r["how"] != "status" and not (r["how"] == "timeout" and o["how"] == "timeout")
        print("property on brush:", "FAILS (%s)" % r["how"] if bad else "holds")
        fails = 1 if bad else 0
    else:
        print(json.dumps(case, indent=1))
        fails = 1
    return fails
