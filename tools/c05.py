"""C05 — unquoted words expand to the same argument lists as in bash.

Words are drawn from a grammar of word pieces (literal text, quotes, `${v}`, `$@`/`$*`, array expansions,
command and arithmetic substitutions, `${p:-w}` operators, brace expressions, tilde, glob characters); each
word is rendered as shell text (for brush and bash) and as the parser's piece list (for the Lean model and the
Lean reference semantics).  Four results per case:
    brush  (binary, `set -- WORD; printf '%s\\0' "$#" "$@"`)      bash (same script)
    impl   (Model/Expand.lean, mirrors brush incl. defects)        spec (Spec/WordExp.lean, bash's order of expansions)
plus brush's expander in-process (harness c04) against impl.  Decision protocol of DESIGN.md section 4.
"""
import json
import os
import random
import shutil
import subprocess
import tempfile
import lib
import c04
from lib import esc, unesc
from c04 import WORKERS

PROP = "C05"
BIN = "c04"       # C04 and C05 share the harness binary and the Lean driver

DIRNAMES = ["a", "ab", "b", "a b", ".h", ".hid den", "x", "xyz", "c d", "*x"]
HOME = "/hh"
# homes a tilde-prefix is resolved against: the result of tilde expansion is never split, globbed or dropped
HOMES = ["/hh", "/h h", "*", "", "a*", " /x ", "/h\th", ".h*", "a b"]
VARS = {"e": "", "s": " a  b ", "m": "x y z", "g": "*", "g2": "a* .h", "t": "a\tb\nc", "c": "a:b c", "q": "'a b'", "w": "ab"}
UNSET = ["n"]
ARR = {"k": ["1 2", "", "*"], "k0": []}
# white-space IFS values only: the property's statement ("default or whitespace IFS"); with any other IFS brush also
# field-splits the LITERAL text of a word (`IFS=a; echo banana` -> `b n n`; C04 finding literal_text_split_by_ifs) and
# drops the empty fields between adjacent delimiters (`split_cex_nonws`) — outside this property's domain
IFSES = [("unset", "u"), ("dflt", " \t\n"), ("space", " "), ("newline", "\n"), ("empty", ""), ("tab", "\t"),
         ("spnl", " \n")]
ARGSETS = [[], ["a"], ["b c", ""], ["", "*", " x "], ["a", "b"]]


def sq(s):
    return "'" + s.replace("'", "'\\''") + "'"


class P:
    """a word piece: shell text + model tokens + feature tags"""
    def __init__(self, text, toks, feats=(), home=None):
        self.text, self.toks, self.feats = text, list(toks), set(feats)
        self.home = HOME if home is None else home


def cat(ps):
    homes = [p.home for p in ps if p.home != HOME]
    return P("".join(p.text for p in ps), [t for p in ps for t in p.toks], set().union(*[p.feats for p in ps]) if ps else set(),
             home=homes[0] if homes else None)


def _tw(text, toks, feats):
    return P(text, toks, set(feats) | {"tilde"})


# tilde words of the exhaustive family (also the only ones used with an empty home)
TILDE_BRACE_WORDS = [
    _tw("{~,a}", ["B(", "H", "B|", "Ta", "B)"], {"brace"}),
    _tw("{a,~}", ["B(", "Ta", "B|", "H", "B)"], {"brace"}),
    _tw("{~/x,~/y}", ["B(", "H", "T/x", "B|", "H", "T/y", "B)"], {"brace"}),
    _tw("~/b{x,y}", ["H", "T/b", "B(", "Tx", "B|", "Ty", "B)"], {"brace"}),
    _tw("~{,/a}", ["H", "B(", "B|", "T/a", "B)"], {"brace"}),
    _tw("{a,~/b}c", ["B(", "Ta", "B|", "H", "T/b", "B)", "Tc"], {"brace"}),
    _tw("{~/a,b}", ["B(", "H", "T/a", "B|", "Tb", "B)"], {"brace"}),
    _tw("x{~,a}", ["Tx", "B(", "H", "B|", "Ta", "B)"], {"brace"}),
    _tw("~/{a,b}/~", ["H", "T/", "B(", "Ta", "B|", "Tb", "B)", "T/~"], {"brace"}),
]
EMPTY_HOME_WORDS = [_tw("~", ["H"], ()), _tw("~/", ["H", "T/"], ()), _tw("~/a", ["H", "T/a"], ())] + TILDE_BRACE_WORDS


class Gen:
    def __init__(self, rng, nargs):
        self.r = rng
        self.nargs = nargs

    def text(self, glob=True):
        pool = ["a", "b", "ab", "x", "-", ".", "c", "1"] + (["*", "?", "a*", ".*", "[ab]", "*b"] if glob else [])
        s = self.r.choice(pool)
        return P(s, ["T" + s], {"glob"} if any(c in s for c in "*?[") else ())

    def var(self):
        r = self.r.random()
        if r < 0.55:
            n = self.r.choice(list(VARS) + UNSET)
            return P("${%s}" % n, ["V" + n], {"var"})
        if r < 0.65:
            return P("$@", ["X@"], {"at"})
        if r < 0.75:
            return P("$*", ["X*"], {"star"})
        if r < 0.82:
            n = self.r.choice(list(ARR))
            return P("${%s[@]}" % n, ["A@" + n], {"at"})
        if r < 0.89:
            n = self.r.choice(list(ARR))
            return P("${%s[*]}" % n, ["A*" + n], {"star"})
        if r < 0.93:
            return P("${#}", ["#"], ())
        if r < 0.97 and self.nargs:
            k = self.r.randint(1, 3)
            return P("${%d}" % k, ["P%d" % k], {"var"})
        n = self.r.choice(list(VARS))
        return P('$(printf %%s "${%s}")' % n, ["Y" + n], {"cmd"})

    def subst(self):
        r = self.r.random()
        if r < 0.5:
            out = self.r.choice(["a  b", " x", "*", "a\n\n", "", "p q\n"])
            return P("$(printf %s)" % sq(out), ["C" + out], {"cmd"})
        a, b = self.r.randint(0, 9), self.r.randint(0, 9)
        return P("$((%d+%d))" % (a, b), ["M%d" % (a + b)], {"arith"})

    def dq_atom(self):
        r = self.r.random()
        if r < 0.4:
            s = self.r.choice(["a", " ", "a b", "*", " * ", "x'y", "", "?"])
            return P(s, ["T" + s] if s else [], ())
        if r < 0.85:
            return self.var()
        return self.subst()

    def dq(self, maxn=3):
        ps = [self.dq_atom() for _ in range(self.r.randint(0, maxn))]
        c = cat(ps)
        return P('"' + c.text + '"', ["D("] + c.toks + ["D)"], c.feats | {"dq"})

    def sq(self):
        s = self.r.choice(["", "a b", "*", " ", "$v", "a"])
        return P(sq(s), ["Q" + s], {"sq"})

    def esc(self):
        c = self.r.choice(["*", " ", "$", "a", "?", "\\", '"'])
        return P("\\" + c, ["E" + c], {"esc"})

    def op(self, in_dq):
        while True:
            p = self.op1(in_dq)
            # not generated: runs of blanks inside ${…} (C06-9, another property's finding) and operands that are
            # only a quoted null (`${v:+""}`): bash 5.2 itself drops neighbouring quoted nulls there
            # (`s="a "; set -- ""$s${v:+""}` gives 1 argument, `""$s""` gives 3)
            if "  " not in p.text and '""' not in p.text and "''" not in p.text:
                return p

    def op1(self, in_dq):
        n = self.r.choice(list(VARS) + UNSET + ["e", "n"])
        kind = self.r.choice(["-", "+"])
        colon = self.r.random() < 0.6
        # the operand: pieces that read the same inside and outside double quotes
        if in_dq:
            r = self.r.random()
            if r < 0.3:
                inner = [self.dq_plain() for _ in range(self.r.randint(1, 2))]
                c = cat(inner)
                w = P('"' + c.text + '"', ["D("] + c.toks + ["D)"], c.feats)
            else:
                w = cat([self.dq_plain() for _ in range(self.r.randint(0, 2))])
        else:
            parts = []
            for _ in range(self.r.randint(0, 2)):
                r = self.r.random()
                if r < 0.4:
                    s = self.r.choice(["a", "a b", " a ", "*", "b"])
                    parts.append(P(s, ["T" + s], {"glob"} if "*" in s else ()))
                elif r < 0.7:
                    parts.append(self.plain_var())
                else:
                    inner = cat([self.dq_plain() for _ in range(self.r.randint(0, 2))])
                    parts.append(P('"' + inner.text + '"', ["D("] + inner.toks + ["D)"], inner.feats))
            w = cat(parts)
        return P("${%s%s%s%s}" % (n, ":" if colon else "", kind, w.text),
                 ["O%s%s" % (kind, ":" if colon else "."), "V" + n] + w.toks + ["O)"], w.feats | {"op"})

    def dq_plain(self):
        if self.r.random() < 0.5:
            s = self.r.choice(["a", "a b", " ", "*", "b "])
            return P(s, ["T" + s], ())
        return self.plain_var()

    def plain_var(self):
        n = self.r.choice(list(VARS) + UNSET)
        return P("${%s}" % n, ["V" + n], {"var"})

    def dq_with_op(self):
        ps = []
        for _ in range(self.r.randint(1, 3)):
            ps.append(self.op(True) if self.r.random() < 0.5 else self.dq_atom())
        c = cat(ps)
        return P('"' + c.text + '"', ["D("] + c.toks + ["D)"], c.feats | {"dq"})

    def piece(self, braces=True):
        r = self.r.random()
        if r < 0.22:
            return self.text()
        if r < 0.45:
            return self.var()
        if r < 0.55:
            return self.subst()
        if r < 0.67:
            return self.dq()
        if r < 0.73:
            return self.sq()
        if r < 0.78:
            return self.esc()
        if r < 0.86:
            return self.op(False)
        if r < 0.90:
            return self.dq_with_op()
        if braces:
            return self.braces()
        return self.text()

    def braces(self):
        alts = []
        for _ in range(self.r.randint(2, 3)):
            if getattr(self, "tilde_in_braces", False) and self.r.random() < 0.5:
                alts.append(self.tilde_alt())
                continue
            ps = [self.piece(braces=False) for _ in range(self.r.choice([0, 1, 1, 1, 2]))]
            # inside a brace expression: no unquoted comma/brace characters are generated; fine
            alts.append(cat(ps))
        toks = ["B("]
        for i, a in enumerate(alts):
            if i:
                toks.append("B|")
            toks += a.toks
        toks.append("B)")
        return P("{" + ",".join(a.text for a in alts) + "}", toks, set().union(*[a.feats for a in alts]) | {"brace"})

    def tilde_alt(self):
        """a brace alternative that starts with a tilde-prefix: `~`, `~/`, `~/a`, `~/<piece>`"""
        r = self.r.random()
        if r < 0.35:
            return P("~", ["H"], {"tilde"})
        if r < 0.7:
            t = self.r.choice(["/", "/a", "/a*", "/x"])
            return P("~" + t, ["H", "T" + t], {"tilde"} | ({"glob"} if "*" in t else set()))
        rest = self.piece(braces=False)
        return P("~/" + rest.text, ["H", "T/"] + rest.toks, {"tilde"} | rest.feats)

    def word(self, maxp):
        x = self.r.random()
        if x < 0.09:
            # a tilde-prefix: alone, before `/text`, before `/` and further pieces, in front of or inside a brace
            # expression — under a home with blanks, glob characters or nothing in it
            home = self.r.choice(HOMES)
            if home == "":
                # an empty home makes `~/…` an absolute path: no glob-capable piece after it (the model's directory
                # is one level deep, the real root is not modelled)
                w = self.r.choice(EMPTY_HOME_WORDS)
                return P(w.text, w.toks, w.feats, home=home)
            if x < 0.02:
                w = P("~", ["H"], {"tilde"})
            elif x < 0.04:
                t = self.r.choice(["/", "/a", "/*", "/a*", "/x y"[:2]])
                w = P("~" + t, ["H", "T" + t], {"tilde"} | ({"glob"} if "*" in t else set()))
            elif x < 0.065:
                rest = cat([self.piece() for _ in range(self.r.randint(1, max(1, maxp - 1)))])
                w = P("~/" + rest.text, ["H", "T/"] + rest.toks, {"tilde"} | rest.feats)
            else:
                self.tilde_in_braces = True
                try:
                    w = cat([self.piece() if i else self.braces() for i in range(self.r.randint(1, max(1, maxp - 1)))])
                finally:
                    self.tilde_in_braces = False
            w.home = home
            return w
        return cat([self.piece() for _ in range(self.r.randint(1, maxp))])


def env_fields(ifs, args, home=HOME, opts="E"):
    f = []
    if ifs == "u":
        f.append("u")
    else:
        f.append(esc("i" + ifs))
    f.append(esc("o" + opts))
    f.append(esc("h" + home))
    for n, v in VARS.items():
        f.append(esc("v%s=%s" % (n, v)))
    for n, els in ARR.items():
        f.append(esc("a" + n))
        f += [esc("e" + x) for x in els]
    f += [esc("p" + a) for a in args]
    return f


def make_line(root, ifs, args, w, opts="E", names=None):
    return " ".join([esc("d" + root)] + env_fields(ifs, args, w.home, opts) +
                    [esc("n" + n) for n in (DIRNAMES if names is None else names)] +
                    ["Kb"] + [esc(t) for t in w.toks] + [esc("w" + w.text)])


def script_for(words, ifs, args, nonce):
    L = ["shopt -u extglob nullglob failglob dotglob 2>/dev/null", "HOME=" + sq(HOME)]
    for n, v in VARS.items():
        L.append("%s=%s" % (n, sq(v)))
    for n in UNSET:
        L.append("unset " + n)
    for n, els in ARR.items():
        L.append("%s=(%s)" % (n, " ".join(sq(x) for x in els)))
    L.append("unset IFS" if ifs == "u" else "IFS=" + sq(ifs))
    setargs = "set --" + "".join(" " + sq(a) for a in args)
    for j, w in enumerate(words):
        L.append(setargs)
        L.append("HOME=" + sq(w.home))
        L.append("set -- " + w.text)
        L.append("printf '%%s\\0' '=MARK-%s-%d=' \"$#\" \"$@\"" % (nonce, j))
    return "\n".join(L) + "\n"


def run_script(which, script, cwd):
    cmd = lib.shell_cmd(which, script)
    try:
        p = lib.sp_run(cmd, cwd=cwd, env=dict(lib.BASE_ENV), stdin=subprocess.DEVNULL, stdout=subprocess.PIPE,
                           stderr=subprocess.PIPE, timeout=120)
        return p.stdout
    except subprocess.TimeoutExpired:
        return b""


def records(out, nonce, n):
    res = c04.split_records(out, nonce, n)
    outl = []
    for r in res:
        if r is None or not r:
            outl.append(None)
            continue
        try:
            k = int(r[0])
        except ValueError:
            outl.append(None)
            continue
        outl.append(r[1:] if len(r) == k + 1 else None)
    return outl


EMPTY_PIECE = r"""(?:""|''|\$\{e\}|\$\{n\}|\$\{k0\[[@*]\]\})"""


def empty_brace_alt(toks):
    """some brace expression has an alternative with no pieces at all"""
    for i, t in enumerate(toks[:-1]):
        if t in ("B(", "B|") and toks[i + 1] in ("B|", "B)"):
            return True
    return False


def tilde_only_difference(brush, bash, home):
    """same number of arguments, and the differing ones are `~…` in brush where bash has `<home>…`"""
    if not isinstance(brush, list) or not isinstance(bash, list) or len(brush) != len(bash):
        return False
    hit = False
    for x, y in zip(brush, bash):
        if x == y:
            continue
        if x.startswith("~") and y == home + x[1:]:
            hit = True
        else:
            return False
    return hit


def dot_fix_matches_nullglob(impl_plain, impl_null, bash):
    """under nullglob: `impl_plain` is the model's list without nullglob; the patterns nullglob removed are its
    elements missing from `impl_null`. bash's list = the same with some `.`-patterns replaced by the dot-files they match"""
    import fnmatch
    if not (isinstance(impl_plain, list) and isinstance(impl_null, list) and isinstance(bash, list)):
        return False
    rest = list(impl_null)
    fixed, hit = [], False
    for x in impl_plain:
        if rest and rest[0] == x:
            rest.pop(0)
            fixed.append(x)
            continue
        m = sorted(n for n in DIRNAMES if fnmatch.fnmatchcase(n, x)) if x.startswith(".") else []
        if m:
            hit = True
            fixed += m
    return hit and not rest and fixed == bash


# C05-4 `leading_empty_quoted_piece_hides_dotfiles` was repaired in /repo (a135ffb) and the model flipped
# (Model/Expand.lean firstStartsWithDot, Props/C05.lean empty_quoted_piece_transparent_to_globbing). The two detectors
# below stay as a tripwire: the entry is `fixed` in known_findings.json, a fixed entry suppresses nothing, so the
# behaviour coming back is reported as a VIOLATION carrying the clause name.
def dot_fix_matches(lst, bash):
    """`lst` has unmatched patterns starting with '.' where bash has the dot-files they match (an empty quoted or
    empty-valued piece precedes the dot): replacing some of them by their matches gives bash's list"""
    import fnmatch
    import itertools
    cands = [i for i, x in enumerate(lst) if x.startswith(".") and any(c in x for c in "*?[")][:10]
    for pick in itertools.product([False, True], repeat=len(cands)):
        if not any(pick):
            continue
        chosen = {i for i, p in zip(cands, pick) if p}
        fixed = []
        for i, x in enumerate(lst):
            m = sorted(n for n in DIRNAMES if fnmatch.fnmatchcase(n, x)) if i in chosen else []
            fixed += m if m else [x]
        if fixed == bash:
            return True
    return False


def clause_of(w, ifs, args, brush, bash, impl, spec, dflags=""):
    """name the recorded defect class a brush/bash difference falls into (by the feature that triggers it).
    `dflags`: the conjuncts of the proved domain (Props/C05.lean InDomain) the case violates, from the driver."""
    import re
    ifsv = " \t\n" if ifs == "u" else ifs
    # a tilde-prefix lost in the joined text of a brace expansion: tested first, and only when it is the whole
    # difference (so it neither swallows nor is swallowed by the other brace clauses)
    if "tilde" in w.feats and "brace" in w.feats and "t" in dflags and brush == impl \
            and tilde_only_difference(brush, bash, w.home):
        return "tilde_after_brace_alternative_not_expanded"
    if "brace" in w.feats and " " not in ifsv:
        return "brace_alternatives_joined_with_space"
    if "star" in w.feats and ifsv == "":
        return "star_joined_with_space_when_ifs_empty"
    if "brace" in w.feats and empty_brace_alt(w.toks) and isinstance(brush, list) and isinstance(bash, list) \
            and [x for x in brush if x != ""] == [x for x in bash if x != ""]:
        return "empty_brace_alternative_kept"
    # (C05-5 was repaired in /repo 14c5f22 and the model flipped — Model/Expand.lean dropNullAt, Props/C05.lean
    # empty_at_with_null_rest_removed; the entry is `fixed`, so this detector is a tripwire: a hit is a VIOLATION)
    if "at" in w.feats and "dq" in w.feats and isinstance(brush, list) and isinstance(bash, list) \
            and len(brush) > len(bash) and [x for x in brush if x != ""] == [x for x in bash if x != ""]:
        return "empty_at_in_quotes_with_null_rest_keeps_field"
    if isinstance(brush, list) and isinstance(bash, list) and brush == impl and dot_fix_matches(brush, bash):
        return "leading_empty_quoted_piece_hides_dotfiles"
    # several recorded defects at once (e.g. `{,~/a}`: empty alternative kept AND tilde-prefix lost): DESIGN.md §4 —
    # brush == impl, bash == spec, outside the proved domain; named after the first failing conjunct
    # (the reference semantics shares brush's glob and `"$@"` code, so `spec` may still differ from bash by C05-4/C05-5)
    spec_ok = bash == spec or (isinstance(spec, list) and isinstance(bash, list) and (
        dot_fix_matches(spec, bash) or
        ("at" in w.feats and "dq" in w.feats and len(spec) > len(bash)
         and [x for x in spec if x != ""] == [x for x in bash if x != ""])))
    if brush == impl and spec_ok and dflags not in ("", "?"):
        if "e" in dflags and "star" in w.feats:
            return "star_joined_with_space_when_ifs_empty"
        if "s" in dflags:
            return "brace_alternatives_joined_with_space"
        if "n" in dflags:
            return "empty_brace_alternative_kept"
        if "t" in dflags and "tilde" in w.feats and "brace" in w.feats:
            return "tilde_after_brace_alternative_not_expanded"
    return None


def decide(ctx, root, cases, tag):
    """cases: list of (w, ifsname, ifs, args)"""
    lines = [make_line(root, ifs, args, w) for (w, _, ifs, args) in cases]
    okh, bouts, errs = lib.run_vh_parallel(BIN, lines, workers=WORKERS)
    if not okh:
        ctx.broken.append("harness c04 died: " + errs[:500])
    mouts = lib.run_drv_parallel(["C04 " + l for l in lines], workers=WORKERS)
    # binary runs, batched per (ifs, args)
    groups = {}
    for idx, (w, n, ifs, args) in enumerate(cases):
        groups.setdefault((ifs, tuple(args)), []).append(idx)
    batches = []
    for (ifs, args), idxs in groups.items():
        for ch in lib.chunked(idxs, max(1, len(idxs) // 40 + 1)):
            batches.append((ifs, list(args), ch))

    def one(bt):
        ifs, args, idxs = bt
        nonce = "%08x" % random.getrandbits(32)
        sc = script_for([cases[i][0] for i in idxs], ifs, args, nonce)
        return (records(run_script("brush", sc, root), nonce, len(idxs)),
                records(run_script("bash", sc, root), nonce, len(idxs)))
    res = lib.pmap(one, batches, workers=WORKERS)
    bin_b, bin_o = {}, {}
    for (ifs, args, idxs), (rb, ro) in zip(batches, res):
        for i, x, y in zip(idxs, rb, ro):
            bin_b[i], bin_o[i] = x, y
    nv = 0
    for idx, ((w, ifsname, ifs, args), b, m) in enumerate(zip(cases, bouts, mouts)):
        ctx.count((w.text, ifsname, tuple(args)), nontrivial=len(w.toks) >= 2, bucket="%s:ifs=%s" % (tag, ifsname))
        for ft in sorted(w.feats):
            ctx.bucket("feat:" + ft)
        ctx.impl_validated += 1
        parts = m.split(" %| ")
        impl, unmod = c04.parse_res(parts[0])
        spec, _ = c04.parse_res(parts[1]) if len(parts) > 1 else ("?", False)
        dflags = parts[2][1:] if len(parts) > 2 and parts[2].startswith("D") else "?"
        bin_, _ = c04.parse_res(b)
        brush, bash = bin_b.get(idx), bin_o.get(idx)
        case = {"word": w.text, "tokens": w.toks, "feats": sorted(w.feats), "home": w.home, "ifs": ifs, "args": args,
                "brush": brush, "bash": bash, "brush_inproc": bin_, "impl": impl, "spec": spec, "outside_domain": dflags}
        if bash is not None and spec != bash and not unmod:
            ctx.oracle_mismatch += 1
            if len(ctx.notes) < 8:
                ctx.notes.append("spec != bash: %s IFS=%r args=%r spec=%r bash=%r" % (w.text, ifs, args, spec, bash))
        if bash is None:
            ctx.bucket("bash:no-result(error or framing lost)")
        if brush is None:
            ctx.bucket("brush:no-result(error or framing lost)")
        prop_fail = brush != bash
        tie_fail = (bin_ != impl and not unmod) or (brush is not None and bin_ != brush and bin_ is not None)
        if not prop_fail and not tie_fail:
            continue
        if prop_fail:
            cl = clause_of(w, ifs, args, brush, bash, impl, spec, dflags)
            what = "argument list differs from bash's: brush %r, bash %r" % (brush, bash)
            if cl and not tie_fail:
                ctx.known_or_violation(cl, what, case)
            elif nv < 25:
                nv += 1
                ctx.violation(what + ("" if not tie_fail else " (and the model disagrees with brush)"), case)
        elif nv < 25:
            nv += 1
            ctx.violation("expansion model and brush disagree (correspondence broken)", case, kind="correspondence")
    return bouts



# ------------------------------------------------------------------------------------------------
# context sweep: a seeded sample of the words above, expanded again in other execution contexts and under
# options, brush against bash on identical script text.  By `word_expansion_reads_only_visible_state`
# (Props/C05.lean) the model's prediction for a context is the prediction for the environment the context shows,
# so the driver is asked with that environment (IFS, options, directory) to name the clause of a difference.

ALTNAMES = ["a", "zz", ".alt", "b c", "xyz"]          # the directory `cd` goes to between two expansions
SWEEP_CONTEXTS = ["func", "func2", "localvars", "localifs", "subshell", "cmdsubst", "eval", "group", "lastpipe",
                  "for", "while", "forlist", "array", "trap", "source", "cd", "heredoc-neighbour",
                  "assign-prefix", "export", "declare"]
# option -> (script line, model option letters or None when the model has no such option, may change results)
SWEEP_OPTIONS = {
    "nounset": ("set -u", "E"), "noglob": ("set -f", "Eg"), "errexit": ("set -e", "E"), "errtrace": ("set -E", "E"),
    "functrace": ("set -T", "E"), "nohash": ("set +h", "E"), "noclobber": ("set -C", "E"),
    "extglob": ("shopt -s extglob", "e"), "nullglob": ("shopt -s nullglob", "En"), "dotglob": ("shopt -s dotglob", "Ed"),
    "failglob": ("shopt -s failglob", "Ef"), "nocaseglob": ("shopt -s nocaseglob", None),
    "nocasematch": ("shopt -s nocasematch", "E"), "globstar": ("shopt -s globstar", None),
    "expand_aliases": ("shopt -s expand_aliases", "E"), "lastpipe": ("shopt -s lastpipe", "E"),
    "inherit_errexit": ("shopt -s inherit_errexit", "E"),
}


def _setargs(args):
    return "set --" + "".join(" " + sq(a) for a in args)


def _ifs_line(ifs, local=False):
    if ifs == "u":
        return "local IFS; unset IFS" if local else "unset IFS"
    return ("local IFS=" if local else "IFS=") + sq(ifs)


def sweep_script(items, ifs, args, ctxname, optline, nonce, srcdir, altdir, root):
    """items: list of words. Returns (script, observations) — observations[k] = (word index, label, ifs, dir)
    for the k-th marker; every observation prints `"$#" "$@"` (or the equivalent list) after its marker."""
    other_ifs = " \t\n" if ifs not in (" \t\n", "u") else " "      # (white space only: C05's IFS domain)
    L = ["shopt -u extglob nullglob failglob dotglob 2>/dev/null", "exec 3>&1"]
    if ctxname != "localvars":
        for n, v in VARS.items():
            L.append("%s=%s" % (n, sq(v)))
        for n, els in ARR.items():
            L.append("%s=(%s)" % (n, " ".join(sq(x) for x in els)))
    else:
        for n in VARS:
            L.append("%s=WRONG" % n)
        for n in ARR:
            L.append("%s=(WRONG 'W W')" % n)
    for n in UNSET:
        L.append("unset " + n)
    L.append(_ifs_line(other_ifs if ctxname == "localifs" else ifs))
    if optline:
        L.append(optline)
    obs = []

    def mark(j, label, oifs=ifs, odir="root"):
        obs.append((j, label, oifs, odir))
        return "printf '%%s\\0' '=MARK-%s-%d='" % (nonce, len(obs) - 1)

    def OBS(j, label, oifs=ifs, odir="root"):
        return mark(j, label, oifs, odir) + ' "$#" "$@"'

    sa = _setargs(args)
    callargs = "".join(" " + sq(a) for a in args)
    trap_body = []
    for j, w in enumerate(items):
        L.append("HOME=" + sq(w.home))
        core = "set -- " + w.text
        if ctxname == "func":
            L += ["f%d() { %s; %s; }" % (j, core, OBS(j, "func")), "set -- zz 'y y' qq", "f%d%s" % (j, callargs),
                  mark(j, "caller-args-after") + ' "$#" "$@"']
        elif ctxname == "func2":
            L += ["f%d() { %s; %s; }" % (j, core, OBS(j, "func2")), "g%d() { local zz=1; f%d \"$@\"; }" % (j, j),
                  "set -- zz", "g%d%s" % (j, callargs)]
        elif ctxname == "localvars":
            loc = "; ".join("local %s=%s" % (n, sq(v)) for n, v in VARS.items())
            loca = "; ".join("local -a %s=(%s)" % (n, " ".join(sq(x) for x in els)) for n, els in ARR.items())
            L += ["f%d() { %s; %s; local HOME=%s; %s; %s; }" % (j, loc, loca, sq(w.home), core, OBS(j, "localvars")),
                  "HOME=/WRONG", "f%d%s" % (j, callargs), mark(j, "globals-after") + ' 1 "$s"']
        elif ctxname == "localifs":
            L += ["f%d() { %s; %s; %s; }" % (j, _ifs_line(ifs, local=True), core, OBS(j, "localifs")),
                  "f%d%s" % (j, callargs), sa, core, OBS(j, "after-localifs", other_ifs)]
        elif ctxname == "subshell":
            L += ["( %s; %s; %s )" % (sa, core, OBS(j, "subshell"))]
        elif ctxname == "cmdsubst":
            L += ["z=$( %s; %s; { %s; } >&3 )" % (sa, core, OBS(j, "cmdsubst"))]
        elif ctxname == "eval":
            L += [sa, "eval " + sq(core), OBS(j, "eval")]
        elif ctxname == "group":
            L += [sa, "{ %s; %s; } 2>/dev/null" % (core, OBS(j, "group"))]
        elif ctxname == "lastpipe":
            L += ["shopt -s lastpipe", sa, ": | { %s; %s; }" % (core, OBS(j, "lastpipe"))]
        elif ctxname == "for":
            L += ["for i in 1 2; do %s; %s; %s; done" % (sa, core, OBS(j, "for-twice"))]
        elif ctxname == "while":
            L += [sa, "while :; do %s; %s; break; done" % (core, OBS(j, "while"))]
        elif ctxname == "forlist":
            L += [sa, "r=(); for zzw in %s; do r+=(\"$zzw\"); done" % w.text, mark(j, "forlist") + ' "${#r[@]}" "${r[@]}"']
        elif ctxname == "array":
            L += [sa, "r=(%s)" % w.text, mark(j, "array") + ' "${#r[@]}" "${r[@]}"']
        elif ctxname == "trap":
            # one EXIT trap of the main shell runs all the words (a subshell's own EXIT trap is C16's business)
            trap_body += ["HOME=" + sq(w.home), sa, core, OBS(j, "trap")]
        elif ctxname == "source":
            path = os.path.join(srcdir, "src-%s-%d.sh" % (nonce, j))
            with open(path, "w") as fh:
                fh.write(core + "\n")
            L += [sa, ". " + sq(path), OBS(j, "source")]
        elif ctxname == "cd":
            L += [sa, core, OBS(j, "before-cd"), "cd " + sq(altdir), sa, core, OBS(j, "after-cd", ifs, "alt"),
                  "cd " + sq(root), sa, core, OBS(j, "back")]
        elif ctxname == "heredoc-neighbour":
            # a here-document (whose body expands the same pieces) right before the word
            L += [sa, ": <<E%d\n%s\nE%d" % (j, w.text.replace("\\", ""), j), core, OBS(j, "after-heredoc")]
        elif ctxname == "assign-prefix":
            L += [sa, "v=%s eval %s" % (w.text, sq(mark(j, "assign-prefix") + ' 1 "$v"'))]
        elif ctxname == "export":
            L += [sa, "unset v; export v=%s" % w.text, mark(j, "export") + ' 1 "$v"']
        elif ctxname == "declare":
            L += [sa, "unset v; declare v=%s" % w.text, mark(j, "declare") + ' 1 "$v"']
        else:   # "top": the plain form, used with the options
            L += [sa, core, OBS(j, "top"), sa, core, OBS(j, "top-again")]
    if trap_body:
        L.append("trap " + sq("\n".join(trap_body)) + " EXIT")
    return "\n".join(L) + "\n", obs


ASSIGN_CONTEXTS = ("assign-prefix", "export", "declare")


def sweep(ctx, root, pool):
    """pool: the cases of the main stage (w, ifsname, ifs, args); a seeded sample goes through every context and option"""
    rng = ctx.rng
    altdir = tempfile.mkdtemp(prefix="c05-alt-")
    srcdir = tempfile.mkdtemp(prefix="c05-src-")
    try:
        c04.make_dir(altdir, ALTNAMES)
        variants = [(c, None) for c in SWEEP_CONTEXTS] + [("top", o) for o in SWEEP_OPTIONS] + \
                   [(rng.choice(["func", "subshell", "eval", "localifs"]), o) for o in SWEEP_OPTIONS]
        per = ctx.size(60, 1500)
        jobs = []
        for (cname, oname) in variants:
            sample = [pool[rng.randrange(len(pool))] for _ in range(per)]
            groups = {}
            for (w, n, ifs, args) in sample:
                if "${n}" in w.text and oname == "nounset":
                    continue            # `set -u` with nothing unset
                if oname == "errexit" and ("cmd" in w.feats):
                    pass
                groups.setdefault((ifs, tuple(args)), []).append(w)
            for (ifs, args), ws in groups.items():
                for ch in lib.chunked(ws, max(1, len(ws) // 30 + 1)):
                    jobs.append((cname, oname, ifs, list(args), ch))

        def one(job):
            cname, oname, ifs, args, ws = job
            nonce = "%08x" % random.getrandbits(32)
            optline = SWEEP_OPTIONS[oname][0] if oname else None
            sc, obs = sweep_script(ws, ifs, args, cname, optline, nonce, srcdir, altdir, root)
            ob = c04.split_records(run_script("brush", sc, root), nonce, len(obs))
            oo = c04.split_records(run_script("bash", sc, root), nonce, len(obs))
            return sc, obs, ob, oo
        res = lib.pmap(one, jobs, workers=WORKERS)
        # model predictions (for naming the clause of a difference) for every observation that differs
        pend = []
        for (cname, oname, ifs, args, ws), (sc, obs, ob, oo) in zip(jobs, res):
            for k, (j, label, oifs, odir) in enumerate(obs):
                w = ws[j]
                ctx.count(("sweep", cname, oname, w.text, oifs, tuple(args), label), nontrivial=len(w.toks) >= 2,
                          bucket="sweep:%s" % (oname or cname))
                ctx.impl_validated += 1
                b, o = _as_list(ob[k]), _as_list(oo[k])
                if b != o:
                    pend.append((cname, oname, oifs, args, w, label, odir, b, o, sc))
        def errored(oname, b, args):
            # under failglob a failed expansion aborts `set -- WORD`: nothing is printed, or the list set before it
            return oname == "failglob" and (b is None or b == list(args))

        def letters_of(oname, b, args, keep_f=False):
            l = (SWEEP_OPTIONS[oname][1] if oname else "E") or "E"
            # a failglob error in brush where bash has a result: classify what brush does without failglob
            return l.replace("f", "") if errored(oname, b, args) and not keep_f else l
        lines = [make_line(root, oifs, args, w, letters_of(oname, b, args), ALTNAMES if odir == "alt" else None)
                 for (cname, oname, oifs, args, w, label, odir, b, o, sc) in pend]
        mouts = lib.run_drv_parallel(["C04 " + l for l in lines], workers=WORKERS) if lines else []
        # `local IFS` left unset: is brush's list what an EMPTY IFS would give?
        # nullglob: the model's list without it, to see which patterns were removed
        nlines = [make_line(root, p[2], p[3], p[4], "E", ALTNAMES if p[6] == "alt" else None) for p in pend if p[1] == "nullglob"]
        nouts = iter(lib.run_drv_parallel(["C04 " + l for l in nlines], workers=WORKERS) if nlines else [])
        elines = [make_line(root, "", p[3], p[4], letters_of(p[1], p[7], p[3], keep_f=True)) for p in pend
                  if p[0] == "localifs" and p[2] == "u" and p[5] == "localifs"]
        eouts = iter(lib.run_drv_parallel(["C04 " + l for l in elines], workers=WORKERS) if elines else [])
        nv = 0
        for (cname, oname, oifs, args, w, label, odir, b, o, sc), m in zip(pend, mouts):
            parts = m.split(" %| ")
            impl, unmod = c04.parse_res(parts[0])
            spec, _ = c04.parse_res(parts[1]) if len(parts) > 1 else ("?", False)
            dflags = parts[2][1:] if len(parts) > 2 and parts[2].startswith("D") else "?"
            no_model_option = bool(oname) and SWEEP_OPTIONS[oname][1] is None
            modelled = cname not in ASSIGN_CONTEXTS and label not in ("caller-args-after", "globals-after")
            case = {"sweep": True, "context": cname, "option": oname, "observation": label, "word": w.text,
                    "tokens": w.toks, "feats": sorted(w.feats), "home": w.home, "ifs": oifs, "args": args,
                    "brush": b, "bash": o, "impl": impl if modelled and not no_model_option else None,
                    "spec": spec if modelled and not no_model_option else None, "outside_domain": dflags}
            b_eff = impl if (errored(oname, b, args) and isinstance(impl, list)) else b
            if cname in ASSIGN_CONTEXTS:
                cl = assign_clause(w, oifs, b, o)
            elif not modelled:
                cl = None
            elif no_model_option:
                # nocaseglob / globstar are not in the model: the domain flags still say which recorded defect the word
                # is exposed to; brush itself stands in for the model's list
                cl = clause_of(w, oifs, args, b, o, b, spec if spec == o else o, dflags)
            elif b_eff != impl:
                cl = None
            else:
                cl = clause_of(w, oifs, args, b_eff, o, impl, spec, dflags)
            if oname == "nullglob":
                impl_plain, _ = c04.parse_res(next(nouts).split(" %| ")[0])
                if not cl and modelled and b == impl and dot_fix_matches_nullglob(impl_plain, impl, o):
                    cl = "leading_empty_quoted_piece_hides_dotfiles"
            if cname == "localifs" and oifs == "u" and label == "localifs":
                impl_empty, _ = c04.parse_res(next(eouts).split(" %| ")[0])
                if (b == impl_empty or (errored(oname, b, args) and impl_empty is None)) and (o == spec or no_model_option):
                    cl = "unset_local_ifs_treated_as_empty"
            what = "in context %s%s (%s) the argument list differs from bash's: brush %r, bash %r" % (
                cname, " under " + oname if oname else "", label, b, o)
            if cl:
                ctx.known_or_violation(cl, what, case)
            elif nv < 25:
                nv += 1
                ctx.violation(what, case)
    finally:
        shutil.rmtree(altdir, ignore_errors=True)
        shutil.rmtree(srcdir, ignore_errors=True)


def _as_list(r):
    """records after a marker: `"$#" "$@"` -> the argument list, None when missing or inconsistent"""
    if not r:
        return None
    try:
        k = int(r[0])
    except ValueError:
        return None
    return r[1:] if len(r) == k + 1 else None


def assign_clause(w, ifs, brush, bash):
    """assignment values (`v=WORD cmd`, `export v=WORD`, `declare v=WORD`) are not modelled; the feature-triggered
    classes of difference:"""
    ifsv = " \t\n" if ifs == "u" else ifs
    if "brace" in w.feats:
        return "brace_expansion_in_assignment_value"
    if "star" in w.feats and ifsv == "":
        return "star_joined_with_space_when_ifs_empty"
    # `v=$@x` / `v=${k[*]}"q"`: the separator between the elements is chosen by the LAST piece of the word
    # (coalesce_expansions keeps the last piece's `concatenate`), not by the `$@`/`$*` piece itself
    if ({"at", "star"} & w.feats) and ifsv[:1] not in ("", " ") and isinstance(brush, list) and isinstance(bash, list) \
            and len(brush) == 1 and len(bash) == 1 and len(brush[0]) == len(bash[0]) \
            and all(x == y or {x, y} == {ifsv[0], " "} for x, y in zip(brush[0], bash[0])):
        return "array_join_in_assignment_follows_last_piece"
    return None


def small_words():
    """exhaustive family: every pair of pieces from a fixed list (seed-independent)"""
    base = [P("a", ["Ta"]), P("*", ["T*"], {"glob"}), P("${s}", ["Vs"], {"var"}), P("${e}", ["Ve"], {"var"}),
            P("${g2}", ["Vg2"], {"var"}), P("${n}", ["Vn"], {"var"}), P("$@", ["X@"], {"at"}), P("$*", ["X*"], {"star"}),
            P('"$@"', ["D(", "X@", "D)"], {"at", "dq"}), P('"$*"', ["D(", "X*", "D)"], {"star", "dq"}),
            P('"${k[@]}"', ["D(", "A@k", "D)"], {"at", "dq"}), P("${k[*]}", ["A*k"], {"star"}),
            P('""', ["D(", "D)"], {"dq"}), P("''", ["Q"], {"sq"}), P('"${s}"', ["D(", "Vs", "D)"], {"dq"}),
            P("{a,b}", ["B(", "Ta", "B|", "Tb", "B)"], {"brace"}), P("{${s},}", ["B(", "Vs", "B|", "B)"], {"brace", "var"}),
            P("${n:-a b}", ["O-:", "Vn", "Ta b", "O)"], {"op"}), P('"${n:-a b}"', ["D(", "O-:", "Vn", "Ta b", "O)", "D)"], {"op", "dq"}),
            P("${s:+\"${s}\"}", ["O+:", "Vs", "D(", "Vs", "D)", "O)"], {"op"}),
            P("$(printf %s ' x  y ')", ["C x  y "], {"cmd"}), P("$((1+1))", ["M2"], {"arith"}), P("\\*", ["E*"], {"esc"})]
    out = list(base)
    for a in base:
        for b in base:
            out.append(cat([a, b]))
    for home in HOMES:
        for w in TILDE_BRACE_WORDS:
            out.append(P(w.text, w.toks, w.feats, home=home))
        out.append(P("~", ["H"], {"tilde"}, home=home))
        for t in ("/", "/a", "/*", "/a*"):
            if home == "" and "*" in t:
                continue          # `/*` would list the real root directory (not modelled)
            out.append(P("~" + t, ["H", "T" + t], {"tilde"}, home=home))
        for b in base[:12]:
            if home == "" and (b.feats & {"glob", "var", "at", "star"}):
                continue
            out.append(P("~/" + b.text, ["H", "T/"] + b.toks, {"tilde"} | b.feats, home=home))
    return out


def same_text_two_readings(ctx, root):
    """The same characters read in two different ways within one shell process — as a word (tilde-prefix, brace
    expression, glob) and as an arithmetic expression / prompt string / quoted text — in both orders and repeated: a
    parse or pattern cache keyed on the text alone would hand one reading to the other (found missing by seed C05-4).
    brush against bash on identical script text, run in the fixed directory."""
    P = "p() { printf '<%s>' \"$@\"; echo; }\n"
    texts = [("~0", "$((~0))"), ("~+0", "$((~+0))"), ("~-0", "$((~-0))"), ("~1", "$((~1))"), ("~root", "$((~root))"),
             ("~+", "$((~+1))"), ("a*", "$((a*1))"), ("[ab]", "${a[ab]-w}"), ("~/a*", "$((~a*2))")]
    scripts = []
    for word, other in texts:
        pre = "root=5; a=3; ab=0\ncd %s\n" % sq(root)
        for body in ("p %s %s" % (other, word), "p %s %s" % (word, other), "p %s; p %s; p %s" % (other, word, other),
                     "p %s\np %s\np \"%s\" '%s'\np %s" % (word, other, word, word, word),
                     "f() { p %s; }; g() { p %s; }; g; f; g; f" % (word, other),
                     "v=%s; p \"$v\" %s; v=%s; p \"$v\" %s" % (other, word, word, other),
                     "x=%s; p $x %s; PS1x='%s'; p \"${PS1x@P}\" %s" % (sq(word), word, word, word)):
            scripts.append(P + pre + body + " 2>/dev/null\n")
    res = lib.pmap(lambda sc: lib.run_both(sc, timeout=20), scripts)
    for sc, (b, o) in zip(scripts, res):
        ctx.count("two-readings" + sc, nontrivial=True, bucket="same-text-two-readings")
        ctx.impl_validated += 1
        if (b["rc"], b["out"]) != (o["rc"], o["out"]) and not (b["timeout"] or o["timeout"]):
            ctx.violation("the same text read as a word and as an arithmetic expression / prompt in one shell: brush and bash differ",
                          {"script": sc, "brush": [b["rc"], b["out"]], "bash": [o["rc"], o["out"]], "brush_stderr": b["err"][-200:]})


# ------------------------------------------------------------------------------------------------
# IFS history: the fields of a word depend on IFS only through its CURRENT value (Props/C05.lean
# fields_depend_on_current_ifs_only: the model's expansion takes IFS as an argument and nothing else remembers it).
# The family below is where that statement meets the code: sequences of ways of setting IFS, with probes between
# them, brush against bash on identical text; the model is asked with the IFS in force at every probe.
# (Found missing by seed C05-5: a memo of IFS in ShellEnvironment not dropped by one of the assignment paths.)

HIST_IFS = [("dflt", " \t\n"), ("space", " "), ("newline", "\n"), ("empty", ""), ("colon", ":"), ("tab", "\t")]
HIST_ARGS = ["b c", ""]
HIST_WAYS = ["assign", "declare", "typeset", "export", "unset", "fn-assign", "fn-local", "fn-local-again",
             "fn-local-declare", "fn-declare-g", "prefix-read", "prefix-func", "subshell", "readonly"]
HIST_WAYS_INFN = ["assign", "declare", "typeset", "local", "fn-assign", "fn-local", "fn-local-again", "fn-local-declare",
                  "fn-declare-g", "prefix-read", "prefix-func", "subshell"]
HIST_VARIANTS = ["all", "init", "none"]     # probes everywhere / only before the first setting / only at the end


def hist_words():
    return [P("${t}", ["Vt"], {"var"}), P("${c}", ["Vc"], {"var"}), P('"$*"', ["D(", "X*", "D)"], {"star", "dq"}),
            P('"${k[*]}"', ["D(", "A*k", "D)"], {"star", "dq"}), P("$*", ["X*"], {"star"}),
            P("${c}${t}", ["Vc", "Vt"], {"var"})]


class Hist:
    """one sequence rendered as script text; obs[k] = (probe kind, word index or None, IFS in force) for marker k"""
    def __init__(self, nonce, words, k0=0, tag=""):
        self.nonce, self.words, self.L, self.obs, self.k0, self.tag, self.nf = nonce, words, [], [], k0, tag, 0

    def mark(self, kind, widx, ifs):
        self.obs.append((kind, widx, ifs))
        return "'=MARK-%s-%d='" % (self.nonce, self.k0 + len(self.obs) - 1)

    def probe(self, ifs):
        sa = _setargs(HIST_ARGS)
        for j, w in enumerate(self.words):
            if j == len(self.words) - 1:
                self.L.append("hn=(); for hw in %s; do hn+=(\"$hw\"); done; printf '%%s\\0' %s \"${#hn[@]}\" \"${hn[@]}\""
                              % (w.text, self.mark("for", j, ifs)))
            else:
                self.L.append("%s; set -- %s; printf '%%s\\0' %s \"$#\" \"$@\"" % (sa, w.text, self.mark("set", j, ifs)))
        self.L.append("read -r hx hy <<<\"$hr\"; printf '%%s\\0' %s 2 \"$hx\" \"$hy\"" % self.mark("read", None, ifs))

    def fn(self, body_fn, prefix=""):
        self.nf += 1
        name = "hf%s_%d" % (self.tag, self.nf)
        self.L.append(name + "() {")
        body_fn()
        self.L.append(":")
        self.L.append("}")
        self.L.append("%s%s%s" % (prefix, name, "".join(" " + sq(a) for a in HIST_ARGS)))


def hist_other(v, cur):
    for _, x in HIST_IFS:
        if x != v and x != cur:
            return x


def hist_render(h, initial, steps, variant, infn):
    """steps: [(way, value)]. Tracks the IFS in force (g: global value, l: the enclosing function's local or None)."""
    st = {"g": initial, "l": None}

    def cur():
        return st["l"] if st["l"] is not None else st["g"]

    def setvis(v):
        if st["l"] is not None:
            st["l"] = v
        else:
            st["g"] = v

    def body():
        h.L.append("IFS=" + sq(initial))
        if variant != "none":
            h.probe(cur())
        for i, (way, v) in enumerate(steps):
            last = i == len(steps) - 1
            pr = last or variant == "all"
            lit = sq(v)
            if way in ("assign", "export", "readonly"):
                h.L.append(("" if way == "assign" else way + " ") + "IFS=" + lit)
                setvis(v)
            elif way in ("declare", "typeset", "local"):
                h.L.append("%s IFS=%s" % (way, lit))
                if infn:
                    st["l"] = v
                else:
                    st["g"] = v
            elif way == "unset":
                h.L.append("unset IFS")
                setvis("u")
            elif way == "fn-assign":
                def b():
                    h.L.append("IFS=" + lit)
                    setvis(v)
                    if pr:
                        h.probe(cur())
                h.fn(b)
            elif way == "fn-declare-g":
                def b():
                    h.L.append("declare -g IFS=" + lit)
                    st["g"] = v
                    if pr:
                        h.probe(cur())
                h.fn(b)
            elif way == "fn-local":
                def b():
                    h.L.append("local IFS=" + lit)
                    if pr:
                        h.probe(v)
                h.fn(b)
            elif way in ("fn-local-again", "fn-local-declare"):
                v0 = hist_other(v, cur())

                def b():
                    h.L.append("local IFS=" + sq(v0))
                    if pr:
                        h.probe(v0)
                    h.L.append("%s IFS=%s" % ("local" if way == "fn-local-again" else "declare", lit))
                    if pr:
                        h.probe(v)
                h.fn(b)
            elif way == "prefix-read":
                h.L.append("IFS=%s read -r hx hy <<<\"$hr\"; printf '%%s\\0' %s 2 \"$hx\" \"$hy\""
                           % (lit, h.mark("read", None, v)))
            elif way == "prefix-func":
                def b():
                    if pr:
                        h.probe(v)
                h.fn(b, prefix="IFS=%s " % lit)
            elif way == "subshell":
                h.L.append("(")
                h.L.append("IFS=" + lit)
                if pr:
                    h.probe(v)
                h.L.append(")")
            else:
                raise ValueError(way)
            if pr:
                h.probe(cur())

    if infn:
        h.fn(body)
        st["l"] = None
        h.probe(cur())
    else:
        body()


def hist_prelude():
    L = ["shopt -u extglob nullglob failglob dotglob 2>/dev/null", "HOME=" + sq(HOME)]
    for n, v in VARS.items():
        L.append("%s=%s" % (n, sq(v)))
    for n in UNSET:
        L.append("unset " + n)
    for n, els in ARR.items():
        L.append("%s=(%s)" % (n, " ".join(sq(x) for x in els)))
    L.append("hr=" + sq("a:b c\td e"))
    return L


def hist_script(seqs, nonce, words, subshells):
    """seqs: [(initial, steps, variant, infn)] -> (script, obs of all sequences, obs index ranges)"""
    L = hist_prelude()
    obs, ranges = [], []
    for si, (initial, steps, variant, infn) in enumerate(seqs):
        h = Hist(nonce, words, k0=len(obs), tag=str(si))
        hist_render(h, initial, steps, variant, infn)
        ranges.append((len(obs), len(obs) + len(h.obs)))
        obs += h.obs
        L += (["("] + h.L + [")"]) if subshells else h.L
    return "\n".join(L) + "\n", obs, ranges


def hist_sequences(ctx):
    rng = ctx.rng
    vals = [v for _, v in HIST_IFS]
    if ctx.quick:
        pairs = [(" \t\n", " "), (" ", " \t\n"), (" \t\n", "\n"), ("\n", ":"), (":", " \t\n"), (" \t\n", ""), ("", " "),
                 (" ", ":"), ("\t", "\n")]
    else:
        pairs = [(a, b) for a in vals for b in vals if a != b]
    seqs = []
    # exhaustive (seed independent): first way x second way x IFS pair x probe variant, at top level; the initial
    # IFS is the second value of the pair (so the first step already changes it)
    for w1 in HIST_WAYS:
        if w1 == "readonly":
            continue
        for w2 in HIST_WAYS:
            for (a, b) in pairs:
                for variant in (HIST_VARIANTS if not ctx.quick else ["all", ["init", "none"][(len(seqs) // 2) % 2]]):
                    seqs.append((b, [(w1, a), (w2, b)], variant, False))
    # the same inside a function (declare / typeset / local make a local binding there)
    for w1 in HIST_WAYS_INFN:
        for w2 in HIST_WAYS_INFN:
            for (a, b) in (pairs if not ctx.quick else pairs[:4]):
                seqs.append((b, [(w1, a), (w2, b)], "all", True))
    nexh = len(seqs)
    # seeded: longer sequences
    for _ in range(ctx.size(600, 12000)):
        infn = rng.random() < 0.3
        ways = HIST_WAYS_INFN if infn else HIST_WAYS
        n = rng.randint(3, 4)
        steps = []
        for i in range(n):
            w = rng.choice(ways)
            while w == "readonly" and i != n - 1:
                w = rng.choice(ways)
            steps.append((w, rng.choice(vals)))
        seqs.append((rng.choice(vals), steps, rng.choice(HIST_VARIANTS), infn))
    return seqs, nexh


def hist_describe(seq):
    initial, steps, variant, infn = seq
    return {"initial_ifs": initial, "steps": [[w, v] for w, v in steps], "probes": variant, "inside_function": infn}


def ifs_history(ctx, root):
    words = hist_words()
    seqs, nexh = hist_sequences(ctx)
    # the model's lists for every (probe word, IFS in force)
    keys = [(j, ifs) for j in range(len(words)) for ifs in [v for _, v in HIST_IFS] + ["u"]]
    mouts = lib.run_drv_parallel(["C04 " + make_line(root, ifs, HIST_ARGS, words[j]) for (j, ifs) in keys], workers=WORKERS)
    model = {}
    for key, m in zip(keys, mouts):
        parts = m.split(" %| ")
        impl, unmod = c04.parse_res(parts[0])
        spec, _ = c04.parse_res(parts[1]) if len(parts) > 1 else ("?", False)
        dflags = parts[2][1:] if len(parts) > 2 and parts[2].startswith("D") else "?"
        model[key] = (impl, spec, dflags, unmod)
    per = 8
    batches = [seqs[i:i + per] for i in range(0, len(seqs), per)]

    def one(batch):
        nonce = "%08x" % random.getrandbits(32)
        sc, obs, ranges = hist_script(batch, nonce, words, True)
        ob = c04.split_records(run_script("brush", sc, root), nonce, len(obs))
        oo = c04.split_records(run_script("bash", sc, root), nonce, len(obs))
        return obs, ranges, ob, oo
    res = lib.pmap(one, batches, workers=WORKERS)
    nv = 0
    for batch, (obs, ranges, ob, oo) in zip(batches, res):
        for seq, (lo, hi) in zip(batch, ranges):
            ways = "+".join(w for w, _ in seq[1])
            bad = None
            for k in range(lo, hi):
                kind, widx, ifs = obs[k]
                ctx.count(("hist", repr(seq), k - lo), nontrivial=True,
                          bucket="ifs-history:%s" % kind)
                ctx.impl_validated += 1
                b, o = _as_list(ob[k]), _as_list(oo[k])
                if o is None:
                    ctx.bucket("ifs-history:bash-no-result")
                if widx is None:
                    if b != o and bad is None:
                        bad = (k - lo, None, "after the IFS history, `read -r x y` under IFS=%r differs from bash's: brush %r, bash %r" % (ifs, b, o), "property")
                    continue
                impl, spec, dflags, unmod = model[(widx, ifs)]
                w = words[widx]
                if o is not None and spec != o and not unmod:
                    ctx.oracle_mismatch += 1
                    if len(ctx.notes) < 8:
                        ctx.notes.append("spec != bash (IFS history): %s IFS=%r spec=%r bash=%r" % (w.text, ifs, spec, o))
                if b == o and (b == impl or unmod):
                    continue
                if b != o:
                    cl = clause_of(w, ifs, HIST_ARGS, b, o, impl, spec, dflags) if b == impl else None
                    what = "after the IFS history, %s under the IFS in force (%r) differs from bash's: brush %r, bash %r (model for that IFS: %r)" % (w.text, ifs, b, o, impl)
                    if cl:
                        ctx.known_or_violation(cl, what, dict(hist_describe(seq), history=True, word=w.text, ifs=ifs,
                                                              brush=b, bash=o, impl=impl, spec=spec,
                                                              script=hist_script([seq], "r", words, False)[0]))
                    elif bad is None:
                        bad = (k - lo, w.text, what, "property")
                elif bad is None:
                    bad = (k - lo, w.text, "after the IFS history, brush's list for %s is not the model's for the IFS in force (%r): brush %r, model %r" % (w.text, ifs, b, impl), "correspondence")
            ctx.bucket("ifs-history-seq:" + ("in-function" if seq[3] else "top-level") + ":" + seq[2])
            if bad is not None and nv < 25:
                nv += 1
                single = hist_script([seq], "r", words, False)[0]
                ctx.violation(bad[2], dict(hist_describe(seq), history=True, marker=bad[0], word=bad[1], ways=ways,
                                           script=single), kind=bad[3])
    return len(seqs), nexh


def hist_replay(c, root):
    sc = c["script"]
    n = sc.count("=MARK-r-")
    ob = c04.split_records(run_script("brush", sc, root), "r", n)
    oo = c04.split_records(run_script("bash", sc, root), "r", n)
    print(sc)
    bad = 0
    for k in range(n):
        flag = "" if ob[k] == oo[k] else "   <-- differs"
        print("marker %-3d brush %r\n           bash  %r%s" % (k, ob[k], oo[k], flag))
        bad |= ob[k] != oo[k]
    return 1 if bad else 0


def run(ctx):
    ok, out = lib.cargo_build([BIN])
    if not ok:
        lib.log(out[-4000:])
        ctx.broken.append("harness c04 does not build against the current tree: " + lib._first_errors(out))
    ctx.proof_stage()
    if not ok:
        return
    root = tempfile.mkdtemp(prefix="c05-dir-")
    try:
        c04.make_dir(root, DIRNAMES)
        rng = ctx.rng
        cases = []
        cdir = os.path.join(lib.ROOT, "corpus", PROP)
        if os.path.isdir(cdir):
            for f in sorted(os.listdir(cdir)):
                if f.endswith(".json"):
                    for c in json.load(open(os.path.join(cdir, f))):
                        cases.append((P(c["word"], c["tokens"], c.get("feats", ()), home=c.get("home")), "corpus", c["ifs"], c["args"]))
        ncorp = len(cases)
        sw = small_words()
        for i, w in enumerate(sw):
            for (n, ifs) in (IFSES if not ctx.quick else [IFSES[i % len(IFSES)], IFSES[(i + 3) % len(IFSES)]]):
                cases.append((w, n, ifs, ARGSETS[(i + len(n)) % len(ARGSETS)]))
        nsmall = len(cases)
        for _ in range(ctx.size(12000, 120000)):
            args = rng.choice(ARGSETS)
            g = Gen(rng, len(args))
            w = g.word(ctx.size(4, 6))
            n, ifs = rng.choice(IFSES)
            cases.append((w, n, ifs, args))
        bouts = decide(ctx, root, cases[:nsmall], "exh")
        decide(ctx, root, cases[nsmall:], "rand")
        sweep(ctx, root, cases)
        same_text_two_readings(ctx, root)
        nseq, nexh = ifs_history(ctx, root)
        ctx.sample({"word": cases[ncorp][0].text, "tokens": cases[ncorp][0].toks, "brush_inproc": bouts[ncorp]})
        ctx.sample({"word": cases[-1][0].text, "tokens": cases[-1][0].toks, "ifs": cases[-1][2], "args": cases[-1][3]})
    finally:
        shutil.rmtree(root, ignore_errors=True)
    ctx.cov["rule"] = ("words from the piece grammar in tools/c05.py (text incl. glob characters, single/double quotes, "
                       "escapes, ${v}, $@/$*, ${k[@]}/${k[*]}, ${#}, positional, command and arithmetic substitution, "
                       "${p:-w}/${p-w}/${p:+w}/${p+w} nested one level, brace expressions, tilde): an exhaustive family of all "
                       "pairs of %d fixed pieces, plus seeded random words of up to %d pieces; environments with empty, "
                       "blank-padded, multi-field, glob-like values; positional lists of length 0-3; IFS in {unset, default, "
                       "space, newline, empty}; a directory with dot-files and names with spaces. non-trivial = at least 2 tokens"
                       % (23, ctx.size(4, 6)) +
                       ". IFS history family: %d sequences (%d exhaustive = first way x second way x IFS pair x probe "
                       "variant, at top level and inside a function; the rest seeded, 3-4 steps) of ways of setting IFS "
                       "(plain, declare, typeset, export, readonly, unset, in a function plain / local / local twice / local "
                       "then declare / declare -g, prefix on read / on a function, subshell) over IFS in {default, space, "
                       "newline, empty, ':', tab}, with probes (${t} ${c} \"$*\" \"${k[*]}\" $* as `set --`, a for list, "
                       "`read -r x y`) before, between and after: brush against bash, and against the model for the IFS in "
                       "force at each probe" % (nseq, nexh))
    ctx.assumptions += ["bash 5.2.15 is the oracle; the Lean reference semantics (Spec/WordExp.lean specExpandB) is validated "
                        "against it on every case (oracle_mismatch)",
                        "one directory level; command substitution output and arithmetic values supplied to the model as data",
                        "the word parser is exercised by the correspondence run, not modelled"]


def replay(ctx, rp):
    lib.cargo_build([BIN])
    c = rp["case"]
    root = tempfile.mkdtemp(prefix="c05-dir-")
    try:
        c04.make_dir(root, DIRNAMES)
        if c.get("history"):
            return hist_replay(c, root)
        if c.get("sweep"):
            w = P(c["word"], c["tokens"], c.get("feats", ()), home=c.get("home"))
            altdir = tempfile.mkdtemp(prefix="c05-alt-")
            srcdir = tempfile.mkdtemp(prefix="c05-src-")
            c04.make_dir(altdir, ALTNAMES)
            # the context's own IFS is the one the word is expanded under; `after-localifs` ran under the outer one
            ifs = c["ifs"]
            optline = SWEEP_OPTIONS[c["option"]][0] if c.get("option") else None
            sc, obs = sweep_script([w], ifs, c["args"], c["context"], optline, "r", srcdir, altdir, root)
            ob = c04.split_records(run_script("brush", sc, root), "r", len(obs))
            oo = c04.split_records(run_script("bash", sc, root), "r", len(obs))
            shutil.rmtree(altdir, ignore_errors=True)
            shutil.rmtree(srcdir, ignore_errors=True)
            print(sc)
            bad = 0
            for k, (j, label, oifs, odir) in enumerate(obs):
                print("%-18s brush %r\n%-18s bash  %r" % (label, _as_list(ob[k]), "", _as_list(oo[k])))
                bad |= _as_list(ob[k]) != _as_list(oo[k])
            return 1 if bad else 0
        w = P(c["word"], c["tokens"], c.get("feats", ()), home=c.get("home"))
        line = make_line(root, c["ifs"], c["args"], w)
        _, b, _ = lib.run_vh(BIN, [line])
        m = lib.run_drv(["C04 " + line])[0].split(" %| ")
        sc = script_for([w], c["ifs"], c["args"], "r")
        rb = records(run_script("brush", sc, root), "r", 1)[0]
        ro = records(run_script("bash", sc, root), "r", 1)[0]
        print("word:  %s   IFS=%r args=%r" % (w.text, c["ifs"], c["args"]))
        print("brush: %r" % (rb,))
        print("bash:  %r" % (ro,))
        print("brush in-process: %s" % (b[0] if b else "<none>"))
        print("model: %s   spec: %s" % (m[0], m[1] if len(m) > 1 else "?"))
        impl, unmod = c04.parse_res(m[0])
        bin_, _ = c04.parse_res(b[0]) if b else (None, False)
        return 1 if (rb != ro or (bin_ != impl and not unmod)) else 0
    finally:
        shutil.rmtree(root, ignore_errors=True)
