"""C05 — unquoted words expand to the same argument lists as in bash.

Words are drawn from a grammar of word pieces (literal text, quotes, `${v}`, `$@`/`$*`, array expansions,
command and arithmetic substitutions, `${p:-w}` operators, brace expressions, tilde, glob characters); each
word is rendered as shell text (for brush and bash) and as the parser's piece list (for the Lean model and the
Lean reference semantics).  Four results per case:
    brush  (binary, `set -- WORD; printf '%s\\0' "$#" "$@"`)      bash (same script)
    impl   (Model/Expand.lean, mirrors brush incl. defects)        spec (Spec/WordExp.lean, bash's order of expansions)
plus brush's expander in-process (harness c04) against impl.  Decision protocol of DESIGN.md section 4.
"""
import json
import os
import random
import shutil
import subprocess
import tempfile
import lib
import c04
from lib import esc, unesc
from c04 import WORKERS

PROP = "C05"
BIN = "c04"       # C04 and C05 share the harness binary and the Lean driver

DIRNAMES = ["a", "ab", "b", "a b", ".h", ".hid den", "x", "xyz", "c d", "*x"]
HOME = "/hh"
# homes a tilde-prefix is resolved against: the result of tilde expansion is never split, globbed or dropped
HOMES = ["/hh", "/h h", "*", "", "a*", " /x ", "/h\th", ".h*", "a b"]
VARS = {"e": "", "s": " a  b ", "m": "x y z", "g": "*", "g2": "a* .h", "t": "a\tb\nc", "c": "a:b c", "q": "'a b'", "w": "ab"}
UNSET = ["n"]
ARR = {"k": ["1 2", "", "*"], "k0": []}
IFSES = [("unset", "u"), ("dflt", " \t\n"), ("space", " "), ("newline", "\n"), ("empty", "")]
ARGSETS = [[], ["a"], ["b c", ""], ["", "*", " x "], ["a", "b"]]


def sq(s):
    return "'" + s.replace("'", "'\\''") + "'"


class P:
    """a word piece: shell text + model tokens + feature tags"""
    def __init__(self, text, toks, feats=(), home=None):
        self.text, self.toks, self.feats = text, list(toks), set(feats)
        self.home = HOME if home is None else home


def cat(ps):
    homes = [p.home for p in ps if p.home != HOME]
    return P("".join(p.text for p in ps), [t for p in ps for t in p.toks], set().union(*[p.feats for p in ps]) if ps else set(),
             home=homes[0] if homes else None)


def _tw(text, toks, feats):
    return P(text, toks, set(feats) | {"tilde"})


# tilde words of the exhaustive family (also the only ones used with an empty home)
TILDE_BRACE_WORDS = [
    _tw("{~,a}", ["B(", "H", "B|", "Ta", "B)"], {"brace"}),
    _tw("{a,~}", ["B(", "Ta", "B|", "H", "B)"], {"brace"}),
    _tw("{~/x,~/y}", ["B(", "H", "T/x", "B|", "H", "T/y", "B)"], {"brace"}),
    _tw("~/b{x,y}", ["H", "T/b", "B(", "Tx", "B|", "Ty", "B)"], {"brace"}),
    _tw("~{,/a}", ["H", "B(", "B|", "T/a", "B)"], {"brace"}),
    _tw("{a,~/b}c", ["B(", "Ta", "B|", "H", "T/b", "B)", "Tc"], {"brace"}),
    _tw("{~/a,b}", ["B(", "H", "T/a", "B|", "Tb", "B)"], {"brace"}),
    _tw("x{~,a}", ["Tx", "B(", "H", "B|", "Ta", "B)"], {"brace"}),
    _tw("~/{a,b}/~", ["H", "T/", "B(", "Ta", "B|", "Tb", "B)", "T/~"], {"brace"}),
]
EMPTY_HOME_WORDS = [_tw("~", ["H"], ()), _tw("~/", ["H", "T/"], ()), _tw("~/a", ["H", "T/a"], ())] + TILDE_BRACE_WORDS


class Gen:
    def __init__(self, rng, nargs):
        self.r = rng
        self.nargs = nargs

    def text(self, glob=True):
        pool = ["a", "b", "ab", "x", "-", ".", "c", "1"] + (["*", "?", "a*", ".*", "[ab]", "*b"] if glob else [])
        s = self.r.choice(pool)
        return P(s, ["T" + s], {"glob"} if any(c in s for c in "*?[") else ())

    def var(self):
        r = self.r.random()
        if r < 0.55:
            n = self.r.choice(list(VARS) + UNSET)
            return P("${%s}" % n, ["V" + n], {"var"})
        if r < 0.65:
            return P("$@", ["X@"], {"at"})
        if r < 0.75:
            return P("$*", ["X*"], {"star"})
        if r < 0.82:
            n = self.r.choice(list(ARR))
            return P("${%s[@]}" % n, ["A@" + n], {"at"})
        if r < 0.89:
            n = self.r.choice(list(ARR))
            return P("${%s[*]}" % n, ["A*" + n], {"star"})
        if r < 0.93:
            return P("${#}", ["#"], ())
        if r < 0.97 and self.nargs:
            k = self.r.randint(1, 3)
            return P("${%d}" % k, ["P%d" % k], {"var"})
        n = self.r.choice(list(VARS))
        return P('$(printf %%s "${%s}")' % n, ["Y" + n], {"cmd"})

    def subst(self):
        r = self.r.random()
        if r < 0.5:
            out = self.r.choice(["a  b", " x", "*", "a\n\n", "", "p q\n"])
            return P("$(printf %s)" % sq(out), ["C" + out], {"cmd"})
        a, b = self.r.randint(0, 9), self.r.randint(0, 9)
        return P("$((%d+%d))" % (a, b), ["M%d" % (a + b)], {"arith"})

    def dq_atom(self):
        r = self.r.random()
        if r < 0.4:
            s = self.r.choice(["a", " ", "a b", "*", " * ", "x'y", "", "?"])
            return P(s, ["T" + s] if s else [], ())
        if r < 0.85:
            return self.var()
        return self.subst()

    def dq(self, maxn=3):
        ps = [self.dq_atom() for _ in range(self.r.randint(0, maxn))]
        c = cat(ps)
        return P('"' + c.text + '"', ["D("] + c.toks + ["D)"], c.feats | {"dq"})

    def sq(self):
        s = self.r.choice(["", "a b", "*", " ", "$v", "a"])
        return P(sq(s), ["Q" + s], {"sq"})

    def esc(self):
        c = self.r.choice(["*", " ", "$", "a", "?", "\\", '"'])
        return P("\\" + c, ["E" + c], {"esc"})

    def op(self, in_dq):
        while True:
            p = self.op1(in_dq)
            # not generated: runs of blanks inside ${…} (C06-9, another property's finding) and operands that are
            # only a quoted null (`${v:+""}`): bash 5.2 itself drops neighbouring quoted nulls there
            # (`s="a "; set -- ""$s${v:+""}` gives 1 argument, `""$s""` gives 3)
            if "  " not in p.text and '""' not in p.text and "''" not in p.text:
                return p

    def op1(self, in_dq):
        n = self.r.choice(list(VARS) + UNSET + ["e", "n"])
        kind = self.r.choice(["-", "+"])
        colon = self.r.random() < 0.6
        # the operand: pieces that read the same inside and outside double quotes
        if in_dq:
            r = self.r.random()
            if r < 0.3:
                inner = [self.dq_plain() for _ in range(self.r.randint(1, 2))]
                c = cat(inner)
                w = P('"' + c.text + '"', ["D("] + c.toks + ["D)"], c.feats)
            else:
                w = cat([self.dq_plain() for _ in range(self.r.randint(0, 2))])
        else:
            parts = []
            for _ in range(self.r.randint(0, 2)):
                r = self.r.random()
                if r < 0.4:
                    s = self.r.choice(["a", "a b", " a ", "*", "b"])
                    parts.append(P(s, ["T" + s], {"glob"} if "*" in s else ()))
                elif r < 0.7:
                    parts.append(self.plain_var())
                else:
                    inner = cat([self.dq_plain() for _ in range(self.r.randint(0, 2))])
                    parts.append(P('"' + inner.text + '"', ["D("] + inner.toks + ["D)"], inner.feats))
            w = cat(parts)
        return P("${%s%s%s%s}" % (n, ":" if colon else "", kind, w.text),
                 ["O%s%s" % (kind, ":" if colon else "."), "V" + n] + w.toks + ["O)"], w.feats | {"op"})

    def dq_plain(self):
        if self.r.random() < 0.5:
            s = self.r.choice(["a", "a b", " ", "*", "b "])
            return P(s, ["T" + s], ())
        return self.plain_var()

    def plain_var(self):
        n = self.r.choice(list(VARS) + UNSET)
        return P("${%s}" % n, ["V" + n], {"var"})

    def dq_with_op(self):
        ps = []
        for _ in range(self.r.randint(1, 3)):
            ps.append(self.op(True) if self.r.random() < 0.5 else self.dq_atom())
        c = cat(ps)
        return P('"' + c.text + '"', ["D("] + c.toks + ["D)"], c.feats | {"dq"})

    def piece(self, braces=True):
        r = self.r.random()
        if r < 0.22:
            return self.text()
        if r < 0.45:
            return self.var()
        if r < 0.55:
            return self.subst()
        if r < 0.67:
            return self.dq()
        if r < 0.73:
            return self.sq()
        if r < 0.78:
            return self.esc()
        if r < 0.86:
            return self.op(False)
        if r < 0.90:
            return self.dq_with_op()
        if braces:
            return self.braces()
        return self.text()

    def braces(self):
        alts = []
        for _ in range(self.r.randint(2, 3)):
            if getattr(self, "tilde_in_braces", False) and self.r.random() < 0.5:
                alts.append(self.tilde_alt())
                continue
            ps = [self.piece(braces=False) for _ in range(self.r.choice([0, 1, 1, 1, 2]))]
            # inside a brace expression: no unquoted comma/brace characters are generated; fine
            alts.append(cat(ps))
        toks = ["B("]
        for i, a in enumerate(alts):
            if i:
                toks.append("B|")
            toks += a.toks
        toks.append("B)")
        return P("{" + ",".join(a.text for a in alts) + "}", toks, set().union(*[a.feats for a in alts]) | {"brace"})

    def tilde_alt(self):
        """a brace alternative that starts with a tilde-prefix: `~`, `~/`, `~/a`, `~/<piece>`"""
        r = self.r.random()
        if r < 0.35:
            return P("~", ["H"], {"tilde"})
        if r < 0.7:
            t = self.r.choice(["/", "/a", "/a*", "/x"])
            return P("~" + t, ["H", "T" + t], {"tilde"} | ({"glob"} if "*" in t else set()))
        rest = self.piece(braces=False)
        return P("~/" + rest.text, ["H", "T/"] + rest.toks, {"tilde"} | rest.feats)

    def word(self, maxp):
        x = self.r.random()
        if x < 0.09:
            # a tilde-prefix: alone, before `/text`, before `/` and further pieces, in front of or inside a brace
            # expression — under a home with blanks, glob characters or nothing in it
            home = self.r.choice(HOMES)
            if home == "":
                # an empty home makes `~/…` an absolute path: no glob-capable piece after it (the model's directory
                # is one level deep, the real root is not modelled)
                w = self.r.choice(EMPTY_HOME_WORDS)
                return P(w.text, w.toks, w.feats, home=home)
            if x < 0.02:
                w = P("~", ["H"], {"tilde"})
            elif x < 0.04:
                t = self.r.choice(["/", "/a", "/*", "/a*", "/x y"[:2]])
                w = P("~" + t, ["H", "T" + t], {"tilde"} | ({"glob"} if "*" in t else set()))
            elif x < 0.065:
                rest = cat([self.piece() for _ in range(self.r.randint(1, max(1, maxp - 1)))])
                w = P("~/" + rest.text, ["H", "T/"] + rest.toks, {"tilde"} | rest.feats)
            else:
                self.tilde_in_braces = True
                try:
                    w = cat([self.piece() if i else self.braces() for i in range(self.r.randint(1, max(1, maxp - 1)))])
                finally:
                    self.tilde_in_braces = False
            w.home = home
            return w
        return cat([self.piece() for _ in range(self.r.randint(1, maxp))])


def env_fields(ifs, args, home=HOME):
    f = []
    if ifs == "u":
        f.append("u")
    else:
        f.append(esc("i" + ifs))
    f.append(esc("oE"))
    f.append(esc("h" + home))
    for n, v in VARS.items():
        f.append(esc("v%s=%s" % (n, v)))
    for n, els in ARR.items():
        f.append(esc("a" + n))
        f += [esc("e" + x) for x in els]
    f += [esc("p" + a) for a in args]
    return f


def make_line(root, ifs, args, w):
    return " ".join([esc("d" + root)] + env_fields(ifs, args, w.home) + [esc("n" + n) for n in DIRNAMES] +
                    ["Kb"] + [esc(t) for t in w.toks] + [esc("w" + w.text)])


def script_for(words, ifs, args, nonce):
    L = ["shopt -u extglob nullglob failglob dotglob 2>/dev/null", "HOME=" + sq(HOME)]
    for n, v in VARS.items():
        L.append("%s=%s" % (n, sq(v)))
    for n in UNSET:
        L.append("unset " + n)
    for n, els in ARR.items():
        L.append("%s=(%s)" % (n, " ".join(sq(x) for x in els)))
    L.append("unset IFS" if ifs == "u" else "IFS=" + sq(ifs))
    setargs = "set --" + "".join(" " + sq(a) for a in args)
    for j, w in enumerate(words):
        L.append(setargs)
        L.append("HOME=" + sq(w.home))
        L.append("set -- " + w.text)
        L.append("printf '%%s\\0' '=MARK-%s-%d=' \"$#\" \"$@\"" % (nonce, j))
    return "\n".join(L) + "\n"


def run_script(which, script, cwd):
    cmd = lib.shell_cmd(which, script)
    try:
        p = subprocess.run(cmd, cwd=cwd, env=dict(lib.BASE_ENV), stdin=subprocess.DEVNULL, stdout=subprocess.PIPE,
                           stderr=subprocess.PIPE, timeout=120)
        return p.stdout
    except subprocess.TimeoutExpired:
        return b""


def records(out, nonce, n):
    res = c04.split_records(out, nonce, n)
    outl = []
    for r in res:
        if r is None or not r:
            outl.append(None)
            continue
        try:
            k = int(r[0])
        except ValueError:
            outl.append(None)
            continue
        outl.append(r[1:] if len(r) == k + 1 else None)
    return outl


EMPTY_PIECE = r"""(?:""|''|\$\{e\}|\$\{n\}|\$\{k0\[[@*]\]\})"""


def empty_brace_alt(toks):
    """some brace expression has an alternative with no pieces at all"""
    for i, t in enumerate(toks[:-1]):
        if t in ("B(", "B|") and toks[i + 1] in ("B|", "B)"):
            return True
    return False


def tilde_only_difference(brush, bash, home):
    """same number of arguments, and the differing ones are `~…` in brush where bash has `<home>…`"""
    if not isinstance(brush, list) or not isinstance(bash, list) or len(brush) != len(bash):
        return False
    hit = False
    for x, y in zip(brush, bash):
        if x == y:
            continue
        if x.startswith("~") and y == home + x[1:]:
            hit = True
        else:
            return False
    return hit


def dot_fix_matches(lst, bash):
    """`lst` has unmatched patterns starting with '.' where bash has the dot-files they match (an empty quoted or
    empty-valued piece precedes the dot): replacing some of them by their matches gives bash's list"""
    import fnmatch
    import itertools
    cands = [i for i, x in enumerate(lst) if x.startswith(".") and any(c in x for c in "*?[")][:10]
    for pick in itertools.product([False, True], repeat=len(cands)):
        if not any(pick):
            continue
        chosen = {i for i, p in zip(cands, pick) if p}
        fixed = []
        for i, x in enumerate(lst):
            m = sorted(n for n in DIRNAMES if fnmatch.fnmatchcase(n, x)) if i in chosen else []
            fixed += m if m else [x]
        if fixed == bash:
            return True
    return False


def clause_of(w, ifs, args, brush, bash, impl, spec, dflags=""):
    """name the recorded defect class a brush/bash difference falls into (by the feature that triggers it).
    `dflags`: the conjuncts of the proved domain (Props/C05.lean InDomain) the case violates, from the driver."""
    import re
    ifsv = " \t\n" if ifs == "u" else ifs
    # a tilde-prefix lost in the joined text of a brace expansion: tested first, and only when it is the whole
    # difference (so it neither swallows nor is swallowed by the other brace clauses)
    if "tilde" in w.feats and "brace" in w.feats and "t" in dflags and brush == impl \
            and tilde_only_difference(brush, bash, w.home):
        return "tilde_after_brace_alternative_not_expanded"
    if "brace" in w.feats and " " not in ifsv:
        return "brace_alternatives_joined_with_space"
    if "star" in w.feats and ifsv == "":
        return "star_joined_with_space_when_ifs_empty"
    if "brace" in w.feats and empty_brace_alt(w.toks) and isinstance(brush, list) and isinstance(bash, list) \
            and [x for x in brush if x != ""] == [x for x in bash if x != ""]:
        return "empty_brace_alternative_kept"
    if "at" in w.feats and "dq" in w.feats and isinstance(brush, list) and isinstance(bash, list) \
            and len(brush) > len(bash) and [x for x in brush if x != ""] == [x for x in bash if x != ""]:
        return "empty_at_in_quotes_with_null_rest_keeps_field"
    if isinstance(brush, list) and isinstance(bash, list) and brush == impl and dot_fix_matches(brush, bash):
        return "leading_empty_quoted_piece_hides_dotfiles"
    # several recorded defects at once (e.g. `{,~/a}`: empty alternative kept AND tilde-prefix lost): DESIGN.md §4 —
    # brush == impl, bash == spec, outside the proved domain; named after the first failing conjunct
    # (the reference semantics shares brush's glob and `"$@"` code, so `spec` may still differ from bash by C05-4/C05-5)
    spec_ok = bash == spec or (isinstance(spec, list) and isinstance(bash, list) and (
        dot_fix_matches(spec, bash) or
        ("at" in w.feats and "dq" in w.feats and len(spec) > len(bash)
         and [x for x in spec if x != ""] == [x for x in bash if x != ""])))
    if brush == impl and spec_ok and dflags not in ("", "?"):
        if "e" in dflags and "star" in w.feats:
            return "star_joined_with_space_when_ifs_empty"
        if "s" in dflags:
            return "brace_alternatives_joined_with_space"
        if "n" in dflags:
            return "empty_brace_alternative_kept"
        if "t" in dflags and "tilde" in w.feats and "brace" in w.feats:
            return "tilde_after_brace_alternative_not_expanded"
    return None


def decide(ctx, root, cases, tag):
    """cases: list of (w, ifsname, ifs, args)"""
    lines = [make_line(root, ifs, args, w) for (w, _, ifs, args) in cases]
    okh, bouts, errs = lib.run_vh_parallel(BIN, lines, workers=WORKERS)
    if not okh:
        ctx.broken.append("harness c04 died: " + errs[:500])
    mouts = lib.run_drv_parallel(["C04 " + l for l in lines], workers=WORKERS)
    # binary runs, batched per (ifs, args)
    groups = {}
    for idx, (w, n, ifs, args) in enumerate(cases):
        groups.setdefault((ifs, tuple(args)), []).append(idx)
    batches = []
    for (ifs, args), idxs in groups.items():
        for ch in lib.chunked(idxs, max(1, len(idxs) // 40 + 1)):
            batches.append((ifs, list(args), ch))

    def one(bt):
        ifs, args, idxs = bt
        nonce = "%08x" % random.getrandbits(32)
        sc = script_for([cases[i][0] for i in idxs], ifs, args, nonce)
        return (records(run_script("brush", sc, root), nonce, len(idxs)),
                records(run_script("bash", sc, root), nonce, len(idxs)))
    res = lib.pmap(one, batches, workers=WORKERS)
    bin_b, bin_o = {}, {}
    for (ifs, args, idxs), (rb, ro) in zip(batches, res):
        for i, x, y in zip(idxs, rb, ro):
            bin_b[i], bin_o[i] = x, y
    nv = 0
    for idx, ((w, ifsname, ifs, args), b, m) in enumerate(zip(cases, bouts, mouts)):
        ctx.count((w.text, ifsname, tuple(args)), nontrivial=len(w.toks) >= 2, bucket="%s:ifs=%s" % (tag, ifsname))
        for ft in sorted(w.feats):
            ctx.bucket("feat:" + ft)
        ctx.impl_validated += 1
        parts = m.split(" %| ")
        impl, unmod = c04.parse_res(parts[0])
        spec, _ = c04.parse_res(parts[1]) if len(parts) > 1 else ("?", False)
        dflags = parts[2][1:] if len(parts) > 2 and parts[2].startswith("D") else "?"
        bin_, _ = c04.parse_res(b)
        brush, bash = bin_b.get(idx), bin_o.get(idx)
        case = {"word": w.text, "tokens": w.toks, "feats": sorted(w.feats), "home": w.home, "ifs": ifs, "args": args,
                "brush": brush, "bash": bash, "brush_inproc": bin_, "impl": impl, "spec": spec, "outside_domain": dflags}
        if bash is not None and spec != bash and not unmod:
            ctx.oracle_mismatch += 1
            if len(ctx.notes) < 8:
                ctx.notes.append("spec != bash: %s IFS=%r args=%r spec=%r bash=%r" % (w.text, ifs, args, spec, bash))
        if bash is None:
            ctx.bucket("bash:no-result(error or framing lost)")
        if brush is None:
            ctx.bucket("brush:no-result(error or framing lost)")
        prop_fail = brush != bash
        tie_fail = (bin_ != impl and not unmod) or (brush is not None and bin_ != brush and bin_ is not None)
        if not prop_fail and not tie_fail:
            continue
        if prop_fail:
            cl = clause_of(w, ifs, args, brush, bash, impl, spec, dflags)
            what = "argument list differs from bash's: brush %r, bash %r" % (brush, bash)
            if cl and not tie_fail:
                ctx.known_or_violation(cl, what, case)
            elif nv < 25:
                nv += 1
                ctx.violation(what + ("" if not tie_fail else " (and the model disagrees with brush)"), case)
        elif nv < 25:
            nv += 1
            ctx.violation("expansion model and brush disagree (correspondence broken)", case, kind="correspondence")
    return bouts


def small_words():
    """exhaustive family: every pair of pieces from a fixed list (seed-independent)"""
    base = [P("a", ["Ta"]), P("*", ["T*"], {"glob"}), P("${s}", ["Vs"], {"var"}), P("${e}", ["Ve"], {"var"}),
            P("${g2}", ["Vg2"], {"var"}), P("${n}", ["Vn"], {"var"}), P("$@", ["X@"], {"at"}), P("$*", ["X*"], {"star"}),
            P('"$@"', ["D(", "X@", "D)"], {"at", "dq"}), P('"$*"', ["D(", "X*", "D)"], {"star", "dq"}),
            P('"${k[@]}"', ["D(", "A@k", "D)"], {"at", "dq"}), P("${k[*]}", ["A*k"], {"star"}),
            P('""', ["D(", "D)"], {"dq"}), P("''", ["Q"], {"sq"}), P('"${s}"', ["D(", "Vs", "D)"], {"dq"}),
            P("{a,b}", ["B(", "Ta", "B|", "Tb", "B)"], {"brace"}), P("{${s},}", ["B(", "Vs", "B|", "B)"], {"brace", "var"}),
            P("${n:-a b}", ["O-:", "Vn", "Ta b", "O)"], {"op"}), P('"${n:-a b}"', ["D(", "O-:", "Vn", "Ta b", "O)", "D)"], {"op", "dq"}),
            P("${s:+\"${s}\"}", ["O+:", "Vs", "D(", "Vs", "D)", "O)"], {"op"}),
            P("$(printf %s ' x  y ')", ["C x  y "], {"cmd"}), P("$((1+1))", ["M2"], {"arith"}), P("\\*", ["E*"], {"esc"})]
    out = list(base)
    for a in base:
        for b in base:
            out.append(cat([a, b]))
    for home in HOMES:
        for w in TILDE_BRACE_WORDS:
            out.append(P(w.text, w.toks, w.feats, home=home))
        out.append(P("~", ["H"], {"tilde"}, home=home))
        for t in ("/", "/a", "/*", "/a*"):
            if home == "" and "*" in t:
                continue          # `/*` would list the real root directory (not modelled)
            out.append(P("~" + t, ["H", "T" + t], {"tilde"}, home=home))
        for b in base[:12]:
            if home == "" and (b.feats & {"glob", "var", "at", "star"}):
                continue
            out.append(P("~/" + b.text, ["H", "T/"] + b.toks, {"tilde"} | b.feats, home=home))
    return out


def run(ctx):
    ok, out = lib.cargo_build([BIN])
    if not ok:
        lib.log(out[-4000:])
        ctx.broken.append("harness c04 does not build against the current tree: " + lib._first_errors(out))
    ctx.proof_stage()
    if not ok:
        return
    root = tempfile.mkdtemp(prefix="c05-dir-")
    try:
        c04.make_dir(root, DIRNAMES)
        rng = ctx.rng
        cases = []
        cdir = os.path.join(lib.ROOT, "corpus", PROP)
        if os.path.isdir(cdir):
            for f in sorted(os.listdir(cdir)):
                if f.endswith(".json"):
                    for c in json.load(open(os.path.join(cdir, f))):
                        cases.append((P(c["word"], c["tokens"], c.get("feats", ()), home=c.get("home")), "corpus", c["ifs"], c["args"]))
        ncorp = len(cases)
        sw = small_words()
        for i, w in enumerate(sw):
            for (n, ifs) in (IFSES if not ctx.quick else [IFSES[i % 5], IFSES[(i + 2) % 5]]):
                cases.append((w, n, ifs, ARGSETS[(i + len(n)) % len(ARGSETS)]))
        nsmall = len(cases)
        for _ in range(ctx.size(12000, 120000)):
            args = rng.choice(ARGSETS)
            g = Gen(rng, len(args))
            w = g.word(ctx.size(4, 6))
            n, ifs = rng.choice(IFSES)
            cases.append((w, n, ifs, args))
        bouts = decide(ctx, root, cases[:nsmall], "exh")
        decide(ctx, root, cases[nsmall:], "rand")
        ctx.sample({"word": cases[ncorp][0].text, "tokens": cases[ncorp][0].toks, "brush_inproc": bouts[ncorp]})
        ctx.sample({"word": cases[-1][0].text, "tokens": cases[-1][0].toks, "ifs": cases[-1][2], "args": cases[-1][3]})
    finally:
        shutil.rmtree(root, ignore_errors=True)
    ctx.cov["rule"] = ("words from the piece grammar in tools/c05.py (text incl. glob characters, single/double quotes, "
                       "escapes, ${v}, $@/$*, ${k[@]}/${k[*]}, ${#}, positional, command and arithmetic substitution, "
                       "${p:-w}/${p-w}/${p:+w}/${p+w} nested one level, brace expressions, tilde): an exhaustive family of all "
                       "pairs of %d fixed pieces, plus seeded random words of up to %d pieces; environments with empty, "
                       "blank-padded, multi-field, glob-like values; positional lists of length 0-3; IFS in {unset, default, "
                       "space, newline, empty}; a directory with dot-files and names with spaces. non-trivial = at least 2 tokens"
                       % (23, ctx.size(4, 6)))
    ctx.assumptions += ["bash 5.2.15 is the oracle; the Lean reference semantics (Spec/WordExp.lean specExpandB) is validated "
                        "against it on every case (oracle_mismatch)",
                        "one directory level; command substitution output and arithmetic values supplied to the model as data",
                        "the word parser is exercised by the correspondence run, not modelled"]


def replay(ctx, rp):
    lib.cargo_build([BIN])
    c = rp["case"]
    root = tempfile.mkdtemp(prefix="c05-dir-")
    try:
        c04.make_dir(root, DIRNAMES)
        w = P(c["word"], c["tokens"], c.get("feats", ()), home=c.get("home"))
        line = make_line(root, c["ifs"], c["args"], w)
        _, b, _ = lib.run_vh(BIN, [line])
        m = lib.run_drv(["C04 " + line])[0].split(" %| ")
        sc = script_for([w], c["ifs"], c["args"], "r")
        rb = records(run_script("brush", sc, root), "r", 1)[0]
        ro = records(run_script("bash", sc, root), "r", 1)[0]
        print("word:  %s   IFS=%r args=%r" % (w.text, c["ifs"], c["args"]))
        print("brush: %r" % (rb,))
        print("bash:  %r" % (ro,))
        print("brush in-process: %s" % (b[0] if b else "<none>"))
        print("model: %s   spec: %s" % (m[0], m[1] if len(m) > 1 else "?"))
        impl, unmod = c04.parse_res(m[0])
        bin_, _ = c04.parse_res(b[0]) if b else (None, False)
        return 1 if (rb != ro or (bin_ != impl and not unmod)) else 0
    finally:
        shutil.rmtree(root, ignore_errors=True)
