"""C17 — `wait` really waits: background work is complete and visible when it returns.

Two correspondence layers:
  1. in-process (harness bin c17): a real Shell whose background jobs block on harness-controlled gates, so
     completion order / polling / waiting is an explicit op sequence; compared step by step with the Lean
     model of JobManager (Model/Jobs.lean) and evaluated against the property's predicates directly.
  2. end to end: the brush binary vs bash on scripts with background jobs of different durations that
     write marker files / output, `wait`, `jobs`; delivered with -c, as a file and on stdin; under
     taskset (1 cpu, 2 cpus, all) and with the verif-hooks pause points.
"""
import itertools
import json
import os
import re
import shutil
import subprocess
import tempfile
import lib

BIN = "c17"
ID_RULE = "max"          # the numbering rule of JobManager::add_as_current the model mirrors: "len" (len+1, the code
                         # as it is) or "max" (max live id + 1, the proposed repair).  Switch when /repo is repaired.
CLAUSE_DUP = "job_id_reuse_after_poll"
CLAUSE_PREV = "previous_mark_not_cleared"   # outside the property's text; only reported when listed
FORMS = "sbflpacxy"     # x, y: the job's body ends with exit status 3 / 42
FORM_CODE = {"x": 3, "y": 42}


# ------------------------------------------------------------------------------------------------
# in-process op sequences

def parse_steps(resp):
    """harness/driver response -> (steps, events) ; steps = list of (table, ended, extra) or 'blocked'/'stuck'"""
    body, _, ev = resp.partition(" || ")
    steps = []
    for s in body.split(" | "):
        if s in ("blocked", "stuck", "bad-op"):
            steps.append(s)
            continue
        t, e, x = s.split(";", 2)
        table = []
        if t != "-":
            for it in t.split(","):
                m = re.match(r"^(\d+)([+\-_])([RSDU]):(\d+|\?)$", it)
                table.append((int(m.group(1)), m.group(2), m.group(3), m.group(4)))
        ended = [] if e == "-" else [int(k) for k in e.split(",")]
        steps.append((table, ended, x))
    events = [] if ev in ("", "-") else ev.split(",")
    return steps, events


def direct_check(ops, resp):
    """The property on brush's own behaviour.  Returns list of (clause_or_None, why, step_index)."""
    steps, events = parse_steps(resp)
    fails = []
    launched = 0
    dup_seen = False
    forms = {}
    for i, (op, st) in enumerate(zip(ops, steps)):
        if op[0] == "L":
            launched += 1
            forms[str(launched)] = op[1:2]
        cx = op[2] if op[1:2] == "@" else None          # W@f…, S@s…, J@e: issued from inside a context
        if cx:
            op = op[0] + op[3:]
        forked = cx in ("s", "c")                       # a clone with its own empty job table
        if forked and not isinstance(st, str):
            prevt = steps[i - 1][0] if i and not isinstance(steps[i - 1], str) else []
            if st[0] != prevt:
                fails.append((None, "a subshell's %s changed the parent's job table" % op[0], i))
            if op[0] == "W" and st[2] != "ok":
                fails.append((None, "wait in a subshell did not return at once: %s" % st[2], i))
            if op[0] == "J" and st[2] != "none":
                fails.append((None, "jobs in a subshell lists the parent's jobs: %s" % st[2], i))
            continue
        if isinstance(st, str):
            if st == "blocked" and forked:
                fails.append((None, "wait in a subshell blocked on the parent's jobs", i))
            elif st == "blocked" and op[0] == "W":
                # wait may only block while some job is unfinished
                prev = steps[i - 1] if i else ([], [], "-")
                ended = set(prev[1]) | {int(k) for k in op[1:].split(",") if k.isdigit() and 1 <= int(k) <= launched}
                if all(k in ended for k in range(1, launched + 1)):
                    fails.append((None, "wait did not return although every job had finished", i))
            break
        table, ended, extra = st
        if any(j[2] == "D" for j in table):
            fails.append((None, "a job that has run to its end (Done) is still in the job table: %s" % (table,), i))
        if op[0] == "S" and extra.startswith("st"):
            # wait %N: the status is the waited job's own, the job is forgotten; an unknown spec gives 127
            msp = re.match(r"^S%(\d+):", op)
            prevt = steps[i - 1][0] if i and not isinstance(steps[i - 1], str) else []
            if msp:
                hit = [j for j in prevt if j[0] == int(msp.group(1))]
                want = FORM_CODE.get(forms.get(hit[0][3], ""), 0) if hit else 127
                if extra != "st%d" % want:
                    fails.append((None, "`wait %%%s` returned %s, the job's status is %d" % (msp.group(1), extra[2:], want), i))
                if hit and any(j[3] == hit[0][3] for j in table):
                    fails.append((None, "the job waited for by `wait %%%s` is still in the table" % msp.group(1), i))
        ids = [j[0] for j in table]
        if len(set(ids)) != len(ids) and not dup_seen:
            dup_seen = True
            fails.append((CLAUSE_DUP, "two live jobs carry the same job number: %s" % ids, i))
        if op[0] == "J" and extra != "none":
            jids = [re.match(r"\d+", x).group(0) for x in extra.split(",")]
            if len(set(jids)) != len(jids) and not dup_seen:
                dup_seen = True
                fails.append((CLAUSE_DUP, "`jobs` lists two live jobs with the same number: %s" % extra, i))
        if sum(1 for j in table if j[1] == "+") > 1:
            fails.append((None, "two jobs are marked current", i))
        if op[0] == "W" and extra == "ok":
            missing = [k for k in range(1, launched + 1) if k not in ended]
            if missing:
                fails.append((None, "wait returned while job(s) %s had not finished" % missing, i))
            live = [j for j in table if j[2] != "D"]
            if live:
                fails.append((None, "wait returned and the job table still holds live job(s) %s" % (live,), i))
        if op[0] == "W" and extra not in ("ok",):
            fails.append((None, "wait failed: %s" % extra, i))
    # none run twice or lost; foreground order
    for k in range(1, launched + 1):
        ns, ne = events.count("s%d" % k), events.count("e%d" % k)
        if ns != 1:
            fails.append((None, "job %d started %d times" % (k, ns), len(ops) - 1))
        if ne > 1:
            fails.append((None, "job %d completed %d times" % (k, ne), len(ops) - 1))
    fg = [int(e[1:]) for e in events if e.startswith("g")]
    if fg != sorted(fg) or len(set(fg)) != len(fg):
        fails.append((None, "foreground commands ran out of order: %s" % fg, len(ops) - 1))
    return fails


def prev_marks(resp):
    steps, _ = parse_steps(resp)
    return any(not isinstance(st, str) and sum(1 for j in st[0] if j[1] == "-") > 1 for st in steps)


class Sim:
    """tracks what a generator needs to know (launched / finished tasks) — not a model of the table"""

    def __init__(self):
        self.launched = 0
        self.fin = set()

    def unfinished(self):
        return [k for k in range(1, self.launched + 1) if k not in self.fin]


def render_kinds(kinds, rng=None):
    """abstract op kinds -> concrete ops (deterministic unless rng is given for forms/permutations)"""
    sim = Sim()
    ops = []
    for n, k in enumerate(kinds):
        if k == "L":
            sim.launched += 1
            ops.append("L" + (rng.choice(FORMS) if rng else FORMS[(sim.launched + n) % len(FORMS)]))
        elif k in ("Fo", "Fn", "Fr"):
            u = sim.unfinished()
            if not u:
                ops.append("F%d" % (sim.launched + 1))      # nothing to finish: an ignored completion
                continue
            t = u[0] if k == "Fo" else u[-1] if k == "Fn" else rng.choice(u)
            sim.fin.add(t)
            ops.append("F%d" % t)
        elif k == "P":
            ops.append("P")
        elif k in ("Wf", "Wr", "Wp"):
            u = sim.unfinished()
            if k == "Wr":
                u = u[::-1]
            elif k == "Wp":
                rng.shuffle(u)
            sim.fin.update(u)
            ops.append("W" + ",".join(map(str, u)))
        elif k == "Wb":
            u = sim.unfinished()
            if rng and len(u) > 1:
                rng.shuffle(u)
            ops.append("W" + ",".join(map(str, u[1:])))      # one unfinished job is never completed (if any)
            if u:
                break
        elif k in ("Sc", "Sp", "S1", "S2", "S3", "S9"):
            spec = {"Sc": "%%", "Sp": "%-", "S1": "%1", "S2": "%2", "S3": "%3", "S9": "%9"}[k]
            u = sim.unfinished()
            if rng:
                rng.shuffle(u)
            sim.fin.update(u)
            ops.append("S%s:%s" % (spec, ",".join(map(str, u))))
        elif k == "G":
            ops.append("G")
        elif k == "J":
            ops.append("J")
        elif k == "R":
            ops += ["R%%", "R%-", "R%1", "R%2", "R%3"]
        else:
            raise ValueError(k)
    return ops


EXH_KINDS = ["L", "Fo", "Fn", "P", "Wf", "Wr", "S1", "Sp"]


def gen_inproc(ctx):
    cases = []
    cdir = os.path.join(lib.ROOT, "corpus", "C17")
    if os.path.isdir(cdir):
        for f in sorted(os.listdir(cdir)):
            if not f.endswith(".ops"):
                continue
            for l in open(os.path.join(cdir, f)):
                l = l.strip()
                if l and not l.startswith("//"):
                    cases.append(("corpus", l.split(" ")))
    n = ctx.size(6, 7)
    for k in range(1, n + 1):
        for kinds in itertools.product(EXH_KINDS, repeat=k):
            if kinds[0] != "L":
                continue                                   # everything before the first launch is a no-op
            cases.append(("exh", render_kinds(list(kinds) + ["J", "R"])))
    # every finishing permutation of a job set, split at every point into "finished before the wait" (with and
    # without a poll in between) and "finishes during the wait"
    for nj in range(1, ctx.size(5, 6) + 1):
        for perm in itertools.permutations(range(1, nj + 1)):
            for k in range(nj + 1):
                for polled in (False, True):
                    if polled and k == 0:
                        continue
                    ops = ["L" + FORMS[(i + nj) % len(FORMS)] for i in range(nj)]
                    ops += ["F%d" % t for t in perm[:k]]
                    if polled:
                        ops += ["P", "J"]
                    ops += ["W" + ",".join(map(str, perm[k:])), "J"]
                    cases.append(("perm", ops))
    rng = ctx.rng
    allk = ["L", "L", "L", "Fo", "Fn", "Fr", "Fr", "P", "P", "Wp", "Wf", "Sc", "Sp", "S1", "S2", "S3", "S9", "G", "R", "J"]
    for _ in range(ctx.size(4000, 60000)):
        k = rng.randint(4, 40)
        kinds = ["L"]
        cap = rng.randint(2, 16)
        sim_l = 1
        for _i in range(k):
            c = rng.choice(allk)
            if c == "L":
                if sim_l >= cap:
                    c = "P"
                else:
                    sim_l += 1
            kinds.append(c)
        cases.append(("rand", render_kinds(kinds + ["R"], rng)))
    # a few waits that must block (each costs the harness its blocking timeout)
    for _ in range(ctx.size(24, 200)):
        k = rng.randint(1, 8)
        kinds = ["L"] + [rng.choice(["L", "L", "Fr", "P", "G"]) for _ in range(k)] + ["Wb", "G"]
        cases.append(("blocking", render_kinds(kinds, rng)))
    return cases


def run_inproc(ctx):
    cases = gen_inproc(ctx)
    ctx.inproc_cases = cases
    lines = [" ".join(ops) for _, ops in cases]
    okh, bouts, errs = lib.run_vh_parallel(BIN, lines)
    if not okh:
        ctx.broken.append("harness c17 died: " + errs[:500])
    mouts = lib.run_drv_parallel(["C17 %s %s" % (ID_RULE, l) for l in lines])
    other = "max" if ID_RULE == "len" else "len"
    mouts2 = lib.run_drv_parallel(["C17 %s %s" % (other, l) for l in lines])
    nviol = 0
    nprev = 0
    nfixed = 0
    for (kind, ops), b, m, m2 in zip(cases, bouts, mouts, mouts2):
        nl = sum(1 for o in ops if o[0] == "L")
        ctx.count(tuple(ops), nontrivial=nl >= 2 or len(ops) >= 4, bucket=kind)
        ctx.bucket("jobs_%d" % min(nl, 9))
        ctx.impl_validated += 1
        if b == "<harness-died>" or b.startswith("PANIC"):
            if nviol < 20:
                nviol += 1
                ctx.violation("brush's job code panicked / the harness died on an op sequence", {"ops": ops, "brush": b})
            continue
        body = b.partition(" || ")[0]
        fails = direct_check(ops, b)
        if prev_marks(b):
            nprev += 1
            if CLAUSE_PREV in ctx.known:
                ctx.known_hits.setdefault(CLAUSE_PREV, {"ops": ops})
        rule = ID_RULE
        if body != m and body == m2 and other == "max":
            # brush follows the repaired numbering (max live id + 1): the recorded defect no longer shows;
            # theorem ids_distinct_fixed applies, so any duplicate number below is a plain violation
            nfixed += 1
            rule = "max"
            m = m2
        if body != m:
            if nviol < 20:
                nviol += 1
                bs, ms = body.split(" | "), m.split(" | ")
                at = next((i for i, (x, y) in enumerate(zip(bs, ms)) if x != y), min(len(bs), len(ms)))
                why = "; ".join(f[1] for f in fails)
                ctx.violation("job-table model and brush disagree (correspondence broken)" + (": " + why if why else ""),
                              {"ops": ops[:at + 1], "brush": bs[at:at + 1], "model": ms[at:at + 1]},
                              kind="property" if fails else "correspondence")
            continue
        for clause, why, at in fails:
            case = {"ops": ops[:at + 1], "brush": body.split(" | ")[:at + 1][-1]}
            has_poll = "P" in ops[:at + 1]
            if clause == CLAUSE_DUP and has_poll and rule == "len":
                # outside the guard of ids_distinct_partial (a poll happened), model agrees: the recorded defect
                ctx.known_or_violation(CLAUSE_DUP, why, case)
            elif nviol < 20:
                nviol += 1
                ctx.violation(why + " (the job table itself behaves as modelled)", case)
    if nfixed:
        ctx.notes.append("finding_not_reproduced: on %d op sequences brush numbers jobs as max live id + 1 (the repaired rule), "
                         "not len + 1; set ID_RULE = 'max' in tools/c17.py and mark %s fixed" % (nfixed, CLAUSE_DUP))
    if nprev:
        ctx.notes.append("%d op sequences leave more than one job marked previous ('-'): add_as_current does not clear "
                         "the older mark (bash keeps exactly one); outside the property's text, theorem "
                         "previous_mark_unique_cex documents it" % nprev)
    i = len(cases) // 2
    ctx.sample({"ops": cases[i][1], "brush": bouts[i]})
    ctx.sample({"ops": cases[-30][1], "brush": bouts[-30]})


# ------------------------------------------------------------------------------------------------
# end to end: brush binary vs bash

DUR = ["0.02", "0.07", "0.14", "0.22"]


def job_text(kind, d, k):
    """one background job that takes about d seconds and then leaves marker k"""
    if kind == "brace":
        return "{ sleep %s; echo %d >> $M; } &" % (d, k)
    if kind == "sub":
        return "( sleep %s; echo %d >> $M ) &" % (d, k)
    if kind == "simple":
        return "sh -c 'sleep %s; echo %d >> $M' &" % (d, k)
    if kind == "pipe":
        return "{ sleep %s; echo %d; } | cat >> $M &" % (d, k)
    if kind == "pipe3":
        return "echo %d | { sleep %s; cat; } | cat >> $M &" % (k, d)
    if kind == "func":
        return "bgjob %s %d &" % (d, k)
    if kind == "andor":
        return "sleep %s && echo %d >> $M &" % (d, k)
    if kind == "out":
        return "{ sleep %s; echo %d >> $M; echo bg%d; } &" % (d, k, k)
    if kind == "loopbody":
        return "for i in 1; do sleep %s; done; echo %d >> $M &" % (d, k)  # only the echo is in the background
    raise ValueError(kind)


JOB_KINDS = ["brace", "sub", "simple", "pipe", "pipe3", "func", "andor", "out", "brace", "out"]
WAITLINE = "wait\necho W$(sort -n $M | tr '\\n' ,)"


def gen_script(rng, njobs, force=None, kinds=None, loops=True):
    """returns (script_lines, meta) ; meta['before'] = per `wait; echo W…` line the jobs launched before it"""
    kinds = kinds or JOB_KINDS
    lines = ["bgjob() { sleep $1; echo $2 >> $M; }", ": > $M"]
    k = 0
    fg = 0
    launched = []
    before = []
    budget = njobs
    while budget > 0:
        r = rng.random()
        if r < 0.55:
            kind = rng.choice(kinds)
            d = rng.choice(DUR)
            where = rng.random()
            if where < 0.2 and budget >= 2 and loops:
                # launched from a loop
                n = min(budget, rng.randint(2, 3))
                ds = [rng.choice(DUR) for _ in range(n)]
                ks = list(range(k + 1, k + n + 1))
                lines.append("for p in %s; do { sleep ${p%%:*}; echo ${p#*:} >> $M; } & done"
                             % " ".join("%s:%d" % (dd, kk) for dd, kk in zip(ds, ks)))
                k += n
                budget -= n
                launched += ks
            elif where < 0.35:
                k += 1
                budget -= 1
                lines.append("launch%d() { %s }; launch%d" % (k, job_text(kind, d, k), k))
                launched.append(k)
            else:
                k += 1
                budget -= 1
                lines.append(job_text(kind, d, k))
                launched.append(k)
        elif r < 0.7:
            fg += 1
            lines.append("echo fg%d" % fg)
        elif r < 0.8:
            lines.append("sleep %s" % rng.choice(DUR[:3]))
        elif r < 0.9:
            lines.append("echo JB; jobs; echo JE")
        else:
            lines.append(WAITLINE)
            before.append(list(launched))
            if rng.random() < 0.5:
                lines.append("echo JB; jobs; echo JE")
    lines.append(WAITLINE)
    before.append(list(launched))
    lines.append("echo JB; jobs; echo JE")
    lines.append("wait")
    lines.append("echo end")
    return lines, {"njobs": k, "before": before}


def canon_run(script_lines, r):
    """split a shell's stdout into the foreground sequence, bg lines with positions, and `jobs` blocks"""
    out = r["out"].split("\n")
    if out and out[-1] == "":
        out.pop()
    fgseq, bgpos, jobblocks = [], {}, []
    inj = None
    for pos, l in enumerate(out):
        if re.match(r"^bg\d+$", l):
            bgpos.setdefault(int(l[2:]), []).append(len(fgseq))
            continue
        if l == "JB":
            inj = []
            fgseq.append(l)
            continue
        if l == "JE":
            jobblocks.append((len(fgseq), inj or []))
            inj = None
            fgseq.append(l)
            continue
        if inj is not None:
            inj.append(l)
            continue
        if re.match(r"^\[\d+\][+\- ]", l):
            continue      # a job report (`wait` / prompt under job control: interactive, set -m), not foreground output
        fgseq.append(l)
    return fgseq, bgpos, jobblocks


def job_ids(block):
    ids = []
    for l in block:
        m = re.match(r"^\[(\d+)\]", l)
        if m and "Done" not in l:
            ids.append(int(m.group(1)))
    return ids


def e2e_check(script_lines, mode, rb, ro, before, reps=1):
    """property on brush's run, with bash's run as the oracle of the foreground sequence.
    returns list of (clause_or_None, why)"""
    fails = []
    if rb["timeout"]:
        return [(None, "brush did not terminate (wait never returned?)")]
    if ro["timeout"]:
        return []
    bf, bbg, bjobs = canon_run(script_lines, rb)
    of, obg, ojobs = canon_run(script_lines, ro)
    if rb["rc"] != ro["rc"]:
        fails.append((None, "exit status %s (bash %s)" % (rb["rc"], ro["rc"])))
    launched_before = [set(b) for b in before]   # jobs launched before each `wait; echo W…` line
    wl = [x for x in bf if x.startswith("W")]
    for i, w in enumerate(wl):
        got = {int(x) for x in w[1:].split(",") if x}
        items = [x for x in w[1:].split(",") if x]
        if i < len(launched_before):
            need = launched_before[i]
            if not need <= got:
                fails.append((None, "after `wait` the marker file lacks job(s) %s (has %s)" % (sorted(need - got), sorted(got))))
        if len(items) != len(set(items)):
            fails.append((None, "a job's marker appears twice: %s" % w))
    # bg output lines are complete before the line printed right after the next wait
    wpos = [i for i, x in enumerate(bf) if x.startswith("W")]
    for k, plist in bbg.items():
        if len(plist) != reps:      # reps = 2 when the whole script is run twice in one shell
            fails.append((None, "background job %d wrote its output %d times" % (k, len(plist))))
        firstw = next((i for i, lb in enumerate(launched_before) if k in lb), None)
        if firstw is not None and firstw < len(wpos) and plist[0] > wpos[firstw]:
            fails.append((None, "output of background job %d appeared after the line printed after `wait`" % k))
    if set(bbg) != set(obg):
        fails.append((None, "background output lines differ from bash: %s vs %s" % (sorted(bbg), sorted(obg))))
    if bf != of:
        fails.append((None, "foreground output differs from bash: %s vs %s" % (bf[:40], of[:40])))
    # `jobs`: live jobs carry distinct numbers; nothing live after wait
    for pos, block in bjobs:
        ids = job_ids(block)
        if len(ids) != len(set(ids)):
            fails.append((CLAUSE_DUP, "`jobs` lists two live jobs with the same number: %s" % block))
        if pos > 0 and bf[pos - 1].startswith("W") and ids:
            fails.append((None, "`jobs` right after `wait` still lists live jobs: %s" % block))
    return fails


TASKSETS = [["taskset", "-c", "0"], ["taskset", "-c", "0,1"], []]
PAUSES = ["", "job_start=50", "job_poll=20", "job_start=30,job_poll=20", "job_start=50,before_wait=20"]


def run_one_e2e(case):
    script_lines, mode, ts, pauses = case["lines"], case["mode"], case["taskset"], case["pauses"]
    d = tempfile.mkdtemp(prefix="c17e2e-")
    try:
        res = []
        for which in ("brush", "bash"):
            m = os.path.join(d, "m-" + which)
            env = dict(lib.BASE_ENV)
            env["M"] = m
            env["F"] = os.path.join(d, "f-" + which)
            if case.get("seg") is not None:
                env["SEG"] = os.path.join(d, "seg-" + which)
                open(env["SEG"], "w").write("\n".join(case["seg"]) + "\n")
            if pauses and which == "brush":
                env["BRUSH_VERIF_PAUSES"] = pauses
            text = "\n".join(script_lines) + "\n"
            cmd = list(ts) + lib.shell_cmd(which, text if mode == "c" else None, (), "c" if mode == "c" else "stdin")
            if mode == "file":
                p = os.path.join(d, "s-%s.sh" % which)
                open(p, "w").write(text)
                cmd = list(ts) + lib.shell_cmd(which, p, (), "file")
            if mode == "inter":
                cmd = list(ts) + ([lib.BRUSH, "--norc", "--noprofile", "--no-config", "-i", "--input-backend", "minimal"]
                                  if which == "brush" else [lib.BASH, "--norc", "--noprofile", "-i"])
            try:
                p = lib.sp_run(cmd, input=text.encode() if mode in ("stdin", "inter") else None,
                                   stdin=None if mode in ("stdin", "inter") else subprocess.DEVNULL,
                                   stdout=subprocess.PIPE, stderr=subprocess.PIPE, env=env, timeout=30, cwd=d)
                res.append({"rc": p.returncode, "out": p.stdout.decode("utf-8", "replace"),
                            "err": p.stderr.decode("utf-8", "replace"), "timeout": False})
            except subprocess.TimeoutExpired:
                subprocess.run(["pkill", "-f", d], stdout=subprocess.DEVNULL, stderr=subprocess.DEVNULL)
                res.append({"rc": -9, "out": "", "err": "", "timeout": True})
        return res
    finally:
        shutil.rmtree(d, ignore_errors=True)


def corpus_e2e():
    out = []
    cdir = os.path.join(lib.ROOT, "corpus", "C17")
    if os.path.isdir(cdir):
        for f in sorted(os.listdir(cdir)):
            if f.endswith(".e2e.json"):
                c = json.load(open(os.path.join(cdir, f)))
                out.append(c)
    return out


def run_e2e(ctx):
    rng = ctx.rng
    cases = corpus_e2e()
    ctx.e2e_cases = cases
    # every job-set size 1..8, every delivery mode, every cpu restriction at least once (seed independent shape)
    n = ctx.size(216, 1800)
    for i in range(n):
        njobs = 1 + i % 8
        lines, meta = gen_script(rng, njobs)
        cases.append({"lines": lines, "mode": ["c", "stdin", "file"][i % 3], "taskset": TASKSETS[(i // 3) % 3],
                      "pauses": PAUSES[(i // 9) % len(PAUSES)] if i % 2 else "", "before": meta["before"]})
    results = lib.pmap(run_one_e2e, cases, workers=max(4, lib.NCPU // 2))
    nv = 0
    for case, (rb, ro) in zip(cases, results):
        key = ("e2e", tuple(case["lines"]), case["mode"], tuple(case["taskset"]), case["pauses"])
        ctx.count(key, bucket="e2e_" + case["mode"])
        ctx.bucket("e2e_cpus_" + (case["taskset"][2] if case["taskset"] else "all"))
        if case["pauses"]:
            ctx.bucket("e2e_paused")
        if ro["timeout"]:
            ctx.oracle_mismatch += 1
            continue
        fails = e2e_check(case["lines"], case["mode"], rb, ro, case["before"])
        for clause, why in fails[:1]:
            c = dict(case)
            c["brush_out"] = rb["out"][-3000:]
            c["bash_out"] = ro["out"][-3000:]
            c["brush_err"] = rb["err"][-800:]
            if clause == CLAUSE_DUP and case["mode"] == "stdin" and ID_RULE == "len":
                ctx.known_or_violation(CLAUSE_DUP, why, c)
            elif nv < 10:
                nv += 1
                ctx.violation(why + " (brush binary, %s delivery)" % case["mode"], c)
    if cases:
        ctx.sample({"e2e_script": cases[-1]["lines"], "mode": cases[-1]["mode"], "brush_out": results[-1][0]["out"][:400]})


# ------------------------------------------------------------------------------------------------
# context sweep: the same launch / wait / poll / jobs cases issued from other execution contexts and under
# options that must not change the result; bash in the same context / option is the oracle

INPROC_CTX = "fgeblrsc"     # function, two functions deep, eval, brace+redirect, loop body, sourced file, subshell, $( )


def ctx_variant(ops, c):
    return [o[0] + "@" + c + o[1:] if o[0] in "WSJ" else o for o in ops]


def run_inproc_sweep(ctx, base):
    """a seeded sample of the in-process cases, every wait / wait %spec / jobs re-issued from inside each context;
    brush (real Shell) vs the Lean model's runIn, plus the direct predicates"""
    rng = ctx.rng
    pool = [ops for kind, ops in base if any(o[0] in "WSJ" for o in ops)]
    sample = rng.sample(pool, min(len(pool), ctx.size(400, 6000)))
    cases = [(c, ctx_variant(ops, c)) for ops in sample for c in INPROC_CTX]
    lines = [" ".join(ops) for _, ops in cases]
    okh, bouts, errs = lib.run_vh_parallel(BIN, lines)
    if not okh:
        ctx.broken.append("harness c17 died (context sweep): " + errs[:500])
    mouts = lib.run_drv_parallel(["C17 %s %s" % (ID_RULE, l) for l in lines])
    nviol = 0
    for (c, ops), b, m in zip(cases, bouts, mouts):
        ctx.count(("ctx", tuple(ops)), bucket="ctx_inproc_" + c)
        ctx.impl_validated += 1
        body = b.partition(" || ")[0]
        fails = [f for f in direct_check(ops, b) if f[0] != CLAUSE_DUP or ID_RULE == "max"] if not b.startswith(("PANIC", "<")) else \
            [(None, "brush's job code panicked", 0)]
        if (body != m or fails) and nviol < 10:
            nviol += 1
            bs, ms = body.split(" | "), m.split(" | ")
            at = next((i for i, (x, y) in enumerate(zip(bs, ms)) if x != y), min(len(bs), len(ms)) - 1)
            why = "; ".join(f[1] for f in fails)
            ctx.violation("context %s: " % c + ("job-table model and brush disagree" if body != m else "property fails") +
                          (": " + why if why else ""), {"ops": ops[:at + 1], "brush": bs[at:at + 1], "model": ms[at:at + 1]},
                          kind="property" if fails else "correspondence")


E2E_CTX = ["top", "func", "func2", "subshell", "cmdsubst", "eval", "brace", "lastpipe", "while", "for", "trap", "source", "twice"]
# options that must not change what these scripts do (nothing is unset, globs, or fails in the foreground)
E2E_OPTS = ["set -u", "set -f", "set -e", "set -E", "set -T", "set +h", "set -m", "shopt -s extglob", "shopt -s nullglob",
            "shopt -s dotglob", "shopt -s nocasematch", "shopt -s globstar", "shopt -s expand_aliases", "shopt -s lastpipe",
            "shopt -s inherit_errexit", "set -o posix", "set -eu; shopt -s lastpipe inherit_errexit"]
E2E_MODES = ["c", "stdin", "file", "inter"]
ONE_LINE_KINDS = ["func", "simple", "andor", "func"]     # job texts brush lists on one line (job reports are filtered by line)


def wrap_ctx(c, T):
    if c == "top":
        return list(T)
    if c == "func":
        return ["ctxf() {"] + T + ["}", "ctxf"]
    if c == "func2":
        return ["ctxg() {"] + T + ["}", "ctxf() { ctxg; }", "ctxf"]
    if c == "subshell":
        return ["("] + T + [")"]
    if c == "cmdsubst":
        return ["x=$("] + T + [")", "printf '%s\\n' \"$x\""]
    if c == "eval":
        return ['eval "$(cat "$SEG")"']
    if c == "brace":
        return ["{"] + T + ["} 3>/dev/null 4>&1"]
    if c == "lastpipe":
        return ["shopt -s lastpipe", "echo x | {"] + T + ["}"]
    if c == "while":
        return ["n=0", "while [ $n -lt 1 ]; do", "n=1"] + T + ["done"]
    if c == "for":
        return ["for it in 1; do"] + T + ["done"]
    if c == "trap":
        return ["ctxf() {"] + T + ["}", "trap ctxf EXIT", "echo main"]
    if c == "source":
        return ['. "$SEG"']
    if c == "twice":
        return T + T
    raise ValueError(c)


def sweep_case(seg, before, c, opt, mode, tag="ctx"):
    lines = ([opt] if opt else []) + wrap_ctx(c, seg)
    return {"lines": lines, "seg": seg, "mode": mode, "taskset": [], "pauses": "", "tag": tag, "ctx": c, "opt": opt,
            "before": before + before if c == "twice" else before}


def iso_cases(rng):
    """contexts with semantics of their own: a subshell / command substitution has its own empty job table"""
    out = []
    seg = [": > $M", "{ sleep 0.7; echo 1 >> $M; } &", "( wait; echo I$(cat $M) )", "x=$(wait; echo C$(cat $M)); echo $x",
           "f() { ( wait; echo F$(cat $M) ); }; f", WAITLINE, "echo end"]
    out.append(sweep_case(seg, [[1]], "top", "", rng.choice(["c", "stdin", "file"]), "iso_parent_job"))
    seg = [": > $M", "( { sleep 0.7; echo 1 >> $M; } & )", WAITLINE, "sleep 1.1", "echo L$(cat $M)", "echo end"]
    out.append(sweep_case(seg, [[]], "top", "", rng.choice(["c", "stdin", "file"]), "iso_child_job"))
    seg = [": > $M", "bgjob() { sleep $1; echo $2 >> $M; }",     # one-line job texts: job reports are filtered by line
           "( bgjob 0.3 1 & bgjob 0.1 2 & wait; echo I$(sort -n $M | tr '\\n' ,) )",
           WAITLINE, "echo end"]
    out.append(sweep_case(seg, [[1, 2]], "top", "", rng.choice(["c", "stdin", "file", "inter"]), "iso_child_waits"))
    return out


# -- synchronisation forms other than plain `wait`, job-table listings, disown / kill / $! ----------------------
# C17-3 (wait_stops_at_job_that_ended_with_error, 4d56742), C17-4 (wait_jobspec_returns_zero), C17-5
# (wait_unknown_jobspec_status_1) and C17-6 (waited_job_stays_addressable, all cbd33c7) are fixed in /repo: their
# templates stay in the family as tripwires (clause None: any difference from bash is a VIOLATION again).
CL_STATUS = None
CL_NOSUCH = None
CL_WAITED = None
CL_KILL = "kill_jobspec_cannot_signal_background_task"
CL_ABORT = None
CL_WAITN = "wait_n_unimplemented"
CL_NAME = "jobspec_by_command_text_unimplemented"
CL_JOBSP = "jobs_p_prints_no_pid"
CL_JOBSL = "jobs_l_unimplemented"
CL_JOBSFORK = "jobs_in_pipeline_or_substitution_lists_nothing"
CL_DISOWN = "disown_unimplemented"
CL_BANG = "bang_pid_parameter_unset"
CL_WAITPID = "wait_pid_unimplemented"
WL = "echo W$(sort -n $M | tr '\\n' ,)"


def sync_cases(rng):
    """(tag, clause expected when brush and bash differ, allowed differing line prefixes, stderr token, lines, before)"""
    st = lambda: rng.choice([0, 0, 1, 3, 7, 42])
    a, b, c3 = st(), st(), st()
    out = []

    def add(tag, clause, prefixes, token, lines, before, modes=("c", "stdin", "file")):
        # the form is issued from a context of its own too (all executed by the current shell)
        c = rng.choice(["top", "top", "func", "func2", "eval", "brace", "for", "while", "source"])
        case = sweep_case([": > $M"] + lines + ["wait", "echo end"], before, c, "", rng.choice(list(modes)), tag)
        case.update({"clause": clause, "prefixes": prefixes, "token": token})
        out.append(case)

    # wait %N for running jobs, in order of completion: the job's own status
    add("wait_spec", CL_STATUS, {"s"}, None,
        ["( sleep 0.35; echo 1 >> $M; exit %d ) &" % a, "( sleep 0.1; echo 2 >> $M; exit %d ) &" % b,
         "wait %2; echo \"s=$?\"", WL, "wait %1; echo \"s=$?\"", WL], [[2], [1, 2]])
    add("wait_spec_func_body", CL_STATUS, {"s"}, None,
        ["bgst() { sleep $1; echo $2 >> $M; return $3; }", "bgst 0.1 1 %d &" % a, "wait %%; echo \"s=$?\"", WL,
         "bgst 0.1 2 %d &" % b, "wait %+; echo \"s=$?\"", WL], [[1], [1, 2]])
    add("wait_two_specs", CL_STATUS, {"s"}, None,
        ["( sleep 0.1; echo 1 >> $M; exit %d ) &" % a, "( sleep 0.3; echo 2 >> $M; exit %d ) &" % b,
         "wait %1 %2; echo \"s=$?\"", WL], [[1, 2]])
    add("wait_killed_job", CL_STATUS, {"s"}, None,
        ["sh -c 'echo 1 >> $M; sleep 0.1; kill -TERM $$' &", "wait; echo \"s=$?\"", WL,
         "sh -c 'echo 2 >> $M; sleep 0.2; kill -TERM $$' &", "wait %1; echo \"s=$?\"", WL], [[1], [1, 2]])
    # %+ %% %- : with two jobs brush and bash agree on %-; with three brush's older previous mark wins
    add("wait_marks2", CL_STATUS, {"s"}, None,
        ["( sleep 0.1; echo 1 >> $M ) &", "( sleep 0.3; echo 2 >> $M ) &", "wait %-; echo \"s=$?\"", WL, "wait %+; echo \"s=$?\"", WL],
        [[1], [1, 2]])
    # (on stdin / at prompts the poll after the over-long `wait %-` may already have removed the current job: `wait %%` then fails)
    add("wait_marks3", CLAUSE_PREV, {"W", "s"}, None,
        ["( sleep 0.9; echo 1 >> $M ) &", "( sleep 0.05; echo 2 >> $M ) &", "( sleep 0.45; echo 3 >> $M ) &",
         "wait %-; echo \"s=$?\"", WL, "wait %%; echo \"s=$?\"", WL], [[], [3]])
    add("wait_unknown_spec", CL_NOSUCH, {"s"}, None,
        ["( sleep 0.1; echo 1 >> $M ) &", "wait %7 2>/dev/null; echo \"s=$?\"", "wait %1; echo \"s=$?\"", WL], [[1]])
    # a waited job is forgotten: not listed, and its number is free for the next job (a second `wait %1` on the
    # remembered job is kept out: bash itself answers 0 or 127 depending on what it still remembers)
    add("wait_spec_forgets_job", CL_WAITED, {"n"}, None,
        ["( sleep 0.1; echo 1 >> $M; exit %d ) &" % a, "wait %1; echo \"s=$?\"", WL,
         "jobs > $F; echo \"n=$(grep -o '^\\[[0-9]*\\]' $F | tr -d '\\n')\"",
         "( sleep 0.3; echo 2 >> $M ) &", "jobs > $F; echo \"n=$(grep -o '^\\[[0-9]*\\]' $F | tr -d '\\n')\"",
         "( sleep 1.0; echo 3 >> $M ) &", "wait %1; echo \"s=$?\"", WL,      # job 3 is still running at the last listing
         "( sleep 0.05; echo 4 >> $M ) &", "jobs > $F; echo \"n=$(grep -o '^\\[[0-9]*\\]' $F | tr -d '\\n')\""],
        [[1], [1, 2]])
    add("kill_spec", CL_KILL, {"k", "W", "s"}, "kill", ["( sleep 0.4; echo 1 >> $M ) &", "kill %1; echo \"k=$?\"", "wait; echo \"s=$?\"", WL], [[]])
    # a job whose task ends with an error (failing expansion in the job's own shell): plain `wait`
    fail = rng.choice([": $((1/0)) &", "{ sleep 0.05; : ${nosuchvar?boom}; } &", "{ sleep 0.02; echo 9 >> $M; : $((1/0)); } &"])
    marks = [9] if "echo 9" in fail else []
    add("wait_after_failed_job_first", CL_ABORT, {"s", "W", "J"}, "wait: ",
        [fail, "{ sleep 0.4; echo 2 >> $M; } &", "wait; echo \"s=$?\"", WL, "echo JB; jobs; echo JE", "wait; echo \"s=$?\"", WL],
        [[2] + marks, [2] + marks])
    add("wait_after_failed_job_last", CL_ABORT, {"s", "W", "J"}, "wait: ",
        ["{ sleep 0.2; echo 1 >> $M; } &", fail, "wait; echo \"s=$?\"", WL, "wait; echo \"s=$?\"", WL], [[1] + marks, [1] + marks])
    add("wait_n", CL_WAITN, {"s", "W"}, "wait -n",
        ["( sleep 0.05; echo 1 >> $M ) &", "( sleep 0.6; echo 2 >> $M ) &", "wait -n; echo \"s=$?\"", WL], [[1]])
    add("spec_by_name", CL_NAME, {"s", "W"}, "job spec naming command",
        ["sleep 0.2 &", "wait %sleep; echo \"s=$?\"", "sleep 0.2 &", "wait %?lee; echo \"s=$?\""], [])
    add("jobs_p", CL_JOBSP, {"n"}, None, ["sleep 0.3 &", "sleep 0.3 &", "jobs -p > $F; echo \"n=$(wc -l < $F)\""], [])
    add("jobs_l", CL_JOBSL, {"n"}, "jobs -l", ["sleep 0.3 &", "jobs -l > $F; echo \"n=$(wc -l < $F)\""], [])
    add("jobs_r_s", None, set(), None, ["sleep 0.3 &", "sleep 0.3 &", "jobs -r > $F; echo \"n=$(grep -c '^\\[' $F)\"",
                                       "jobs -s > $F; echo \"n=$(grep -c '^\\[' $F)\"", "jobs > $F; echo \"n=$(grep -c '^\\[' $F)\""], [])
    add("jobs_forked", CL_JOBSFORK, {"n"}, None,
        ["sleep 0.3 &", "echo \"n=$(jobs | grep -c '^\\[')\"", "x=$(jobs); echo \"n=${x:+listed}\""], [])
    add("disown", CL_DISOWN, {"n", "W"}, "disown",
        ["( sleep 0.5; echo 1 >> $M ) &", "disown", "jobs > $F; echo \"n=$(grep -c '^\\[' $F)\"", WAITLINE], [[]])
    add("bang", CL_BANG, {"b", "s"}, None,
        ["( sleep 0.1; echo 1 >> $M; exit %d ) &" % (a or 3), "echo \"b=${!:+set}\"", "wait $!; echo \"s=$?\"", WL], [[1]])
    add("wait_pid", CL_WAITPID, {"s"}, "wait with process IDs", ["wait 999999; echo \"s=$?\""], [])
    add("monitor_mode", None, set(), None,
        ["set -m", "bgjob() { sleep $1; echo $2 >> $M; }", "bgjob 0.1 1 &", "bgjob 0.05 2 &", WAITLINE, "set +m", "bgjob 0.05 3 &", WAITLINE],
        [[1, 2], [1, 2, 3]])
    return out


def fg_diff_prefixes(bf, of):
    """which kinds of foreground lines differ between brush and bash (None = the line structure itself differs)"""
    if len(bf) != len(of):
        return None
    out = set()
    for x, y in zip(bf, of):
        if x != y:
            if x[:1] != y[:1]:
                return None
            out.add(x[:1])
    return out


def classify_sweep(case, rb, ro):
    """-> (verdict, clause, why): verdict in pass / known / violation"""
    fails = e2e_check(case["lines"], case["mode"], rb, ro, case["before"], reps=2 if case.get("ctx") == "twice" else 1)
    if not fails:
        return "pass", None, None
    why = fails[0][1]
    clause = case.get("clause")
    if clause and not rb["timeout"]:
        bf, bbg, bj = canon_run(case["lines"], rb)
        of, obg, oj = canon_run(case["lines"], ro)
        pre = fg_diff_prefixes(bf, of)
        tok = case.get("token")
        narrow = pre is not None and pre <= case["prefixes"] and rb["rc"] == ro["rc"] and (tok is None or tok in rb["err"])
        if narrow:
            return "known", clause, why
    return "violation", None, why


def run_e2e_sweep(ctx, base_cases):
    rng = ctx.rng
    cases = []
    pool = [c for c in base_cases if "seg" not in c and c.get("before") and len(c["lines"]) < 40]
    one_line = []
    for i in range(ctx.size(6, 40)):
        lines, meta = gen_script(rng, 1 + i % 6, kinds=ONE_LINE_KINDS, loops=False)
        one_line.append({"lines": lines, "before": meta["before"]})

    def pick(mode, opt):
        src = one_line if (mode == "inter" or "-m" in opt) else pool
        b = rng.choice(src)
        return b["lines"], b["before"]

    if ctx.quick:
        # every context in every delivery mode once, options rotating; every option once in a rotating context
        k = 0
        for c in E2E_CTX:
            for mode in E2E_MODES:
                opt = E2E_OPTS[k % len(E2E_OPTS)] if k % 3 == 0 else ""
                k += 1
                seg, before = pick(mode, opt)
                cases.append(sweep_case(seg, before, c, opt, mode))
        for j, opt in enumerate(E2E_OPTS):
            mode = E2E_MODES[j % 4]
            seg, before = pick(mode, opt)
            cases.append(sweep_case(seg, before, E2E_CTX[(j * 5 + ctx.seed) % len(E2E_CTX)], opt, mode))
    else:
        for rep in range(1):        # the full product context x delivery x option
            for c in E2E_CTX:
                for mode in E2E_MODES:
                    for opt in [""] + E2E_OPTS:
                        seg, before = pick(mode, opt)
                        cases.append(sweep_case(seg, before, c, opt, mode))
    cdir = os.path.join(lib.ROOT, "corpus", "C17")
    for f in sorted(os.listdir(cdir)) if os.path.isdir(cdir) else []:
        if f.endswith(".sweep.json"):
            for c in json.load(open(os.path.join(cdir, f))):
                c = dict(c)
                c["prefixes"] = set(c.get("prefixes", []))
                cases.append(c)
    for rep in range(ctx.size(1, 6)):
        cases += iso_cases(rng)
        cases += sync_cases(rng)

    def one(case):
        last = None
        for attempt in range(3):      # a regression is deterministic; a scheduling hiccup is not
            rb, ro = run_one_e2e(case)
            if ro["timeout"]:
                return ("oracle", None, None, rb, ro)
            v = classify_sweep(case, rb, ro)
            last = v + (rb, ro)
            if v[0] != "violation":
                return last
        return last

    results = lib.pmap(one, cases, workers=max(4, lib.NCPU // 2))
    nv = 0
    for case, (verdict, clause, why, rb, ro) in zip(cases, results):
        ctx.count(("sweep", tuple(case["lines"]), case["mode"]), bucket="sweep_" + (case["tag"] if case["tag"] != "ctx" else "ctx_" + case["ctx"]))
        if case["tag"] == "ctx":
            ctx.bucket("sweep_mode_" + case["mode"])
            if case["opt"]:
                ctx.bucket("sweep_opt_" + case["opt"].replace(" ", "_"))
        if verdict == "oracle":
            ctx.oracle_mismatch += 1
            continue
        if verdict == "pass":
            continue
        c = {k: v for k, v in case.items() if k not in ("prefixes",)}
        c.update({"brush_out": rb["out"][-3000:], "bash_out": ro["out"][-3000:], "brush_err": rb["err"][-800:]})
        if verdict == "known":
            ctx.known_or_violation(clause, why + " [%s]" % case["tag"], c)
        elif nv < 10:
            nv += 1
            ctx.violation("%s (context sweep: %s, option %r, %s delivery)" % (why, case["ctx"] if case["tag"] == "ctx" else case["tag"],
                                                                               case["opt"], case["mode"]), c)


# ------------------------------------------------------------------------------------------------

def run(ctx):
    ok, out = lib.cargo_build([BIN])
    if not ok:
        lib.log(out[-4000:])
        ctx.broken.append("harness c17 does not build against the current tree: " + lib._first_errors(out))
    ctx.proof_stage()
    if not ok:
        return
    run_inproc(ctx)
    run_e2e(ctx)
    run_inproc_sweep(ctx, ctx.inproc_cases)
    run_e2e_sweep(ctx, ctx.e2e_cases)
    ctx.cov["rule"] = ("in-process: exhaustive op sequences (launch / complete oldest / complete newest / poll / wait with "
                       "forward and reverse completion schedules / wait %1 / wait %-) up to length " + str(ctx.size(6, 7)) +
                       ", every finishing permutation of 1-" + str(ctx.size(5, 6)) + " jobs split at every point into before/during the wait"
                       " (with and without a poll)" +
                       ", seeded random sequences to length 40 with up to 8+ jobs in 7 syntactic launch forms, random completion "
                       "permutations, blocking waits; each compared step by step with the Lean JobManager model and checked "
                       "against the predicates (distinct live ids, wait returns only when all finished, exactly one start/end per "
                       "job, foreground order). end to end: brush binary vs bash on generated scripts (1-8 jobs: brace, subshell, "
                       "external, pipelines, function, and-or, loops; marker file + stdout), -c / stdin / file delivery, taskset "
                       "0 / 0,1 / all, pause points job_start, job_poll. non-trivial = at least 2 jobs or 4 ops. "
                       "context sweep: a seeded sample of the in-process cases with every wait / wait %spec / jobs re-issued from inside "
                       "a function, two functions deep, eval, brace group with redirects, loop body, sourced file, subshell, $( ) "
                       "(model: runIn); a seeded sample of the scripts wrapped in " + ", ".join(E2E_CTX) + " x delivery -c / stdin / file / "
                       "interactive x options (" + "; ".join(E2E_OPTS) + "), bash in the same context/option as oracle; subshell "
                       "job-table isolation cases; every other synchronisation form (wait %N %+ %- %% several specs, -n, %str, pid, $!, "
                       "kill %N, disown, jobs -p -l -r -s, set -m) classified by clause")
    ctx.assumptions += ["tokio delivers a completed task's JoinHandle result to the awaiting wait (runtime, not proved)",
                        "effects of a finished job (file writes, output) are visible once its task has returned: observed "
                        "end to end with marker files, not proved",
                        "jobs created by `&` have exactly one internal task; multi-task jobs (stopped pipelines under "
                        "terminal job control) are covered by the model and theorems but not exercised",
                        "no task is reported Stopped (needs a controlling terminal)"]


def replay(ctx, rp):
    ok, out = lib.cargo_build([BIN])
    if isinstance(rp, list):         # a corpus file of sweep cases: replay the first
        rp = rp[0]
    case = rp.get("case") or rp      # a replay file, or a corpus case given directly
    if "ops" in case:
        line = " ".join(case["ops"])
        _, b, _ = lib.run_vh(BIN, [line])
        m = lib.run_drv(["C17 %s %s" % (ID_RULE, line)])
        print("ops:   ", line)
        print("brush: ", b[0] if b else "<none>")
        print("model: ", m[0])
        m2 = lib.run_drv(["C17 max " + line])
        fails = direct_check(case["ops"], b[0]) if b else [(None, "harness died", 0)]
        print("property on brush:", "; ".join(f[1] for f in fails) or "holds")
        body = b[0].partition(" || ")[0] if b else ""
        recorded = [f for f in fails if f[0] in ctx.known and body == m[0]]
        if recorded:
            print("(recorded finding %s: brush behaves as the model of the code says)" % recorded[0][0])
        other = [f for f in fails if f not in recorded]
        return 1 if (other or (b and body not in (m[0], m2[0]))) else 0
    if "lines" in case and "tag" in case:
        case = dict(case)
        case["prefixes"] = set(case.get("prefixes", []))
        rb, ro = run_one_e2e(case)
        verdict, clause, why = classify_sweep(case, rb, ro)
        print("script (%s, context %s, option %r, %s delivery):\n%s" % (case["tag"], case.get("ctx"), case.get("opt"), case["mode"],
                                                                        "\n".join(case["lines"])))
        print("brush:\n" + rb["out"] + "brush stderr:\n" + rb["err"][-600:])
        print("bash:\n" + ro["out"])
        print("verdict:", verdict, clause or "", why or "")
        return 1 if verdict == "violation" or (verdict == "known" and clause not in ctx.known) else 0
    if "lines" in case:
        bad = 0
        for _ in range(3):
            rb, ro = run_one_e2e(case)
            fails = e2e_check(case["lines"], case["mode"], rb, ro, case["before"])
            print("script (%s, taskset %s, pauses %r):\n%s" % (case["mode"], case["taskset"], case["pauses"], "\n".join(case["lines"])))
            print("brush:\n" + rb["out"])
            print("bash:\n" + ro["out"])
            print("property on brush:", "; ".join(f[1] for f in fails) or "holds")
            if any(not (f[0] in ctx.known and case["mode"] == "stdin") for f in fails):
                bad = 1
                break
        return bad
    print(json.dumps(case, indent=1))
    return 1
