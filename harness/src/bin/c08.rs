//! C08 harness: brush's real pattern code, in-process.
//! Requests (fields escaped with vh::esc):
//!   `T <ext> <pattern>`                      → emitted regex text (`R=<esc>`) or `ERR`
//!   `H <ext> <pattern>`                      → `1`/`0` (pattern_has_glob_metacharacters)
//!   `M <ext> <nocase> <pattern> <s1> <s2> …` → one char per subject: `1` match, `0` no match, `E` error
//!     (Pattern::from(p).set_extended_globbing(ext).set_case_insensitive(nocase).exactly_matches(s))
//!   `MX <ext> <nocase> <pattern> <alphabet> <maxlen>` → same, subjects = every string over the alphabet
//!     up to maxlen (by length, then in alphabet order)
use vh::{esc, fields};

fn flag(s: &str) -> bool {
    s == "1"
}

fn handle(f: &[String]) -> String {
    match f.first().map(String::as_str) {
        Some("T") if f.len() == 3 => {
            match brush_parser::pattern::pattern_to_regex_str(&f[2], flag(&f[1])) {
                Ok(s) => format!("R={}", esc(&s)),
                Err(_) => "ERR".to_string(),
            }
        }
        Some("H") if f.len() == 3 => {
            if brush_parser::pattern::pattern_has_glob_metacharacters(&f[2], flag(&f[1])) { "1".into() } else { "0".into() }
        }
        Some("M") if f.len() >= 4 => {
            let pat = brush_core::patterns::Pattern::from(f[3].as_str())
                .set_extended_globbing(flag(&f[1]))
                .set_case_insensitive(flag(&f[2]));
            let mut out = String::new();
            for s in &f[4..] {
                out.push(match pat.exactly_matches(s) {
                    Ok(true) => '1',
                    Ok(false) => '0',
                    Err(_) => 'E',
                });
            }
            if out.is_empty() { "-".into() } else { out }
        }
        Some("MX") if f.len() == 6 => {
            let pat = brush_core::patterns::Pattern::from(f[3].as_str())
                .set_extended_globbing(flag(&f[1]))
                .set_case_insensitive(flag(&f[2]));
            let alpha: Vec<char> = f[4].chars().collect();
            let maxlen: usize = f[5].parse().unwrap_or(0);
            let mut out = String::new();
            let mut level: Vec<String> = vec![String::new()];
            for l in 0..=maxlen {
                for s in &level {
                    out.push(match pat.exactly_matches(s) {
                        Ok(true) => '1',
                        Ok(false) => '0',
                        Err(_) => 'E',
                    });
                }
                if l < maxlen {
                    let mut next = Vec::with_capacity(level.len() * alpha.len());
                    for s in &level {
                        for c in &alpha {
                            let mut t = s.clone();
                            t.push(*c);
                            next.push(t);
                        }
                    }
                    level = next;
                }
            }
            out
        }
        _ => "bad-request".to_string(),
    }
}

fn main() {
    for line in vh::lines() {
        let f = fields(&line);
        let r = std::panic::catch_unwind(|| handle(&f)).unwrap_or_else(|_| "PANIC".to_string());
        println!("{r}");
    }
}
