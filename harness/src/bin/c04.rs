//! C04 / C05 harness: word expansion through brush's real expander, in-process.
//!
//! Request: space separated `vh::esc`-escaped fields; the first character of each (unescaped) field is a tag.
//! Fields meant for the Lean driver (`n`, upper-case AST tags, `(`…) are ignored here.
//!   d<dir>          working directory of the shell (a scratch directory prepared by the caller)
//!   i<ifs>          IFS value; `u` alone = IFS unset; absent = the shell's default
//!   o<letters>      options: n nullglob, f failglob, d dotglob, e extglob, g noglob (set -f)
//!   p<arg>          one positional parameter (repeatable)
//!   v<name>=<val>   scalar variable, set through the environment API (no shell syntax involved)
//!   a<name>         starts an indexed array; each following e<elem> adds an element
//!   h<home>         HOME
//!   m<v> [+<v>…]    one *item* (a list of strings; `z` = the empty list), repeatable. With items, the action is
//!                   performed once per item in the same shell after `x` := first string (or empty), the
//!                   positional parameters := the strings, array `k` := the strings; results joined by ` %| `
//!   w<word>         expand with `Shell::full_expand_and_split_string` -> `OK f1 f2 …` | `ERR`
//!   s<word>         expand with `Shell::basic_expand_string`          -> `OK f` | `ERR`
//!   r<script>       run the script, then report: `RC <n>|ERR ;A <args…> ;Y <S val|U> ;R <elems…>`
//!                   (positional parameters, scalar `y`, indexed array `r` after the run)
//! A request that is the single field `y<word>` is the word-parser tie: `brush_parser::word::parse(word, default options)`
//!   -> `OK <piece>…` | `ERR`; piece = `<tag> <start> <end> <payload>` (T text, Q single quoted, E escape, C command, A arithmetic,
//!   H tilde, P parameter, O `${p OP w}`, X anything else) or `D <start> <end> [ <piece>… ]`.
use std::collections::BTreeMap;
use std::panic::AssertUnwindSafe;
use brush_core::variables::{ShellValue, ShellVariable};
use vh::{esc, fields};

async fn base_shell() -> vh::Sh {
    brush_core::Shell::builder()
        .interactive(false)
        .no_editing(true)
        .profile(brush_core::ProfileLoadBehavior::Skip)
        .rc(brush_core::RcLoadBehavior::Skip)
        .shell_name("sh0".to_string())
        .builtins(brush_builtins::default_builtins(brush_builtins::BuiltinSet::BashMode))
        .build()
        .await
        .expect("shell build")
}

fn set_var(shell: &mut vh::Sh, name: &str, v: ShellValue) {
    let _ = shell.env_mut().unset(name);
    shell.env_mut().set_global(name, ShellVariable::new(v)).unwrap();
}

fn list(items: impl IntoIterator<Item = String>) -> String {
    let mut s = String::new();
    for f in items {
        s.push(' ');
        s.push_str(&esc(&f));
    }
    s
}

async fn one(base: &vh::Sh, f: &[String]) -> String {
    let mut shell = base.clone();
    let mut action: Option<(char, String)> = None;
    let mut cur_arr: Option<(String, Vec<String>)> = None;
    let mut arrays: Vec<(String, Vec<String>)> = vec![];
    let mut opts = String::new();
    let mut args: Vec<String> = vec![];
    let mut items: Vec<Vec<String>> = vec![];
    for fld in f {
        let mut cs = fld.chars();
        let Some(tag) = cs.next() else { continue };
        let rest: String = cs.collect();
        if tag != 'e' {
            if let Some(a) = cur_arr.take() {
                arrays.push(a);
            }
        }
        match tag {
            'd' => {
                if shell.set_working_dir(&rest).is_err() {
                    return "BAD-DIR".into();
                }
            }
            'i' => set_var(&mut shell, "IFS", ShellValue::String(rest)),
            'u' => {
                let _ = shell.env_mut().unset("IFS");
            }
            'o' => opts = rest,
            'p' => args.push(rest),
            'h' => set_var(&mut shell, "HOME", ShellValue::String(rest)),
            'v' => {
                let Some((n, v)) = rest.split_once('=') else { return "BAD-REQUEST".into() };
                set_var(&mut shell, n, ShellValue::String(v.to_string()));
            }
            'a' => cur_arr = Some((rest, vec![])),
            'e' => {
                if let Some(a) = cur_arr.as_mut() {
                    a.1.push(rest);
                }
            }
            'm' => items.push(vec![rest]),
            'z' => items.push(vec![]),
            '+' => {
                if let Some(it) = items.last_mut() {
                    it.push(rest);
                }
            }
            'w' | 's' | 'r' => action = Some((tag, rest)),
            _ => {}
        }
    }
    if let Some(a) = cur_arr.take() {
        arrays.push(a);
    }
    for (n, els) in arrays {
        let m: BTreeMap<u64, String> = els.into_iter().enumerate().map(|(i, v)| (i as u64, v)).collect();
        set_var(&mut shell, &n, ShellValue::IndexedArray(m));
    }
    *shell.current_shell_args_mut() = args;
    {
        let o = shell.options_mut();
        for c in opts.chars() {
            match c {
                'n' => o.expand_non_matching_patterns_to_null = true,
                'f' => o.fail_expansion_on_globs_without_match = true,
                'd' => o.glob_matches_dotfiles = true,
                'e' => o.extended_globbing = true,
                'E' => o.extended_globbing = false,
                'g' => o.disable_filename_globbing = true,
                _ => {}
            }
        }
    }
    let Some((mode, text)) = action else { return "BAD-REQUEST".into() };
    if items.is_empty() {
        return act(&mut shell, mode, &text).await;
    }
    let mut outs = vec![];
    for it in items {
        set_var(&mut shell, "x", ShellValue::String(it.first().cloned().unwrap_or_default()));
        let m: BTreeMap<u64, String> = it.iter().cloned().enumerate().map(|(i, v)| (i as u64, v)).collect();
        set_var(&mut shell, "k", ShellValue::IndexedArray(m));
        *shell.current_shell_args_mut() = it;
        outs.push(act(&mut shell, mode, &text).await);
    }
    outs.join(" %| ")
}

async fn act(shell: &mut vh::Sh, mode: char, text: &str) -> String {
    let params = shell.default_exec_params();
    match mode {
        'w' => match shell.full_expand_and_split_string(&params, text).await {
            Ok(fs) => format!("OK{}", list(fs)),
            Err(_) => "ERR".into(),
        },
        's' => match shell.basic_expand_string(&params, text).await {
            Ok(s) => format!("OK{}", list([s])),
            Err(_) => "ERR".into(),
        },
        _ => {
            let rc = match vh::run(shell, text).await {
                Ok(c) => format!("RC {c}"),
                Err(_) => "ERR".to_string(),
            };
            let a = list(shell.current_shell_args().iter().cloned());
            let y = match shell.env().get("y") {
                Some((_, var)) if !matches!(var.value(), ShellValue::Unset(_)) => {
                    match var.value().try_get_cow_str(shell) {
                        Some(s) => format!("S {}", esc(&s)),
                        None => "U".into(),
                    }
                }
                _ => "U".into(),
            };
            let r = match shell.env().get("r") {
                Some((_, var)) => list(var.value().element_values(shell)),
                None => String::new(),
            };
            format!("{rc} ;A{a} ;Y {y} ;R{r}")
        }
    }
}

// ---- word parser tie (`y<word>`): brush_parser::word::parse with the default options, canonical piece list
fn wp_param(p: &brush_parser::word::Parameter) -> Option<String> {
    use brush_parser::word::{Parameter as P, SpecialParameter as S};
    Some(match p {
        P::Positional(k) => format!("p{k}"),
        P::Named(n) => format!("n{n}"),
        P::Special(sp) => format!("s{}", match sp {
            S::AllPositionalParameters { concatenate: false } => '@',
            S::AllPositionalParameters { concatenate: true } => '*',
            S::PositionalParameterCount => '#',
            S::LastExitStatus => '?',
            S::CurrentOptionFlags => '-',
            S::ProcessId => '$',
            S::LastBackgroundProcessId => '!',
            S::ShellName => '0',
        }),
        _ => return None,
    })
}

fn wp_atom(tag: char, s: usize, e: usize, payload: &str) -> String {
    format!("{tag} {s} {e} {}", esc(payload))
}

fn wp_piece(p: &brush_parser::word::WordPieceWithSource, nested: bool) -> String {
    use brush_parser::word::{ParameterExpr as X, ParameterTestType as TT, TildeExpr as H, WordPiece as W};
    let (s, e) = (p.start_index, p.end_index);
    let other = |what: &str| wp_atom('X', s, e, what);
    let op = |parameter, indirect: &bool, colon: Option<&TT>, o: &str, w: &Option<String>| -> String {
        let c = match colon { Some(TT::UnsetOrNull) => ':', _ => '.' };
        match (wp_param(parameter), indirect, w) {
            (Some(ps), false, Some(w)) => wp_atom('O', s, e, &format!("{ps}|{c}{o}|{w}")),
            _ => other("paramop"),
        }
    };
    match &p.piece {
        W::Text(t) => wp_atom('T', s, e, t),
        W::SingleQuotedText(t) => wp_atom('Q', s, e, t),
        W::EscapeSequence(t) => wp_atom('E', s, e, t),
        W::CommandSubstitution(t) => wp_atom('C', s, e, t),
        W::ArithmeticExpression(a) => wp_atom('A', s, e, &a.value),
        W::TildeExpansion(t) => wp_atom('H', s, e, &match t {
            H::Home => "home".to_string(),
            H::WorkingDir => "pwd".to_string(),
            H::OldWorkingDir => "oldpwd".to_string(),
            H::UserHome(u) => format!("user:{u}"),
            H::NthDirFromTopOfDirStack { n, plus_used } => format!("top:{n}:{}", if *plus_used { '+' } else { '.' }),
            H::NthDirFromBottomOfDirStack { n } => format!("bot:{n}"),
        }),
        W::DoubleQuotedSequence(inner) if !nested => {
            let mut o = format!("D {s} {e} [");
            for q in inner {
                o.push(' ');
                o.push_str(&wp_piece(q, true));
            }
            o.push_str(" ]");
            o
        }
        W::ParameterExpansion(x) => match x {
            X::Parameter { parameter, indirect: false } => match wp_param(parameter) {
                Some(ps) => wp_atom('P', s, e, &ps),
                None => other("param"),
            },
            X::UseDefaultValues { parameter, indirect, test_type, default_value } =>
                op(parameter, indirect, Some(test_type), "-", default_value),
            X::AssignDefaultValues { parameter, indirect, test_type, default_value } =>
                op(parameter, indirect, Some(test_type), "=", default_value),
            X::IndicateErrorIfNullOrUnset { parameter, indirect, test_type, error_message } =>
                op(parameter, indirect, Some(test_type), "?", error_message),
            X::UseAlternativeValue { parameter, indirect, test_type, alternative_value } =>
                op(parameter, indirect, Some(test_type), "+", alternative_value),
            X::RemoveSmallestSuffixPattern { parameter, indirect, pattern } => op(parameter, indirect, None, "%", pattern),
            X::RemoveLargestSuffixPattern { parameter, indirect, pattern } => op(parameter, indirect, None, "%%", pattern),
            X::RemoveSmallestPrefixPattern { parameter, indirect, pattern } => op(parameter, indirect, None, "#", pattern),
            X::RemoveLargestPrefixPattern { parameter, indirect, pattern } => op(parameter, indirect, None, "##", pattern),
            _ => other("paramexpr"),
        },
        _ => other("piece"),
    }
}

fn word_pieces(word: &str) -> String {
    match brush_parser::word::parse(word, &brush_parser::ParserOptions::default()) {
        Ok(ps) => {
            let mut o = String::from("OK");
            for p in &ps {
                o.push(' ');
                o.push_str(&wp_piece(p, false));
            }
            o
        }
        Err(_) => "ERR".to_string(),
    }
}

fn main() {
    std::panic::set_hook(Box::new(|_| {}));
    let rt = tokio::runtime::Builder::new_multi_thread().worker_threads(2).enable_all().build().unwrap();
    let base = rt.block_on(base_shell());
    for line in vh::lines() {
        let f = fields(&line);
        if f.len() == 1 && f[0].starts_with('y') {
            let w = f[0][1..].to_string();
            match std::panic::catch_unwind(|| word_pieces(&w)) {
                Ok(s) => println!("{s}"),
                Err(_) => println!("PANIC"),
            }
            continue;
        }
        let res = std::panic::catch_unwind(AssertUnwindSafe(|| rt.block_on(one(&base, &f))));
        match res {
            Ok(s) => println!("{s}"),
            Err(_) => println!("PANIC"),
        }
    }
}
