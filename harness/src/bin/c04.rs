//! C04 / C05 harness: word expansion through brush's real expander, in-process.
//!
//! Request: space separated `vh::esc`-escaped fields; the first character of each (unescaped) field is a tag.
//! Fields meant for the Lean driver (`n`, upper-case AST tags, `(`…) are ignored here.
//!   d<dir>          working directory of the shell (a scratch directory prepared by the caller)
//!   i<ifs>          IFS value; `u` alone = IFS unset; absent = the shell's default
//!   o<letters>      options: n nullglob, f failglob, d dotglob, e extglob, g noglob (set -f)
//!   p<arg>          one positional parameter (repeatable)
//!   v<name>=<val>   scalar variable, set through the environment API (no shell syntax involved)
//!   a<name>         starts an indexed array; each following e<elem> adds an element
//!   h<home>         HOME
//!   m<v> [+<v>…]    one *item* (a list of strings; `z` = the empty list), repeatable. With items, the action is
//!                   performed once per item in the same shell after `x` := first string (or empty), the
//!                   positional parameters := the strings, array `k` := the strings; results joined by ` %| `
//!   w<word>         expand with `Shell::full_expand_and_split_string` -> `OK f1 f2 …` | `ERR`
//!   s<word>         expand with `Shell::basic_expand_string`          -> `OK f` | `ERR`
//!   r<script>       run the script, then report: `RC <n>|ERR ;A <args…> ;Y <S val|U> ;R <elems…>`
//!                   (positional parameters, scalar `y`, indexed array `r` after the run)
use std::collections::BTreeMap;
use std::panic::AssertUnwindSafe;
use brush_core::variables::{ShellValue, ShellVariable};
use vh::{esc, fields};

async fn base_shell() -> vh::Sh {
    brush_core::Shell::builder()
        .interactive(false)
        .no_editing(true)
        .profile(brush_core::ProfileLoadBehavior::Skip)
        .rc(brush_core::RcLoadBehavior::Skip)
        .shell_name("sh0".to_string())
        .builtins(brush_builtins::default_builtins(brush_builtins::BuiltinSet::BashMode))
        .build()
        .await
        .expect("shell build")
}

fn set_var(shell: &mut vh::Sh, name: &str, v: ShellValue) {
    let _ = shell.env_mut().unset(name);
    shell.env_mut().set_global(name, ShellVariable::new(v)).unwrap();
}

fn list(items: impl IntoIterator<Item = String>) -> String {
    let mut s = String::new();
    for f in items {
        s.push(' ');
        s.push_str(&esc(&f));
    }
    s
}

async fn one(base: &vh::Sh, f: &[String]) -> String {
    let mut shell = base.clone();
    let mut action: Option<(char, String)> = None;
    let mut cur_arr: Option<(String, Vec<String>)> = None;
    let mut arrays: Vec<(String, Vec<String>)> = vec![];
    let mut opts = String::new();
    let mut args: Vec<String> = vec![];
    let mut items: Vec<Vec<String>> = vec![];
    for fld in f {
        let mut cs = fld.chars();
        let Some(tag) = cs.next() else { continue };
        let rest: String = cs.collect();
        if tag != 'e' {
            if let Some(a) = cur_arr.take() {
                arrays.push(a);
            }
        }
        match tag {
            'd' => {
                if shell.set_working_dir(&rest).is_err() {
                    return "BAD-DIR".into();
                }
            }
            'i' => set_var(&mut shell, "IFS", ShellValue::String(rest)),
            'u' => {
                let _ = shell.env_mut().unset("IFS");
            }
            'o' => opts = rest,
            'p' => args.push(rest),
            'h' => set_var(&mut shell, "HOME", ShellValue::String(rest)),
            'v' => {
                let Some((n, v)) = rest.split_once('=') else { return "BAD-REQUEST".into() };
                set_var(&mut shell, n, ShellValue::String(v.to_string()));
            }
            'a' => cur_arr = Some((rest, vec![])),
            'e' => {
                if let Some(a) = cur_arr.as_mut() {
                    a.1.push(rest);
                }
            }
            'm' => items.push(vec![rest]),
            'z' => items.push(vec![]),
            '+' => {
                if let Some(it) = items.last_mut() {
                    it.push(rest);
                }
            }
            'w' | 's' | 'r' => action = Some((tag, rest)),
            _ => {}
        }
    }
    if let Some(a) = cur_arr.take() {
        arrays.push(a);
    }
    for (n, els) in arrays {
        let m: BTreeMap<u64, String> = els.into_iter().enumerate().map(|(i, v)| (i as u64, v)).collect();
        set_var(&mut shell, &n, ShellValue::IndexedArray(m));
    }
    *shell.current_shell_args_mut() = args;
    {
        let o = shell.options_mut();
        for c in opts.chars() {
            match c {
                'n' => o.expand_non_matching_patterns_to_null = true,
                'f' => o.fail_expansion_on_globs_without_match = true,
                'd' => o.glob_matches_dotfiles = true,
                'e' => o.extended_globbing = true,
                'E' => o.extended_globbing = false,
                'g' => o.disable_filename_globbing = true,
                _ => {}
            }
        }
    }
    let Some((mode, text)) = action else { return "BAD-REQUEST".into() };
    if items.is_empty() {
        return act(&mut shell, mode, &text).await;
    }
    let mut outs = vec![];
    for it in items {
        set_var(&mut shell, "x", ShellValue::String(it.first().cloned().unwrap_or_default()));
        let m: BTreeMap<u64, String> = it.iter().cloned().enumerate().map(|(i, v)| (i as u64, v)).collect();
        set_var(&mut shell, "k", ShellValue::IndexedArray(m));
        *shell.current_shell_args_mut() = it;
        outs.push(act(&mut shell, mode, &text).await);
    }
    outs.join(" %| ")
}

async fn act(shell: &mut vh::Sh, mode: char, text: &str) -> String {
    let params = shell.default_exec_params();
    match mode {
        'w' => match shell.full_expand_and_split_string(&params, text).await {
            Ok(fs) => format!("OK{}", list(fs)),
            Err(_) => "ERR".into(),
        },
        's' => match shell.basic_expand_string(&params, text).await {
            Ok(s) => format!("OK{}", list([s])),
            Err(_) => "ERR".into(),
        },
        _ => {
            let rc = match vh::run(shell, text).await {
                Ok(c) => format!("RC {c}"),
                Err(_) => "ERR".to_string(),
            };
            let a = list(shell.current_shell_args().iter().cloned());
            let y = match shell.env().get("y") {
                Some((_, var)) if !matches!(var.value(), ShellValue::Unset(_)) => {
                    match var.value().try_get_cow_str(shell) {
                        Some(s) => format!("S {}", esc(&s)),
                        None => "U".into(),
                    }
                }
                _ => "U".into(),
            };
            let r = match shell.env().get("r") {
                Some((_, var)) => list(var.value().element_values(shell)),
                None => String::new(),
            };
            format!("{rc} ;A{a} ;Y {y} ;R{r}")
        }
    }
}

fn main() {
    std::panic::set_hook(Box::new(|_| {}));
    let rt = tokio::runtime::Builder::new_multi_thread().worker_threads(2).enable_all().build().unwrap();
    let base = rt.block_on(base_shell());
    for line in vh::lines() {
        let f = fields(&line);
        let res = std::panic::catch_unwind(AssertUnwindSafe(|| rt.block_on(one(&base, &f))));
        match res {
            Ok(s) => println!("{s}"),
            Err(_) => println!("PANIC"),
        }
    }
}
