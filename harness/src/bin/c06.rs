//! C06 harness: parameter-expansion operators through brush's real expander, in-process.
//!
//! Request:  `<setup> <word> <probe>` (three escaped fields)
//!   setup  shell text run first in a fresh clone of a base shell (assignments, `set -u`, `set -- …`)
//!   word   the word handed to `Shell::full_expand_and_split_string` (normally `"${…}"`)
//!   probe  `-` or a variable name / `name[index]` whose value is reported after the expansion
//! Response: `OK f1 f2 … ;S <value>` | `OK … ;U` | `OK … ;N` | `ERR ;…` | `PANIC ;…`
//!   (fields escaped; `;S v` probe is set to v, `;U` probe is unset, `;N` nothing probed)
use std::panic::AssertUnwindSafe;
use vh::{esc, fields};

async fn base_shell() -> vh::Sh {
    brush_core::Shell::builder()
        .interactive(false)
        .no_editing(true)
        .profile(brush_core::ProfileLoadBehavior::Skip)
        .rc(brush_core::RcLoadBehavior::Skip)
        .shell_name("sh0".to_string())
        .builtins(brush_builtins::default_builtins(brush_builtins::BuiltinSet::BashMode))
        .build()
        .await
        .expect("shell build")
}

fn probe(shell: &vh::Sh, p: &str) -> String {
    if p == "-" {
        return ";N".into();
    }
    let (name, idx) = match p.find('[') {
        Some(i) => (&p[..i], Some(&p[i + 1..p.len() - 1])),
        None => (p, None),
    };
    let Some((_, var)) = shell.env().get(name) else { return ";U".into() };
    let v = match idx {
        Some(i) => var.value().get_at(i, shell).ok().flatten().map(|c| c.to_string()),
        None => {
            if matches!(var.value(), brush_core::ShellValue::Unset(_)) {
                None
            } else {
                var.value().try_get_cow_str(shell).map(|c| c.to_string())
            }
        }
    };
    match v {
        Some(s) => format!(";S {}", esc(&s)),
        None => ";U".into(),
    }
}

async fn one(base: &vh::Sh, setup: &str, word: &str, pr: &str) -> String {
    let mut shell = base.clone();
    if !setup.is_empty() {
        if vh::run(&mut shell, setup).await.is_err() {
            return "SETUP-ERR ;N".into();
        }
    }
    let params = shell.default_exec_params();
    let r = shell.full_expand_and_split_string(&params, word).await;
    let head = match r {
        Ok(fs) => {
            let mut s = String::from("OK");
            for f in fs {
                s.push(' ');
                s.push_str(&esc(&f));
            }
            s
        }
        Err(_) => "ERR".to_string(),
    };
    format!("{head} {}", probe(&shell, pr))
}

fn main() {
    std::panic::set_hook(Box::new(|_| {}));
    let rt = tokio::runtime::Builder::new_multi_thread().worker_threads(2).enable_all().build().unwrap();
    let base = rt.block_on(base_shell());
    for line in vh::lines() {
        let f = fields(&line);
        if f.len() != 3 {
            println!("BAD-REQUEST ;N");
            continue;
        }
        let res = std::panic::catch_unwind(AssertUnwindSafe(|| rt.block_on(one(&base, &f[0], &f[1], &f[2]))));
        match res {
            Ok(s) => println!("{s}"),
            Err(_) => println!("PANIC ;N"),
        }
    }
}
