//! C14 harness: function definitions through brush's real parser, `Display` printer and import path.
//! Request:  `<esc(source text that defines function f)>`
//! Response: `D=<ok|err|nofunc|PANIC> P1=<esc> R=<ok|err|nofunc> A=<same|diff|-> P2=<esc|-> X=<esc|-> I=<ok|err> IA=<same|diff|-> P3=<esc|->`
//!   P1 = `Display` of the stored definition (what `declare -f` / `type` print)
//!   R/A/P2 = P1 run again in a fresh shell: did it define f, is the AST (locations erased) the same, its print
//!   X = the value of BASH_FUNC_f%% that `compose_std_command` gives a child process after `export -f f`
//!   I/IA/P3 = X through `define_func_from_str` (the import path of a child brush)
use vh::{esc, new_shell, run, unesc};

fn erase(v: &mut serde_json::Value) {
    use serde_json::Value as V;
    match v {
        V::Object(m) => {
            let is_span = m.len() == 2 && m.contains_key("start") && m.contains_key("end");
            if is_span {
                *v = V::Null;
                return;
            }
            m.remove("loc");
            for (_, x) in m.iter_mut() {
                erase(x);
            }
        }
        V::Array(a) => {
            for x in a.iter_mut() {
                erase(x);
            }
        }
        _ => {}
    }
}

fn ast_json(d: &brush_parser::ast::FunctionDefinition) -> String {
    let mut v = serde_json::to_value(d).unwrap_or(serde_json::Value::Null);
    erase(&mut v);
    v.to_string()
}

async fn define(text: &str) -> Result<Option<brush_parser::ast::FunctionDefinition>, String> {
    let mut shell = new_shell(false, &[]).await;
    match run(&mut shell, text).await {
        Ok(_) => Ok(shell.funcs().get("f").map(|r| r.definition().clone())),
        Err(e) => Err(e),
    }
}

/// Defines f, marks it exported, and asks brush-core for the environment of a child process.
async fn export_text(src: &str) -> Option<String> {
    let mut shell = new_shell(false, &[]).await;
    run(&mut shell, src).await.ok()?;
    run(&mut shell, "export -f f").await.ok()?;
    let params = shell.default_exec_params();
    let ctx = brush_core::ExecutionContext { shell: &mut shell, command_name: "true".to_string(), params };
    let no_args: [&str; 0] = [];
    let cmd = brush_core::commands::compose_std_command(&ctx, "/bin/true", "true", &no_args, false).ok()?;
    for (k, v) in cmd.get_envs() {
        if k.to_str() == Some("BASH_FUNC_f%%") {
            return v.and_then(|v| v.to_str()).map(|s| s.to_string());
        }
    }
    None
}

async fn one(src: String) -> String {
    let d1 = match define(&src).await {
        Ok(Some(d)) => d,
        Ok(None) => return "D=nofunc".into(),
        Err(_) => return "D=err".into(),
    };
    let p1 = d1.to_string();
    let a1 = ast_json(&d1);
    let (r, a, p2) = match define(&p1).await {
        Ok(Some(d2)) => ("ok", if ast_json(&d2) == a1 { "same" } else { "diff" }, esc(&d2.to_string())),
        Ok(None) => ("nofunc", "-", "-".to_string()),
        Err(_) => ("err", "-", "-".to_string()),
    };
    // the export path: the text the real `compose_std_command` puts in BASH_FUNC_f%% for a child process
    let body_text = match export_text(&src).await {
        Some(t) => t,
        None => return format!("D=ok P1={} R={} A={} P2={} X=- I=err IA=- P3=-", esc(&p1), r, a, p2),
    };
    let mut shell = new_shell(false, &[]).await;
    let (i, ia, p3) = match shell.define_func_from_str("f", &body_text) {
        Ok(()) => match shell.funcs().get("f") {
            Some(reg) => {
                let d3 = reg.definition().clone();
                ("ok", if ast_json(&d3) == a1 { "same" } else { "diff" }, esc(&d3.to_string()))
            }
            None => ("err", "-", "-".to_string()),
        },
        Err(_) => ("err", "-", "-".to_string()),
    };
    format!("D=ok P1={} R={} A={} P2={} X={} I={} IA={} P3={}", esc(&p1), r, a, p2, esc(&body_text), i, ia, p3)
}

fn main() {
    // definitions are only stored, never called; still, run everything in a private scratch directory
    let dir = std::env::temp_dir().join(format!("vh-c14-{}", std::process::id()));
    std::fs::create_dir_all(&dir).unwrap();
    std::env::set_current_dir(&dir).unwrap();
    let rt = tokio::runtime::Builder::new_multi_thread().worker_threads(2).enable_all().build().unwrap();
    for line in vh::lines() {
        let src = unesc(line.trim());
        let rt_ref = &rt;
        let res = std::panic::catch_unwind(std::panic::AssertUnwindSafe(|| rt_ref.block_on(one(src))));
        match res {
            Ok(s) => println!("{s}"),
            Err(_) => println!("D=PANIC"),
        }
    }
    let _ = std::env::set_current_dir("/");
    let _ = std::fs::remove_dir_all(&dir);
}
