//! C15 harness: delivery-independence of parsing.
//!
//! Requests (one per line, all read before anything is processed because fd 0 is re-pointed below):
//!   `acc <text>`          feed <text> as standard input to the real `MinimalInputBackend::read_line`
//!                         (read_program_from + completeness::needs_more_input) until Eof.
//!                         Response: `CH=<esc of the esc'd chunks joined by newline> T=<i>:<j>:<code>:<code2>;…` where the table gives the
//!                         outcome class of `Shell::parse_string` on every range of lines [i,j) and on the same
//!                         range with the final newline removed when it ends in backslash-newline (else `-`).
//!   `parse <eps> <text>`  set extglob/posix/sh (three 0/1 chars) on the long-lived shell of this process, then
//!                         P= Shell::parse_string (cached)  U= Shell::parse (never cached)  W= word::parse (cached)
//!                         T= tokenize_str_with_options (cached)  A= arithmetic::parse (cached); each `<class>:<hash>`.
use std::hash::{Hash, Hasher};
use std::sync::Arc;
use vh::{esc, fields, new_shell};

use brush_interactive::{InputBackend, InteractivePrompt, MinimalInputBackend, ReadResult};

unsafe extern "C" {
    fn pipe(fds: *mut i32) -> i32;
    fn dup2(a: i32, b: i32) -> i32;
    fn close(a: i32) -> i32;
    fn write(fd: i32, buf: *const u8, n: usize) -> isize;
}

fn h(s: &str) -> String {
    let mut d = std::collections::hash_map::DefaultHasher::new();
    s.hash(&mut d);
    format!("{:016x}", d.finish())
}

fn variant_name(dbg: &str) -> String {
    dbg.chars().take_while(|c| c.is_ascii_alphanumeric()).collect()
}

fn outcome<T>(r: &Result<T, brush_parser::ParseError>) -> String {
    match r {
        Ok(_) => "ok".into(),
        Err(brush_parser::ParseError::ParsingNear(_)) => "near".into(),
        Err(brush_parser::ParseError::ParsingAtEndOfInput) => "end".into(),
        Err(brush_parser::ParseError::Tokenizing { inner, .. }) => format!("tok={}", variant_name(&format!("{inner:?}"))),
    }
}

fn split_lines(text: &str) -> Vec<String> {
    let mut out = vec![];
    let mut cur = String::new();
    for ch in text.chars() {
        cur.push(ch);
        if ch == '\n' {
            out.push(std::mem::take(&mut cur));
        }
    }
    if !cur.is_empty() {
        out.push(cur);
    }
    out
}

/// Points fd 0 at a pipe holding exactly `text`.
fn stdin_from(text: &str) -> bool {
    let mut fds = [0i32; 2];
    unsafe {
        if pipe(fds.as_mut_ptr()) != 0 {
            return false;
        }
        let b = text.as_bytes();
        let mut off = 0;
        while off < b.len() {
            let n = write(fds[1], b[off..].as_ptr(), b.len() - off);
            if n <= 0 {
                return false;
            }
            off += n as usize;
        }
        close(fds[1]);
        if dup2(fds[0], 0) != 0 {
            return false;
        }
        close(fds[0]);
    }
    true
}

fn prompt() -> InteractivePrompt {
    InteractivePrompt { prompt: String::new(), alt_side_prompt: String::new(), continuation_prompt: String::new() }
}

fn acc(shell_ref: &brush_interactive::ShellRef, text: &str) -> String {
    if text.len() > 60000 || !stdin_from(text) {
        return "ERR=stdin".into();
    }
    let mut backend = MinimalInputBackend;
    let mut chunks = vec![];
    loop {
        match backend.read_line(shell_ref, prompt()) {
            Ok(ReadResult::Input(s)) => chunks.push(esc(&s)),
            Ok(ReadResult::Eof) => break,
            Ok(ReadResult::BoundCommand(_)) => chunks.push("<bound>".into()),
            Ok(ReadResult::Interrupted) => chunks.push("<interrupted>".into()),
            Err(e) => {
                chunks.push(format!("<err:{}>", esc(&format!("{e}"))));
                break;
            }
        }
        if chunks.len() > 10000 {
            break;
        }
    }
    let lines = split_lines(text);
    let shell = shell_ref.try_lock().expect("shell lock");
    let mut table = vec![];
    for i in 0..lines.len() {
        let mut s = String::new();
        for j in i..lines.len() {
            s.push_str(&lines[j]);
            let c1 = outcome(&shell.parse_string(s.as_str()));
            let c2 = match s.strip_suffix('\n') {
                Some(t) if t.ends_with('\\') => outcome(&shell.parse_string(t)),
                _ => "-".into(),
            };
            table.push(format!("{}:{}:{}:{}", i, j + 1, c1, c2));
        }
    }
    format!("CH={} T={}", esc(&chunks.join("\n")), if table.is_empty() { "-".into() } else { table.join(";") })
}

fn cls<T: std::fmt::Debug, E: std::fmt::Debug>(r: &Result<T, E>) -> String {
    match r {
        Ok(v) => format!("ok:{}", h(&format!("{v:?}"))),
        Err(e) => format!("err:{}", h(&format!("{e:?}"))),
    }
}

fn parse_op(shell_ref: &brush_interactive::ShellRef, bits: &str, text: &str) -> String {
    let b: Vec<bool> = bits.chars().map(|c| c == '1').collect();
    if b.len() != 3 {
        return "ERR=bits".into();
    }
    let mut shell = shell_ref.try_lock().expect("shell lock");
    {
        let o = shell.options_mut();
        o.extended_globbing = b[0];
        o.posix_mode = b[1];
        o.sh_mode = b[2];
    }
    let popts = shell.parser_options();
    let topts = popts.tokenizer_options();
    let w = cls(&brush_parser::word::parse(text, &popts));
    let t = cls(&brush_parser::tokenize_str_with_options(text, &topts));
    let a = cls(&brush_parser::arithmetic::parse(text));
    let pr = shell.parse_string(text);
    let p = format!("{}:{}", outcome(&pr), cls(&pr));
    let ur = shell.parse(text.as_bytes());
    let u = format!("{}:{}", outcome(&ur), cls(&ur));
    format!("P={p} U={u} W={w} T={t} A={a}")
}

#[tokio::main(flavor = "multi_thread", worker_threads = 2)]
async fn main() {
    let reqs: Vec<String> = vh::lines().collect();
    let shell_ref: brush_interactive::ShellRef = Arc::new(tokio::sync::Mutex::new(new_shell(false, &[]).await));
    let acc_ref: brush_interactive::ShellRef = Arc::new(tokio::sync::Mutex::new(new_shell(false, &[]).await));
    let mut out = String::new();
    for line in reqs {
        let f = fields(&line);
        let resp = std::panic::catch_unwind(std::panic::AssertUnwindSafe(|| match f.first().map(String::as_str) {
            Some("acc") => acc(&acc_ref, f.get(1).map_or("", String::as_str)),
            Some("parse") if f.len() >= 2 => parse_op(&shell_ref, &f[1], f.get(2).map_or("", String::as_str)),
            _ => "ERR=bad-request".into(),
        }))
        .unwrap_or_else(|_| "PANIC".into());
        out.push_str(&resp);
        out.push('\n');
    }
    use std::io::Write as _;
    std::io::stdout().write_all(out.as_bytes()).unwrap();
}
