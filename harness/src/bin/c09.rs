//! C09 harness: drives brush's real variable environment.
//!
//! Request `E <op> <op> …`  — the operations are applied directly to a fresh
//!   `brush_core::env::ShellEnvironment` through its public API (`push_scope`, `pop_scope`, `unset`,
//!   `unset_index`, `update_or_add`, `update_or_add_array_element`, `add`); `D` = probe.
//! Request `S <escaped script>` — the script runs in a fresh in-process shell in which the extra
//!   builtin `__dump` is registered; every `__dump` is a probe of the whole scope stack.
//! Response: one dump per probe joined by ` | `:
//!   `S=<ok of last op | -> <scopes bottom→top> V[visible view] X[child environment]`
//! (same canonical text as `lean/BrushVerif/Drv/C09.lean`).
use std::sync::Mutex;

use brush_core::env::{EnvironmentLookup, EnvironmentScope, ShellEnvironment};
use brush_core::variables::{
    ArrayLiteral, ShellValue, ShellValueLiteral, ShellValueUnsetType, ShellVariable,
    ShellVariableUpdateTransform,
};
use vh::{esc, unesc};

static DUMPS: Mutex<Vec<String>> = Mutex::new(Vec::new());

fn tracked(name: &str) -> bool {
    let b = name.as_bytes();
    (b.len() == 1 && b[0].is_ascii_lowercase())
        || (b.len() == 2 && b[0].is_ascii_lowercase() && b[1].is_ascii_digit())
}

fn show_attrs(v: &serde_json::Value) -> String {
    let mut s = String::new();
    if v["exported"].as_bool() == Some(true) {
        s.push('x');
    }
    if v["readonly"].as_bool() == Some(true) {
        s.push('r');
    }
    if v["treat_as_integer"].as_bool() == Some(true) {
        s.push('i');
    }
    match v["transform_on_update"].as_str() {
        Some("Lowercase") => s.push('l'),
        Some("Uppercase") => s.push('u'),
        Some("Capitalize") => s.push('c'),
        _ => {}
    }
    if s.is_empty() {
        s.push('-');
    }
    s
}

fn show_value(v: &serde_json::Value) -> String {
    if let Some(u) = v.get("Unset") {
        return match u.as_str() {
            Some("Untyped") => "U".into(),
            Some("IndexedArray") => "Ua".into(),
            Some("AssociativeArray") => "UA".into(),
            _ => "U?".into(),
        };
    }
    if let Some(s) = v.get("String") {
        return format!("s{}", esc(s.as_str().unwrap_or("?")));
    }
    if let Some(m) = v.get("IndexedArray") {
        let mut items: Vec<(u64, String)> = m
            .as_object()
            .map(|o| o.iter().map(|(k, x)| (k.parse::<u64>().unwrap_or(u64::MAX), x.as_str().unwrap_or("?").to_string())).collect())
            .unwrap_or_default();
        items.sort();
        return format!("I{}", items.iter().map(|(k, x)| format!("{k}={}", esc(x))).collect::<Vec<_>>().join(";"));
    }
    if let Some(m) = v.get("AssociativeArray") {
        let mut items: Vec<(String, String)> = m
            .as_object()
            .map(|o| o.iter().map(|(k, x)| (k.clone(), x.as_str().unwrap_or("?").to_string())).collect())
            .unwrap_or_default();
        items.sort_by(|a, b| a.0.as_bytes().cmp(b.0.as_bytes()));
        return format!("M{}", items.iter().map(|(k, x)| format!("{}={}", esc(k), esc(x))).collect::<Vec<_>>().join(";"));
    }
    "?".into()
}

fn show_var_json(v: &serde_json::Value) -> String {
    format!("{}~{}", show_attrs(v), show_value(&v["value"]))
}

fn show_entries(mut l: Vec<(String, String)>) -> String {
    l.sort_by(|a, b| a.0.as_bytes().cmp(b.0.as_bytes()));
    l.iter().map(|(n, s)| format!("{n}={s}")).collect::<Vec<_>>().join(",")
}

/// The environment a child process would get: built by the real `compose_std_command`
/// (`iter_exported` plus the filters applied there), restricted to the tracked names.
fn child_env<SE: brush_core::ShellExtensions>(
    context: &brush_core::ExecutionContext<'_, SE>,
) -> Vec<(String, String)> {
    let no_args: [&str; 0] = [];
    let mut child = vec![];
    if let Ok(cmd) = brush_core::commands::compose_std_command(context, "env", "env", &no_args, false) {
        for (k, v) in cmd.get_envs() {
            let k = k.to_string_lossy().into_owned();
            if let Some(v) = v {
                if tracked(&k) {
                    child.push((k, esc(&v.to_string_lossy())));
                }
            }
        }
    }
    child
}

/// Canonical dump of an environment; `strip_top` drops the (empty) command scope of the probing builtin.
fn dump_env(
    env: &ShellEnvironment,
    child: Vec<(String, String)>,
    strip_top: bool,
    status: &str,
) -> String {
    let j = serde_json::to_value(env).unwrap_or(serde_json::Value::Null);
    let mut scopes = vec![];
    let empty = vec![];
    let arr = j["scopes"].as_array().unwrap_or(&empty);
    let n = if strip_top && !arr.is_empty() { arr.len() - 1 } else { arr.len() };
    for sc in &arr[..n] {
        let k = match sc[0].as_str() {
            Some("Global") => 'G',
            Some("Local") => 'L',
            Some("Command") => 'C',
            _ => '?',
        };
        let mut entries = vec![];
        if let Some(o) = sc[1]["variables"].as_object() {
            for (name, var) in o {
                if tracked(name) {
                    entries.push((name.clone(), show_var_json(var)));
                }
            }
        }
        scopes.push(format!("{k}[{}]", show_entries(entries)));
    }
    // visible view through `get`, child environment through `iter_exported` + the `is_set` filter
    let mut names: Vec<String> = vec![];
    for sc in arr {
        if let Some(o) = sc[1]["variables"].as_object() {
            for name in o.keys() {
                if tracked(name) && !names.contains(name) {
                    names.push(name.clone());
                }
            }
        }
    }
    let mut view = vec![];
    for name in &names {
        if let Some((_, v)) = env.get(name) {
            let vj = serde_json::to_value(v).unwrap_or(serde_json::Value::Null);
            view.push((name.clone(), show_var_json(&vj)));
        }
    }
    format!("S={status} {} V[{}] X[{}]", scopes.join("/"), show_entries(view), show_entries(child))
}

struct DumpCmd;

impl brush_core::builtins::SimpleCommand for DumpCmd {
    fn get_content(
        _name: &str,
        _content_type: brush_core::builtins::ContentType,
        _options: &brush_core::builtins::ContentOptions,
    ) -> Result<String, brush_core::Error> {
        Ok(String::new())
    }

    fn execute<SE: brush_core::ShellExtensions, I: Iterator<Item = S>, S: AsRef<str>>(
        context: brush_core::ExecutionContext<'_, SE>,
        args: I,
    ) -> Result<brush_core::ExecutionResult, brush_core::Error> {
        let keep = args.into_iter().any(|a| a.as_ref() == "keep");
        let child = child_env(&context);
        let s = dump_env(context.shell.env(), child, !keep, "-");
        DUMPS.lock().unwrap().push(s);
        Ok(brush_core::ExecutionResult::success())
    }
}

fn kind(s: &str) -> Option<EnvironmentScope> {
    match s {
        "g" => Some(EnvironmentScope::Global),
        "l" => Some(EnvironmentScope::Local),
        "c" => Some(EnvironmentScope::Command),
        _ => None,
    }
}

fn policy(s: &str) -> Option<EnvironmentLookup> {
    match s {
        "a" => Some(EnvironmentLookup::Anywhere),
        "g" => Some(EnvironmentLookup::OnlyInGlobal),
        "c" => Some(EnvironmentLookup::OnlyInCurrentLocal),
        "l" => Some(EnvironmentLookup::OnlyInLocal),
        _ => None,
    }
}

fn lit(s: &str) -> Option<ShellValueLiteral> {
    if let Some(r) = s.strip_prefix('s') {
        return Some(ShellValueLiteral::Scalar(unesc(r)));
    }
    let r = s.strip_prefix('A')?;
    let mut items = vec![];
    if !r.is_empty() {
        for it in r.split(',') {
            let (k, v) = it.split_once('=')?;
            let key = if k == "-" { None } else { Some(unesc(k.strip_prefix('k')?)) };
            items.push((key, unesc(v)));
        }
    }
    Some(ShellValueLiteral::Array(ArrayLiteral(items)))
}

fn value(s: &str) -> Option<ShellValue> {
    match s {
        "U" => return Some(ShellValue::Unset(ShellValueUnsetType::Untyped)),
        "Ua" => return Some(ShellValue::Unset(ShellValueUnsetType::IndexedArray)),
        "UA" => return Some(ShellValue::Unset(ShellValueUnsetType::AssociativeArray)),
        _ => {}
    }
    if let Some(r) = s.strip_prefix('s') {
        return Some(ShellValue::String(unesc(r)));
    }
    if let Some(r) = s.strip_prefix('I') {
        let mut m = std::collections::BTreeMap::new();
        if !r.is_empty() {
            for it in r.split(';') {
                let (k, v) = it.split_once('=')?;
                m.insert(unesc(k).parse::<u64>().unwrap_or(0), unesc(v));
            }
        }
        return Some(ShellValue::IndexedArray(m));
    }
    if let Some(r) = s.strip_prefix('M') {
        let mut m = std::collections::BTreeMap::new();
        if !r.is_empty() {
            for it in r.split(';') {
                let (k, v) = it.split_once('=')?;
                m.insert(unesc(k), unesc(v));
            }
        }
        return Some(ShellValue::AssociativeArray(m));
    }
    None
}

fn var(s: &str) -> Option<ShellVariable> {
    let (at, v) = s.split_once('~')?;
    let mut var = ShellVariable::new(value(v)?);
    if at.contains('x') {
        var.export();
    }
    if at.contains('i') {
        var.treat_as_integer();
    }
    if at.contains('l') {
        var.set_update_transform(ShellVariableUpdateTransform::Lowercase);
    } else if at.contains('u') {
        var.set_update_transform(ShellVariableUpdateTransform::Uppercase);
    } else if at.contains('c') {
        var.set_update_transform(ShellVariableUpdateTransform::Capitalize);
    }
    if at.contains('r') {
        var.set_readonly();
    }
    Some(var)
}

/// Applies one API-level op; `None` = malformed op, `Some(ok)` = the call returned `Ok`.
fn api_op(env: &mut ShellEnvironment, tok: &str) -> Option<bool> {
    let f: Vec<&str> = tok.split(':').collect();
    match f.as_slice() {
        ["pu", k] => {
            env.push_scope(kind(k)?);
            Some(true)
        }
        ["po", k] => Some(env.pop_scope(kind(k)?).is_ok()),
        ["un", n] => Some(env.unset(&unesc(n)).is_ok()),
        ["ui", n, i] => Some(env.unset_index(&unesc(n), &unesc(i)).is_ok()),
        ["ua", n, l, u, p, k] => {
            let u = (*u).to_string();
            Some(
                env.update_or_add(
                    unesc(n),
                    lit(l)?,
                    |v| {
                        match u.as_str() {
                            "e" => {
                                v.export();
                            }
                            "u" => {
                                v.unexport();
                            }
                            _ => {}
                        }
                        Ok(())
                    },
                    policy(p)?,
                    kind(k)?,
                )
                .is_ok(),
            )
        }
        ["ue", n, i, v, p, k] => Some(
            env.update_or_add_array_element(unesc(n), unesc(i), unesc(v), |_| Ok(()), policy(p)?, kind(k)?)
                .is_ok(),
        ),
        ["ad", n, v, k] => Some(env.add(unesc(n), var(v)?, kind(k)?).is_ok()),
        _ => None,
    }
}

#[tokio::main(flavor = "multi_thread", worker_threads = 2)]
async fn main() {
    let mut dummy = vh::new_shell(false, &[]).await;
    for line in vh::lines() {
        let (mode, rest) = match line.split_once(' ') {
            Some(x) => x,
            None => (line.as_str(), ""),
        };
        if mode == "E" {
            let r = std::panic::catch_unwind(std::panic::AssertUnwindSafe(|| {
                let mut env = ShellEnvironment::new();
                let mut outs = vec![];
                let mut last = true;
                for tok in rest.split(' ').filter(|t| !t.is_empty()) {
                    if tok == "D" {
                        // the child environment as the real command composer builds it from this environment
                        *dummy.env_mut() = env.clone();
                        let params = dummy.default_exec_params();
                        let context = brush_core::ExecutionContext {
                            shell: &mut dummy,
                            command_name: "env".to_string(),
                            params,
                        };
                        let child = child_env(&context);
                        outs.push(dump_env(&env, child, false, if last { "1" } else { "0" }));
                    } else {
                        match api_op(&mut env, tok) {
                            Some(ok) => last = ok,
                            None => outs.push("bad-op".into()),
                        }
                    }
                }
                outs.join(" | ")
            }));
            println!("{}", r.unwrap_or_else(|_| "PANIC".into()));
        } else if mode == "S" {
            DUMPS.lock().unwrap().clear();
            let script = unesc(rest.trim());
            let mut shell = vh::new_shell(false, &[]).await;
            shell.register_builtin("__dump", brush_core::builtins::simple_builtin::<DumpCmd, _>());
            let h = tokio::spawn(async move {
                let _ = vh::run(&mut shell, &script).await;
            });
            let panicked = h.await.is_err();
            let mut outs = DUMPS.lock().unwrap().clone();
            if panicked {
                outs.push("PANIC".into());
            }
            println!("{}", outs.join(" | "));
        } else {
            println!("bad-request");
        }
    }
}
