//! C19 harness: the syntax highlighter on real lines.
//!
//! Requests (one per line):
//!   `L <esc line> <cursor|*>`
//!       Response: `<tree tokens…> %| <cursor> <spans> %| <cursor> <spans> …`
//!       tree   = what `Highlighter::highlight_program` sees, rebuilt by calling the same public
//!                parser functions (`tokenize_str_with_options`, `word::parse`) — see `program()`.
//!       spans  = `start-end-Kind,…` of `highlight_command(shell, line, cursor).spans()`, `-` when
//!                empty, `PANIC:<msg>` when the call panicked.
//!   `E <esc alphabet> <len> <lo> <hi>`
//!       Enumerates the lines of exactly `len` symbols over the alphabet whose index (base
//!       |alphabet|, most significant symbol first) lies in [lo,hi); every cursor on a char
//!       boundary; evaluates the tiling predicate on brush's real spans.
//!       Response: `n=<lines> calls=<calls> bad=<count> digest=<fnv of all spans> <esc line>\t<cursor>\t<spans> …`
//!       (failing cases, at most 4000 listed).
//!   `S <esc line> <esc name> <op> <op> …`   (context sweep: the SAME line while the shell's state changes)
//!       A fresh shell (clone of the pristine start-up shell) per request; ops change its state through the real builtins
//!       (`alias+ alias- func+ func- extglob+ extglob- posix+ posix- path+ path0 path= cd+ cd-`), `H` highlights
//!       the line now (tree + every byte offset 0..=len as cursor, also inside multi-byte chars).
//!       Response: the `L`-style answers of the `H` steps joined by ` %# `.
//!   `X <esc script>`   prefix closure: every prefix of the script (cut at char boundaries), cursors 0, len/2
//!       (raw byte), len; the predicate on brush's spans.  Response: `n=<prefixes> calls=… bad=… <preflen>\t<cursor>\t<spans> …`
//!   `K <extglob 0|1><sh_mode 0|1> <esc line>`   the tokenizer alone: `tokenize_str_with_options(line, opts)` in canonical form
//!       `ok <tok>*` with tok = `<W|O>:<start>:<end>:<sline>.<scol>:<eline>.<ecol>:<esc text>` (indices count chars, as
//!       `SourcePosition::index` does) | `err:escape` | `err:single:<index>:<line>.<col>` | `err:double:…` | `err:other:<variant>` | `PANIC:…`
//!   `KO`   the tokenizer options the start-up shell hands to the highlighter: `<extglob 0|1><sh_mode 0|1>`
//!   `T <esc line>`   timing of one call (cursor = len): `us=<micros> ok=<0|1> nspans=<n>`
//! A watchdog thread ends the process (exit code 3, `HANG <esc line> <cursor|tree> <idx>` on stderr)
//! when one call into brush takes longer than `C19_WATCHDOG_MS` (default 20 s).
use brush_interactive::highlighting::highlight_command;
use std::collections::HashMap;
use std::fmt::Write as _;
use std::sync::atomic::{AtomicU64, Ordering};
use vh::{esc, unesc};

static CASE_STARTED_MS: AtomicU64 = AtomicU64::new(0);
static CURRENT: std::sync::Mutex<String> = std::sync::Mutex::new(String::new());

fn now_ms() -> u64 {
    std::time::SystemTime::now().duration_since(std::time::UNIX_EPOCH).unwrap().as_millis() as u64
}

struct Cx<'a> {
    shell: &'a vh::Sh,
    /// memo of `class` — valid only while the shell's state does not change (cleared per `H` step)
    classes: HashMap<String, char>,
}

impl Cx<'_> {
    /// What `classify_possible_command` would answer if the cursor were elsewhere:
    /// K keyword, A alias, F function, B builtin, E external (found), N not found.
    fn class(&mut self, name: &str) -> char {
        if let Some(c) = self.classes.get(name) {
            return *c;
        }
        let sh = self.shell;
        let c = if sh.is_keyword(name) {
            'K'
        } else if sh.aliases().contains_key(name) {
            'A'
        } else if sh.funcs().get(name).is_some() {
            'F'
        } else if sh.builtins().contains_key(name) {
            'B'
        } else if brush_core::sys::fs::contains_path_separator(name) {
            if sh.absolute_path(std::path::Path::new(name)).exists() { 'E' } else { 'N' }
        } else if sh.find_first_executable_in_path(name).is_some() {
            'E'
        } else {
            'N'
        };
        self.classes.insert(name.to_string(), c);
        c
    }

    fn program(&mut self, line: &str, out: &mut String) {
        let popts = self.shell.parser_options();
        match brush_parser::tokenize_str_with_options(line, &popts.tokenizer_options()) {
            Err(_) => {
                let _ = write!(out, "P {} F ", esc(line));
            }
            Ok(tokens) => {
                let _ = write!(out, "P {} T {} ", esc(line), tokens.len());
                let offs: Vec<usize> =
                    line.char_indices().map(|(b, _)| b).chain(std::iter::once(line.len())).collect();
                let bo = |c: usize| offs.get(c).copied().unwrap_or(line.len());
                for t in tokens {
                    match t {
                        brush_parser::Token::Operator(_, loc) => {
                            let _ = write!(out, "O {} {} ", loc.start.index, loc.end.index);
                        }
                        brush_parser::Token::Word(w, loc) => {
                            let raw = line.get(bo(loc.start.index)..bo(loc.end.index)).unwrap_or("");
                            let cls = self.class(w.as_str());
                            let _ = write!(out, "W {} {} {} {} ", loc.start.index, loc.end.index, esc(w.as_str()), cls);
                            match brush_parser::word::parse(raw, &popts) {
                                Err(_) => out.push_str("N "),
                                Ok(pieces) => {
                                    let _ = write!(out, "Y {} ", pieces.len());
                                    for p in pieces {
                                        self.piece(p, out);
                                    }
                                }
                            }
                        }
                    }
                }
            }
        }
    }

    fn piece(&mut self, p: brush_parser::word::WordPieceWithSource, out: &mut String) {
        use brush_parser::word::WordPiece as WP;
        let (s, e) = (p.start_index, p.end_index);
        match p.piece {
            WP::SingleQuotedText(_) | WP::AnsiCQuotedText(_) | WP::EscapeSequence(_) => {
                let _ = write!(out, "L {s} {e} Q ");
            }
            WP::DoubleQuotedSequence(sub) | WP::GettextDoubleQuotedSequence(sub) => {
                let _ = write!(out, "D {s} {e} {} ", sub.len());
                for q in sub {
                    self.piece(q, out);
                }
            }
            WP::ParameterExpansion(_) | WP::TildeExpansion(_) => {
                let _ = write!(out, "L {s} {e} R ");
            }
            WP::BackquotedCommandSubstitution(cmd) => {
                let _ = write!(out, "B {s} {e} ");
                self.program(cmd.as_str(), out);
            }
            WP::CommandSubstitution(cmd) => {
                let _ = write!(out, "C {s} {e} ");
                self.program(cmd.as_str(), out);
            }
            WP::ArithmeticExpression(_) => {
                let _ = write!(out, "L {s} {e} A ");
            }
            WP::Text(_) => {
                let _ = write!(out, "L {s} {e} X ");
            }
        }
    }
}

fn tok_canonical(line: &str, extglob: bool, sh_mode: bool) -> String {
    let opts = brush_parser::TokenizerOptions { enable_extended_globbing: extglob, posix_mode: false, sh_mode };
    let pos = |p: &brush_parser::SourcePosition| format!("{}.{}", p.line, p.column);
    match brush_parser::tokenize_str_with_options(line, &opts) {
        Ok(tokens) => {
            let mut out = String::from("ok");
            for t in tokens {
                let (k, w, loc) = match &t {
                    brush_parser::Token::Operator(w, loc) => ('O', w, loc),
                    brush_parser::Token::Word(w, loc) => ('W', w, loc),
                };
                let _ = write!(out, " {k}:{}:{}:{}:{}:{}", loc.start.index, loc.end.index, pos(&loc.start), pos(&loc.end), esc(w));
            }
            out
        }
        Err(e) => {
            use brush_parser::TokenizerError as TE;
            match e {
                TE::UnterminatedEscapeSequence => "err:escape".to_string(),
                TE::UnterminatedSingleQuote(p) => format!("err:single:{}:{}", p.index, pos(&p)),
                TE::UnterminatedDoubleQuote(p) => format!("err:double:{}:{}", p.index, pos(&p)),
                other => {
                    let d = format!("{other:?}");
                    let v: String = d.chars().take_while(|c| c.is_alphanumeric()).collect();
                    format!("err:other:{v}")
                }
            }
        }
    }
}

fn panic_msg(e: Box<dyn std::any::Any + Send>) -> String {
    let m = if let Some(s) = e.downcast_ref::<&str>() {
        (*s).to_string()
    } else if let Some(s) = e.downcast_ref::<String>() {
        s.clone()
    } else {
        "?".to_string()
    };
    // the debug assertions of `append_span`: "span start|end N is not a UTF-8 char boundary in …"
    for pre in ["span start ", "span end "] {
        if let Some(rest) = m.strip_prefix(pre) {
            if let Some((n, tail)) = rest.split_once(' ') {
                if tail.starts_with("is not a UTF-8 char boundary") && n.parse::<usize>().is_ok() {
                    return format!("PANIC:boundary:{n}");
                }
            }
        }
    }
    let m: String = m.chars().take(60).collect();
    format!("PANIC:{}", esc(&m))
}

type Span = (usize, usize, String);

fn real_spans(shell: &vh::Sh, line: &str, cursor: usize, idx: u64) -> Result<Vec<Span>, String> {
    if let Ok(mut c) = CURRENT.lock() {
        c.clear();
        let _ = write!(c, "{} {cursor} {idx}", esc(line));
    }
    CASE_STARTED_MS.store(now_ms(), Ordering::SeqCst);
    let r = std::panic::catch_unwind(std::panic::AssertUnwindSafe(|| {
        let h = highlight_command(shell, line, cursor);
        let v: Vec<Span> =
            h.spans().iter().map(|s| (s.range.start, s.range.end, format!("{:?}", s.kind))).collect();
        // rendering as the reedline adapter does it (`Highlighted::iter`): must not panic either
        let rendered: String = h.iter().map(|(_, t)| t).collect();
        (v, rendered)
    }));
    CASE_STARTED_MS.store(0, Ordering::SeqCst);
    match r {
        Ok((v, rendered)) => {
            if rendered != line {
                // the spans themselves are reported; the predicate (python / `tiles`) will reject them
                // unless they tile — in which case rendering cannot differ; keep an explicit marker anyway
                let mut v = v;
                v.push((usize::MAX, usize::MAX, "RENDER_MISMATCH".into()));
                return Ok(v);
            }
            Ok(v)
        }
        Err(e) => Err(panic_msg(e)),
    }
}

fn show_spans(r: &Result<Vec<Span>, String>) -> String {
    match r {
        Err(m) => m.clone(),
        Ok(v) if v.is_empty() => "-".into(),
        Ok(v) => v
            .iter()
            .map(|(s, e, k)| if *s == usize::MAX { k.clone() } else { format!("{s}-{e}-{k}") })
            .collect::<Vec<_>>()
            .join(","),
    }
}

/// The property's predicate on one result: spans non-empty ranges, first starts at 0, each starts
/// where the previous ended, the last ends at len, every endpoint on a char boundary.
fn tiles(line: &str, r: &Result<Vec<Span>, String>) -> bool {
    let Ok(v) = r else { return false };
    let mut next = 0usize;
    for (s, e, _) in v {
        if *s != next || *e <= *s || *e > line.len() || !line.is_char_boundary(*s) || !line.is_char_boundary(*e) {
            return false;
        }
        next = *e;
    }
    next == line.len()
}

fn cursors(line: &str) -> Vec<usize> {
    line.char_indices().map(|(b, _)| b).chain(std::iter::once(line.len())).collect()
}

fn fnv(h: &mut u64, s: &str) {
    for b in s.bytes() {
        *h ^= u64::from(b);
        *h = h.wrapping_mul(0x100_0000_01b3);
    }
}

#[tokio::main(flavor = "multi_thread", worker_threads = 2)]
async fn main() {
    std::panic::set_hook(Box::new(|_| {}));
    let limit: u64 = std::env::var("C19_WATCHDOG_MS").ok().and_then(|v| v.parse().ok()).unwrap_or(20_000);
    std::thread::spawn(move || loop {
        std::thread::sleep(std::time::Duration::from_millis(100));
        let t = CASE_STARTED_MS.load(Ordering::SeqCst);
        if t != 0 && now_ms().saturating_sub(t) > limit {
            eprintln!("HANG {}", CURRENT.lock().map(|c| c.clone()).unwrap_or_default());
            std::process::exit(3);
        }
    });
    let shell = vh::new_shell(true, &[]).await;
    let mut cx = Cx { shell: &shell, classes: HashMap::new() };
    use std::io::Write as _;
    let stdout = std::io::stdout();
    let mut so = std::io::BufWriter::new(stdout.lock());
    for req in vh::lines() {
        let f: Vec<&str> = req.split(' ').filter(|x| !x.is_empty()).collect();
        if f.len() == 3 && f[0] == "L" {
            let line = unesc(f[1]);
            let mut out = String::new();
            if let Ok(mut c) = CURRENT.lock() {
                c.clear();
                let _ = write!(c, "{} tree 0", esc(&line));
            }
            CASE_STARTED_MS.store(now_ms(), Ordering::SeqCst);
            let tr = std::panic::catch_unwind(std::panic::AssertUnwindSafe(|| {
                let mut s = String::new();
                cx.program(&line, &mut s);
                s
            }));
            CASE_STARTED_MS.store(0, Ordering::SeqCst);
            match tr {
                Ok(s) => out.push_str(s.trim_end()),
                Err(e) => {
                    let _ = write!(out, "TREE{}", panic_msg(e));
                }
            }
            let cs: Vec<usize> = if f[2] == "*" { cursors(&line) } else { vec![f[2].parse().unwrap_or(0)] };
            for c in cs {
                let r = real_spans(&shell, &line, c, 0);
                let _ = write!(out, " %| {c} {}", show_spans(&r));
            }
            let _ = writeln!(so, "{out}");
            let _ = so.flush();
        } else if f.len() == 5 && f[0] == "E" {
            let alpha: Vec<char> = unesc(f[1]).chars().collect();
            let len: u32 = f[2].parse().unwrap_or(0);
            let lo: u64 = f[3].parse().unwrap_or(0);
            let hi: u64 = f[4].parse().unwrap_or(0);
            let k = alpha.len() as u64;
            let (mut n, mut calls, mut bad) = (0u64, 0u64, 0u64);
            let mut digest = 0xcbf2_9ce4_8422_2325u64;
            let mut listed = String::new();
            for idx in lo..hi {
                let mut line = String::new();
                let mut div = k.pow(len.saturating_sub(1));
                let mut rem = idx;
                for _ in 0..len {
                    line.push(alpha[((rem / div) % k) as usize]);
                    rem %= div;
                    div = (div / k).max(1);
                }
                n += 1;
                for c in cursors(&line) {
                    calls += 1;
                    let r = real_spans(&shell, &line, c, idx);
                    let shown = show_spans(&r);
                    fnv(&mut digest, &shown);
                    if !tiles(&line, &r) {
                        bad += 1;
                        if bad <= 4000 {
                            let _ = write!(listed, " {}\t{c}\t{shown}", esc(&line));
                        }
                    }
                }
            }
            let _ = writeln!(so, "n={n} calls={calls} bad={bad} digest={digest:016x}{listed}");
            let _ = so.flush();
        } else if f.len() >= 3 && f[0] == "S" {
            let line = unesc(f[1]);
            let name = unesc(f[2]);
            let tmp = std::env::temp_dir().join(format!("vh-c19-{}", std::process::id()));
            let _ = std::fs::create_dir_all(tmp.join("bin"));
            let _ = std::fs::create_dir_all(tmp.join("work/sub"));
            for fl in ["work/x", "work/sub/x", "work/é"] {
                let _ = std::fs::write(tmp.join(fl), "");
            }
            let mut sh = shell.clone(); // a fresh copy of the start-up shell (building one costs ~25 ms)
            let orig_path = std::env::var("PATH").unwrap_or_default();
            let mut steps: Vec<String> = vec![];
            for op in &f[3..] {
                let script = match *op {
                    "H" => None,
                    "alias+" => Some(format!("alias {name}='echo hi'")),
                    "alias-" => Some(format!("unalias {name}")),
                    "func+" => Some(format!("{name}() {{ :; }}")),
                    "func-" => Some(format!("unset -f {name}")),
                    "extglob+" => Some("shopt -s extglob".to_string()),
                    "extglob-" => Some("shopt -u extglob".to_string()),
                    "posix+" => Some("set -o posix".to_string()),
                    "posix-" => Some("set +o posix".to_string()),
                    "path+" => {
                        let exe = tmp.join("bin").join(&name);
                        if !name.contains('/') && std::fs::write(&exe, "#!/bin/sh\n").is_ok() {
                            use std::os::unix::fs::PermissionsExt;
                            let _ = std::fs::set_permissions(&exe, std::fs::Permissions::from_mode(0o755));
                        }
                        Some(format!("PATH={}:{}", vh::sq(tmp.join("bin").to_str().unwrap_or("")), vh::sq(&orig_path)))
                    }
                    "path0" => Some("PATH=".to_string()),
                    "path=" => Some(format!("PATH={}", vh::sq(&orig_path))),
                    "cd+" => Some(format!("cd {}", vh::sq(tmp.join("work").to_str().unwrap_or("")))),
                    "cd-" => Some("cd /".to_string()),
                    _ => Some(":".to_string()),
                };
                match script {
                    Some(sc) => {
                        let _ = vh::run(&mut sh, &format!("{sc} 2>/dev/null")).await;
                    }
                    None => {
                        let mut cx2 = Cx { shell: &sh, classes: HashMap::new() };
                        let mut out = String::new();
                        if let Ok(mut c) = CURRENT.lock() {
                            c.clear();
                            let _ = write!(c, "{} tree 0", esc(&line));
                        }
                        CASE_STARTED_MS.store(now_ms(), Ordering::SeqCst);
                        let tr = std::panic::catch_unwind(std::panic::AssertUnwindSafe(|| {
                            let mut s = String::new();
                            cx2.program(&line, &mut s);
                            s
                        }));
                        CASE_STARTED_MS.store(0, Ordering::SeqCst);
                        match tr {
                            Ok(s) => out.push_str(s.trim_end()),
                            Err(e) => {
                                let _ = write!(out, "TREE{}", panic_msg(e));
                            }
                        }
                        let n = line.len();
                        let cs: Vec<usize> = if n <= 40 {
                            (0..=n).collect()
                        } else {
                            let mut v: Vec<usize> = (0..24).map(|i| i * n / 24).collect();
                            v.push(n);
                            v.dedup();
                            v
                        };
                        for c in cs {
                            let r = real_spans(&sh, &line, c, 0);
                            let _ = write!(out, " %| {c} {}", show_spans(&r));
                        }
                        steps.push(out);
                    }
                }
            }
            let _ = std::fs::remove_file(tmp.join("bin").join(&name));
            let _ = writeln!(so, "{}", steps.join(" %# "));
            let _ = so.flush();
        } else if f.len() == 2 && f[0] == "X" {
            let script = unesc(f[1]);
            let (mut n, mut calls, mut bad) = (0u64, 0u64, 0u64);
            let mut listed = String::new();
            for cut in cursors(&script) {
                let Some(prefix) = script.get(..cut) else { continue };
                n += 1;
                let mut cs = vec![0usize, cut / 2, cut];
                cs.dedup();
                for c in cs {
                    calls += 1;
                    let r = real_spans(&shell, prefix, c, cut as u64);
                    if !tiles(prefix, &r) {
                        bad += 1;
                        if bad <= 300 {
                            let _ = write!(listed, " {cut}\t{c}\t{}", show_spans(&r));
                        }
                    }
                }
            }
            let _ = writeln!(so, "n={n} calls={calls} bad={bad}{listed}");
            let _ = so.flush();
        } else if f.len() == 3 && f[0] == "K" {
            let line = unesc(f[2]);
            let fl: Vec<char> = f[1].chars().collect();
            let (eg, shm) = (fl.first() == Some(&'1'), fl.get(1) == Some(&'1'));
            if let Ok(mut c) = CURRENT.lock() {
                c.clear();
                let _ = write!(c, "{} tok 0", esc(&line));
            }
            CASE_STARTED_MS.store(now_ms(), Ordering::SeqCst);
            let r = std::panic::catch_unwind(|| tok_canonical(&line, eg, shm));
            CASE_STARTED_MS.store(0, Ordering::SeqCst);
            let out = match r {
                Ok(s) => s,
                Err(e) => panic_msg(e),
            };
            let _ = writeln!(so, "{out}");
            let _ = so.flush();
        } else if f.len() == 1 && f[0] == "KO" {
            let o = shell.parser_options().tokenizer_options();
            let _ = writeln!(so, "{}{}", u8::from(o.enable_extended_globbing), u8::from(o.sh_mode));
            let _ = so.flush();
        } else if f.len() == 2 && f[0] == "T" {
            let line = unesc(f[1]);
            let t0 = std::time::Instant::now();
            let r = real_spans(&shell, &line, line.len(), 0);
            let us = t0.elapsed().as_micros();
            let nsp = r.as_ref().map(|v| v.len()).unwrap_or(0);
            let okk = if tiles(&line, &r) { 1 } else { 0 };
            let extra = match &r {
                Err(m) => format!(" {m}"),
                Ok(_) => String::new(),
            };
            let _ = writeln!(so, "us={us} ok={okk} nspans={nsp}{extra}");
            let _ = so.flush();
        } else {
            let _ = writeln!(so, "bad-request");
            let _ = so.flush();
        }
    }
}
