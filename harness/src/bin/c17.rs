//! C17 harness: drives a real `Shell` (and so the real `JobManager`, `spawn_async_ao_list_in_task`,
//! the `wait` builtin, `check_for_completed_jobs`, `resolve_job_spec`) with background jobs whose
//! completion is controlled from here: every job body is the harness builtin `vhgate K`, which
//! blocks on gate K until the harness releases it.  A current-thread runtime makes the order in
//! which tasks run a function of the request alone.
//!
//! Request:  `<op> <op> …`
//!   L<f>          launch job K = (number of launches so far)+1 in syntactic form f
//!                 (s simple, b brace group, f function, l loop, p subshell, a and-list, c nested function+loop)
//!   F<k>          the environment completes task k
//!   P             `Shell::check_for_completed_jobs` (what an input loop does between commands)
//!   W<k,k,…>      `wait`; while it blocks the environment completes the listed tasks in that order
//!   S<spec>:<k,…> `wait <spec>` (spec %N, %%, %+, %-), same schedule convention
//!   R<spec>       `JobManager::resolve_job_spec`
//!   G             a foreground command (logs an event)
//!   J             the `jobs` builtin (output parsed back: `id ann state` per listed job)
//! Response: per op `<table>;<ended>;<extra>` joined by ` | `, where table = `id ann state tag` items
//! (`1+R:3`), ended = sorted tags of finished gates, extra = op-specific (`ok`, `blocked`, resolved tag,
//! `starts=… ends=… fg=…` event counts for the direct property check).
use std::collections::HashMap;
use std::sync::{Arc, LazyLock, Mutex};
use std::time::Duration;

use brush_core::builtins::{BoxFuture, ContentOptions, ContentType, Registration};
use brush_core::extensions::DefaultShellExtensions as SE;
use brush_core::{CommandArg, ExecutionContext, ExecutionResult};

struct World {
    gates: HashMap<u32, Arc<tokio::sync::Notify>>,
    released: Vec<u32>,
    events: Vec<String>,
}

static WORLD: LazyLock<Mutex<World>> =
    LazyLock::new(|| Mutex::new(World { gates: HashMap::new(), released: vec![], events: vec![] }));

fn log_event(e: String) {
    WORLD.lock().unwrap().events.push(e);
}

fn arg_num(args: &[CommandArg]) -> u32 {
    args.get(1).map(|a| a.to_string()).and_then(|s| s.parse().ok()).unwrap_or(0)
}

fn gate_exec<'a>(
    ctx: ExecutionContext<'a, SE>,
    args: Vec<CommandArg>,
) -> BoxFuture<'a, Result<ExecutionResult, brush_core::Error>> {
    Box::pin(async move {
        let k = arg_num(&args);
        let gate = {
            let mut w = WORLD.lock().unwrap();
            w.events.push(format!("s{k}"));
            w.gates.entry(k).or_insert_with(|| Arc::new(tokio::sync::Notify::new())).clone()
        };
        gate.notified().await;
        log_event(format!("e{k}"));
        drop(ctx);
        // `vhgate K CODE`: the job's body ends with exit status CODE
        let code: u8 = args.get(2).map(|a| a.to_string()).and_then(|s| s.parse().ok()).unwrap_or(0);
        Ok(ExecutionResult::new(code))
    })
}

fn log_exec<'a>(
    ctx: ExecutionContext<'a, SE>,
    args: Vec<CommandArg>,
) -> BoxFuture<'a, Result<ExecutionResult, brush_core::Error>> {
    Box::pin(async move {
        log_event(format!("g{}", arg_num(&args)));
        drop(ctx);
        Ok(ExecutionResult::success())
    })
}

fn no_content(_: &str, _: ContentType, _: &ContentOptions) -> Result<String, brush_core::Error> {
    Ok(String::new())
}

fn reg(f: brush_core::builtins::CommandExecuteFunc<SE>) -> Registration<SE> {
    Registration { execute_func: f, content_func: no_content, disabled: false, special_builtin: false, declaration_builtin: false }
}

fn ended(k: u32) -> bool {
    WORLD.lock().unwrap().events.iter().any(|e| *e == format!("e{k}"))
}

/// The environment completes task k: open its gate, then let the runtime run until the job's
/// task has returned (current-thread runtime: the spawned task runs while we yield).
async fn release(k: u32, launched: u32) {
    if k == 0 || k > launched {
        return;
    }
    let gate = {
        let mut w = WORLD.lock().unwrap();
        if w.released.contains(&k) {
            return;
        }
        w.released.push(k);
        w.gates.entry(k).or_insert_with(|| Arc::new(tokio::sync::Notify::new())).clone()
    };
    gate.notify_one();
    for _ in 0..400 {
        tokio::task::yield_now().await;
        if ended(k) {
            break;
        }
    }
    for _ in 0..24 {
        tokio::task::yield_now().await;
    }
}

fn launch_script(form: char, k: u32) -> String {
    match form {
        's' => format!("vhgate {k} &"),
        'b' => format!("{{ vhgate {k}; }} &"),
        'f' => format!("vhf{k}() {{ vhgate {k} & }}; vhf{k}"),
        'l' => format!("for vhi in 1; do vhgate {k} & done"),
        'p' => format!("( vhgate {k} ) &"),
        'a' => format!("true && vhgate {k} &"),
        'c' => format!("vhg{k}() {{ for vhi in 1; do if true; then vhgate {k} & fi; done; }}; vhg{k}"),
        'x' => format!("vhgate {k} 3 &"),
        'y' => format!("true && vhgate {k} 42 &"),
        _ => format!("vhgate {k} &"),
    }
}

/// `@<c>` prefix of an op's payload: the command is issued from inside context c
/// (f function, g two functions deep, e eval, b brace group with a redirect, l loop body, r sourced file,
///  s subshell, c command substitution).  Returns (context, rest of the payload).
fn split_ctx(rest: &str) -> (Option<char>, &str) {
    let mut it = rest.chars();
    if it.next() == Some('@') {
        if let Some(c) = it.next() {
            return (Some(c), &rest[1 + c.len_utf8()..]);
        }
    }
    (None, rest)
}

fn forks(c: Option<char>) -> bool {
    matches!(c, Some('s') | Some('c'))
}

fn in_ctx(c: Option<char>, cmd: &str) -> String {
    match c {
        Some('f') => format!("vhc() {{ {cmd}; }}; vhc"),
        Some('g') => format!("vhc1() {{ {cmd}; }}; vhc2() {{ vhc1; }}; vhc2"),
        Some('e') => format!("eval {}", vh::sq(cmd)),
        Some('b') => format!("{{ {cmd}; }} 2>/dev/null"),
        Some('l') => format!("for vhi in 1; do {cmd}; done"),
        Some('r') => {
            let path = std::env::temp_dir().join(format!("vh-c17-src-{}", std::process::id()));
            let _ = std::fs::write(&path, format!("{cmd}\n"));
            format!(". {}", vh::sq(path.to_str().unwrap()))
        }
        Some('s') => format!("( {cmd} )"),
        Some('c') => format!("vhx=$({cmd})"),
        _ => cmd.to_string(),
    }
}

fn tag_of(cmdline: &str) -> String {
    match cmdline.find("vhgate ") {
        Some(p) => cmdline[p + 7..].chars().take_while(|c| c.is_ascii_digit()).collect(),
        None => "?".into(),
    }
}

fn dump_table(shell: &vh::Sh) -> String {
    let items: Vec<String> = shell
        .jobs()
        .jobs
        .iter()
        .map(|j| {
            let a = match j.annotation() {
                brush_core::jobs::JobAnnotation::Current => "+",
                brush_core::jobs::JobAnnotation::Previous => "-",
                brush_core::jobs::JobAnnotation::None => "_",
            };
            let s = match j.state {
                brush_core::jobs::JobState::Running => "R",
                brush_core::jobs::JobState::Stopped => "S",
                brush_core::jobs::JobState::Done => "D",
                brush_core::jobs::JobState::Unknown => "U",
            };
            format!("{}{}{}:{}", j.id, a, s, tag_of(&j.command_line))
        })
        .collect();
    if items.is_empty() { "-".into() } else { items.join(",") }
}

fn dump_ended() -> String {
    let w = WORLD.lock().unwrap();
    let mut v: Vec<u32> = w.events.iter().filter_map(|e| e.strip_prefix('e').and_then(|x| x.parse().ok())).collect();
    v.sort_unstable();
    if v.is_empty() { "-".into() } else { v.iter().map(|x| x.to_string()).collect::<Vec<_>>().join(",") }
}

/// starts/ends in event order and the foreground sequence (for the direct property check)
fn dump_events() -> String {
    let w = WORLD.lock().unwrap();
    if w.events.is_empty() { "-".into() } else { w.events.join(",") }
}

fn parse_sched(s: &str) -> Vec<u32> {
    s.split(',').filter_map(|x| x.parse().ok()).collect()
}

/// Runs `script` (a `wait …`) while the environment completes `sched`.  `need` = the tasks that must
/// have completed for this wait to return.  "blocked" is reported only when the environment is done
/// and some needed task never completed (so the wall-clock timeout decides nothing when the wait is
/// due to return: a slow machine cannot turn a returning wait into a blocked one).
async fn with_schedule(shell: &mut vh::Sh, script: &str, sched: Vec<u32>, need: Vec<u32>, launched: u32, block_ms: u64) -> String {
    let releaser = tokio::spawn(async move {
        for k in sched {
            release(k, launched).await;
        }
    });
    let t0 = std::time::Instant::now();
    let r = {
        let fut = vh::run(shell, script);
        tokio::pin!(fut);
        loop {
            match tokio::time::timeout(Duration::from_millis(block_ms), &mut fut).await {
                Ok(r) => break Some(r),
                Err(_) => {
                    if releaser.is_finished() && need.iter().any(|k| !ended(*k)) {
                        break None;
                    }
                    if t0.elapsed() > Duration::from_secs(30) {
                        break Some(Err("hung".to_string()));
                    }
                }
            }
        }
    };
    let _ = releaser.await;
    // "st<n>": the wait returned with exit status n
    match r {
        Some(Ok(n)) => format!("st{n}"),
        Some(Err(e)) if e == "hung" => "hung".into(),
        Some(Err(_)) => "error".into(),
        None => "blocked".into(),
    }
}

async fn one_case(line: String, block_ms: u64) -> String {
    {
        let mut w = WORLD.lock().unwrap();
        w.gates.clear();
        w.released.clear();
        w.events.clear();
    }
    let mut shell = vh::new_shell(false, &[]).await;
    shell.register_builtin("vhgate", reg(gate_exec));
    shell.register_builtin("vhlog", reg(log_exec));
    let mut launched: u32 = 0;
    let mut fgs: u32 = 0;
    let mut outs: Vec<String> = vec![];
    let mut stuck = false;
    for op in line.split(' ').filter(|t| !t.is_empty()) {
        if stuck {
            outs.push("stuck".into());
            continue;
        }
        let mut extra = String::from("-");
        let (head, rest) = op.split_at(1);
        match head {
            "L" => {
                launched += 1;
                let form = rest.chars().next().unwrap_or('s');
                match vh::run(&mut shell, &launch_script(form, launched)).await {
                    Ok(_) => {}
                    Err(e) => extra = format!("error:{}", vh::esc(&e)),
                }
                // let the new task reach its gate
                for _ in 0..24 {
                    tokio::task::yield_now().await;
                }
            }
            "F" => {
                if let Ok(k) = rest.parse::<u32>() {
                    release(k, launched).await;
                }
            }
            "P" => {
                if let Err(e) = shell.check_for_completed_jobs() {
                    extra = format!("error:{}", vh::esc(&format!("{e}")));
                }
            }
            "W" => {
                let (c, rest) = split_ctx(rest);
                // a clone (subshell, command substitution) has its own empty job table: its wait must return at once
                let need: Vec<u32> = if forks(c) { vec![] } else { (1..=launched).collect() };
                let r = with_schedule(&mut shell, &in_ctx(c, "wait"), parse_sched(rest), need, launched, block_ms).await;
                let r = if r == "st0" { "ok".to_string() } else { r };
                extra = r.clone();
                if r == "blocked" {
                    stuck = true;
                }
            }
            "S" => {
                let (c, rest) = split_ctx(rest);
                let (spec, sched) = rest.split_once(':').unwrap_or((rest, ""));
                let need: Vec<u32> = match shell.jobs_mut().resolve_job_spec(spec) {
                    Some(j) if !forks(c) => tag_of(&j.command_line).parse().ok().into_iter().collect(),
                    _ => vec![],
                };
                let r = with_schedule(&mut shell, &in_ctx(c, &format!("wait {spec} 2>/dev/null")), parse_sched(sched), need, launched, block_ms).await;
                extra = r.clone();
                if r == "blocked" {
                    stuck = true;
                }
            }
            "R" => {
                extra = match shell.jobs_mut().resolve_job_spec(rest) {
                    Some(j) => format!("{}:{}", j.id, tag_of(&j.command_line)),
                    None => "none".into(),
                };
            }
            "J" => {
                let path = std::env::temp_dir().join(format!("vh-c17-jobs-{}", std::process::id()));
                let _ = std::fs::remove_file(&path);
                let (c, _) = split_ctx(rest);
                let _ = vh::run(&mut shell, &in_ctx(c, &format!("jobs > {}", vh::sq(path.to_str().unwrap())))).await;
                let text = std::fs::read_to_string(&path).unwrap_or_default();
                let _ = std::fs::remove_file(&path);
                let mut items = vec![];
                for l in text.lines() {
                    // `[id]<ann padded to 3><State>\t<command line>`
                    if let Some(rest) = l.strip_prefix('[') {
                        if let Some((id, tail)) = rest.split_once(']') {
                            if id.chars().all(|c| c.is_ascii_digit()) && !id.is_empty() {
                                let ann = match tail.chars().next() { Some('+') => "+", Some('-') => "-", _ => "_" };
                                let st = tail.trim_start_matches(['+', '-', ' ']).chars().next().unwrap_or('?');
                                items.push(format!("{id}{ann}{st}"));
                            }
                        }
                    }
                }
                extra = if items.is_empty() { "none".into() } else { items.join(",") };
            }
            "G" => {
                fgs += 1;
                let _ = vh::run(&mut shell, &format!("vhlog {fgs}")).await;
            }
            _ => {
                outs.push("bad-op".into());
                continue;
            }
        }
        if stuck {
            outs.push("blocked".into());
        } else {
            outs.push(format!("{};{};{}", dump_table(&shell), dump_ended(), extra));
        }
    }
    let events = dump_events();
    // end of case: let every remaining task finish so nothing leaks into the next case
    for k in 1..=launched {
        release(k, launched).await;
    }
    drop(shell);
    for _ in 0..16 {
        tokio::task::yield_now().await;
    }
    format!("{} || {}", outs.join(" | "), events)
}

fn main() {
    let block_ms: u64 = std::env::var("VH_C17_BLOCK_MS").ok().and_then(|s| s.parse().ok()).unwrap_or(120);
    let rt = tokio::runtime::Builder::new_current_thread().enable_all().build().unwrap();
    rt.block_on(async move {
        for line in vh::lines() {
            // a panic inside brush's code (e.g. an index out of bounds in the job table) ends the case, not the harness
            match tokio::spawn(one_case(line, block_ms)).await {
                Ok(out) => println!("{out}"),
                Err(e) => {
                    println!("PANIC {}", if e.is_panic() { "brush code panicked" } else { "case cancelled" });
                    // the world may hold gates of the dead case; the next case resets it
                    if let Ok(mut w) = WORLD.lock() { w.gates.clear(); } else { WORLD.clear_poison(); }
                }
            }
        }
    });
}
