//! C20 harness: drives real shells (history enabled) attached to one history file.
//! Request:  `<op> <op> …`   Response: per-op dump `F=<file> I=<items>` joined by ` | `.
use vh::{esc, fields, new_shell, run, sq};

fn now() -> i64 {
    std::time::SystemTime::now().duration_since(std::time::UNIX_EPOCH).unwrap().as_secs() as i64
}

fn canon_ts(t: i64, t0: i64) -> i64 {
    if t >= t0 - 2 && t <= now() + 2 { 4_000_000_000 } else { t }
}

fn canon_file(s: &str, t0: i64) -> String {
    // replace every `#<fresh timestamp>` by `#4000000000` (wherever it occurs)
    let cs: Vec<char> = s.chars().collect();
    let mut out = String::new();
    let mut i = 0;
    while i < cs.len() {
        if cs[i] == '#' {
            let mut j = i + 1;
            while j < cs.len() && cs[j].is_ascii_digit() {
                j += 1;
            }
            let d: String = cs[i + 1..j].iter().collect();
            if let Ok(v) = d.parse::<i64>() {
                if canon_ts(v, t0) != v {
                    out.push_str("#4000000000");
                    i = j;
                    continue;
                }
            }
        }
        out.push(cs[i]);
        i += 1;
    }
    out
}

fn dump(shell: &vh::Sh, path: &std::path::Path, t0: i64) -> String {
    let file = std::fs::read(path).map(|b| String::from_utf8_lossy(&b).into_owned()).unwrap_or_default();
    let mut items = vec![];
    if let Some(h) = shell.history() {
        for it in h.iter() {
            let ts = match it.timestamp { Some(t) => canon_ts(t.timestamp(), t0).to_string(), None => "-".into() };
            items.push(format!("{}:{}:{}", esc(&canon_file(&it.command_line, t0)), if it.dirty { "d" } else { "c" }, ts));
        }
    } else {
        items.push("<no-history>".into());
    }
    format!("F={} I={}", esc(&canon_file(&file, t0)), items.join(","))
}

#[tokio::main(flavor = "multi_thread", worker_threads = 2)]
async fn main() {
    let dir = std::env::temp_dir().join(format!("vh-c20-{}", std::process::id()));
    std::fs::create_dir_all(&dir).unwrap();
    let path = dir.join("hist");
    let pstr = path.to_str().unwrap().to_string();
    for line in vh::lines() {
        let t0 = now();
        let _ = std::fs::remove_file(&path);
        let mut shell = new_shell(true, &[("HISTFILE", &pstr)]).await;
        let mut ts_on = false;
        let mut outs = vec![];
        for op in line.split(' ').filter(|t| !t.is_empty()) {
            if let Some(c) = op.strip_prefix("add:") {
                shell.add_to_history(&vh::unesc(c)).unwrap();
            } else if let Some(c) = op.strip_prefix("hs:") {
                let _ = run(&mut shell, &format!("history -s {}", sq(&vh::unesc(c)))).await;
            } else if op == "a" {
                let _ = run(&mut shell, "history -a").await;
            } else if op == "w" {
                let _ = run(&mut shell, "history -w").await;
            } else if op == "x" {
                shell.save_history().unwrap();
                shell = new_shell(true, &[("HISTFILE", &pstr)]).await;
                ts_on = false;
            } else if op == "k" {
                shell = new_shell(true, &[("HISTFILE", &pstr)]).await;
                ts_on = false;
            } else if op == "X" || op == "K" {
                // as x / k, but the next session is CONSTRUCTED with HISTTIMEFORMAT set (process environment of a
                // real shell): loading the file must not depend on it
                if op == "X" {
                    shell.save_history().unwrap();
                }
                shell = new_shell(true, &[("HISTFILE", &pstr), ("HISTTIMEFORMAT", "%s ")]).await;
                ts_on = true;
            } else if op == "c" {
                let _ = run(&mut shell, "history -c").await;
            } else if op == "t" {
                ts_on = !ts_on;
                let _ = run(&mut shell, if ts_on { "HISTTIMEFORMAT='%s '" } else { "unset HISTTIMEFORMAT" }).await;
            } else if let Some(d) = op.strip_prefix("d:") {
                let _ = run(&mut shell, &format!("history -d {d} 2>/dev/null")).await;
            } else if let Some(f) = op.strip_prefix("f:") {
                std::fs::write(&path, vh::unesc(f)).unwrap();
            } else {
                outs.push("bad-op".to_string());
                continue;
            }
            outs.push(dump(&shell, &path, t0));
        }
        println!("{}", outs.join(" | "));
        let _ = fields;
    }
    let _ = std::fs::remove_dir_all(&dir);
}
