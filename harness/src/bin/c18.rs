//! C18 harness: runs a command sequence N times in ONE in-process shell and samples resources.
//! Request:  `<n1> <n2> <esc(prelude)> <esc(body)>`
//! Response: `scopes=<a>,<b>,<c> calls=<a>,<b>,<c> fds=<a>,<b>,<c> zombies=<a>,<b>,<c> panics=<k>`
//!   sampled after the prelude+1 iteration, after n1 iterations, after n2 iterations.
use vh::{fields, new_shell, run};

fn fd_count() -> usize {
    std::fs::read_dir("/proc/self/fd").map(|d| d.count()).unwrap_or(0)
}

fn zombies() -> usize {
    // children of this process in state Z
    let me = std::process::id();
    let mut n = 0;
    if let Ok(rd) = std::fs::read_dir("/proc") {
        for e in rd.flatten() {
            let name = e.file_name();
            let Some(pid) = name.to_str().and_then(|s| s.parse::<u32>().ok()) else { continue };
            if let Ok(stat) = std::fs::read_to_string(format!("/proc/{pid}/stat")) {
                // pid (comm) state ppid ...
                if let Some(rp) = stat.rfind(')') {
                    let rest: Vec<&str> = stat[rp + 1..].split_whitespace().collect();
                    if rest.len() > 2 && rest[0] == "Z" && rest[1].parse::<u32>().ok() == Some(me) {
                        n += 1;
                    }
                }
            }
        }
    }
    n
}

fn scopes(shell: &vh::Sh) -> usize {
    serde_json::to_value(shell.env())
        .ok()
        .and_then(|v| v.get("scopes").and_then(|s| s.as_array().map(|a| a.len())))
        .unwrap_or(usize::MAX)
}

static CASE_STARTED: std::sync::atomic::AtomicU64 = std::sync::atomic::AtomicU64::new(0);

fn now_s() -> u64 {
    std::time::SystemTime::now().duration_since(std::time::UNIX_EPOCH).map(|d| d.as_secs()).unwrap_or(0)
}

#[tokio::main(flavor = "multi_thread", worker_threads = 2)]
async fn main() {
    // a request that does not come back (a leak can make every further command slower and slower, or loop) must cost
    // one case, not the run: answer `HANG` for it and leave; the driver restarts the harness for the remaining requests
    let limit: u64 = std::env::var("C18_WATCHDOG_S").ok().and_then(|v| v.parse().ok()).unwrap_or(45);
    std::thread::spawn(move || loop {
        std::thread::sleep(std::time::Duration::from_millis(500));
        let t = CASE_STARTED.load(std::sync::atomic::Ordering::SeqCst);
        if t != 0 && now_s().saturating_sub(t) > limit {
            println!("HANG");
            use std::io::Write as _;
            let _ = std::io::stdout().flush();
            std::process::exit(3);
        }
    });
    for line in vh::lines() {
        CASE_STARTED.store(now_s(), std::sync::atomic::Ordering::SeqCst);
        let f = fields(&line);
        if f.len() != 4 {
            println!("bad-request");
            continue;
        }
        let n1: usize = f[0].parse().unwrap_or(2);
        let n2: usize = f[1].parse().unwrap_or(10);
        let mut shell = new_shell(false, &[]).await;
        let _ = run(&mut shell, "exec >/dev/null 2>&1 3>/dev/null").await;
        let _ = run(&mut shell, &f[2]).await;
        let mut sc = vec![];
        let mut ca = vec![];
        let mut fd = vec![];
        let mut zo = vec![];
        let mut done = 0usize;
        for target in [1usize, n1, n2] {
            while done < target {
                let _ = run(&mut shell, &f[3]).await;
                done += 1;
            }
            // give finished children a moment to be reaped by the runtime; asynchronous children (process
            // substitutions) may still be running: wait — up to 3 s — until the descriptor and zombie counts are
            // back at the first sample's or have stopped moving (a genuine leak stays, however long one waits)
            tokio::time::sleep(std::time::Duration::from_millis(5)).await;
            let base_fd: Option<usize> = fd.first().and_then(|s: &String| s.parse().ok());
            let mut last = (fd_count(), zombies());
            let mut stable = 0;
            if base_fd.is_none() {
                // first sample: take it when three readings 20 ms apart agree (at most 1 s)
                let mut same = 0;
                for _ in 0..50 {
                    tokio::time::sleep(std::time::Duration::from_millis(20)).await;
                    let now = (fd_count(), zombies());
                    same = if now == last { same + 1 } else { 0 };
                    last = now;
                    if same >= 3 {
                        break;
                    }
                }
            }
            for _ in 0..60 {
                if base_fd.is_none_or(|b| last.0 <= b) && last.1 == 0 {
                    break;
                }
                tokio::time::sleep(std::time::Duration::from_millis(50)).await;
                let now = (fd_count(), zombies());
                stable = if now == last { stable + 1 } else { 0 };
                last = now;
                if stable >= 8 {
                    break;
                }
            }
            sc.push(scopes(&shell).to_string());
            ca.push(shell.call_stack().depth().to_string());
            fd.push(last.0.to_string());
            zo.push(last.1.to_string());
        }
        println!("scopes={} calls={} fds={} zombies={}", sc.join(","), ca.join(","), fd.join(","), zo.join(","));
        CASE_STARTED.store(0, std::sync::atomic::Ordering::SeqCst);
    }
}
