//! C11 harness: runs small pipeline / command-substitution / `read` scripts through brush's real
//! interpreter **in-process** and reports what the shell's own state says afterwards.
//!
//! Request (one field, escaped with `vh::esc`):  `<script>`
//!   * a fresh shell is built with the variables `OUT` (a private temp file the script may write to;
//!     the harness's own stdout is the protocol channel, so scripts redirect there) and `TMPD`;
//!   * the script runs through `Shell::run_string`;
//! Response: `st=<last exit status> ps=<PIPESTATUS from Shell::last_pipeline_statuses, comma separated>
//!            out=<esc(contents of $OUT)> x=<esc($X)>` (+ ` err=<esc>` if run_string failed).
//! A case that does not finish within `C11_CASE_TIMEOUT_MS` (default 20000) answers `HANG`, every
//! later request answers `SKIPPED` (the hung interpreter thread cannot be cancelled; the caller
//! re-submits skipped cases to a fresh harness process).
use std::time::Duration;
use vh::{esc, fields, new_shell, run};

async fn one_case(line: &str, n: usize, tmp: &std::path::Path) -> String {
    let f = fields(line);
    if f.len() != 1 {
        return "bad-request".into();
    }
    let outf = tmp.join(format!("out{n}"));
    let _ = std::fs::remove_file(&outf);
    let mut shell = new_shell(
        false,
        &[("OUT", outf.to_str().unwrap()), ("TMPD", tmp.to_str().unwrap())],
    )
    .await;
    let rr = run(&mut shell, &f[0]).await;
    let st = shell.last_exit_status();
    let ps: Vec<String> = shell.last_pipeline_statuses().iter().map(|c| c.to_string()).collect();
    let x = shell.env().get_str("X", &shell).map(|c| c.to_string()).unwrap_or_default();
    let out = std::fs::read(&outf)
        .ok()
        .map(|b| String::from_utf8_lossy(&b).into_owned())
        .unwrap_or_default();
    let _ = std::fs::remove_file(&outf);
    let err = match rr {
        Ok(_) => String::new(),
        Err(e) => format!(" err={}", esc(&e)),
    };
    format!("st={} ps={} out={} x={}{}", st, if ps.is_empty() { "-".to_string() } else { ps.join(",") }, esc(&out), esc(&x), err)
}

fn main() {
    let tmp = std::env::temp_dir().join(format!("vh-c11-{}", std::process::id()));
    std::fs::create_dir_all(&tmp).unwrap();
    let limit = std::env::var("C11_CASE_TIMEOUT_MS").ok().and_then(|s| s.parse::<u64>().ok()).unwrap_or(20000);
    let rt = tokio::runtime::Builder::new_multi_thread().worker_threads(3).enable_all().build().unwrap();
    let t2 = tmp.clone();
    let hung = rt.block_on(async move {
        let mut n = 0usize;
        let mut hung = false;
        for line in vh::lines() {
            n += 1;
            if hung {
                println!("SKIPPED");
                continue;
            }
            let l = line.clone();
            let t3 = t2.clone();
            // a panic inside brush must not take the harness down: run the case in its own task
            let h = tokio::spawn(async move { one_case(&l, n, &t3).await });
            match tokio::time::timeout(Duration::from_millis(limit), h).await {
                Ok(Ok(s)) => println!("{s}"),
                Ok(Err(_)) => println!("PANIC"),
                Err(_) => {
                    println!("HANG");
                    hung = true;
                }
            }
        }
        hung
    });
    let _ = std::fs::remove_dir_all(&tmp);
    if hung {
        use std::io::Write;
        let _ = std::io::stdout().flush();
        // the blocked interpreter thread would keep the runtime from shutting down
        std::process::exit(0);
    }
}
