//! C12 harness: parent `Shell` state around a subshell context, observed in-process.
//!
//! Request (fields escaped with `vh::esc`):  `<root-dir> <setup-script> <context-script> <post-script>`
//!   * a fresh shell is built, `cd <root-dir>` is run, the process-wide state (umask, soft RLIMIT_NOFILE)
//!     is reset, then the setup script runs in the parent;
//!   * the whole `Shell` is serialised (serde) and the process-wide state is read;
//!   * the context script runs (it contains the subshell construct; it writes the subshell's own view
//!     of the state to `$SUBF` and, after the construct, the parent's `$?` to `$STF`);
//!   * the `Shell` is serialised again, the process-wide state read again, and the two are diffed;
//!   * the post script runs in the parent (it writes the parent's view of the state to `$PARF`).
//! Response: `st=<$? or none> sub=<esc> par=<esc> diff=<paths|-> w0=<umask>/<nofile>/<cwd> w1=<…> cv=<esc>`
//! where every occurrence of the root directory in texts is replaced by `R`; `TIMEOUT` if the context
//! script did not come back in time.
use serde_json::Value;
use vh::{esc, fields, new_shell, run};

/// keys of the serialised `Shell` that are not parent *state* in the property's sense
/// (status of the last command / pipeline, stopwatch, lookup cache).
const IGNORE_TOP: &[&str] = &[
    "last_exit_status",
    "last_exit_status_change_count",
    "last_pipeline_statuses",
    "last_stopwatch_time",
    "last_stopwatch_offset",
    "program_location_cache",
];
/// variables that legitimately change: `$_`, PIPESTATUS, and the variable the context assigns the
/// command substitution's output to (`cv`, reset by the harness before the second snapshot anyway).
const IGNORE_VARS: &[&str] = &["_", "PIPESTATUS", "BASH_COMMAND", "LINENO", "RANDOM", "SECONDS", "SRANDOM", "EPOCHSECONDS", "EPOCHREALTIME"];

fn diff(path: &str, a: &Value, b: &Value, depth: usize, out: &mut Vec<String>) {
    if a == b {
        return;
    }
    match (a, b) {
        (Value::Object(x), Value::Object(y)) if depth > 0 => {
            let mut keys: Vec<&String> = x.keys().chain(y.keys()).collect();
            keys.sort();
            keys.dedup();
            for k in keys {
                if path.is_empty() && IGNORE_TOP.contains(&k.as_str()) {
                    continue;
                }
                if path.starts_with("env.scopes") && IGNORE_VARS.contains(&k.as_str()) {
                    continue;
                }
                let p = if path.is_empty() { k.clone() } else { format!("{path}.{k}") };
                match (x.get(k), y.get(k)) {
                    (Some(u), Some(v)) => diff(&p, u, v, depth - 1, out),
                    (None, Some(_)) => out.push(format!("+{p}")),
                    (Some(_), None) => out.push(format!("-{p}")),
                    (None, None) => {}
                }
            }
        }
        (Value::Array(x), Value::Array(y)) if depth > 0 && x.len() == y.len() => {
            for (i, (u, v)) in x.iter().zip(y.iter()).enumerate() {
                diff(&format!("{path}[{i}]"), u, v, depth - 1, out);
            }
        }
        _ => out.push(format!("~{path}")),
    }
}

fn world() -> String {
    let status = std::fs::read_to_string("/proc/self/status").unwrap_or_default();
    let um = status
        .lines()
        .find_map(|l| l.strip_prefix("Umask:"))
        .map(|s| s.trim().to_string())
        .unwrap_or_else(|| "?".into());
    let limits = std::fs::read_to_string("/proc/self/limits").unwrap_or_default();
    let nofile = limits
        .lines()
        .find_map(|l| l.strip_prefix("Max open files"))
        .and_then(|s| s.split_whitespace().next().map(str::to_string))
        .unwrap_or_else(|| "?".into());
    let cwd = std::env::current_dir().map(|p| p.display().to_string()).unwrap_or_else(|_| "?".into());
    format!("{um}/{nofile}/{cwd}")
}

fn read(p: &std::path::Path) -> Option<String> {
    std::fs::read(p).ok().map(|b| String::from_utf8_lossy(&b).into_owned())
}

async fn one_case(line: &str, n: usize, tmp: &std::path::Path) -> String {
    let f = fields(line);
    if f.len() != 4 {
        return "bad-request".into();
    }
    let (root, setup, ctx, post) = (&f[0], &f[1], &f[2], &f[3]);
    let subf = tmp.join(format!("sub{n}"));
    let stf = tmp.join(format!("st{n}"));
    let parf = tmp.join(format!("par{n}"));
    for p in [&subf, &stf, &parf] {
        let _ = std::fs::remove_file(p);
    }
    // reset the process-wide state through a throw-away shell
    {
        let mut s0 = new_shell(false, &[]).await;
        let _ = run(&mut s0, "umask 022; ulimit -S -n 1024").await;
    }
    let mut shell = new_shell(
        false,
        &[
            ("SUBF", subf.to_str().unwrap()),
            ("STF", stf.to_str().unwrap()),
            ("PARF", parf.to_str().unwrap()),
        ],
    )
    .await;
    if let Err(e) = run(&mut shell, &format!("cd {}", vh::sq(root))).await {
        return format!("setup-error {}", esc(&e));
    }
    if let Err(e) = run(&mut shell, setup).await {
        return format!("setup-error {}", esc(&e));
    }
    let j0 = match serde_json::to_value(&shell) {
        Ok(v) => v,
        Err(e) => return format!("serde-error {}", esc(&e.to_string())),
    };
    let w0 = world();
    // A regression may leave the parent waiting for ever (e.g. a stage run in the parent keeps the pipe
    // its successor reads from): give the context 8 s (2 s once three contexts have hung), then report it and go on with a new shell.
    static TIMEOUTS: std::sync::atomic::AtomicUsize = std::sync::atomic::AtomicUsize::new(0);
    // VH_C12_TIMEOUT=<seconds> fixes the limit (used for the retry of cases that timed out under load)
    let fixed: Option<u64> = std::env::var("VH_C12_TIMEOUT").ok().and_then(|v| v.parse().ok());
    let limit = fixed.unwrap_or(if TIMEOUTS.load(std::sync::atomic::Ordering::Relaxed) >= 3 { 2 } else { 8 });
    let rr = match tokio::time::timeout(std::time::Duration::from_secs(limit), run(&mut shell, ctx)).await {
        Ok(r) => r,
        Err(_) => {
            TIMEOUTS.fetch_add(1, std::sync::atomic::Ordering::Relaxed);
            for p in [&subf, &stf, &parf] {
                let _ = std::fs::remove_file(p);
            }
            return "TIMEOUT".into();
        }
    };
    // the command substitution contexts hand their output back through the assignment `cv=$(…)`
    let cv = shell.env().get_str("cv", &shell).map(|c| c.to_string()).unwrap_or_default();
    let _ = run(&mut shell, "cv=").await;
    let j1 = match serde_json::to_value(&shell) {
        Ok(v) => v,
        Err(e) => return format!("serde-error {}", esc(&e.to_string())),
    };
    let w1 = world();
    let _ = run(&mut shell, post).await;
    let mut d = vec![];
    diff("", &j0, &j1, 6, &mut d);
    let canon = |s: String| s.replace(root.as_str(), "R");
    // one record per line (`$?` once, or per loop iteration, or inside/after the function): joined by ','
    let st = read(&stf)
        .map(|s| s.trim().split('\n').map(str::trim).collect::<Vec<_>>().join(","))
        .map(|s| if s.is_empty() { "empty".to_string() } else { s.replace(' ', "_") })
        .unwrap_or_else(|| "none".into());
    let sub = canon(read(&subf).unwrap_or_default());
    let par = canon(read(&parf).unwrap_or_default());
    let err = match rr {
        Ok(_) => String::new(),
        Err(e) => format!(" err={}", esc(&e)),
    };
    for p in [&subf, &stf, &parf] {
        let _ = std::fs::remove_file(p);
    }
    format!(
        "st={} sub={} par={} diff={} w0={} w1={} cv={}{}",
        st,
        esc(&sub),
        esc(&par),
        if d.is_empty() { "-".to_string() } else { esc(&canon(d.join(","))) },
        esc(&canon(w0)),
        esc(&canon(w1)),
        esc(&canon(cv)),
        err
    )
}

fn main() {
    let tmp = std::env::temp_dir().join(format!("vh-c12-{}", std::process::id()));
    std::fs::create_dir_all(&tmp).unwrap();
    let rt = tokio::runtime::Builder::new_multi_thread().worker_threads(2).enable_all().build().unwrap();
    let t2 = tmp.clone();
    rt.block_on(async move {
        let mut n = 0usize;
        for line in vh::lines() {
            n += 1;
            let l = line.clone();
            let t3 = t2.clone();
            // a panic inside brush must not take the harness down: run the case in its own task
            let r = tokio::spawn(async move { one_case(&l, n, &t3).await }).await;
            match r {
                Ok(s) => println!("{s}"),
                Err(_) => println!("PANIC"),
            }
        }
    });
    let _ = std::fs::remove_dir_all(&tmp);
}
