//! C01 harness: brush's real entry points, in-process, each case inside `catch_unwind`, with a
//! wall-clock watchdog (a case that does not come back is reported as `HANG` and the process exits
//! with status 3; the caller restarts the harness on the remaining lines).
//!
//! Request: `<OP> <escaped field> …`.  Response: `OK <payload>` | `ERR` | `PANIC <file>:<line> <msg>`
//! | `HANG` | `BAD-REQUEST`.  Hot-spot ops (compared with the checked Lean model):
//!   SUBSTR s off len|-      `${x:off:len}` with x=s
//!   ASUBSTR n off len|-     `${a[@]:off:len}` with a=(e0 … e(n-1))
//!   PSUBSTR n off len|-     `${@:off:len}` with n positional parameters p1 … pn ($0 = sh0)
//!   INDEX get|set|unset n idx   `${a[idx]}` / `a[idx]=v` / `unset 'a[idx]'` on an n-element array
//!   BRACE word              brace expansion of one word (full expansion, fields)
//!   HIST n max|-            `history [max]` in a session holding n items: `OK <lines> <first number>`
//!   LOOP b|c n              `break n` / `continue n` in three nested two-round loops: `OK <status> <trace>`
//!   ARITH op l r            `$(( l op r ))`;  UNARY op x
//! Exploration ops (no model; the property itself is the predicate: no PANIC, no HANG):
//!   PARSE text   tokenizer, program parser, word/brace/pattern/arithmetic/prompt parsers on every token
//!   HL text      `highlight_command` at every cursor (char boundary), rendered
//!   COMPL text   `Shell::complete` at every cursor
//!   PROMPT text  PS1=text; `compose_prompt`
//!   EXPAND text  `basic_expand_string` (caller guarantees no command substitution)
//!   RUN script / RUNI script   a script of builtins in-process (output discarded, stdin /dev/null)
//!   COMPL2 setup line / COMPL2B setup line   `Shell::complete` with registered specs at every char boundary / byte
use std::io::Write as _;
use std::panic::AssertUnwindSafe;
use std::sync::atomic::{AtomicU64, Ordering};
use std::sync::Mutex;
use vh::{esc, fields, sq};

/// Every response line starts with this marker (after a line break of its own): code under test may
/// write to the process's stdout directly (a completion function that prints, `compgen -C`), and such
/// stray text must not be taken for — or glued to — a response.
const MARK: &str = "@@C01@@ ";

static CASE_STARTED_MS: AtomicU64 = AtomicU64::new(0);
static LAST_PANIC: Mutex<String> = Mutex::new(String::new());
/// which parser of `parse_all` is running (reported by the watchdog: `HANG <stage>`)
static STAGE: Mutex<&'static str> = Mutex::new("");

fn stage(s: &'static str) {
    if let Ok(mut g) = STAGE.lock() {
        *g = s;
    }
}

fn now_ms() -> u64 {
    std::time::SystemTime::now().duration_since(std::time::UNIX_EPOCH).map(|d| d.as_millis() as u64).unwrap_or(0)
}

/// CPU time (user + system) of this process in milliseconds, from /proc/self/stat
fn cpu_ms() -> u64 {
    let Ok(st) = std::fs::read_to_string("/proc/self/stat") else { return 0 };
    let Some(rest) = st.rfind(')').map(|i| &st[i + 1..]) else { return 0 };
    let f: Vec<&str> = rest.split_whitespace().collect();
    // after the command name: state is field 0, utime field 11, stime field 12 (clock ticks, 100 per second)
    let ticks = f.get(11).and_then(|v| v.parse::<u64>().ok()).unwrap_or(0) + f.get(12).and_then(|v| v.parse::<u64>().ok()).unwrap_or(0);
    ticks * 10
}

/// `…/brush-core/src/expansion.rs` → `brush-core/src/expansion.rs` (independent of the checkout dir)
fn canon_file(f: &str) -> String {
    match f.rfind("/brush-") {
        Some(i) => f[i + 1..].to_string(),
        None => match f.rfind("/.cargo/registry/src/") {
            Some(i) => {
                let rest = &f[i + 21..];
                let rest = rest.split_once('/').map(|x| x.1).unwrap_or(rest);
                format!("dep:{rest}")
            }
            None => match f.rfind("/library/") {
                Some(i) => format!("std:{}", &f[i + 9..]),
                None => f.to_string(),
            },
        },
    }
}

fn install_hook() {
    std::panic::set_hook(Box::new(|info| {
        let loc = info.location().map(|l| format!("{}:{}", canon_file(l.file()), l.line())).unwrap_or_else(|| "?:0".into());
        let p = info.payload();
        let msg = if let Some(s) = p.downcast_ref::<&str>() {
            (*s).to_string()
        } else if let Some(s) = p.downcast_ref::<String>() {
            s.clone()
        } else {
            "?".to_string()
        };
        let msg: String = msg.chars().take(80).collect();
        if let Ok(mut g) = LAST_PANIC.lock() {
            // keep the first panic of a case (a second one may come from unwinding)
            if g.is_empty() {
                *g = format!("{loc} {}", esc(&msg));
            }
        }
    }));
}

fn take_panic() -> String {
    LAST_PANIC.lock().map(|mut g| std::mem::take(&mut *g)).unwrap_or_default()
}

async fn base_shell(interactive: bool, histfile: Option<&str>) -> vh::Sh {
    let mut b = brush_core::Shell::builder()
        .interactive(interactive)
        .no_editing(true)
        .profile(brush_core::ProfileLoadBehavior::Skip)
        .rc(brush_core::RcLoadBehavior::Skip)
        .shell_name("sh0".to_string())
        .builtins(brush_builtins::default_builtins(brush_builtins::BuiltinSet::BashMode));
    if let Some(h) = histfile {
        b = b.var("HISTFILE", brush_core::ShellVariable::new(h));
    }
    b.build().await.expect("shell build")
}

/// an `i64` written so that brush's arithmetic parser reads exactly that value
fn lit(v: &str) -> String {
    if v == "-9223372036854775808" {
        "(-9223372036854775807-1)".to_string()
    } else if v.starts_with('-') {
        format!("({v})")
    } else {
        v.to_string()
    }
}

fn var_str(shell: &vh::Sh, name: &str) -> String {
    shell.env().get(name).map(|(_, v)| v.value().to_cow_str(shell).to_string()).unwrap_or_default()
}

async fn expand(shell: &mut vh::Sh, word: &str) -> String {
    let params = shell.default_exec_params();
    match shell.basic_expand_string(&params, word).await {
        Ok(s) => format!("OK {}", esc(&s)),
        Err(_) => "ERR".into(),
    }
}

async fn expand_fields(shell: &mut vh::Sh, word: &str) -> String {
    let params = shell.default_exec_params();
    match shell.full_expand_and_split_string(&params, word).await {
        Ok(fs) => {
            let mut s = String::from("OK");
            for f in fs {
                s.push(' ');
                s.push_str(&esc(&f));
            }
            s
        }
        Err(_) => "ERR".into(),
    }
}

fn sublen(f: &[String]) -> String {
    if f[3] == "-" { format!(":{}", lit(&f[2])) } else { format!(":{}:{}", lit(&f[2]), lit(&f[3])) }
}

struct Cx {
    base: vh::Sh,
    hist: vh::Sh,
    tmp: std::path::PathBuf,
}

async fn one(cx: &Cx, f: &[String]) -> String {
    let op = f[0].as_str();
    let n = f.len();
    match (op, n) {
        ("SUBSTR", 4) => {
            let mut sh = cx.base.clone();
            if vh::run(&mut sh, &format!("x={}", sq(&f[1]))).await.is_err() {
                return "SETUP-ERR".into();
            }
            expand(&mut sh, &format!("\"${{x{}}}\"", sublen(f))).await
        }
        ("ASUBSTR", 4) | ("PSUBSTR", 4) => {
            let mut sh = cx.base.clone();
            let k: usize = f[1].parse().unwrap_or(0);
            let (setup, name) = if op == "ASUBSTR" {
                let elems: Vec<String> = (0..k).map(|i| format!("e{i}")).collect();
                (format!("a=({})", elems.join(" ")), "a[@]")
            } else {
                let elems: Vec<String> = (1..=k).map(|i| format!("p{i}")).collect();
                (format!("set -- {}", elems.join(" ")), "@")
            };
            if vh::run(&mut sh, &setup).await.is_err() {
                return "SETUP-ERR".into();
            }
            expand_fields(&mut sh, &format!("\"${{{name}{}}}\"", sublen(f))).await
        }
        ("INDEX", 4) => {
            let mut sh = cx.base.clone();
            let k: usize = f[2].parse().unwrap_or(0);
            let elems: Vec<String> = (0..k).map(|i| format!("e{i}")).collect();
            if vh::run(&mut sh, &format!("a=({})", elems.join(" "))).await.is_err() {
                return "SETUP-ERR".into();
            }
            // inside a subscript a negative value is written `0-N` (a leading `-` is not accepted on the
            // left of an assignment)
            let idx = if f[3] == "-9223372036854775808" {
                "0-9223372036854775807-1".to_string()
            } else if let Some(n) = f[3].strip_prefix('-') {
                format!("0-{n}")
            } else {
                f[3].clone()
            };
            let head = match f[1].as_str() {
                "get" => expand(&mut sh, &format!("\"${{a[{idx}]}}\"")).await,
                "set" => match vh::run(&mut sh, &format!("a[{idx}]=v")).await {
                    Ok(st) => format!("OK {st}"),
                    Err(_) => "ERR".into(),
                },
                "unset" => match vh::run(&mut sh, &format!("unset 'a[{idx}]'")).await {
                    Ok(st) => format!("OK {st}"),
                    Err(_) => "ERR".into(),
                },
                _ => return "BAD-REQUEST".into(),
            };
            let keys = sh
                .env()
                .get("a")
                .map(|(_, v)| v.value().element_keys(&sh).join(","))
                .unwrap_or_default();
            format!("{head} K={keys}")
        }
        ("BRACE", 2) => {
            let mut sh = cx.base.clone();
            expand_fields(&mut sh, &f[1]).await
        }
        ("HIST", 3) => {
            let mut sh = cx.hist.clone();
            let k: usize = f[1].parse().unwrap_or(0);
            for i in 0..k {
                if sh.add_to_history(&format!("cmd{i}")).is_err() {
                    return "SETUP-ERR".into();
                }
            }
            let out = cx.tmp.join("hist.out");
            let _ = std::fs::remove_file(&out);
            let arg = if f[2] == "-" { String::new() } else { format!(" {}", f[2]) };
            let st = vh::run(&mut sh, &format!("history{arg} > {} 2>/dev/null", sq(out.to_str().unwrap_or("")))).await;
            let text = std::fs::read_to_string(&out).unwrap_or_default();
            let lines: Vec<&str> = text.lines().collect();
            let first = lines.first().map(|l| l.split_whitespace().next().unwrap_or("?").to_string()).unwrap_or_else(|| "-".into());
            match st {
                Ok(0) => format!("OK {} {first}", lines.len()),
                Ok(_) | Err(_) => "ERR".into(),
            }
        }
        ("LOOP", 3) => {
            let mut sh = cx.base.clone();
            let kw = if f[1] == "b" { "break" } else { "continue" };
            let script = format!(
                "r=; for i in 1 2; do for j in 1 2; do for k in 1 2; do r+=k; {kw} {} 2>/dev/null; s=$?; r+=K; done; r+=J; done; r+=I; done",
                f[2]
            );
            match vh::run(&mut sh, &script).await {
                Ok(_) => {
                    let s = var_str(&sh, "s");
                    format!("OK {} {}", if s.is_empty() { "-".to_string() } else { s }, esc(&var_str(&sh, "r")))
                }
                Err(_) => "ERR".into(),
            }
        }
        ("ARITH", 4) => {
            let mut sh = cx.base.clone();
            expand(&mut sh, &format!("$(( {} {} {} ))", lit(&f[2]), f[1], lit(&f[3]))).await
        }
        ("UNARY", 3) => {
            let mut sh = cx.base.clone();
            expand(&mut sh, &format!("$(( {} {} ))", f[1], lit(&f[2]))).await
        }
        ("EXPAND", 2) => {
            let mut sh = cx.base.clone();
            if vh::run(&mut sh, "x=abc; y='a b  c'; z=; arr=(1 2 3); declare -A m=([k]=v); cy='arr[cy]'; cx=cx; set -- p1 'p 2' p3").await.is_err() {
                return "SETUP-ERR".into();
            }
            let r = expand_fields(&mut sh, &f[1]).await;
            if r.starts_with("OK") { "OK".into() } else { r }
        }
        ("PROMPT", 2) => {
            let mut sh = cx.hist.clone();
            if vh::run(&mut sh, &format!("PS1={}", sq(&f[1]))).await.is_err() {
                return "SETUP-ERR".into();
            }
            let mut r = match sh.compose_prompt().await {
                Ok(_) => "OK".to_string(),
                Err(_) => "ERR".to_string(),
            };
            // the prompt parser alone as well (continuation / alt prompts share it)
            if brush_parser::prompt::parse(&f[1]).is_err() {
                r.push_str(" P-ERR");
            }
            r
        }
        ("RUN", 2) | ("RUNI", 2) => {
            // a script of builtins, in-process; its output must not reach the protocol stream and it must
            // not read the request lines. RUNI: in the interactive shell (history, completion specs).
            let mut sh = if op == "RUNI" { cx.hist.clone() } else { cx.base.clone() };
            if op == "RUNI" {
                for i in 0..3 {
                    let _ = sh.add_to_history(&format!("cmd{i}"));
                }
            }
            let script = format!("{{\n{}\n}} >/dev/null 2>&1 </dev/null", f[1]);
            match vh::run(&mut sh, &script).await {
                Ok(st) => format!("OK {st}"),
                Err(_) => "ERR".into(),
            }
        }
        ("COMPL2", 3) | ("COMPL2B", 3) => {
            // completion at a cursor with registered specs: f[1] = setup (complete …, functions), f[2] = line.
            // COMPL2: every char boundary; COMPL2B: every byte offset (also inside multi-byte characters).
            let mut sh = cx.hist.clone();
            let setup = format!("{{\n{}\n}} >/dev/null 2>&1 </dev/null", f[1]);
            if vh::run(&mut sh, &setup).await.is_err() {
                return "SETUP-ERR".into();
            }
            let line = &f[2];
            let positions: Vec<usize> = if op == "COMPL2B" { (0..=line.len()).collect() } else { cursors(line) };
            let mut ok = 0usize;
            let mut bad = String::new();
            for c in positions {
                if let Ok(cs) = sh.complete(line, c).await {
                    ok += 1;
                    let end = cs.insertion_index.checked_add(cs.delete_count);
                    let fine = cs.insertion_index <= line.len()
                        && end.is_some_and(|e| e <= line.len() && line.is_char_boundary(e))
                        && line.is_char_boundary(cs.insertion_index);
                    if !fine && bad.is_empty() && line.is_char_boundary(c) {
                        bad = format!(" RANGE {c} {} {}", cs.insertion_index, cs.delete_count);
                    }
                }
            }
            format!("OK {ok}{bad}")
        }
        ("COMPL", 2) => {
            let mut sh = cx.hist.clone();
            let line = &f[1];
            let mut ok = 0usize;
            let mut bad = String::new();
            for c in cursors(line) {
                match sh.complete(line, c).await {
                    Ok(cs) => {
                        ok += 1;
                        // the contract stated on `Completions`: a range on clean char boundaries inside the line
                        let end = cs.insertion_index.checked_add(cs.delete_count);
                        let fine = cs.insertion_index <= line.len()
                            && end.is_some_and(|e| e <= line.len() && line.is_char_boundary(e))
                            && line.is_char_boundary(cs.insertion_index);
                        if !fine && bad.is_empty() {
                            bad = format!(" RANGE {c} {} {}", cs.insertion_index, cs.delete_count);
                        }
                    }
                    Err(_) => {}
                }
            }
            format!("OK {ok}{bad}")
        }
        _ => "BAD-REQUEST".into(),
    }
}

fn cursors(line: &str) -> Vec<usize> {
    line.char_indices().map(|(b, _)| b).chain(std::iter::once(line.len())).collect()
}

/// every parser of brush-parser on one text (sync)
fn parse_all(shell: &vh::Sh, text: &str) -> String {
    let mut res = String::new();
    let opts = shell.parser_options();
    stage("program");
    let prog = shell.parse_string(text.to_string());
    res.push_str(if prog.is_ok() { "P" } else { "p" });
    stage("tokenizer");
    match brush_parser::tokenize_str(text) {
        Ok(toks) => {
            res.push('T');
            for t in toks.iter().take(200) {
                let w = t.to_str();
                stage("token:word");
                let _ = brush_parser::word::parse(w, &opts);
                stage("token:brace");
                let _ = brush_parser::word::parse_brace_expansions(w, &opts);
                stage("token:parameter");
                let _ = brush_parser::word::parse_parameter(w, &opts);
                stage("token:heredoc");
                let _ = brush_parser::word::parse_heredoc(w, &opts);
                stage("token:pattern");
                let _ = brush_parser::pattern::pattern_to_regex_str(w, true);
                let _ = brush_parser::pattern::pattern_to_regex_str(w, false);
                stage("token:arithmetic");
                let _ = brush_parser::arithmetic::parse(w);
                stage("token:unquote");
                let _ = brush_parser::unquote_str(w);
            }
        }
        Err(_) => res.push('t'),
    }
    stage("text:word");
    let _ = brush_parser::word::parse(text, &opts);
    stage("text:brace");
    let _ = brush_parser::word::parse_brace_expansions(text, &opts);
    stage("text:pattern");
    let _ = brush_parser::pattern::pattern_to_regex_str(text, true);
    stage("text:arithmetic");
    let _ = brush_parser::arithmetic::parse(text);
    stage("text:prompt");
    let _ = brush_parser::prompt::parse(text);
    stage("text:test");
    let ws: Vec<&str> = text.split_whitespace().collect();
    let _ = brush_parser::test_command::parse(&ws);
    stage("");
    format!("OK {res}")
}

fn highlight_all(shell: &vh::Sh, line: &str) -> String {
    let mut n = 0usize;
    for c in cursors(line) {
        let h = brush_interactive::highlighting::highlight_command(shell, line, c);
        let rendered: String = h.iter().map(|(_, t)| t).collect();
        let _ = rendered;
        n += 1;
    }
    format!("OK {n}")
}

fn main() {
    install_hook();
    // A hang is a case that keeps the CPU busy (or blocks) without coming back. On a loaded machine wall
    // time says little, so the limit is on the CPU time the process spent since the case started; a
    // generous wall-clock limit (15x) catches a case that blocks without spinning.
    let limit: u64 = std::env::var("C01_WATCHDOG_MS").ok().and_then(|v| v.parse().ok()).unwrap_or(10_000);
    std::thread::spawn(move || {
        let mut seen_start = 0u64;
        let mut cpu_at_start = 0u64;
        loop {
            std::thread::sleep(std::time::Duration::from_millis(50));
            let t = CASE_STARTED_MS.load(Ordering::SeqCst);
            if t == 0 {
                seen_start = 0;
                continue;
            }
            if t != seen_start {
                seen_start = t;
                cpu_at_start = cpu_ms();
                continue;
            }
            let cpu = cpu_ms().saturating_sub(cpu_at_start);
            let wall = now_ms().saturating_sub(t);
            if cpu > limit || wall > limit * 15 {
                // the stuck case gets its response line here; stdout is line-flushed by the main loop
                println!("\n{MARK}HANG {}", STAGE.lock().map(|g| *g).unwrap_or(""));
                let _ = std::io::stdout().flush();
                std::process::exit(3);
            }
        }
    });
    let rt = tokio::runtime::Builder::new_multi_thread().worker_threads(2).enable_all().build().expect("rt");
    let tmp = std::env::temp_dir().join(format!("vh-c01-{}", std::process::id()));
    let _ = std::fs::create_dir_all(&tmp);
    let _ = std::env::set_current_dir(&tmp);
    let hf = tmp.join("histfile");
    let cx = Cx {
        base: rt.block_on(base_shell(false, None)),
        hist: rt.block_on(base_shell(true, hf.to_str())),
        tmp: tmp.clone(),
    };
    for line in vh::lines() {
        let f = fields(&line);
        // `fields` drops empty tokens; an empty field is sent as "%" and unescaped to ""
        if f.is_empty() {
            println!("\n{MARK}BAD-REQUEST");
            continue;
        }
        let _ = take_panic();
        stage("");
        CASE_STARTED_MS.store(now_ms(), Ordering::SeqCst);
        let res = std::panic::catch_unwind(AssertUnwindSafe(|| match (f[0].as_str(), f.len()) {
            ("PARSE", 2) => parse_all(&cx.base, &f[1]),
            ("HL", 2) => highlight_all(&cx.hist, &f[1]),
            _ => rt.block_on(one(&cx, &f)),
        }));
        CASE_STARTED_MS.store(0, Ordering::SeqCst);
        let out = match res {
            Ok(s) => s,
            Err(_) => format!("PANIC {}", take_panic()),
        };
        println!("\n{MARK}{out}");
        let _ = std::io::stdout().flush();
    }
    let _ = std::env::set_current_dir("/");
    let _ = std::fs::remove_dir_all(&tmp);
}
