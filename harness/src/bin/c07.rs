//! C07 harness: brush's real arithmetic parser and evaluator, in-process.
//! Requests:
//!   `P <expr>`                         -> `ok <sexpr>` | `err`
//!   `E <expr> <name>=<value> ...`      -> `v <i64> | <vars>` | `e <kind> | <vars>`
//!       (variables of the fixed universe are unset, the given ones set as scalars — `@name=v0,v1,…` as an
//!        indexed array with elements 0.. —, the expression is
//!        parsed with brush_parser::arithmetic::parse and evaluated with Evaluatable::eval on a real Shell;
//!        <vars> = the universe's variables afterwards, `name=value` sorted by name, `-` if none)
//! All fields are %-escaped (vh::esc).
use brush_core::arithmetic::{EvalError, Evaluatable};
use brush_parser::ast::{ArithmeticExpr as AE, ArithmeticTarget as AT};
use vh::{esc, unesc};

const UNIVERSE: &[&str] = &["a", "b", "c", "d", "x", "y", "z", "u", "v", "w", "A", "B"];

fn target(t: &AT) -> String {
    match t {
        AT::Variable(n) => format!("${n}"),
        AT::ArrayElement(n, i) => format!("${n}[{}]", sexpr(i)),
    }
}

fn sexpr(e: &AE) -> String {
    match e {
        AE::Literal(n) => format!("{n}"),
        AE::Reference(t) => target(t),
        AE::UnaryOp(op, x) => format!("(u{op:?} {})", sexpr(x)),
        AE::BinaryOp(op, l, r) => format!("(b{op:?} {} {})", sexpr(l), sexpr(r)),
        AE::Conditional(c, t, f) => format!("(? {} {} {})", sexpr(c), sexpr(t), sexpr(f)),
        AE::Assignment(t, r) => format!("(= {} {})", target(t), sexpr(r)),
        AE::BinaryAssignment(op, t, r) => format!("(a{op:?} {} {})", target(t), sexpr(r)),
        AE::UnaryAssignment(op, t) => format!("(i{op:?} {})", target(t)),
    }
}

fn err_kind(e: &EvalError) -> &'static str {
    match e {
        EvalError::DivideByZero => "div0",
        EvalError::NegativeExponent => "negexp",
        EvalError::ParseError(_) => "parse",
        EvalError::RecursionLimitExceeded => "recursion",
        EvalError::FailedToAccessArray => "array",
        EvalError::FailedToUpdateEnvironment => "update",
        EvalError::ExpandingUnsetVariable(_) => "unset",
        _ => "other",
    }
}

fn dump_vars(shell: &vh::Sh) -> String {
    let mut out = vec![];
    for n in UNIVERSE {
        if let Some(var) = shell.env_var(n) {
            match var.value() {
                brush_core::ShellValue::String(s) => out.push(format!("{n}={}", esc(s))),
                brush_core::ShellValue::IndexedArray(m) => {
                    let items: Vec<String> = m.iter().map(|(k, v)| format!("{k}:{}", esc(v))).collect();
                    out.push(format!("{n}=[{}]", items.join(",")));
                }
                brush_core::ShellValue::Unset(_) => {}
                _ => out.push(format!("{n}=?")),
            }
        }
    }
    if out.is_empty() { "-".to_string() } else { out.join(" ") }
}

#[tokio::main(flavor = "multi_thread", worker_threads = 2)]
async fn main() {
    let mut shell = vh::new_shell(false, &[]).await;
    for line in vh::lines() {
        let toks: Vec<&str> = line.split(' ').filter(|t| !t.is_empty()).collect();
        if toks.len() < 2 {
            println!("bad-request");
            continue;
        }
        let expr = unesc(toks[1]);
        match toks[0] {
            "P" => {
                let r = std::panic::catch_unwind(|| brush_parser::arithmetic::parse(&expr));
                match r {
                    Ok(Ok(e)) => println!("ok {}", sexpr(&e)),
                    Ok(Err(_)) => println!("err"),
                    Err(_) => println!("PANIC"),
                }
            }
            "E" => {
                for n in UNIVERSE {
                    let _ = shell.env_mut().unset(n);
                }
                for t in &toks[2..] {
                    if let Some(rest) = t.strip_prefix('@') {
                        // `@name=v0,v1,…`: an indexed array (elements 0..), as `name=(v0 v1 …)` creates it
                        if let Some((n, vs)) = rest.split_once('=') {
                            let items: Vec<(Option<String>, String)> = if vs.is_empty() {
                                vec![]
                            } else {
                                vs.split(',').map(|v| (None, unesc(v))).collect()
                            };
                            let _ = shell.env_mut().update_or_add(
                                n,
                                brush_core::variables::ShellValueLiteral::Array(
                                    brush_core::variables::ArrayLiteral(items),
                                ),
                                |_| Ok(()),
                                brush_core::env::EnvironmentLookup::Anywhere,
                                brush_core::env::EnvironmentScope::Global,
                            );
                        }
                        continue;
                    }
                    if let Some((n, v)) = t.split_once('=') {
                        let _ = shell.env_mut().update_or_add(
                            n,
                            brush_core::variables::ShellValueLiteral::Scalar(unesc(v)),
                            |_| Ok(()),
                            brush_core::env::EnvironmentLookup::Anywhere,
                            brush_core::env::EnvironmentScope::Global,
                        );
                    }
                }
                let parsed = std::panic::catch_unwind(|| brush_parser::arithmetic::parse(&expr));
                let res = match parsed {
                    Err(_) => "PANIC".to_string(),
                    Ok(Err(_)) => "e parse".to_string(),
                    Ok(Ok(e)) => {
                        let r = std::panic::catch_unwind(std::panic::AssertUnwindSafe(|| e.eval(&mut shell)));
                        match r {
                            Err(_) => "PANIC".to_string(),
                            Ok(Ok(v)) => format!("v {v}"),
                            Ok(Err(er)) => format!("e {}", err_kind(&er)),
                        }
                    }
                };
                println!("{res} | {}", dump_vars(&shell));
            }
            _ => println!("bad-request"),
        }
    }
}
