//! C10 harness.
//!
//! * `c10 --probe <tag>` — the external probe command the generated scripts run.  It looks at its
//!   own descriptors 0..=9 (readlink of /proc/self/fd/N + access mode/O_APPEND from fdinfo), writes
//!   the marker `W<fd>t<tag>\n` to every descriptor open for writing (ascending), reads every
//!   descriptor that is the read end of a pipe or an unlinked temp file (a here-document /
//!   here-string) to its end, and appends one report line to the file named by `$C10_OUT`.
//! * request `R <brush|bash> <esc script>` — runs the script with the real shell binary in a fresh
//!   scratch directory (`w/` holds `ex`, `ex2`, directory `d`), stdin `/dev/null`, stdout/stderr
//!   two regular files.  Response: `rc=<n> out=<esc> err=<esc> rep=<esc> files=<name>=<esc>,…`
//!   where every line that is not a marker/report/initial-content line is canonicalised to `<ERR>`.
//! * request `T <esc source>` — in-process: `brush_parser::tokenize_str(source)`; response
//!   `ok <esc token> …` or `err <kind>`.
use std::io::{Read, Write};
use std::os::fd::FromRawFd;
use std::path::{Path, PathBuf};
use vh::{esc, unesc};

fn probe(tag: &str) {
    let out = std::env::var("C10_OUT").unwrap_or_default();
    let wdir = std::env::var("C10_W").unwrap_or_default();
    let base = std::env::var("C10_BASE").unwrap_or_default();
    // 1. look at the table
    let mut ents: Vec<(u32, String, String)> = vec![]; // fd, canonical target, mode
    for fd in 0u32..10 {
        let Ok(t) = std::fs::read_link(format!("/proc/self/fd/{fd}")) else { continue };
        let t = t.to_string_lossy().to_string();
        let info = std::fs::read_to_string(format!("/proc/self/fdinfo/{fd}")).unwrap_or_default();
        let mut flags = 0u32;
        for l in info.lines() {
            if let Some(v) = l.strip_prefix("flags:") {
                flags = u32::from_str_radix(v.trim(), 8).unwrap_or(0);
            }
        }
        let acc = match flags & 3 { 0 => "r", 1 => "w", _ => "rw" };
        let app = if flags & 0o2000 != 0 { "a" } else { "" };
        let canon = if t == "/dev/null" {
            "null".to_string()
        } else if t.starts_with("pipe:") || t.ends_with(" (deleted)") {
            "hd".to_string()
        } else if let Some(r) = t.strip_prefix(&format!("{wdir}/")) {
            format!("w:{r}")
        } else if t == wdir {
            "w:.".to_string()
        } else if t == format!("{base}/out") {
            "OUT".to_string()
        } else if t == format!("{base}/err") {
            "ERR".to_string()
        } else {
            format!("other:{t}")
        };
        ents.push((fd, canon, format!("{acc}{app}")));
    }
    // 2. write markers / drain here-documents
    let mut fields = vec![];
    for (fd, canon, mode) in &ents {
        let mut f = std::mem::ManuallyDrop::new(unsafe { std::fs::File::from_raw_fd(*fd as i32) });
        if canon == "hd" {
            if mode.starts_with('r') && !mode.starts_with("rw") {
                let mut buf = vec![];
                let _ = f.read_to_end(&mut buf);
                fields.push(format!("{fd}=hd/{}", esc(&String::from_utf8_lossy(&buf))));
            } else {
                fields.push(format!("{fd}=pipe/{mode}"));
            }
            continue;
        }
        if mode.contains('w') {
            let _ = f.write_all(format!("W{fd}t{tag}\n").as_bytes());
        }
        fields.push(format!("{fd}={canon}/{mode}"));
    }
    // 3. report
    if let Ok(mut r) = std::fs::OpenOptions::new().create(true).append(true).open(&out) {
        let _ = r.write_all(format!("P{tag} {}\n", fields.join(" ")).as_bytes());
    }
}

fn is_marker(l: &str) -> bool {
    if l == "old" || l == "two" {
        return true;
    }
    let b = l.as_bytes();
    if b.is_empty() {
        return false;
    }
    match b[0] {
        b'W' | b'B' | b'S' | b'H' => l[1..].chars().all(|c| c.is_ascii_alphanumeric() || c == '=' || c == '.' || c == '-') && l.len() > 1,
        _ => false,
    }
}

/// keep marker lines; every maximal run of other lines becomes one `<ERR>` line
fn canon_text(s: &str, raw: bool) -> String {
    if raw {
        return s.to_string();
    }
    let mut out = String::new();
    let mut in_err = false;
    let mut rest = s;
    while !rest.is_empty() {
        let (line, nl, tail) = match rest.find('\n') {
            Some(i) => (&rest[..i], true, &rest[i + 1..]),
            None => (rest, false, ""),
        };
        // a marker may follow garbage on the same line only if the garbage ended without newline: not handled (hazard cases are filtered by the model)
        if is_marker(line) && nl {
            out.push_str(line);
            out.push('\n');
            in_err = false;
        } else if !in_err {
            out.push_str("<ERR>\n");
            in_err = true;
        }
        rest = tail;
    }
    out
}

fn read_lossy(p: &Path) -> String {
    std::fs::read(p).map(|b| String::from_utf8_lossy(&b).into_owned()).unwrap_or_default()
}

fn run_case(self_exe: &str, brush: &str, bash: &str, root: &Path, n: usize, which: &str, raw: bool, script: &str) -> String {
    let base = root.join(format!("c{n}"));
    let w = base.join("w");
    let _ = std::fs::remove_dir_all(&base);
    std::fs::create_dir_all(w.join("d")).unwrap();
    std::fs::write(w.join("ex"), "old\n").unwrap();
    std::fs::write(w.join("ex2"), "two\n").unwrap();
    let outp = base.join("out");
    let errp = base.join("err");
    let repp = base.join("rep");
    let fo = std::fs::File::create(&outp).unwrap();
    let fe = std::fs::File::create(&errp).unwrap();
    let mut cmd = if which == "brush" {
        let mut c = std::process::Command::new(brush);
        c.args(["--norc", "--noprofile", "--no-config"]);
        c
    } else {
        let mut c = std::process::Command::new(bash);
        c.args(["--norc", "--noprofile"]);
        c
    };
    cmd.arg("-c").arg(script).current_dir(&w).env_clear()
        .env("PATH", "/usr/local/sbin:/usr/local/bin:/usr/sbin:/usr/bin:/sbin:/bin")
        .env("LC_ALL", "C.UTF-8").env("HOME", "/nonexistent").env("TERM", "dumb")
        .env("P", format!("{self_exe} --probe"))
        .env("C10_OUT", &repp).env("C10_W", &w).env("C10_BASE", &base)
        .stdin(std::process::Stdio::null()).stdout(fo).stderr(fe);
    {
        // own process group: a script that loops for ever in a subshell is killed with all its descendants
        use std::os::unix::process::CommandExt;
        cmd.process_group(0);
    }
    let rc = match cmd.spawn() {
        Ok(mut ch) => {
            let t0 = std::time::Instant::now();
            loop {
                match ch.try_wait() {
                    Ok(Some(st)) => {
                        use std::os::unix::process::ExitStatusExt;
                        break st.code().map(|c| c.to_string()).unwrap_or_else(|| format!("sig{}", st.signal().unwrap_or(0)));
                    }
                    Ok(None) => {
                        if t0.elapsed().as_secs() > 20 {
                            let _ = std::process::Command::new("kill").args(["-9", &format!("-{}", ch.id())])
                                .stdout(std::process::Stdio::null()).stderr(std::process::Stdio::null()).status();
                            let _ = ch.kill();
                            let _ = ch.wait();
                            break "timeout".to_string();
                        }
                        std::thread::sleep(std::time::Duration::from_micros(300));
                    }
                    Err(_) => break "waiterr".to_string(),
                }
            }
        }
        Err(e) => format!("spawnerr:{e}"),
    };
    let mut files = vec![];
    let mut names: Vec<PathBuf> = std::fs::read_dir(&w).map(|rd| rd.filter_map(|e| e.ok().map(|e| e.path())).collect()).unwrap_or_default();
    names.sort();
    for p in names {
        let name = p.file_name().unwrap().to_string_lossy().to_string();
        let md = std::fs::symlink_metadata(&p);
        match md {
            Ok(m) if m.is_file() => files.push(format!("{}={}", esc(&name), esc(&canon_text(&read_lossy(&p), raw)))),
            Ok(m) if m.is_dir() => {
                let cnt = std::fs::read_dir(&p).map(|r| r.count()).unwrap_or(0);
                files.push(format!("{}=DIR{}", esc(&name), cnt));
            }
            _ => files.push(format!("{}=OTHER", esc(&name))),
        }
    }
    let res = format!(
        "rc={} out={} err={} rep={} files={}",
        rc,
        esc(&canon_text(&read_lossy(&outp), raw)),
        esc(&canon_text(&read_lossy(&errp), false)),
        esc(&read_lossy(&repp)),
        files.join(",")
    );
    let _ = std::fs::remove_dir_all(&base);
    res
}

fn tokenize(src: &str) -> String {
    let r = std::panic::catch_unwind(|| brush_parser::uncached_tokenize_str(src, &brush_parser::TokenizerOptions::default()));
    match r {
        Err(_) => "PANIC".to_string(),
        Ok(Err(e)) => {
            let s = format!("{e:?}");
            let kind: String = s.chars().take_while(|c| c.is_ascii_alphanumeric()).collect();
            format!("err {kind}")
        }
        Ok(Ok(toks)) => {
            let mut out = vec!["ok".to_string()];
            for t in toks {
                match t {
                    brush_parser::Token::Operator(s, _) => out.push(format!("o{}", esc(&s))),
                    brush_parser::Token::Word(s, _) => out.push(format!("w{}", esc(&s))),
                }
            }
            out.join(" ")
        }
    }
}

fn main() {
    let args: Vec<String> = std::env::args().collect();
    if args.len() >= 3 && args[1] == "--probe" {
        probe(&args[2]);
        return;
    }
    let brush = args.get(1).cloned().unwrap_or_else(|| "brush".into());
    let bash = args.get(2).cloned().unwrap_or_else(|| "/usr/bin/bash".into());
    let self_exe = std::env::current_exe().unwrap().to_string_lossy().to_string();
    let root = std::env::temp_dir().join(format!("vh-c10-{}", std::process::id()));
    std::fs::create_dir_all(&root).unwrap();
    std::panic::set_hook(Box::new(|_| {}));
    let mut n = 0usize;
    for line in vh::lines() {
        n += 1;
        let toks: Vec<&str> = line.split(' ').filter(|t| !t.is_empty()).collect();
        let resp = match toks.as_slice() {
            ["R", which, script] => run_case(&self_exe, &brush, &bash, &root, n, which, false, &unesc(script)),
            ["RAW", which, script] => run_case(&self_exe, &brush, &bash, &root, n, which, true, &unesc(script)),
            ["T", src] => tokenize(&unesc(src)),
            _ => "bad-request".to_string(),
        };
        println!("{resp}");
    }
    let _ = std::fs::remove_dir_all(&root);
}
