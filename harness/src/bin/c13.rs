//! C13 harness: brush's quoting routines and printers, and brush's reader, in-process.
//!
//! Requests (fields `vh::esc`-escaped, space separated):
//!   fn <s>                         -> quote_if_needed(s, Single|Double|Backslash) force_quote(s, Single|Double|Backslash)
//!   ansi <s>                       -> expand_backslash_escapes(s, AnsiCQuotes) (lossy UTF-8) | ERR
//!   rd a|s <text>                  -> what brush's `eval` makes of `set -- <text>` / `zzr=<text>`
//!   e2e <form> <payload…>          -> `<esc text> %; <reread> [%; <reread>]`  (text printed by a shell holding the
//!                                     payload, then re-read by `eval` in a fresh shell)
//!   sh <ctx> <spec>…               -> shadowing contexts: `<form> %; <esc text|ABSENT> %; <reread>…` joined by ` %| `.
//!                                     ctx f1 (a function's local hides a global), f2 (the callee's local hides the
//!                                     caller's local, which hides a global), tmp (`zzv=… eval` hides a global).
//!                                     spec = `<s|a|A> <attrs|-> <n> <v1>…<vn>`, innermost first; every printer runs
//!                                     where the innermost binding is the visible one.
//!   cx <scope> <wrapper> <opts|-> <reader> <spec>…  -> the same segments: scope g|f1|f2|tmp; the printers run inside the
//!                                     wrapper (none sub cs ev br lpipe pipe0 wh for trap src twice) under the options
//!                                     (comma list: u f e E T h posix extglob … ifscomma ifsempty ps4); every text is
//!                                     re-read through the reader route (ev src rd hd dw) in a fresh shell.
//! Re-read results:  `W <n> <w1> …` (words), `V <attrs|-> <s|a|A|u> <k v>…` (variable), `S <body>`, `NONE`, `ERR`.
use std::collections::BTreeMap;
use brush_core::escape::{self, QuoteMode};
use brush_core::variables::{ShellValue, ShellVariable, ShellVariableUpdateTransform};
use vh::{esc, fields, new_shell, run};

const HOME: &str = "/hh";

fn out_path() -> String {
    std::env::temp_dir().join(format!("vh-c13-{}.out", std::process::id())).to_str().unwrap().to_string()
}

fn set_str(shell: &mut vh::Sh, name: &str, v: &str) {
    let _ = shell.env_mut().unset(name);
    shell.env_mut().set_global(name, ShellVariable::new(ShellValue::String(v.to_string()))).unwrap();
}

fn apply_attrs(var: &mut ShellVariable, attrs: &str) {
    for a in attrs.chars() {
        match a {
            'x' => { var.export(); }
            'r' => { var.set_readonly(); }
            'i' => { var.treat_as_integer(); }
            'l' => var.set_update_transform(ShellVariableUpdateTransform::Lowercase),
            'u' => var.set_update_transform(ShellVariableUpdateTransform::Uppercase),
            't' => { var.enable_trace(); }
            _ => {}
        }
    }
}

async fn fresh() -> vh::Sh {
    new_shell(false, &[("HOME", HOME)]).await
}

/// Runs `cmd` (which writes to "$zzO") in `shell`, returns what was written.
async fn capture(shell: &mut vh::Sh, cmd: &str) -> Option<String> {
    let p = out_path();
    let _ = std::fs::remove_file(&p);
    set_str(shell, "zzO", &p);
    let _ = run(shell, cmd).await;
    let b = std::fs::read(&p).ok()?;
    Some(String::from_utf8_lossy(&b).into_owned())
}

fn dump_var(shell: &vh::Sh, name: &str) -> String {
    match shell.env().get(name) {
        None => "NONE".to_string(),
        Some((_, var)) => {
            let mut attrs: String = var.attribute_flags(shell).chars().filter(|c| *c != 'a' && *c != 'A').collect();
            if attrs.is_empty() {
                attrs.push('-');
            }
            match var.value() {
                ShellValue::String(s) => format!("V {attrs} s {}", esc(s)),
                ShellValue::IndexedArray(m) => {
                    let mut o = format!("V {attrs} a");
                    for (k, v) in m {
                        o.push_str(&format!(" {} {}", k, esc(v)));
                    }
                    o
                }
                ShellValue::AssociativeArray(m) => {
                    let mut o = format!("V {attrs} A");
                    for (k, v) in m {
                        o.push_str(&format!(" {} {}", esc(k), esc(v)));
                    }
                    o
                }
                ShellValue::Unset(_) => format!("V {attrs} u"),
                ShellValue::Dynamic { .. } => "V dyn".to_string(),
            }
        }
    }
}

async fn read_args(text: &str) -> String {
    let mut sh = fresh().await;
    set_str(&mut sh, "zzT", text);
    // a marker argument list first, so that a failed `set` is visible
    let _ = run(&mut sh, "set -- zz-unset-marker").await;
    match run(&mut sh, "eval \"set -- $zzT\" >/dev/null 2>&1 </dev/null").await {
        Err(_) => return "ERR".to_string(),
        Ok(_) => {}
    }
    let ps: Vec<String> = sh.current_shell_args().iter().map(|s| s.to_string()).collect();
    if ps.len() == 1 && ps[0] == "zz-unset-marker" {
        return "ERR".to_string();
    }
    let mut o = format!("W {}", ps.len());
    for p in ps {
        o.push(' ');
        o.push_str(&esc(&p));
    }
    o
}

async fn read_assign(text: &str) -> String {
    let mut sh = fresh().await;
    set_str(&mut sh, "zzT", text);
    if run(&mut sh, "eval \"zzr=$zzT\" >/dev/null 2>&1 </dev/null").await.is_err() {
        return "ERR".to_string();
    }
    match sh.env().get("zzr") {
        Some((_, v)) => match v.value() {
            ShellValue::String(s) => format!("S {}", esc(s)),
            _ => dump_var(&sh, "zzr"),
        },
        None => "NONE".to_string(),
    }
}

/// eval a statement in a fresh shell
async fn eval_fresh(text: &str) -> vh::Sh {
    let mut sh = fresh().await;
    set_str(&mut sh, "zzT", text);
    let _ = run(&mut sh, "eval \"$zzT\" >/dev/null 2>&1 </dev/null").await;
    sh
}

async fn read_stmt_var(text: &str, name: &str) -> String {
    let sh = eval_fresh(text).await;
    dump_var(&sh, name)
}

fn usr1() -> brush_core::traps::TrapSignal {
    brush_core::traps::TrapSignal::try_from("USR1").unwrap()
}

fn strip_nl(s: String) -> String {
    s.strip_suffix('\n').map(|x| x.to_string()).unwrap_or(s)
}

/// text between a line starting with `start` and the next line starting with `stop`
fn between(all: &str, start: &str, stop: &str) -> Option<String> {
    let i = if all.starts_with(start) { 0 } else { all.find(&format!("\n{start}"))? + 1 };
    let rest = &all[i..];
    let j = rest.find(&format!("\n{stop}"))?;
    Some(rest[..j].to_string())
}

async fn e2e(f: &[String]) -> String {
    let form = f[0].as_str();
    let mut a = fresh().await;
    match form {
        "pq" | "Q" | "xt" => {
            let v = &f[1];
            set_str(&mut a, "zzv", v);
            let t = match form {
                "pq" => capture(&mut a, "printf %q \"$zzv\" > \"$zzO\"").await,
                "Q" => capture(&mut a, "printf '%s' \"${zzv@Q}\" > \"$zzO\"").await,
                _ => capture(&mut a, "{ set -x; : \"$zzv\"; set +x; } 2> \"$zzO\"").await.and_then(|s| {
                    let l = between(&s, "+ : ", "+ set +x")?;
                    Some(l["+ : ".len()..].to_string())
                }),
            };
            let Some(t) = t else { return "NOTEXT".to_string() };
            format!("{} %; {} %; {}", esc(&t), read_args(&t).await, read_assign(&t).await)
        }
        "xs" => {
            set_str(&mut a, "zzv", &f[1]);
            let t = capture(&mut a, "{ set -x; zzt=$zzv; set +x; } 2> \"$zzO\"").await.and_then(|s| {
                let l = between(&s, "+ zzt=", "+ set +x")?;
                Some(l["+ ".len()..].to_string())
            });
            let Some(t) = t else { return "NOTEXT".to_string() };
            format!("{} %; {}", esc(&t), read_stmt_var(&t, "zzt").await)
        }
        "A" | "dp" | "set" | "ex" => {
            // scalar with attributes
            let attrs = if f[1] == "-" { "" } else { f[1].as_str() };
            let mut var = ShellVariable::new(ShellValue::String(f[2].clone()));
            apply_attrs(&mut var, attrs);
            if form == "ex" {
                var.export();
            }
            a.env_mut().set_global("zzv", var).unwrap();
            set_str(&mut a, "zzw", "END");
            if form == "ex" {
                a.env_mut().get_mut("zzw").unwrap().1.export();
            }
            let t = match form {
                "A" => capture(&mut a, "printf '%s' \"${zzv@A}\" > \"$zzO\"").await,
                "dp" => capture(&mut a, "declare -p zzv > \"$zzO\"").await.map(strip_nl),
                "set" => capture(&mut a, "set > \"$zzO\"").await.and_then(|s| between(&s, "zzv=", "zzw=END")),
                _ => capture(&mut a, "export -p > \"$zzO\"").await.and_then(|s| line_of(&s, declares_zzv, "declare -")),
            };
            let Some(t) = t else { return "NOTEXT".to_string() };
            format!("{} %; {}", esc(&t), read_stmt_var(&t, "zzv").await)
        }
        "dpa" | "Aa" | "seta" | "dpA" | "AA" | "setA" | "Qa" => {
            let attrs = if f[1] == "-" { "" } else { f[1].as_str() };
            let assoc = form.ends_with('A');
            let mut var = if assoc {
                let mut m = BTreeMap::new();
                for kv in f[2..].chunks(2) {
                    m.insert(kv[0].clone(), kv[1].clone());
                }
                ShellVariable::new(ShellValue::AssociativeArray(m))
            } else {
                let mut m = BTreeMap::new();
                for kv in f[2..].chunks(2) {
                    m.insert(kv[0].parse::<u64>().unwrap(), kv[1].clone());
                }
                ShellVariable::new(ShellValue::IndexedArray(m))
            };
            apply_attrs(&mut var, attrs);
            a.env_mut().set_global("zza", var).unwrap();
            set_str(&mut a, "zzb", "END");
            let t = match form {
                "dpa" | "dpA" => capture(&mut a, "declare -p zza > \"$zzO\"").await.map(strip_nl),
                "Aa" | "AA" => capture(&mut a, "printf '%s' \"${zza[@]@A}\" > \"$zzO\"").await,
                "Qa" => capture(&mut a, "printf '%s' \"${zza[*]@Q}\" > \"$zzO\"").await,
                _ => capture(&mut a, "set > \"$zzO\"").await.and_then(|s| between(&s, "zza=", "zzb=END")),
            };
            let Some(t) = t else { return "NOTEXT".to_string() };
            if form == "Qa" {
                format!("{} %; {}", esc(&t), read_args(&t).await)
            } else {
                format!("{} %; {}", esc(&t), read_stmt_var(&t, "zza").await)
            }
        }
        "al" | "alp" => {
            a.aliases_mut().insert("zzal".to_string(), f[1].clone());
            let t = capture(&mut a, if form == "al" { "alias zzal > \"$zzO\"" } else { "alias > \"$zzO\"" }).await.map(strip_nl);
            let Some(t) = t else { return "NOTEXT".to_string() };
            let sh = eval_fresh(&t).await;
            let r = match sh.aliases().get("zzal") {
                Some(b) => format!("S {}", esc(b)),
                None => "NONE".to_string(),
            };
            format!("{} %; {}", esc(&t), r)
        }
        "tr" => {
            a.traps_mut().register_handler(usr1(), f[1].clone(), brush_core::SourceInfo::from("vh"));
            let t = capture(&mut a, "trap -p > \"$zzO\"").await.map(strip_nl);
            let Some(t) = t else { return "NOTEXT".to_string() };
            let sh = eval_fresh(&t).await;
            let r = match sh.traps().get_handler(usr1()) {
                Some(h) => format!("S {}", esc(&h.command)),
                None => "NONE".to_string(),
            };
            format!("{} %; {}", esc(&t), r)
        }
        _ => "bad-form".to_string(),
    }
}

struct Spec {
    kind: char,
    attrs: String,
    vals: Vec<String>,
}

fn parse_specs(f: &[String]) -> Option<Vec<Spec>> {
    let mut out = vec![];
    let mut i = 0;
    while i < f.len() {
        if i + 3 > f.len() {
            return None;
        }
        let kind = f[i].chars().next()?;
        let attrs = if f[i + 1] == "-" { String::new() } else { f[i + 1].clone() };
        let n: usize = f[i + 2].parse().ok()?;
        if i + 3 + n > f.len() {
            return None;
        }
        out.push(Spec { kind, attrs, vals: f[i + 3..i + 3 + n].to_vec() });
        i += 3 + n;
    }
    Some(out)
}

fn spec_value(sp: &Spec) -> ShellValue {
    match sp.kind {
        'a' => ShellValue::IndexedArray(sp.vals.iter().enumerate().map(|(i, v)| (i as u64, v.clone())).collect()),
        'A' => {
            let mut m = BTreeMap::new();
            for kv in sp.vals.chunks(2) {
                if kv.len() == 2 {
                    m.insert(kv[0].clone(), kv[1].clone());
                }
            }
            ShellValue::AssociativeArray(m)
        }
        _ => ShellValue::String(sp.vals.first().cloned().unwrap_or_default()),
    }
}

/// `local [-attrs] zzv=…` taking the values from the globals `<pfx>0`, `<pfx>1`, …
fn local_decl(sp: &Spec, pfx: &str) -> String {
    let mut flags = sp.attrs.clone();
    if sp.kind == 'a' {
        flags.insert(0, 'a');
    }
    let flags = if flags.is_empty() { String::new() } else { format!("-{flags} ") };
    if sp.kind == 'a' {
        let elems: Vec<String> = (0..sp.vals.len()).map(|i| format!("\"${pfx}{i}\"")).collect();
        format!("local {flags}zzv=({})", elems.join(" "))
    } else {
        format!("local {flags}zzv=${pfx}0")
    }
}

fn line_of(all: &str, prefix_ok: impl Fn(&str) -> bool, stop: &str) -> Option<String> {
    // the entry of zzv in a listing: from the line that declares zzv to the next entry (`stop`) or the end
    let mut start = None;
    let mut pos = 0;
    for l in all.split_inclusive('\n') {
        if start.is_none() {
            if prefix_ok(l) {
                start = Some(pos);
            }
        } else if l.starts_with(stop) {
            let st = start.unwrap();
            return Some(all[st..pos].trim_end_matches('\n').to_string());
        }
        pos += l.len();
    }
    start.map(|st| all[st..].trim_end_matches('\n').to_string())
}

fn declares_zzv(l: &str) -> bool {
    // `declare -<flags> zzv=` / `declare -<flags> zzv` (end of line)
    let Some(r) = l.strip_prefix("declare -") else { return false };
    let Some(sp) = r.find(' ') else { return false };
    let r = &r[sp + 1..];
    r.starts_with("zzv=") || r == "zzv\n" || r == "zzv"
}

/// Applies a statement in `sh` through one of the reader routes: `ev` eval, `src` a sourced file,
/// `rd` lines taken by `read -r` and then evaluated, `hd` a quoted here-document read by `cat` and evaluated.
async fn apply_stmt(sh: &mut vh::Sh, stmt: &str, rm: &str) -> bool {
    let file = format!("{}.rd", out_path());
    let r = match rm {
        "src" | "rd" => {
            let _ = std::fs::write(&file, format!("{stmt}\n"));
            set_str(sh, "zzF", &file);
            if rm == "src" {
                run(sh, ". \"$zzF\" >/dev/null 2>&1 </dev/null").await
            } else {
                run(sh, "zzacc=; while IFS= read -r zzl; do zzacc+=$zzl$'\\n'; done < \"$zzF\"; eval \"$zzacc\" >/dev/null 2>&1 </dev/null").await
            }
        }
        "hd" => {
            let script = format!("zzh=$(cat <<'ZZEOF'\n{stmt}\nZZEOF\n)\neval \"$zzh\" >/dev/null 2>&1 </dev/null");
            run(sh, &script).await
        }
        _ => {
            set_str(sh, "zzT", stmt);
            run(sh, "eval \"$zzT\" >/dev/null 2>&1 </dev/null").await
        }
    };
    let _ = std::fs::remove_file(&file);
    r.is_ok()
}

async fn read_args_rm(text: &str, rm: &str) -> String {
    let mut sh = fresh().await;
    let _ = run(&mut sh, "set -- zz-unset-marker").await;
    if !apply_stmt(&mut sh, &format!("set -- {text}"), if rm == "dw" { "ev" } else { rm }).await {
        return "ERR".to_string();
    }
    let ps: Vec<String> = sh.current_shell_args().iter().map(|s| s.to_string()).collect();
    if ps.len() == 1 && ps[0] == "zz-unset-marker" {
        return "ERR".to_string();
    }
    let mut o = format!("W {}", ps.len());
    for p in ps {
        o.push(' ');
        o.push_str(&esc(&p));
    }
    o
}

async fn read_assign_rm(text: &str, rm: &str) -> String {
    let mut sh = fresh().await;
    let (stmt, rm) = if rm == "dw" { (format!("declare zzr={text}"), "ev") } else { (format!("zzr={text}"), rm) };
    if !apply_stmt(&mut sh, &stmt, rm).await {
        return "ERR".to_string();
    }
    match sh.env().get("zzr") {
        Some((_, v)) => match v.value() {
            ShellValue::String(s) => format!("S {}", esc(s)),
            _ => dump_var(&sh, "zzr"),
        },
        None => "NONE".to_string(),
    }
}

async fn eval_fresh_rm(text: &str, rm: &str) -> vh::Sh {
    let mut sh = fresh().await;
    let (stmt, rm) = if rm == "dw" {
        (if text.starts_with("declare ") || text.starts_with("alias ") || text.starts_with("trap ") { text.to_string() } else { format!("declare {text}") }, "ev")
    } else {
        (text.to_string(), rm)
    };
    let _ = apply_stmt(&mut sh, &stmt, rm).await;
    sh
}

fn dump_nameref(sh: &vh::Sh, name: &str) -> String {
    // the variable itself, not what it refers to
    for (n, var) in sh.env().iter() {
        if n == name {
            return match var.value() {
                ShellValue::String(t) if var.is_treated_as_nameref() => format!("N {}", esc(t)),
                _ => "NOTREF".to_string(),
            };
        }
    }
    "NONE".to_string()
}

fn option_commands(opts: &str) -> Result<String, String> {
    let mut out = String::new();
    for o in opts.split(',').filter(|o| !o.is_empty() && *o != "-") {
        let cmd: String = match o {
            "u" => "set -u\n".into(),
            "f" => "set -f\n".into(),
            "e" => "set -e\n".into(),
            "E" => "set -E\n".into(),
            "T" => "set -T\n".into(),
            "h" => "set +h\n".into(),
            "posix" => "set -o posix\n".into(),
            "extglob" | "nullglob" | "dotglob" | "nocasematch" | "globstar" | "expand_aliases" | "lastpipe"
            | "inherit_errexit" | "extquote" => format!("shopt -s {o}\n"),
            "noextquote" => "shopt -u extquote\n".into(),
            "ifscomma" => "IFS=,\n".into(),
            "ifsempty" => "IFS=\n".into(),
            "ps4" => "zzn=7; PS4='+<$zzn:${#zzn}> '\n".into(),
            other => return Err(other.to_string()),
        };
        out.push_str(&cmd);
    }
    Ok(out)
}

/// `cx <scope> <wrapper> <opts> <reader> <spec>…`: every printer run where the innermost spec is the visible
/// binding of `zzv` (scope g: a global; f1/f2: locals hiding it; tmp: a temporary binding), inside the wrapper
/// (none, sub, cs, ev, br, lpipe, pipe0, wh, for, trap, src, twice), under the options; each text is then
/// re-read through the reader route in a fresh shell.
async fn ctxrun(scope: &str, wrapper: &str, opts: &str, rm: &str, specf: &[String]) -> String {
    let Some(specs) = parse_specs(specf) else { return "bad-spec".to_string() };
    let want = match scope { "g" => 1, "f2" => 3, "f1" | "tmp" => 2, _ => return "bad-scope".to_string() };
    if specs.len() != want {
        return "bad-spec".to_string();
    }
    let optcmds = match option_commands(opts) { Ok(c) => c, Err(o) => return format!("bad-option {o}") };
    let ps4 = opts.split(',').any(|o| o == "ps4");
    let inner = &specs[0];
    let outer = &specs[specs.len() - 1];
    let mut a = fresh().await;
    let mut var = ShellVariable::new(spec_value(outer));
    apply_attrs(&mut var, &outer.attrs);
    a.env_mut().set_global("zzv", var).unwrap();
    let mut w = ShellVariable::new(ShellValue::String("END".to_string()));
    w.export();
    a.env_mut().set_global("zzw", w).unwrap();
    let mut nr = ShellVariable::new(ShellValue::String("zzv".to_string()));
    nr.treat_as_nameref();
    a.env_mut().set_global("zzNR", nr).unwrap();
    for (li, sp) in specs[..specs.len() - 1].iter().enumerate() {
        for (i, v) in sp.vals.iter().enumerate() {
            set_str(&mut a, &format!("zzL{li}x{i}"), v);
        }
    }
    let scalar = inner.kind == 's';
    if scalar {
        a.aliases_mut().insert("zzal".to_string(), inner.vals[0].clone());
        a.traps_mut().register_handler(usr1(), inner.vals[0].clone(), brush_core::SourceInfo::from("vh"));
    }
    let base = out_path();
    let in_fn = scope == "f1" || scope == "f2";
    let mut forms: Vec<&str> = if scalar {
        vec!["pq", "Q", "A", "dp", "dpl", "set", "ex", "xt", "xs", "al", "tr", "nr"]
    } else {
        vec!["Qa", "Aa", "dpa", "dpl", "seta", "ex"]
    };
    if in_fn {
        forms.push("lp");
    }
    for fm in &forms {
        let _ = std::fs::remove_file(format!("{base}.{fm}"));
    }
    set_str(&mut a, "zzO", &base);
    let mut body = String::new();
    for fm in &forms {
        body.push_str(match *fm {
            "pq" => "printf %q \"$zzv\" > \"$zzO.pq\"\n",
            "Q" => "printf '%s' \"${zzv@Q}\" > \"$zzO.Q\"\n",
            "A" => "printf '%s' \"${zzv@A}\" > \"$zzO.A\"\n",
            "Qa" => "printf '%s ' \"${zzv[@]@Q}\" > \"$zzO.Qa\"\n",
            "Aa" => "printf '%s' \"${zzv[@]@A}\" > \"$zzO.Aa\"\n",
            "dp" => "declare -p zzv > \"$zzO.dp\"\n",
            "dpa" => "declare -p zzv > \"$zzO.dpa\"\n",
            "dpl" => "declare -p > \"$zzO.dpl\"\n",
            "set" => "set > \"$zzO.set\"\n",
            "seta" => "set > \"$zzO.seta\"\n",
            "ex" => "export -p > \"$zzO.ex\"\n",
            "xt" => "{ set -x; : \"$zzv\"; set +x; } 2> \"$zzO.xt\"\n",
            "xs" => "{ set -x; zzt=$zzv; set +x; } 2> \"$zzO.xs\"\n",
            "al" => "alias zzal > \"$zzO.al\"\n",
            "tr" => "trap -p USR1 > \"$zzO.tr\"\n",
            "nr" => "declare -p zzNR > \"$zzO.nr\"\n",
            "lp" => "local -p > \"$zzO.lp\"\n",
            _ => "",
        });
    }
    set_str(&mut a, "zzB", &body);
    let wrapped = match wrapper {
        "none" => body.clone(),
        "sub" => format!("(\n{body})\n"),
        "cs" => format!("zzd=$(\n{body})\n"),
        "ev" => "eval \"$zzB\"\n".to_string(),
        "br" => format!("{{\n{body}}} </dev/null\n"),
        "lpipe" => format!("shopt -s lastpipe\ntrue | {{\n{body}}}\n"),
        "pipe0" => format!("{{\n{body}}} | cat >/dev/null\n"),
        "wh" => format!("while true; do\n{body}break\ndone\n"),
        "for" => format!("for zzi in 1 2; do\n{body}done\n"),
        "trap" => "trap \"$zzB\" ERR\nfalse\ntrap - ERR\n".to_string(),
        "src" => {
            let _ = std::fs::write(format!("{base}.src"), &body);
            ". \"$zzO.src\"\n".to_string()
        }
        "twice" => format!("{body}{body}"),
        _ => return "bad-wrapper".to_string(),
    };
    let script = match scope {
        "g" => format!("{optcmds}{wrapped}"),
        "f1" => format!("{optcmds}zzf() {{\n{}\n{wrapped}}}\nzzf", local_decl(inner, "zzL0x")),
        "f2" => format!(
            "{optcmds}zzg() {{\n{}\nzzf\n}}\nzzf() {{\n{}\n{wrapped}}}\nzzg",
            local_decl(&specs[1], "zzL1x"),
            local_decl(inner, "zzL0x")
        ),
        _ => {
            set_str(&mut a, "zzW", &wrapped);
            format!("{optcmds}zzv=$zzL0x0 eval \"$zzW\"")
        }
    };
    let _ = run(&mut a, &script).await;
    let _ = std::fs::remove_file(format!("{base}.src"));
    let trace_of = |raw: &str, what: &str| -> Option<String> {
        // a trace line: the first character of PS4 repeated, the rest of PS4, then the command
        let rest = if ps4 { "<7:1> " } else { " " };
        for l in raw.split('\n') {
            let t = l.trim_start_matches('+');
            if t.len() < l.len() {
                if let Some(cmd) = t.strip_prefix(rest) {
                    if let Some(x) = cmd.strip_prefix(what) {
                        return Some(x.to_string());
                    }
                }
            }
        }
        None
    };
    let mut segs = vec![];
    for fm in &forms {
        let raw = std::fs::read(format!("{base}.{fm}")).ok().map(|b| String::from_utf8_lossy(&b).into_owned());
        let _ = std::fs::remove_file(format!("{base}.{fm}"));
        let Some(raw) = raw else {
            segs.push(format!("{fm} %; NOFILE"));
            continue;
        };
        let text: Option<String> = match *fm {
            "pq" | "Q" | "A" | "Aa" => Some(raw),
            "Qa" => Some(raw.strip_suffix(' ').map(|x| x.to_string()).unwrap_or(raw)),
            "dp" | "dpa" | "al" | "tr" | "nr" => Some(strip_nl(raw)),
            "dpl" | "lp" | "ex" => line_of(&raw, declares_zzv, "declare -"),
            "set" | "seta" => between(&raw, "zzv=", "zzw=END"),
            "xt" => trace_of(&raw, ": "),
            "xs" => trace_of(&raw, "zzt=").map(|x| format!("zzt={x}")),
            _ => None,
        };
        let Some(t) = text else {
            segs.push(format!("{fm} %; ABSENT"));
            continue;
        };
        let rr = match *fm {
            "pq" | "Q" | "xt" => format!("{} %; {}", read_args_rm(&t, rm).await, read_assign_rm(&t, rm).await),
            "Qa" => read_args_rm(&t, rm).await,
            "xs" => dump_var(&eval_fresh_rm(&t, rm).await, "zzt"),
            "al" => {
                let sh = eval_fresh_rm(&t, rm).await;
                match sh.aliases().get("zzal") {
                    Some(b) => format!("S {}", esc(b)),
                    None => "NONE".to_string(),
                }
            }
            "tr" => {
                let sh = eval_fresh_rm(&t, rm).await;
                match sh.traps().get_handler(usr1()) {
                    Some(h) => format!("S {}", esc(&h.command)),
                    None => "NONE".to_string(),
                }
            }
            "nr" => dump_nameref(&eval_fresh_rm(&t, rm).await, "zzNR"),
            _ => dump_var(&eval_fresh_rm(&t, rm).await, "zzv"),
        };
        segs.push(format!("{fm} %; {} %; {rr}", esc(&t)));
    }
    segs.join(" %| ")
}

async fn shadow(f: &[String]) -> String {
    // `sh <ctx> <spec>…` = the shadowing contexts without wrapper, options, and with the plain `eval` reader
    ctxrun(f[0].as_str(), "none", "-", "ev", &f[1..]).await
}

async fn handle(line: &str) -> String {
    let f = fields(line);
    if f.is_empty() {
        return "bad-request".to_string();
    }
    match f[0].as_str() {
        "fn" if f.len() == 2 => {
            let s = f[1].as_str();
            [
                escape::quote_if_needed(s, QuoteMode::SingleQuote).to_string(),
                escape::quote_if_needed(s, QuoteMode::DoubleQuote).to_string(),
                escape::quote_if_needed(s, QuoteMode::BackslashEscape).to_string(),
                escape::force_quote(s, QuoteMode::SingleQuote),
                escape::force_quote(s, QuoteMode::DoubleQuote),
                escape::force_quote(s, QuoteMode::BackslashEscape),
            ]
            .iter()
            .map(|x| esc(x))
            .collect::<Vec<_>>()
            .join(" ")
        }
        "ansi" if f.len() == 2 => match escape::expand_backslash_escapes(&f[1], escape::EscapeExpansionMode::AnsiCQuotes) {
            Ok((b, _)) => match String::from_utf8(b) {
                Ok(s) => esc(&s),
                Err(_) => "NONUTF8".to_string(),
            },
            Err(_) => "ERR".to_string(),
        },
        "rd" if f.len() == 3 => {
            if f[1] == "a" { read_args(&f[2]).await } else { read_assign(&f[2]).await }
        }
        "e2e" if f.len() >= 3 => e2e(&f[1..]).await,
        "sh" if f.len() >= 5 => shadow(&f[1..]).await,
        "cx" if f.len() >= 8 => ctxrun(&f[1], &f[2], &f[3], &f[4], &f[5..]).await,
        _ => "bad-request".to_string(),
    }
}

fn main() {
    let rt = tokio::runtime::Builder::new_multi_thread().worker_threads(2).enable_all().build().unwrap();
    for line in vh::lines() {
        let l = line.clone();
        let r = std::panic::catch_unwind(std::panic::AssertUnwindSafe(|| rt.block_on(handle(&l))));
        match r {
            Ok(s) => println!("{s}"),
            Err(_) => println!("PANIC"),
        }
    }
    let _ = std::fs::remove_file(out_path());
}
