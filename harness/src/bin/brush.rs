//! The brush shell, built from /repo's working tree (same entry point as brush-shell's main.rs).
fn main() {
    brush_shell::entry::run();
}
