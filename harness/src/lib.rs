//! Shared helpers for the harness binaries: the line protocol's field escaping.
use std::io::BufRead;

/// Escape one field: code points < 0x21, '%' and 0x7f become %XX; the empty string is "%".
pub fn esc(s: &str) -> String {
    if s.is_empty() {
        return "%".to_string();
    }
    let mut out = String::new();
    for ch in s.chars() {
        let o = ch as u32;
        if o < 0x21 || ch == '%' || o == 0x7f {
            out.push_str(&format!("%{o:02X}"));
        } else {
            out.push(ch);
        }
    }
    out
}

pub fn unesc(s: &str) -> String {
    if s == "%" {
        return String::new();
    }
    let cs: Vec<char> = s.chars().collect();
    let mut out = String::new();
    let mut i = 0;
    while i < cs.len() {
        if cs[i] == '%' && i + 2 < cs.len() + 0 && i + 2 <= cs.len() - 1 + 0 {
            let h: String = cs[i + 1..i + 3].iter().collect();
            if let Ok(v) = u32::from_str_radix(&h, 16) {
                out.push(char::from_u32(v).unwrap_or('?'));
                i += 3;
                continue;
            }
        }
        out.push(cs[i]);
        i += 1;
    }
    out
}

/// Iterate over request lines on stdin.
pub fn lines() -> impl Iterator<Item = String> {
    std::io::stdin().lock().lines().map_while(Result::ok)
}

pub fn fields(line: &str) -> Vec<String> {
    line.split(' ').filter(|f| !f.is_empty()).map(unesc).collect()
}

/// Single-quote a string for the shell.
pub fn sq(s: &str) -> String {
    format!("'{}'", s.replace('\'', "'\\''"))
}

pub type Sh = brush_core::Shell;

/// Builds a shell with the default bash-mode builtins registered.
pub async fn new_shell(interactive: bool, vars: &[(&str, &str)]) -> Sh {
    let mut b = brush_core::Shell::builder()
        .interactive(interactive)
        .no_editing(true)
        .profile(brush_core::ProfileLoadBehavior::Skip)
        .rc(brush_core::RcLoadBehavior::Skip)
        .shell_name("brush".to_string())
        .builtins(brush_builtins::default_builtins(brush_builtins::BuiltinSet::BashMode));
    for (k, v) in vars {
        b = b.var(*k, brush_core::ShellVariable::new(*v));
    }
    b.build().await.expect("shell build")
}

pub async fn run(shell: &mut Sh, text: &str) -> Result<u8, String> {
    let params = shell.default_exec_params();
    match shell
        .run_string(text.to_string(), &brush_core::SourceInfo::from("vh"), &params)
        .await
    {
        Ok(r) => Ok(u8::from(r.exit_code)),
        Err(e) => Err(format!("{e}")),
    }
}
