#feats: case_pattern_in_cmdsubst
v=$(case x in x) echo a;; esac)
echo $v $? $LINENO; P
