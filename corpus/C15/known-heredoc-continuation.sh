#feats: heredoc_bs
cat <<E
h1 a\
b
E
echo $LINENO; P
