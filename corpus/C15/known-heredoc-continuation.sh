#feats: heredoc_bs
cat <<E
a\
b $LINENO
E
P
