echo a $LINENO
if true
then
  echo b $LINENO; P
fi
cat <<E
h $LINENO
E
echo c\
d
# comment \

f() {
  echo f $LINENO; P
}
f
(exit 3)
echo st $? $LINENO
true &&
echo 'x
y'; P
