import BrushVerif.Model.Wire
import BrushVerif.Model.History
