import BrushVerif.Drv.C20
/-! `drv`: one request per line (`<property> <payload tokens…>`), one response line each. -/
open BrushVerif.Wire

def dispatch (line : String) : String :=
  match tokens line.toList with
  | [] => "bad-request"
  | p :: rest =>
    let r : Str :=
      if p = "C20".toList then BrushVerif.Drv.C20.handle rest
      else "bad-property".toList
    String.ofList r

partial def loop (h : IO.FS.Stream) (out : IO.FS.Stream) : IO Unit := do
  let line ← h.getLine
  if line.isEmpty then return ()
  let l := String.ofList (line.toList.filter (· != (Char.ofNat 10)))
  out.putStrLn (dispatch l)
  loop h out

def main : IO Unit := do
  let out ← IO.getStdout
  loop (← IO.getStdin) out
