import BrushVerif.Drv.C01
import BrushVerif.Drv.C02
import BrushVerif.Drv.C03
import BrushVerif.Drv.C04
import BrushVerif.Drv.C05
import BrushVerif.Drv.C06
import BrushVerif.Drv.C07
import BrushVerif.Drv.C08
import BrushVerif.Drv.C09
import BrushVerif.Drv.C10
import BrushVerif.Drv.C11
import BrushVerif.Drv.C12
import BrushVerif.Drv.C13
import BrushVerif.Drv.C14
import BrushVerif.Drv.C15
import BrushVerif.Drv.C16
import BrushVerif.Drv.C17
import BrushVerif.Drv.C18
import BrushVerif.Drv.C19
import BrushVerif.Drv.C20
/-! `drv`: one request per line (`<property> <payload tokens…>`), one response line each.
Payload tokens are space separated; each module's `handle` gets the tokens after the property id. -/
open BrushVerif.Wire

def table : List (String × (List Str → Str)) := [
  ("C01", BrushVerif.Drv.C01.handle),
  ("C02", BrushVerif.Drv.C02.handle),
  ("C03", BrushVerif.Drv.C03.handle),
  ("C04", BrushVerif.Drv.C04.handle),
  ("C05", BrushVerif.Drv.C05.handle),
  ("C06", BrushVerif.Drv.C06.handle),
  ("C07", BrushVerif.Drv.C07.handle),
  ("C08", BrushVerif.Drv.C08.handle),
  ("C09", BrushVerif.Drv.C09.handle),
  ("C10", BrushVerif.Drv.C10.handle),
  ("C11", BrushVerif.Drv.C11.handle),
  ("C12", BrushVerif.Drv.C12.handle),
  ("C13", BrushVerif.Drv.C13.handle),
  ("C14", BrushVerif.Drv.C14.handle),
  ("C15", BrushVerif.Drv.C15.handle),
  ("C16", BrushVerif.Drv.C16.handle),
  ("C17", BrushVerif.Drv.C17.handle),
  ("C18", BrushVerif.Drv.C18.handle),
  ("C19", BrushVerif.Drv.C19.handle),
  ("C20", BrushVerif.Drv.C20.handle)
]

def dispatch (line : String) : String :=
  match tokens line.toList with
  | [] => "bad-request"
  | p :: rest =>
    match table.find? (fun e => e.1.toList = p) with
    | some e => String.ofList (e.2 rest)
    | none => "bad-property"

partial def loop (h : IO.FS.Stream) (out : IO.FS.Stream) : IO Unit := do
  let line ← h.getLine
  if line.isEmpty then return ()
  let l := String.ofList (line.toList.filter (· != (Char.ofNat 10)))
  out.putStrLn (dispatch l)
  loop h out

def main : IO Unit := do
  let out ← IO.getStdout
  loop (← IO.getStdin) out
