import BrushVerif.Model.Flow
/-!
# Reference semantics of bash's control flow (the "as in bash" side of C02/C03)

Written from bash 5.2's mechanism (execute_cmd.c, builtins/break.def, return.def, exit.def), not from
brush's: global counters `loop_level`, `breaking`, `continuing`; `return`/`exit` as non-local jumps
(here: pending flags that make every command a no-op until the function/subshell/shell boundary).
`execute_command_internal` starts with `if (breaking || continuing) return last_command_exit_value`.
-/
namespace BrushVerif.FlowBash
open BrushVerif.Flow

structure B where
  st : St
  level : Nat := 0          -- loop_level
  breaking : Nat := 0
  continuing : Nat := 0
  returning : Bool := false -- a `return` is unwinding to the function boundary
  exiting : Bool := false   -- an `exit` is unwinding to the (sub)shell boundary
  deriving Repr, DecidableEq

def B.pending (b : B) : Bool := b.breaking ≠ 0 || b.continuing ≠ 0 || b.returning || b.exiting

def B.jumping (b : B) : Bool := b.returning || b.exiting

def B.setLast (b : B) (v : Nat) : B := { b with st := { b.st with last := v } }

/-- what a simple command (incl. a function call), a subshell or a failing builtin does once it has
completed: errexit (`set -e`) unless in an exempt context. Brace groups, loops, `if` and `case` do not
check again (execute_cmd.c checks in the cm_simple / subshell / pipeline / arith / cond paths only). -/
def B.errexitCheck (sup : Bool) (b : B) : B :=
  if !sup && b.st.errexit && b.st.last ≠ 0 && !b.pending then { b with exiting := true } else b

/-- after a loop body: bash's `if (breaking) { breaking--; break; } if (continuing) { continuing--; if (continuing) break; }`.
Returns the new state and whether the loop stops. -/
def afterBody (b : B) : B × Bool :=
  if b.jumping then (b, true)
  else if b.breaking ≠ 0 then ({ b with breaking := b.breaking - 1 }, true)
  else if b.continuing ≠ 0 then
    let b' := { b with continuing := b.continuing - 1 }
    (b', b'.continuing ≠ 0)
  else (b, false)

mutual
def spec : Nat → List Cmd → Bool → Cmd → B → Option B
  | fuel, fs, sup, c, b =>
    if b.pending then some b else
    match fuel with
    | 0 => none
    | fuel + 1 =>
    match c with
    | .leaf id codes =>
      let k := getCount b.st.counts id
      let st := { b.st with counts := bump b.st.counts id, trace := b.st.trace ++ [.m id], last := codeAt codes k }
      some (B.errexitCheck sup { b with st := st })
    | .probe =>
      let st := { b.st with trace := b.st.trace ++ [.q b.st.last], last := 0 }
      some { b with st := st }
    | .seq cs => specList fuel fs sup cs b
    | .andOr first rest =>
      let hasOps := match rest with | .nil => false | _ => true
      match spec fuel fs (sup || hasOps) first b with
      | none => none
      | some b1 => specAO fuel fs sup rest b1
    | .bang c =>
      match spec fuel fs true c b with
      | none => none
      | some b1 => if b1.jumping then some b1 else some (b1.setLast (if b1.st.last = 0 then 1 else 0))
    | .if1 cond thn =>
      match spec fuel fs true cond b with
      | none => none
      | some b1 =>
        if b1.st.last = 0 then
          match spec fuel fs sup thn b1 with
          | none => none
          | some b2 => some b2
        else if b1.pending then some b1 else some (b1.setLast 0)   -- execute_command(NULL) while breaking returns $?
    | .if2 cond thn els =>
      match spec fuel fs true cond b with
      | none => none
      | some b1 =>
        match spec fuel fs sup (if b1.st.last = 0 then thn else els) b1 with
        | none => none
        | some b2 => some b2
    | .whileU isUntil cond body =>
      match specW fuel fs sup isUntil cond body { b with level := b.level + 1 } 0 with
      | none => none
      | some b1 => some { b1 with level := b1.level - 1 }
    | .forIn n body =>
      match specF fuel fs sup n body { b with level := b.level + 1 } 0 with
      | none => none
      | some b1 => some { b1 with level := b1.level - 1 }
    | .case arms =>
      match specArms fuel fs sup arms false b 0 with
      | none => none
      | some b1 => some b1
    | .group c =>
      match spec fuel fs sup c b with
      | none => none
      | some b1 => some b1
    | .subshell c =>
      match spec fuel fs sup c { b with level := 0 } with
      | none => none
      | some b1 =>
        -- the child's output and status come back; nothing else
        some (B.errexitCheck sup { b with st := { b.st with trace := b1.st.trace, last := b1.st.last } })
    | .call f =>
      match fs[f]? with
      | none => some (B.errexitCheck sup (b.setLast 127))
      | some body =>
        match spec fuel fs sup body { b with st := { b.st with fdepth := b.st.fdepth + 1, scope := b.st.scope + 2 }, level := 0 } with
        | none => none
        | some b1 =>
          some (B.errexitCheck sup
            { b1 with st := { b1.st with fdepth := b1.st.fdepth - 1, scope := b1.st.scope - 2 }, level := b.level, returning := false })
    | .brk n =>
      let lv : Int := n.getD 1
      if b.level = 0 then some (b.setLast 0)                      -- "only meaningful in a loop"
      else if lv ≤ 0 then some (B.errexitCheck sup { (b.setLast 1) with breaking := b.level })
      else some { (b.setLast 0) with breaking := min (lv.toNat) b.level }
    | .cont n =>
      let lv : Int := n.getD 1
      if b.level = 0 then some (b.setLast 0)
      else if lv ≤ 0 then some (B.errexitCheck sup { (b.setLast 1) with breaking := b.level })
      else some { (b.setLast 0) with continuing := min (lv.toNat) b.level }
    | .ret code =>
      let c := match code with | some v => low8 v | none => b.st.last
      if b.st.fdepth > 0 then some { (b.setLast c) with returning := true }
      else some (B.errexitCheck sup (b.setLast 2))
    | .exit code =>
      let c := match code with | some v => low8 v | none => b.st.last
      some { (b.setLast c) with exiting := true }
    | .setOpt o on => some (B.setLast { b with st := b.st.setOpt o on } 0)
    | .fault k => some (B.errexitCheck sup (b.setLast k.code))
    | .callT f => spec fuel fs sup (.call f) b
    | .cmdsubst c =>
      -- a command substitution is a subshell; errexit is dropped unless inherit_errexit
      match spec fuel fs sup c { b with st := { b.st with errexit := b.st.errexit && b.st.inheritErrexit }, level := 0 } with
      | none => none
      | some b1 =>
        some (B.errexitCheck sup { b with st := { b.st with trace := b1.st.trace, last := b1.st.last } })
    | .evalC c =>
      match spec fuel fs sup c b with
      | none => none
      | some b1 => some (B.errexitCheck sup b1)
    | .pipe codes lastc =>
      if b.st.lastpipe then
        -- lastpipe: the last element is executed by the shell itself (same loop level, jumps stay pending)
        match spec fuel fs sup lastc b with
        | none => none
        | some b1 =>
          if b1.pending then some (b1.setLast (pipeStatus b.st.pipefail (codes ++ [b1.st.last])))
          else some (B.errexitCheck sup (b1.setLast (pipeStatus b.st.pipefail (codes ++ [b1.st.last]))))
      else
      match spec fuel fs sup lastc { b with level := 0 } with
      | none => none
      | some b1 =>
        some (B.errexitCheck sup { b with st :=
          { b.st with trace := b1.st.trace, last := pipeStatus b.st.pipefail (codes ++ [b1.st.last]) } })
def specList : Nat → List Cmd → Bool → Cmds → B → Option B
  | fuel, fs, sup, cs, b =>
    if b.pending then some b else
    match fuel with
    | 0 => none
    | fuel + 1 =>
    match cs with
    | .nil => some (b.setLast 0)
    | .cons c rest =>
      match spec fuel fs sup c b with
      | none => none
      | some b1 =>
        match rest with
        | .nil => some b1
        | _ => specList fuel fs sup rest b1

def specAO : Nat → List Cmd → Bool → AOs → B → Option B
  | fuel, fs, sup, aos, b =>
    if b.pending then some b else
    match fuel with
    | 0 => none
    | fuel + 1 =>
    match aos with
    | .nil => some b
    | .cons isAnd c rest =>
      if (isAnd && b.st.last ≠ 0) || (!isAnd && b.st.last = 0) then specAO fuel fs sup rest b
      else
        let isLast := match rest with | .nil => true | _ => false
        match spec fuel fs (sup || !isLast) c b with
        | none => none
        | some b1 => specAO fuel fs sup rest b1

/-- execute_while_or_until; `body` = status of the last body execution (0 if none) -/
def specW : Nat → List Cmd → Bool → Bool → Cmd → Cmd → B → Nat → Option B
  | fuel, fs, sup, isUntil, cond, body, b, bodySt =>
    if b.pending then some b else
    match fuel with
    | 0 => none
    | fuel + 1 =>
    match spec fuel fs true cond b with
    | none => none
    | some b1 =>
      if b1.jumping then some b1
      else if (b1.st.last = 0) = isUntil then
        let b2 := { b1 with breaking := b1.breaking - 1, continuing := b1.continuing - 1 }
        some (b2.setLast bodySt)
      else
        match spec fuel fs sup body b1 with
        | none => none
        | some b2 =>
          let (b3, stop) := afterBody b2
          if stop then some b3 else specW fuel fs sup isUntil cond body b3 b3.st.last

def specF : Nat → List Cmd → Bool → Nat → Cmd → B → Nat → Option B
  | fuel, fs, sup, n, body, b, bodySt =>
    if b.pending then some b else
    match fuel with
    | 0 => none
    | fuel + 1 =>
    match n with
    | 0 => some (b.setLast bodySt)
    | n + 1 =>
      match spec fuel fs sup body b with
      | none => none
      | some b2 =>
        let (b3, stop) := afterBody b2
        if stop then some b3 else specF fuel fs sup n body b3 b3.st.last

def specArms : Nat → List Cmd → Bool → Arms → Bool → B → Nat → Option B
  | fuel, fs, sup, arms, force, b, retval =>
    if b.pending then some b else
    match fuel with
    | 0 => none
    | fuel + 1 =>
    match arms with
    | .nil => some (b.setLast retval)
    | .cons m body t rest =>
      if !force && !m then specArms fuel fs sup rest false b retval
      else
        match spec fuel fs sup body b with
        | none => none
        | some b1 =>
          match t with
          | .exitCase => some b1
          | .fallThrough => specArms fuel fs sup rest true b1 b1.st.last
          | .contTest => specArms fuel fs sup rest false b1 b1.st.last
end

def runProgram (fuel : Nat) (fs : List Cmd) (main : Cmd) : Option (List Tr × Nat) :=
  match spec fuel fs false main { st := {} } with
  | none => none
  | some b => some (b.st.trace, b.st.last)

end BrushVerif.FlowBash
