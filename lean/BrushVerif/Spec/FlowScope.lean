import BrushVerif.Model.Flow
/-!
# The domain guard of the C02 refinement theorem

`viol d c` lists the reasons why `c`, placed under `d` enclosing loops of the same function and
subshell, leaves the domain on which brush's control flow is proved equal to bash's:
a `break`/`continue` whose count is not between 1 and `d` (this covers: outside any loop, across a
function or subshell boundary, and inside a loop *condition*).
-/
namespace BrushVerif.FlowScope
open BrushVerif.Flow

inductive Clause where
  | levelOutOfScope     -- count exceeds the enclosing loops (clause `loop_level_out_of_scope`)
  | levelNonPositive    -- `break 0`, `continue -1` (clause `loop_level_nonpositive`)
  deriving DecidableEq, Repr

def jumpViol (d : Nat) (n : Option Int) : List Clause :=
  let lv : Int := n.getD 1
  if lv ≤ 0 then [.levelNonPositive] else if lv.toNat ≤ d then [] else [.levelOutOfScope]

mutual
def viol : Nat → Cmd → List Clause
  | _, .leaf _ _ => []
  | _, .probe => []
  | d, .seq cs => violList d cs
  | d, .andOr first rest => viol d first ++ violAO d rest
  | d, .bang c => viol d c
  | d, .if1 cond thn => viol d cond ++ viol d thn
  | d, .if2 cond thn els => viol d cond ++ viol d thn ++ viol d els
  | d, .whileU _ cond body => viol 0 cond ++ viol (d + 1) body
  | d, .forIn _ body => viol (d + 1) body
  | d, .case arms => violArms d arms
  | d, .group c => viol d c
  | _, .subshell c => viol 0 c
  | _, .call _ => []
  | d, .brk n => jumpViol d n
  | d, .cont n => jumpViol d n
  | _, .ret _ => []
  | _, .exit _ => []
  | _, .setOpt _ _ => []
  | _, .fault _ => []
  | _, .callT _ => []
  | _, .cmdsubst c => viol 0 c
  | d, .evalC c => viol d c
  | _, .pipe _ last => viol 0 last
def violList : Nat → Cmds → List Clause
  | _, .nil => []
  | d, .cons c cs => viol d c ++ violList d cs
def violAO : Nat → AOs → List Clause
  | _, .nil => []
  | d, .cons _ c rest => viol d c ++ violAO d rest
def violArms : Nat → Arms → List Clause
  | _, .nil => []
  | d, .cons _ body _ rest => viol d body ++ violArms d rest
end

/-- well-scoped at depth `d` -/
def ws (d : Nat) (c : Cmd) : Bool := (viol d c).isEmpty

def progViol (fs : List Cmd) (main : Cmd) : List Clause :=
  fs.flatMap (viol 0) ++ viol 0 main

def Clause.name : Clause → String
  | .levelOutOfScope => "loop_level_out_of_scope"
  | .levelNonPositive => "loop_level_nonpositive"

end BrushVerif.FlowScope
