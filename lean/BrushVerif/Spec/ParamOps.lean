import BrushVerif.Model.ParamOps
/-!
# Reference semantics of the parameter-expansion operators (bash manual / POSIX 2.6.2)

Written independently of brush's code structure: strings are indexed by character, a negative
length is an end offset, shortest / longest matches are searched over *all* candidates including
the empty one, and the `- = ? +` table is POSIX's table written out entry by entry.
-/
namespace BrushVerif.ParamSpec
open BrushVerif.Wire BrushVerif.ParamOps

/-- `${s:off:len}` for a set scalar `s` (bash `verify_substring_values` + `substring`):
`none` = "substring expression < 0". -/
def bashSubstr (s : Str) (off : Int) (len : Option Int) : Option Str :=
  let n : Int := s.length
  let o := if off < 0 then off + n else off
  if o < 0 ∨ o > n then some []
  else
    match len with
    | none => some (s.drop o.toNat)
    | some l =>
      if l < 0 then
        let e := n + l
        if e < o then none else some ((s.drop o.toNat).take (e - o).toNat)
      else some ((s.drop o.toNat).take l.toNat)

/-- `${a[@]:off:len}` for a dense array / `$0 $1 …` given as the list of elements:
`none` = "substring expression < 0" (any negative length; an array without elements counts as
unset and is not sliced at all). -/
def bashSlice (positional : Bool) (xs : List Str) (off : Int) (len : Option Int) : Option (List Str) :=
  if xs.isEmpty then some [] else
  let n : Int := xs.length
  let o := if off < 0 then off + n else off
  match len with
  | some l =>
    -- an array sliced from one past its last element is empty whatever the length says;
    -- the positional parameters report the negative length there
    if l < 0 then (if o < 0 ∨ o > n ∨ (o = n ∧ !positional) then some [] else none)
    else if o < 0 ∨ o > n then some [] else some ((xs.drop o.toNat).take l.toNat)
  | none => if o < 0 ∨ o > n then some [] else some (xs.drop o.toNat)

/-- POSIX 2.6.2, the table "parameter set and not null / set but null / unset", entry by entry. -/
def posixTable : TestOp → Bool → PState → Action
  | .useDefault,     true,  .nonZero      => .param
  | .useDefault,     true,  .definedEmpty => .word
  | .useDefault,     true,  .undefined    => .word
  | .useDefault,     false, .nonZero      => .param
  | .useDefault,     false, .definedEmpty => .param     -- substitute null = the parameter
  | .useDefault,     false, .undefined    => .word
  | .assignDefault,  true,  .nonZero      => .param
  | .assignDefault,  true,  .definedEmpty => .assign
  | .assignDefault,  true,  .undefined    => .assign
  | .assignDefault,  false, .nonZero      => .param
  | .assignDefault,  false, .definedEmpty => .param
  | .assignDefault,  false, .undefined    => .assign
  | .errorIfUnset,   true,  .nonZero      => .param
  | .errorIfUnset,   true,  .definedEmpty => .error
  | .errorIfUnset,   true,  .undefined    => .error
  | .errorIfUnset,   false, .nonZero      => .param
  | .errorIfUnset,   false, .definedEmpty => .param
  | .errorIfUnset,   false, .undefined    => .error
  | .useAlternative, true,  .nonZero      => .word
  | .useAlternative, true,  .definedEmpty => .null
  | .useAlternative, true,  .undefined    => .null
  | .useAlternative, false, .nonZero      => .word
  | .useAlternative, false, .definedEmpty => .word
  | .useAlternative, false, .undefined    => .null

/-- bash's set / null / unset classification: a scalar by its value; `$@`, `$*`, `a[@]`, `a[*]`
by the string they expand to (no elements: unset; elements joined by a blank otherwise). -/
def bashState : Param → PState
  | .named none | .elem none _ | .pos none => .undefined
  | .named (some s) | .elem (some s) _ | .pos (some s) => if s.isEmpty then .definedEmpty else .nonZero
  | .all vals _ | .posAll vals _ =>
    match vals with
    | [] => .undefined
    | [v] => if v.isEmpty then .definedEmpty else .nonZero
    | _ => .nonZero

/-- `r` is what is left of `s` after deleting a prefix accepted by `m` that is the shortest
(`largest = false`) or longest such, the empty one included; `s` itself if there is none. -/
def RemovesPrefix (m : Str → Bool) (largest : Bool) (s r : Str) : Prop :=
  (∃ k, k ≤ s.length ∧ m (s.take k) = true ∧ r = s.drop k ∧
      ∀ j, j ≤ s.length → m (s.take j) = true → (if largest then j ≤ k else k ≤ j)) ∨
  ((∀ j, j ≤ s.length → m (s.take j) = false) ∧ r = s)

/-- the same for suffixes: `k` is where the deleted suffix starts -/
def RemovesSuffix (m : Str → Bool) (largest : Bool) (s r : Str) : Prop :=
  (∃ k, k ≤ s.length ∧ m (s.drop k) = true ∧ r = s.take k ∧
      ∀ j, j ≤ s.length → m (s.drop j) = true → (if largest then k ≤ j else j ≤ k)) ∨
  ((∀ j, j ≤ s.length → m (s.drop j) = false) ∧ r = s)

/-- executable reference: search all candidates in preference order -/
def specRemove (k : RmKind) (m : Str → Bool) (s : Str) : Str :=
  let n := s.length
  let cands := if k.largest then (List.range (n + 1)).reverse else List.range (n + 1)
  if k.suffix then
    -- candidate c = length of the deleted suffix
    match cands.find? (fun c => m (s.drop (n - c))) with
    | some c => s.take (n - c)
    | none => s
  else
    match cands.find? (fun c => m (s.take c)) with
    | some c => s.drop c
    | none => s

/-- number of characters / elements: what `${#v}` is -/
def bashLen : Param → Option Nat
  | .named (some s) | .elem (some s) _ | .pos (some s) => some s.length
  | .named none | .elem none _ | .pos none => none       -- 0, or an error under nounset
  | .all vals _ | .posAll vals _ => some vals.length

/-- Reference outcome of `"${…}"` in bash for the modelled operators. -/
def bashExpr (p : Param) (nounset : Bool) (m : Str → Bool) : Op → Outcome
  | .plain =>
    match expandParam p false nounset with
    | some e => { res := .ok e }
    | none => { res := .err }
  | .len =>
    match bashLen p with
    | some n => { res := .ok (ofStr (natToStr n)) }
    | none =>
      -- `${#a[i]}` of a missing element of an existing array is 0 even under nounset
      let allow := match p with | .elem _ ex => ex | _ => false
      if nounset && !allow then { res := .err } else { res := .ok (ofStr ['0']) }
  | .sub off len =>
    match p with
    | .named (some s) | .elem (some s) _ | .pos (some s) =>
      match bashSubstr s off len with
      | some r => { res := .ok (ofStr r) }
      | none => { res := .err }
    | .named none | .elem none _ | .pos none =>
      if nounset then { res := .err } else { res := .ok (ofStr []) }
    | .all vals star =>
      match bashSlice false vals off len with
      | some r => { res := .ok { fields := r, concatenate := star, fromArray := true, undefined := false } }
      | none => { res := .err }
    | .posAll vals star =>
      match bashSlice true (shellName :: vals) off len with
      | some r => { res := .ok { fields := r, concatenate := star, fromArray := true, undefined := false } }
      | none => { res := .err }
  | .test op colon word =>
    match expandParam p true nounset with
    | none => { res := .err }
    | some e =>
      match posixTable op colon (bashState p) with
      | .param => { res := .ok e }
      | .word => { res := .ok (ofStr word) }
      | .null =>
        -- a quoted `"${@+word}"` / `"${a[@]+word}"` over no elements yields no field at all
        match p with
        | .all [] false | .posAll [] false =>
          { res := .ok { fields := [], concatenate := false, fromArray := true, undefined := false } }
        | _ => { res := .ok (ofStr []) }
      | .error => { res := .err }
      | .assign =>
        match p with
        | .named _ | .elem _ _ => { res := .ok (ofStr word), assigned := some word }
        | _ => { res := .err }
  | .rm k hasPat =>
    match expandParam p false nounset with
    | some e => { res := .ok (if hasPat then mapFields e (specRemove k m) else e) }
    | none => { res := .err }

/-- `${!ref…}` in bash.  The reference must hold the text of a parameter (`none`: it is unset,
empty or not a parameter name — "invalid indirect expansion" / "invalid variable name").  The
operator then applies to that target exactly as if the target had been written in the braces —
whatever the operator, the target's state and nounset; only a plain variable can be assigned
through a reference. -/
def bashExprInd (target : Option Param) (nounset : Bool) (m : Str → Bool) (op : Op) : Outcome :=
  match target with
  | none => { res := .err }
  | some t =>
    let o := bashExpr t nounset m op
    match o.assigned, t with
    | some _, .named _ => o
    | some _, _ => { res := .err }
    | none, _ => o

end BrushVerif.ParamSpec
