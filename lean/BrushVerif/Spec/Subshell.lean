import BrushVerif.Gen.ShellFields
/-!
# C12 — what each field of `struct Shell` is, with respect to subshell isolation

Written by reading the property, independently of how `Shell::clone` is coded.  The theorems in
`Props/C12.lean` check the *generated* table of the current source against this classification, so
a field added to `struct Shell` (or renamed) stops the build until it is classified here.
-/
namespace BrushVerif.Spec.Subshell

inductive Class
  /-- state the property speaks about: what a subshell does to it must not reach the parent -/
  | state
  /-- identity / bookkeeping of the shell value itself (name, version, clone depth, `$?`, stopwatch) -/
  | identity
  /-- a cache: contents never change behaviour -/
  | cache
  /-- a handle to something outside the shell value, shared on purpose (interactive key bindings,
      error formatter, parser choice) or per-shell by construction (the job table starts empty) -/
  | handle
  deriving DecidableEq, Repr

def classify : String → Option Class
  | "traps" => some .state                    -- trap
  | "open_files" => some .state               -- exec redirections
  | "working_dir" => some .state              -- cd
  | "env" => some .state                      -- assignments, unset, export, readonly, declare
  | "funcs" => some .state                    -- function definitions, unset -f
  | "options" => some .state                  -- set -o, shopt
  | "aliases" => some .state                  -- alias, unalias
  | "args" => some .state                     -- set --, shift
  | "directory_stack" => some .state          -- pushd, popd
  | "completion_config" => some .state        -- complete, compopt
  | "builtins" => some .state                 -- enable -n
  | "history" => some .state                  -- history -c / -d / -s
  | "call_stack" => some .state               -- frames of the running functions / scripts
  | "name" => some .identity
  | "version" => some .identity
  | "product_display_str" => some .identity
  | "depth" => some .identity
  | "last_exit_status" => some .identity
  | "last_exit_status_change_count" => some .identity
  | "last_pipeline_statuses" => some .identity
  | "last_stopwatch_time" => some .identity
  | "last_stopwatch_offset" => some .identity
  | "program_location_cache" => some .cache
  | "jobs" => some .handle
  | "key_bindings" => some .handle
  | "error_formatter" => some .handle
  | "parser_impl" => some .handle
  | _ => none

/-- does `pat` occur in `s` -/
def hasSub (pat : List Char) : List Char → Bool
  | [] => pat.isEmpty
  | c :: r => pat.isPrefixOf (c :: r) || hasSub pat r

/-- shared-ownership and interior-mutability type constructors -/
def sharingMarkers : List String := ["Arc<", "Rc<", "Mutex", "RwLock", "RefCell", "Cell<", "Atomic", "&"]

def mentionsSharing (ty : String) : Bool := sharingMarkers.any (fun m => hasSub m.toList ty.toList)

/-- a clone kind that gives the child a value of its own -/
def valueCloned (kind : String) : Bool := kind = "deep" || kind = "copy" || kind = "special"

end BrushVerif.Spec.Subshell
