import BrushVerif.Model.Pattern
/-!
# What POSIX / bash pattern matching demands (C08), independent of the regex translation

* `Matches nc p s` — the pattern `p` matches the **whole** string `s` (`*` any string, `?` any one
  character including newline, bracket membership, extglob groups as option / iteration /
  alternation / complement).
* `specParse` — the POSIX reading of pattern text (a `]` right after `[`, `[!` or `[^` is a member);
  `none` for text whose meaning POSIX leaves open and bash treats idiosyncratically (unterminated
  `[`, `[.`/`[=`/unknown `[:x:]`, dangling backslash, unbalanced extglob parentheses).
* `matchB` — executable decision procedure for `Matches` (used by the driver as the oracle's
  prediction).
-/
namespace BrushVerif.Glob
open BrushVerif.Wire BrushVerif.Pattern

/-- whole-string matching relation -/
def Matches (nc : Bool) : Pat → Str → Prop
  | .eps, s => s = []
  | .lit c, s => ∃ d, s = [d] ∧ eqc nc c d = true
  | .any, s => ∃ d, s = [d]
  | .many, _ => True
  | .bracket inv ms, s => ∃ d, s = [d] ∧ (memB nc false ms d != inv) = true
  | .seq a b, s => ∃ x y, s = x ++ y ∧ Matches nc a x ∧ Matches nc b y
  | .alt a b, s => Matches nc a s ∨ Matches nc b s
  | .group0 .at, s => s = []
  | .group .at b, s => Matches nc b s
  | .group0 .quest, s => s = []
  | .group .quest b, s => s = [] ∨ Matches nc b s
  | .group0 .star, s => s = []
  | .group .star b, s => ∃ parts : List Str, s = parts.flatten ∧ ∀ x ∈ parts, Matches nc b x
  | .group0 .plus, s => s = []
  | .group .plus b, s => ∃ parts : List Str, parts ≠ [] ∧ s = parts.flatten ∧ ∀ x ∈ parts, Matches nc b x
  | .group0 .bang, s => s ≠ []
  | .group .bang b, s => ¬ Matches nc b s

/-! ## executable version -/

/-- all ways to cut `s` in two -/
def splits : Str → List (Str × Str)
  | [] => [([], [])]
  | c :: t => ([], c :: t) :: (splits t).map fun (x, y) => (c :: x, y)

/-- `s` is a concatenation of non-empty pieces each accepted by `f` (`fuel ≥ s.length`) -/
def iterB (f : Str → Bool) : Nat → Str → Bool
  | _, [] => true
  | 0, _ :: _ => false
  | fuel + 1, c :: t => (splits t).any fun (x, y) => f (c :: x) && iterB f fuel y

def matchB (nc : Bool) : Pat → Str → Bool
  | .eps, s => s.isEmpty
  | .lit c, s => match s with | [d] => eqc nc c d | _ => false
  | .any, s => match s with | [_] => true | _ => false
  | .many, _ => true
  | .bracket inv ms, s => match s with | [d] => memB nc false ms d != inv | _ => false
  | .seq a b, s => (splits s).any fun (x, y) => matchB nc a x && matchB nc b y
  | .alt a b, s => matchB nc a s || matchB nc b s
  | .group0 .at, s => s.isEmpty
  | .group .at b, s => matchB nc b s
  | .group0 .quest, s => s.isEmpty
  | .group .quest b, s => s.isEmpty || matchB nc b s
  | .group0 .star, s => s.isEmpty
  | .group .star b, s => iterB (matchB nc b) s.length s
  | .group0 .plus, s => s.isEmpty
  | .group .plus b, s =>
    if s.isEmpty then matchB nc b [] else iterB (matchB nc b) s.length s
  | .group0 .bang, s => !s.isEmpty
  | .group .bang b, s => !matchB nc b s

/-! ## POSIX reading of pattern text -/

/-- members up to the closing `]`; `first` = a `]` here is an ordinary member -/
def specMembers : Nat → Bool → Str → Option (List Member × Str)
  | 0, _, _ => none
  | _, _, [] => none
  | fuel + 1, first, c :: r =>
    if c = ']' && !first then some ([], r)
    else
      -- one member starting at `c`
      let one : Option (SM × Str) :=
        match c, r with
        | '\\', d :: r' => some (⟨true, d⟩, r')
        | '\\', [] => none
        | '[', d :: _ => if d = '.' || d = '=' || d = ':' then none else some (⟨false, '['⟩, r)
        | _, _ => some (⟨false, c⟩, r)
      match parseClass (c :: r) with
      | some (m, r') => (specMembers fuel false r').map fun (ms, r'') => (m :: ms, r'')
      | none =>
        match one with
        | none => none
        | some (f, r1) =>
          match r1 with
          | '-' :: e :: r2 =>
            if e = ']' then (specMembers fuel false r1).map fun (ms, r'') => (.single f :: ms, r'')
            else
              let hi : Option (SM × Str) :=
                match e, r2 with
                | '\\', d :: r' => some (⟨true, d⟩, r')
                | '\\', [] => none
                | '[', d :: _ => if d = '.' || d = '=' || d = ':' then none else some (⟨false, '['⟩, r2)
                | _, _ => some (⟨false, e⟩, r2)
              match hi with
              | none => none
              | some (t, r3) =>
                (specMembers fuel false r3).map fun (ms, r'') =>
                  (if f.c ≤ t.c then .range f t :: ms else ms, r'')
          | _ => (specMembers fuel false r1).map fun (ms, r'') => (.single f :: ms, r'')

/-- `some (some _)`: a bracket expression; `some none`: no `]` closes it (POSIX: unspecified); -/
def specBracket : Str → Option (Pat × Str)
  | '[' :: r =>
    let (inv, r1) : Bool × Str := match r with
      | '!' :: t => (true, t)
      | '^' :: t => (true, t)
      | _ => (false, r)
    (specMembers (r1.length + 1) true r1).map fun (ms, r2) => (.bracket inv ms, r2)
  | _ => none

mutual
def specPieces (ext : Bool) (inBranch : Bool) : Nat → Str → Option (Pat × Str)
  | 0, _ => none
  | fuel + 1, s =>
    match s with
    | [] => some (.eps, [])
    | c :: r =>
      if inBranch && (c = '|' || c = ')') then some (.eps, s)
      else
        let one : Option (Pat × Str) :=
          match c, r with
          | '\\', d :: r' => some (.lit d, r')
          | '\\', [] => none
          | '[', _ => specBracket s
          | _, _ =>
            match (if ext then kindOf c else none), r with
            | some k, '(' :: r1 =>
              (match r1 with
               | ')' :: r2 => some (.group0 k, r2)
               | _ => (specBranches ext fuel r1).map fun (b, r2) => (.group k b, r2))
            | _, _ =>
              if ext && (c = '(' || c = ')' || c = '|') then none
              else if c = '?' then some (.any, r)
              else if c = '*' then some (.many, r)
              else some (.lit c, r)
        match one with
        | none => none
        | some (p, r1) => (specPieces ext inBranch fuel r1).map fun (ps, r2) => (.seq p ps, r2)

def specBranches (ext : Bool) : Nat → Str → Option (Pat × Str)
  | 0, _ => none
  | fuel + 1, s =>
    match specPieces ext true fuel s with
    | some (b, ')' :: r') => some (b, r')
    | some (b, '|' :: r') => (specBranches ext fuel r').map fun (bs, r'') => (.alt b bs, r'')
    | _ => none
end

/-- POSIX/bash reading of the pattern text, `none` when it is outside the well-formed fragment -/
def specParse (ext : Bool) (s : Str) : Option Pat :=
  match specPieces ext false (4 * s.length + 4) s with
  | some (p, []) => some p
  | _ => none

/-- what bash answers for `case s in p)` on well-formed `p` -/
def specMatches (ext nc : Bool) (p s : Str) : Option Bool := (specParse ext p).map fun q => matchB nc q s

/-- pathname expansion of one component in one directory, as bash does it -/
def specGlobDir (ext nc dotglob : Bool) (p : Str) (names : List Str) : Option (List Str) :=
  (specParse ext p).map fun q =>
    sortStrs (names.filter fun n => matchB nc q n && (!startsWithDot n || dotglob || startsWithDot p))

/-! ## piece lists: quoted pieces are literal text, whatever characters they hold -/

/-- bash's reading of a piece list as one pattern text: every character of a quoted piece is
backslash-quoted, so that no character of it can take part in pattern syntax -/
def specPiecesText (ps : List PatPiece) : Str :=
  ps.flatMap fun p => match p with
    | .lit s => s.flatMap fun c => ['\\', c]
    | .pat s => s

def specPiecesMatch (ext nc : Bool) (ps : List PatPiece) (s : Str) : Option Bool :=
  specMatches ext nc (specPiecesText ps) s

/-- pathname expansion of a one-component piece list: the matching names (empty = word kept) -/
def specExpandPieces (ext nc dotglob : Bool) (ps : List PatPiece) (names : List Str) : Option (List Str) :=
  (specParse ext (specPiecesText ps)).map fun q =>
    let lead := startsWithDot (ps.flatMap PatPiece.raw)      -- the component's text, however it is cut into pieces
    sortStrs (names.filter fun n => matchB nc q n && (!startsWithDot n || dotglob || lead))

/-! ## how a character was written does not matter to what it matches -/

def eraseSM (m : SM) : SM := ⟨false, m.c⟩

def eraseMember : Member → Member
  | .cls n => .cls n
  | .range f t => .range (eraseSM f) (eraseSM t)
  | .single m => .single (eraseSM m)

/-- forget which bracket members were written with a backslash (only the emitted regex text cares) -/
def eraseEsc : Pat → Pat
  | .bracket inv ms => .bracket inv (ms.map eraseMember)
  | .seq a b => .seq (eraseEsc a) (eraseEsc b)
  | .alt a b => .alt (eraseEsc a) (eraseEsc b)
  | .group k b => .group k (eraseEsc b)
  | p => p

end BrushVerif.Glob
