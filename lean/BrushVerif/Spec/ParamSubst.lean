import BrushVerif.Model.ParamSubst
/-!
# Reference semantics of `${v/p/r}`, `${v//p/r}`, `${v/#p/r}`, `${v/%p/r}`, `${v^…}`, `${v,…}`,
`${v@U}`, `${v@L}`, `${v@u}` (bash manual; `pat_subst` / `sh_modcase` in bash 5.2)

Written over a *matcher* `m : Str → Bool` ("the pattern matches this whole text"), not over a regex
engine: at each position from the left the LONGEST accepted stretch is the match; `//` goes on
after the match, and after an empty match copies one character; `#` / `%` anchor the match at
the start / the end of the value; the replacement is a list of atoms — literal characters and `&`
(the matched text; `patsub_replacement` is on by default in bash 5.2).
Case modification tests the pattern against single characters and maps one character to one.
-/
namespace BrushVerif.SubstSpec
open BrushVerif.Wire BrushVerif.ParamOps BrushVerif.ParamSubst

/-- the longest accepted prefix among those of at most `n` characters -/
def longestGo (m : Str → Bool) (t : Str) : Nat → Option Nat
  | 0 => if m [] then some 0 else none
  | k + 1 => if m (t.take (k + 1)) then some (k + 1) else longestGo m t k

/-- length of the longest prefix of `t` the pattern matches -/
def longestAt (m : Str → Bool) (t : Str) : Option Nat := longestGo m t t.length

/-- leftmost position with a match, and the longest match there -/
def leftmostLongest (m : Str → Bool) : Str → Option (Nat × Nat)
  | [] => (longestAt m []).map (fun k => (0, k))
  | c :: t =>
    match longestAt m (c :: t) with
    | some k => some (0, k)
    | none => (leftmostLongest m t).map (fun p => (p.1 + 1, p.2))

/-- where the longest suffix the pattern matches starts -/
def longestSuffixStart (m : Str → Bool) : Str → Option Nat
  | [] => if m [] then some 0 else none
  | c :: t => if m (c :: t) then some 0 else (longestSuffixStart m t).map (· + 1)

/-- the loop of `pat_subst` for `//` over a non-empty rest -/
def specAllGo (m : Str → Bool) (rep : Str → Str) : Nat → Str → Str
  | 0, t => t
  | _ + 1, [] => []
  | fuel + 1, c :: t0 =>
    let t := c :: t0
    match leftmostLongest m t with
    | none => t
    | some (i, k) =>
      t.take i ++ rep ((t.drop i).take k) ++
        (if k = 0 then
          match t.drop i with
          | [] => []
          | d :: r => d :: specAllGo m rep fuel r
         else specAllGo m rep fuel (t.drop (i + k)))

def specReplace (m : Str → Bool) (rep : Str → Str) (k : MatchKind) (s : Str) : Str :=
  match k with
  | .first =>
    match leftmostLongest m s with
    | none => s
    | some (i, n) => s.take i ++ rep ((s.drop i).take n) ++ s.drop (i + n)
  | .all =>
    -- a null value with a matching pattern is the replacement
    if s.isEmpty then (if m [] then rep [] else []) else specAllGo m rep (s.length + 1) s
  | .atStart =>
    match longestAt m s with
    | none => s
    | some n => rep (s.take n) ++ s.drop n
  | .atEnd =>
    match longestSuffixStart m s with
    | none => s
    | some i => s.take i ++ rep (s.drop i)

/-- the text substituted for a match -/
def specRep (r : List RAtom) (matched : Str) : Str :=
  r.flatMap fun a => match a with
    | .lit c => [c]
    | .amp => matched

/-- decidable guard: at every position of the value the engine reports the longest match (and finds
one wherever the pattern matches), also under `re$` -/
def agreeOn (e : Engine) (m : Str → Bool) (s : Str) : Bool :=
  (List.range (s.length + 1)).all fun i =>
    let t := s.drop i
    firstAt e t == longestAt m t && endAt e t == (if m t then some t.length else none)

/-- decidable guard: the engine finds exactly the single characters the pattern matches -/
def singleOn (e : Engine) (m : Str → Bool) (s : Str) : Bool :=
  (List.range (s.length + 1)).all fun i =>
    match s.drop i with
    | [] => firstAt e [] == none
    | c :: t => firstAt e (c :: t) == (if m [c] then some 1 else none)

/-- `${v^p}` / `${v,p}`: the first character, when the pattern matches it (no pattern: always) -/
def specCaseFirst (f : Char → Char) (m : Option (Str → Bool)) : Str → Str
  | [] => []
  | c :: t => if (match m with | none => true | some mm => mm [c]) then f c :: t else c :: t

/-- `${v^^p}` / `${v,,p}`: every character the pattern matches -/
def specCaseAll (f : Char → Char) (m : Option (Str → Bool)) (s : Str) : Str :=
  s.map fun c => if (match m with | none => true | some mm => mm [c]) then f c else c

/-- `${v@u}`: the first character only -/
def specCapitalize (f : Char → Char) : Str → Str
  | [] => []
  | c :: t => f c :: t

end BrushVerif.SubstSpec
