import BrushVerif.Model.Wire
import BrushVerif.Model.Expand
/-!
# Reference semantics for word expansion (C04, C05), written independently of brush's code

* `fieldsOf`: field splitting of one unquoted value when every IFS character is IFS *white space*
  (POSIX 2.6.5: any sequence of IFS white space delimits a field; leading and trailing ones are ignored):
  cut at every IFS character, drop the empty pieces.
* `splitKeepEmpty`: POSIX for an IFS made of non-white-space characters only: every IFS character terminates a
  field, empty fields are kept (a trailing delimiter does not open another field).
* `specExpandB`: bash's order of word expansions — brace expansion first, producing *words* that are then
  expanded separately (each through tilde — a tilde-prefix at the start of *each* generated word —,
  parameter/command/arithmetic expansion, field splitting, pathname
  expansion); `"$*"` joins with the first IFS character, with nothing when IFS is empty.
-/
namespace BrushVerif.WordExp
open BrushVerif.Wire

/-- cut `s` at every character satisfying `p`; `cur` is the piece being accumulated -/
def splitOnAcc (p : Char → Bool) : Str → Str → List Str
  | cur, [] => [cur]
  | cur, c :: cs => if p c then cur :: splitOnAcc p [] cs else splitOnAcc p (cur ++ [c]) cs

/-- the fields of an unquoted value: the maximal runs of non-IFS characters -/
def fieldsOf (ifs : Str) (v : Str) : List Str := (splitOnAcc ifs.contains [] v).filter (!·.isEmpty)

/-- `"pre$@post"`: one field per parameter, the first glued to `pre`, the last to `post`; without parameters the
text around it, unless that is empty too (then the word is removed, as `"$@"` alone is) -/
def atTail (post : Str) : List Str → List Str
  | [] => []
  | [b] => [b ++ post]
  | b :: c :: r => b :: atTail post (c :: r)

def atGlue (pre post : Str) : List Str → List Str
  | [] => if (pre ++ post).isEmpty then [] else [pre ++ post]     -- no parameters and nothing else: no field at all
  | [a] => [pre ++ a ++ post]
  | a :: b :: r => (pre ++ a) :: atTail post (b :: r)

/-- POSIX field splitting when IFS holds no white space -/
def splitKeepEmpty (ifs : Str) (v : Str) : List Str :=
  let l := splitOnAcc ifs.contains [] v
  if l.getLast? = some [] then l.dropLast else l

open BrushVerif.Expand in
/-- the results of the separately expanded words, in order; `none` if one of them fails (failglob) -/
def seqAppend : List (Option (List Str)) → Option (List Str)
  | [] => some []
  | none :: _ => none
  | some a :: r => (seqAppend r).map (a ++ ·)

open BrushVerif.Expand in
def specExpandB (env : Env) (opts : Opts) (names : List Str) (w : BWord) : Option (List Str) :=
  seqAppend ((braceProduct w).map fun x =>
    fullExpand { env with bashStarJoin := true } opts names (tildeFix tildeTermsBash x))

/-! ## the domain in which brush's word expansion is proved to agree with `specExpandB` (`Props/C05.lean`) -/

open BrushVerif.Expand in
/-- with brace expressions: the first generated word is not `~` alone and no later one starts with a tilde-prefix -/
def laterWordsOk : List Word → Prop
  | [] => True
  | x :: r => x ≠ [WP.plain (.base .tilde)] ∧ ∀ y ∈ r, tildeFix tildeTermsBash y = untildeAll y

open BrushVerif.Expand in
instance (l : List Word) : Decidable (laterWordsOk l) := by
  cases l <;> (unfold laterWordsOk; infer_instance)

open BrushVerif.Expand in
/-- which conjuncts of the guard fail (reported by the driver next to every result):
`e` IFS empty, `s` brace expression and no space in IFS, `n` an empty generated word, `t` a tilde-prefix that the
joined text loses (or that brush and bash delimit differently) -/
def domainFlags (env : Env) (w : BWord) : Str :=
  (if env.ifsStr = [] then ['e'] else []) ++
  (if hasBraces w = true ∧ ' ' ∉ env.ifsStr then ['s'] else []) ++
  (if hasBraces w = true ∧ ¬ (∀ x ∈ braceProduct w, x ≠ []) then ['n'] else []) ++
  (if (∀ x ∈ braceProduct w, tildeFix tildeTermsBrush x = tildeFix tildeTermsBash x) ∧
      (hasBraces w = true → laterWordsOk (braceProduct w)) then [] else ['t'])

end BrushVerif.WordExp
