import BrushVerif.Model.Wire
import BrushVerif.Model.Expand
/-!
# Reference semantics for word expansion (C04, C05), written independently of brush's code

* `fieldsOf`: field splitting of one unquoted value when every IFS character is IFS *white space*
  (POSIX 2.6.5: any sequence of IFS white space delimits a field; leading and trailing ones are ignored):
  cut at every IFS character, drop the empty pieces.
* `splitKeepEmpty`: POSIX for an IFS made of non-white-space characters only: every IFS character terminates a
  field, empty fields are kept (a trailing delimiter does not open another field).
* `specExpandB`: bash's order of word expansions — brace expansion first, producing *words* that are then
  expanded separately (each through parameter/command/arithmetic expansion, field splitting, pathname
  expansion); `"$*"` joins with the first IFS character, with nothing when IFS is empty.
-/
namespace BrushVerif.WordExp
open BrushVerif.Wire

/-- cut `s` at every character satisfying `p`; `cur` is the piece being accumulated -/
def splitOnAcc (p : Char → Bool) : Str → Str → List Str
  | cur, [] => [cur]
  | cur, c :: cs => if p c then cur :: splitOnAcc p [] cs else splitOnAcc p (cur ++ [c]) cs

/-- the fields of an unquoted value: the maximal runs of non-IFS characters -/
def fieldsOf (ifs : Str) (v : Str) : List Str := (splitOnAcc ifs.contains [] v).filter (!·.isEmpty)

/-- `"pre$@post"`: one field per parameter, the first glued to `pre`, the last to `post` -/
def atTail (post : Str) : List Str → List Str
  | [] => []
  | [b] => [b ++ post]
  | b :: c :: r => b :: atTail post (c :: r)

def atGlue (pre post : Str) : List Str → List Str
  | [] => [pre ++ post]
  | [a] => [pre ++ a ++ post]
  | a :: b :: r => (pre ++ a) :: atTail post (b :: r)

/-- POSIX field splitting when IFS holds no white space -/
def splitKeepEmpty (ifs : Str) (v : Str) : List Str :=
  let l := splitOnAcc ifs.contains [] v
  if l.getLast? = some [] then l.dropLast else l

open BrushVerif.Expand in
/-- the results of the separately expanded words, in order; `none` if one of them fails (failglob) -/
def seqAppend : List (Option (List Str)) → Option (List Str)
  | [] => some []
  | none :: _ => none
  | some a :: r => (seqAppend r).map (a ++ ·)

open BrushVerif.Expand in
def specExpandB (env : Env) (opts : Opts) (names : List Str) (w : BWord) : Option (List Str) :=
  seqAppend ((braceProduct w).map (fullExpand { env with bashStarJoin := true } opts names))

end BrushVerif.WordExp
