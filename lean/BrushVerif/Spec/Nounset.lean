import BrushVerif.Model.Nounset
/-!
# Reference: what bash 5.2 does with an unset parameter under `set -u`

Written from bash's rules, each established by running bash 5.2.15 on the decision table of
`tools/c03.py` (script files; three placements tell "the command is abandoned" from "the shell
ends"):

* R1  `$@`, `$*`, `${a[@]}`, `${a[*]}` and the special parameters are never unbound, whatever the
      operator (`${a[@]?w}` still complains about a list without elements: that is `?`, not `-u`);
* R2  a bare name stands for subscript 0 of an array; a scalar has subscript 0 only;
* R3  every operator that uses the value (plain, `:o:l`, `# ## % %%`, `/`, `^ ,`, `@Q` …) of an
      unbound parameter ends a non-interactive shell;
* R4  `- = ? +` never report an unbound parameter; `?` ends the shell for an unset (with a colon:
      or null) parameter; `=` on something that cannot be assigned abandons the command;
* R5  `${#a[i]}` / `${#a[@]}`: when `a` is not an array that has been given a value the command is
      abandoned with `unbound variable` — the shell goes on (before the subscript is looked at);
* R6  `${!ref…}`: a reference variable that does not exist at all abandons the command (`invalid
      indirect expansion`), and so does a reference whose text is not a parameter; a reference
      that exists without a value, or an unset positional one, is unbound (R3); otherwise the
      parameter it names is treated by R1–R3;
* R7  in arithmetic the read of a variable without a value is unbound, in every arithmetic context
      including `let`; the operands `&&`, `||`, `?:` skip are not read; an assignment does not read
      its target.  Evaluation order and short-circuiting are those of `evalA` (C semantics), which
      the reference shares with the model; what the reference decides independently is where
      arithmetic is evaluated and what an error there does to the shell;
* R8  the words of a command are expanded left to right; the first error decides.
-/
namespace BrushVerif.NounsetSpec
open BrushVerif.Wire BrushVerif.Nounset
open BrushVerif.ParamOps (TestOp PState)

def andThen (d : Decision) (k : Decision) : Decision :=
  match d with
  | .ok => k
  | d => d

/-- an unbound parameter: fatal under `-u`, nothing otherwise -/
def unbound (e : Env) : Decision := if e.nounset then .abort else .ok

/-- R7: the outcome of an arithmetic evaluation -/
def arithDecision (ps : Parsers) (e : Env) (a : AExpr) : Decision :=
  match (evalA ps.arith ps.fuel 0 e a).1 with
  | .ok _ => .ok
  | .error .other => .fail
  | .error _ => .abort

/-- is the variable an array that has been given a value (`a=()` counts, `declare -a a` does not) -/
def isSetArray : Option Value → Bool
  | some (.indexed _) | some (.assoc _) => true
  | _ => false

def isAssoc : Option Value → Bool
  | some (.assoc _) | some (.unset .assoc) => true
  | _ => false

/-- the element `name[i]`, subscript already known -/
def element (v : Option Value) (i : IdxVal) : Option Str :=
  match v with
  | none => none
  | some v => v.getAt i

/-- evaluating a subscript: a key for an associative array, arithmetic otherwise (R7) -/
def subscript (ps : Parsers) (e : Env) (n : Str) (i : Index) : Decision × IdxVal :=
  match i with
  | .num k => (.ok, if isAssoc (e.vars n) then .key (natToStr k) else .int k)
  | .name k =>
    if isAssoc (e.vars n) then (.ok, .key k)
    else match (evalA ps.arith ps.fuel 0 e (.var k)).1 with
      | .ok v => (.ok, .int v)
      | .error .other => (.fail, .int 0)
      | .error _ => (.abort, .int 0)

/-- the state of a parameter for `- = ? +` (and for R3: `undefined` = unbound).  Lists: no element
= unset, one empty element = null. -/
def listState (xs : List Str) : PState :=
  match xs with
  | [] => .undefined
  | [x] => if x.isEmpty then .definedEmpty else .nonZero
  | _ => .nonZero

def textState : Option Str → PState
  | none => .undefined
  | some s => if s.isEmpty then .definedEmpty else .nonZero

/-- state of a parameter (the decision is not `.ok` when its subscript could not be evaluated) -/
def paramState (ps : Parsers) (e : Env) : Parameter → Decision × PState
  | .positional 0 => (.ok, .nonZero)
  | .positional (n + 1) => (.ok, textState e.args[n]?)
  | .special (.allPos _) => (.ok, listState e.args)
  | .special _ => (.ok, .nonZero)
  | .named n => (.ok, textState ((e.vars n).bind Value.scalar?))
  | .namedIdx n i =>
    match subscript ps e n i with
    | (.ok, iv) => (.ok, textState (element (e.vars n) iv))
    | (d, _) => (d, .undefined)
  | .namedAll n _ => (.ok, listState (((e.vars n).map Value.elements).getD []))

/-- R1: can the parameter be unbound at all -/
def isList : Parameter → Bool
  | .special _ | .namedAll _ _ => true
  | _ => false

/-- R1–R3 for a parameter whose value is used -/
def useValue (ps : Parsers) (e : Env) (p : Parameter) : Decision :=
  match paramState ps e p with
  | (.ok, st) => if !isList p && st = .undefined then unbound e else .ok
  | (d, _) => d

/-- the text of a parameter (for a reference) -/
def paramText (ps : Parsers) (e : Env) : Parameter → Str
  | .positional 0 => ['x']
  | .positional (n + 1) => (e.args[n]?).getD []
  | .special (.allPos _) => joinWith [' '] e.args
  | .special _ => ['x']
  | .named n => ((e.vars n).bind Value.scalar?).getD []
  | .namedIdx n i => (element (e.vars n) (subscript ps e n i).2).getD []
  | .namedAll n _ => joinWith [' '] (((e.vars n).map Value.elements).getD [])

/-- R6 -/
def useIndirect (ps : Parsers) (e : Env) (p : Parameter) : Decision :=
  match p with
  | .named n =>
    if (e.vars n).isNone then .fail
    else andThen (useValue ps e p)
      (match ps.param (paramText ps e p) with
       | none => .fail
       | some t => useValue ps e t)
  | _ =>
    andThen (useValue ps e p)
      (match ps.param (paramText ps e p) with
       | none => .fail
       | some t => useValue ps e t)

def wordDecision (ps : Parsers) (e : Env) : Word → Decision
  | .lit _ => .ok
  | .ref p => useValue ps e p

/-- `=` stores into a variable or an element; bash also accepts `${A[@]=w}` for an associative
array declared without a value (it stores under the key `@`) -/
def canAssign (e : Env) : Parameter → Bool
  | .named _ | .namedIdx _ _ => true
  | .namedAll n _ => e.vars n = some (.unset .assoc)
  | _ => false

/-- one `${…}` / `$(( ))` -/
def bashExpr (ps : Parsers) (e : Env) : Expr → Decision
  | .value op p indirect =>
    andThen (if indirect then useIndirect ps e p else useValue ps e p)
      (match op with
       | .substring off len =>
         andThen (arithDecision ps e off)
           (match len with
            | none => .ok
            | some l => arithDecision ps (evalA ps.arith ps.fuel 0 e off).2 l)
       | _ => .ok)
  | .test op colon p w =>
    match paramState ps e p with
    | (.ok, st) =>
      let missing := st = .undefined || (colon && st = .definedEmpty)
      match op with
      | .useDefault => if missing then wordDecision ps e w else .ok
      | .useAlternative => if missing then .ok else wordDecision ps e w
      | .errorIfUnset => if missing then andThen (wordDecision ps e w) .abort else .ok
      | .assignDefault =>
        if missing then andThen (wordDecision ps e w) (if canAssign e p then .ok else .fail) else .ok
    | (d, _) => d
  | .length p =>
    match p with
    | .namedIdx n i =>
      if isSetArray (e.vars n) then (subscript ps e n i).1
      else if e.nounset then .fail else (subscript ps e n i).1
    | .namedAll n _ => if isSetArray (e.vars n) || !e.nounset then .ok else .fail
    | p => useValue ps e p
  | .names _ => .ok
  | .keys _ => .ok
  | .arith a => arithDecision ps e a

/-- R8 -/
def bashWords (ps : Parsers) (e : Env) : List Expr → Decision
  | [] => .ok
  | x :: xs => andThen (bashExpr ps e x) (bashWords ps e xs)

/-- a builtin's arithmetic error that is not an unbound variable only fails the builtin -/
def bashDecision (ps : Parsers) (e : Env) : Stmt → Decision
  | .words es => bashWords ps e es
  | .arithCmd a | .condArith a | .arithFor a | .assignIdx a => arithDecision ps e a
  | .letCmd a =>
    match arithDecision ps e a with
    | .abort => .abort
    | _ => .ok

end BrushVerif.NounsetSpec
