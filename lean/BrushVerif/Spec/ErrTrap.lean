import BrushVerif.Model.ErrTrap
/-!
# bash's rule for the ERR trap (reference for C16), written from the manual, not from brush's code

"If a sigspec is ERR, the command arg is executed whenever a pipeline (which may consist of a single
simple command), a list, or a compound command returns a non-zero exit status, subject to the
following conditions.  The ERR trap is not executed if the failed command is part of the command list
immediately following a while or until keyword, part of the test in an if statement, part of a command
executed in a && or || list except the command following the final && or ||, any command in a
pipeline but the last, or if the command's return value is being inverted using !.  These are the same
conditions obeyed by the errexit option."  With `set -E` the trap "is inherited by shell functions,
command substitutions, and commands executed in a subshell environment".  A brace group, loop or `if`
only passes on the status of a command that was already checked where it ran; `exit`/`return` leave
and are not "a command that returned".  While the handler runs the trap is not taken again.
-/
namespace BrushVerif.ErrTrapSpec
open BrushVerif.ErrTrap

/-- where a command stands -/
structure Pos where
  exempt : Bool := false      -- a failure here is ignored (condition, non-final and-or operand, under `!`)
  inH : Bool := false         -- the handler is running
  inherits : Bool := true     -- this environment sees the trap (top level; function/subshell only with -E)
  deriving DecidableEq, Repr

/-- the reference interpreter, generic in what happens when a checked command has completed with `st` -/
def refG (et : Bool) (onErr : Pos → Nat → St → St) : Cmd → Pos → St → St × Res
  | .leaf id st, p, s =>
    (onErr p st (if st = 0 then { s with trace := s.trace ++ [.m p.inH id] } else s), { code := st })
  | .exit n, _, s => (s, { code := n, flow := .exit })
  | .ret n, _, s => (s, { code := n, flow := .ret })
  | .call body, p, s =>
    let x := refG et onErr body { p with inherits := et } s
    match x.2.flow with
    | .exit => x
    | _ => (onErr p x.2.code x.1, { code := x.2.code })
  | .seq a b, p, s =>
    let x := refG et onErr a p s
    if x.2.flow = .normal then refG et onErr b p x.1 else x
  | .and a b, p, s =>
    let x := refG et onErr a { p with exempt := true } s
    if x.2.flow = .normal ∧ x.2.code = 0 then refG et onErr b p x.1 else x
  | .or a b, p, s =>
    let x := refG et onErr a { p with exempt := true } s
    if x.2.flow = .normal ∧ x.2.code ≠ 0 then refG et onErr b p x.1 else x
  | .not a, p, s =>
    let x := refG et onErr a { p with exempt := true } s
    if x.2.flow = .normal then (x.1, { code := if x.2.code = 0 then 1 else 0 }) else x
  | .ifc c t e, p, s =>
    let x := refG et onErr c { p with exempt := true } s
    if x.2.flow ≠ .normal then x
    else if x.2.code = 0 then refG et onErr t p x.1 else refG et onErr e p x.1
  | .whl _ n c b, p, s =>
    loop (refG et onErr c { p with exempt := true }) (refG et onErr b p) n 0 s
  | .grp a, p, s => refG et onErr a p s
  | .sub a, p, s =>
    let x := refG et onErr a { p with inherits := et } s
    (onErr p x.2.code { s with trace := x.1.trace }, { code := x.2.code })
  | .pipe _ b, p, s =>
    -- a simple command as last stage is the pipeline's own command: checked once, as the pipeline
    let x := refG et onErr b (match b with
      | .leaf .. => { p with exempt := true, inherits := et }
      | _ => { p with inherits := et }) s
    (onErr p x.2.code { s with trace := x.1.trace }, { code := x.2.code })

/-- run the handler: its probe sees the failing status, then its body, with the trap blocked -/
def trapE (et : Bool) (h : Option Cmd) (p : Pos) (st : Nat) (s : St) : St :=
  if st = 0 ∨ p.exempt ∨ p.inH ∨ ¬ p.inherits then s
  else match h with
    | none => s
    | some hc =>
      (refG et (fun _ _ s => s) hc { p with inH := true }
        { s with trace := s.trace ++ [.fire st false] }).1

def ref (et : Bool) (h : Option Cmd) : Cmd → Pos → St → St × Res := refG et (trapE et h)

end BrushVerif.ErrTrapSpec
