import BrushVerif.Model.Wire
/-!
# What "runs as soon as, and only when, the text read so far forms a complete command" demands (C15)

Independent of the reader's loop structure: given the lines of standard input and a predicate `needs`
("the text so far needs more input"), the programs handed over for execution are obtained by cutting the lines
into consecutive non-empty groups such that
* **only when**: no proper non-empty line-prefix of a group was already sufficient (each still needed more), and
* **as soon as**: every group that is followed by further input is itself sufficient (does not need more);
  only the final group may be insufficient, when the input ends.
Nothing is dropped, duplicated or reordered (the groups concatenate to the input).
-/
namespace BrushVerif.AccumulateSpec
open BrushVerif.Wire

/-- every proper non-empty line-prefix of `g` needs more input -/
def NotEarlier (needs : Str → Bool) (g : List Str) : Prop :=
  ∀ n, 0 < n → n < g.length → needs (g.take n).flatten = true

inductive Tiles (needs : Str → Bool) : List Str → List Str → Prop
  | nil : Tiles needs [] []
  | last (g : List Str) : g ≠ [] → NotEarlier needs g → Tiles needs g [g.flatten]
  | cons (g rest out : List Str) : g ≠ [] → NotEarlier needs g → needs g.flatten = false → rest ≠ [] →
      Tiles needs rest out → Tiles needs (g ++ rest) (g.flatten :: out)

end BrushVerif.AccumulateSpec
