import BrushVerif.Model.Arith
/-!
# What C07 demands of the operators, independently of the code

C / bash semantics on *mathematical* integers followed by reduction to the signed 64-bit range
(`wrap` = the representative of `x mod 2^64` in `[-2^63, 2^63)`): truncated division, remainder with
the sign of the dividend, `**` as repeated multiplication, comparisons and logical operators yielding
0/1; division by zero and negative exponents are errors.  Bitwise operators and shifts are specified
on the two's-complement bit vector (shift count = low 6 bits), as in C on x86-64 and in bash.
-/
namespace BrushVerif.ArithSpec
open BrushVerif.Arith

def wrap (x : Int) : Int := x.bmod (2 ^ 64)

def ofBool (p : Bool) : Int := if p then 1 else 0

/-- operators whose meaning is arithmetic on integers (everything except `& | ^ << >>`) -/
def cBin : BinOp → Int → Int → Option (Except Err Int)
  | .add, x, y => some (.ok (wrap (x + y)))
  | .sub, x, y => some (.ok (wrap (x - y)))
  | .mul, x, y => some (.ok (wrap (x * y)))
  | .div, x, y => some (if y = 0 then .error .divZero else .ok (wrap (x.tdiv y)))
  | .mod, x, y => some (if y = 0 then .error .divZero else .ok (x.tmod y))
  | .pow, x, y => some (if y < 0 then .error .negExp else .ok (wrap (x ^ y.toNat)))
  | .comma, _, y => some (.ok y)
  | .lt, x, y => some (.ok (ofBool (x < y)))
  | .le, x, y => some (.ok (ofBool (x ≤ y)))
  | .gt, x, y => some (.ok (ofBool (x > y)))
  | .ge, x, y => some (.ok (ofBool (x ≥ y)))
  | .eq, x, y => some (.ok (ofBool (x = y)))
  | .ne, x, y => some (.ok (ofBool (x ≠ y)))
  | .land, x, y => some (.ok (ofBool (x ≠ 0 ∧ y ≠ 0)))
  | .lor, x, y => some (.ok (ofBool (x ≠ 0 ∨ y ≠ 0)))
  | _, _, _ => none

/-- the bit-vector operators -/
def cBits : BinOp → BitVec 64 → BitVec 64 → Option (BitVec 64)
  | .band, x, y => some (x &&& y)
  | .bor, x, y => some (x ||| y)
  | .bxor, x, y => some (x ^^^ y)
  | .shl, x, y => some (x <<< (y.toNat % 64))
  | .shr, x, y => some (x.sshiftRight (y.toNat % 64))
  | _, _, _ => none

def cUn : UnOp → Int → Int
  | .plus, x => x
  | .minus, x => wrap (-x)
  | .bnot, x => wrap (-x - 1)
  | .lnot, x => ofBool (x = 0)

/-- a mathematical result as a 64-bit evaluation result -/
def toRes : Except Err Int → Res
  | .ok v => .ok (Int64.ofInt v)
  | .error e => .err e

/-- repeated wrapping multiplication -/
def spow (b : Int64) : Nat → Int64
  | 0 => 1
  | n + 1 => b * spow b n


/-! ## the operator table of C / bash (lowest precedence first)

`true` = right associative.  Assignment operators sit between `,` and `?:`; everything unary binds
tighter than every binary operator. -/

inductive OpKind
  | bin (op : BinOp)
  | cond
  | asg (op : Option BinOp)
  deriving DecidableEq

def cTable : List (List (List Char × OpKind × Bool)) := [
  [([','], .bin .comma, false)],
  [(['*', '='], .asg (some .mul), true), (['/', '='], .asg (some .div), true), (['%', '='], .asg (some .mod), true),
   (['+', '='], .asg (some .add), true), (['-', '='], .asg (some .sub), true), (['<', '<', '='], .asg (some .shl), true),
   (['>', '>', '='], .asg (some .shr), true), (['&', '='], .asg (some .band), true), (['|', '='], .asg (some .bor), true),
   (['^', '='], .asg (some .bxor), true), (['='], .asg none, true)],
  [(['?'], .cond, true)],
  [(['|', '|'], .bin .lor, false)],
  [(['&', '&'], .bin .land, false)],
  [(['|'], .bin .bor, false)],
  [(['^'], .bin .bxor, false)],
  [(['&'], .bin .band, false)],
  [(['=', '='], .bin .eq, false), (['!', '='], .bin .ne, false)],
  [(['<'], .bin .lt, false), (['>'], .bin .gt, false), (['<', '='], .bin .le, false), (['>', '='], .bin .ge, false)],
  [(['<', '<'], .bin .shl, false), (['>', '>'], .bin .shr, false)],
  [(['+'], .bin .add, false), (['-'], .bin .sub, false)],
  [(['*'], .bin .mul, false), (['%'], .bin .mod, false), (['/'], .bin .div, false)],
  [(['*', '*'], .bin .pow, true)]
]

/-- value of a `base#digits` literal as a natural number (`none`: a digit is not below the base) -/
def radixNat (digit : Char → Option Nat) (radix : Nat) : List Char → Nat → Option Nat
  | [], acc => some acc
  | c :: cs, acc =>
    match digit c with
    | none => none
    | some dv => if dv ≥ radix then none else radixNat digit radix cs (acc * radix + dv)

end BrushVerif.ArithSpec
