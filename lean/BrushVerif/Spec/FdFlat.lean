import BrushVerif.Model.Fd
/-!
# Flat POSIX reference semantics of redirections (what bash does)

One descriptor table per process (`Flat : Fd → Option open-file-description`), changed in place by
`open`+`dup2`, `dup2`, `close`, applied left to right; a command's redirections are undone
afterwards by putting the saved descriptors back; `exec` without a command keeps them.  Written
independently of brush's overlay structure; shares only the operating system (`Sys`, `sysOpen`,
`sysWrite`) and the syntax (`Redir`, `Cmd`) with `Model/Fd.lean`.
-/
namespace BrushVerif.FdFlat
open BrushVerif.Wire BrushVerif.Fd

abbrev Flat := Fd → Option Nat

def setF (t : Flat) (fd : Fd) (v : Option Nat) : Flat := fun x => if x = fd then v else t x

/-- opening the target of `<`, `>`, `>>`, `<>`, `>|`; under noclobber `>` refuses an existing
regular file, creates a missing one exclusively and opens anything else without truncation -/
def openFor (nc : Bool) (s : Sys) (k : Kind) (p : Path) : Option (Nat × Sys) :=
  match k with
  | .read => sysOpen s p { rd := true }
  | .write =>
    if nc then
      match s.fs p with
      | some (.reg _ _) => none
      | none => sysOpen s p { wr := true, creat := true, excl := true }
      | some _ => sysOpen s p { wr := true }
    else sysOpen s p { wr := true, creat := true, trunc := true }
  | .append => sysOpen s p { wr := true, creat := true, app := true }
  | .readWrite => sysOpen s p { rd := true, wr := true, creat := true }
  | .clobber => sysOpen s p { wr := true, creat := true, trunc := true }

/-- `&>word`, `&>>word`, `>&word`: one open, then descriptors 1 and 2 both refer to it -/
def outErr (nc : Bool) (T : Flat) (s : Sys) (p : Path) (append : Bool) : Option (Flat × Sys) :=
  (openFor nc s (if append then .append else .write) p).map fun (id, s') =>
    (setF (setF T 1 (some id)) 2 (some id), s')

def apply (nc : Bool) (T : Flat) (s : Sys) : Redir → Option (Flat × Sys)
  | .file n k p => (openFor nc s k p).map fun (id, s') => (setF T (n.getD (defaultFd k)) (some id), s')
  | .dup n input src dash =>
    let fd := n.getD (if input then 0 else 1)
    match src with
    | .none => some (if dash then setF T fd none else T, s)
    | .fd m =>
      match T m with
      | none => none
      | some id => some (if dash ∧ m ≠ fd then setF (setF T fd (some id)) m none else setF T fd (some id), s)
    | .word p => if fd = 1 ∧ dash = false then outErr nc T s p false else none
  | .outErr p a => outErr nc T s p a
  | .here n c =>
    let (id, s') := s.push { tgt := .hd c, rd := true, wr := false, app := false, pos := 0 }
    some (setF T (n.getD 0) (some id), s')

def applyAll (nc : Bool) (T : Flat) (s : Sys) : List Redir → Flat × Sys × Bool
  | [] => (T, s, true)
  | r :: rs =>
    match apply nc T s r with
    | none => (T, s, false)
    | some (T', s') => applyAll nc T' s' rs

/-- descriptors a redirection may change (they are saved before and put back after the command) -/
def touched : Redir → List Fd
  | .file n k _ => [n.getD (defaultFd k)]
  | .dup n input src dash =>
    let fd := n.getD (if input then 0 else 1)
    match src with
    | .fd m => if dash then [fd, m] else [fd]
    | .word _ => [fd, 2]
    | .none => [fd]
  | .outErr _ _ => [1, 2]
  | .here n _ => [n.getD 0]

def restore (saved cur : Flat) (fds : List Fd) : Flat := fun fd => if fd ∈ fds then saved fd else cur fd

def writeErr (T : Flat) (s : Sys) : Sys :=
  match T 2 with
  | none => s
  | some id => (sysWrite s id errText true).1

def runEcho (tag : Nat) (T : Flat) (s : Sys) : Sys × Nat :=
  match T 1 with
  | none => (writeErr T s, 1)
  | some id =>
    let (s', ok) := sysWrite s id (['B'] ++ natToStr tag ++ ['\n']) false
    if ok then (s', 0) else (writeErr T s, 1)

structure Res where
  T : Flat
  s : Sys
  status : Nat

mutual
def run (nc : Bool) : Cmd → Flat → Sys → Res
  | .probe tag rs, T, s =>
    let (T', s', ok) := applyAll nc T s rs
    if ok then { T := T, s := runProbe tag T' s', status := 0 }
    else { T := T, s := writeErr T' s', status := 1 }
  | .echo tag rs, T, s =>
    let (T', s', ok) := applyAll nc T s rs
    if ok then let (s'', st) := runEcho tag T' s'; { T := T, s := s'', status := st }
    else { T := T, s := writeErr T' s', status := 1 }
  | .exec rs, T, s =>
    let (T', s', ok) := applyAll nc T s rs
    if ok then { T := T', s := s', status := 0 }
    else { T := T, s := writeErr T' s', status := 1 }
  | .group body rs, T, s =>
    let (T', s', ok) := applyAll nc T s rs
    if ok then
      let r := runs nc body T' s' 0
      { r with T := restore T r.T (rs.flatMap touched) }
    else { T := T, s := writeErr T' s', status := 1 }
  | .sub body rs, T, s =>
    let (T', s', ok) := applyAll nc T s rs
    if ok then
      let r := runs nc body T' s' 0
      { T := T, s := r.s, status := r.status }
    else { T := T, s := writeErr T' s', status := 1 }
  | .call body defrs rs, T, s =>
    let (T', s', ok) := applyAll nc T s rs
    if ok then
      let (T'', s'', ok2) := applyAll nc T' s' defrs
      if ok2 then
        let r := runs nc body T'' s'' 0
        { r with T := restore T (restore T' r.T (defrs.flatMap touched)) (rs.flatMap touched) }
      else { T := T, s := writeErr T'' s'', status := 1 }
    else { T := T, s := writeErr T' s', status := 1 }
def runs (nc : Bool) : Cmds → Flat → Sys → Nat → Res
  | .nil, T, s, st => { T := T, s := s, status := st }
  | .cons c cs, T, s, _ =>
    let r := run nc c T s
    runs nc cs r.T r.s r.status
end

def runScript (nc : Bool) : List Cmd → Flat → Sys → Flat × Sys
  | [], T, s => (T, s)
  | c :: cs, T, s =>
    let r := run nc c T s
    runScript nc cs r.T { r.s with rep := r.s.rep ++ [statusLine r.status] }

def initT : Flat := fun fd => if fd < 3 then some fd else none

end BrushVerif.FdFlat
