import BrushVerif.Proofs.Checked
import BrushVerif.Model.Arith
/-!
# C01 — no input crashes the shell (partial proof: the integer / index hot spots)

Theorems about `Model/Checked.lean`, which mirrors brush's plain-operator integer and index
arithmetic with *checked* operations (`Except Panic _`): a `Panic` is what the dev-profile binary
does (exit 101) and where the release binary silently wraps.  "No panic" = the model returns `.ok`.
Termination: every model function is accepted by Lean's termination checker (structural, or the
measures `end - n`, `n - end`, `c`); the one Rust loop that makes no progress is the explicit
outcome `Panic.hang`.

Where brush violates the statement the full-strength `Prop` is kept (`…_full`), refuted on a
concrete witness (`…_cex`) and proved under a decidable guard (`…_partial`), or — stronger — the set
of panicking inputs is characterised exactly (`…_iff`).  The tokenizer, the PEG parsers, the
interpreter, the highlighter, completion and prompt expansion are *explored* by `tools/c01.py`
(fuzzing), not proved.
-/
namespace BrushVerif.C01
open BrushVerif.Wire BrushVerif.Checked

def I64 (x : Int) : Prop := -9223372036854775808 ≤ x ∧ x ≤ 9223372036854775807
def OptI64 (l : Option Int) : Prop := ∀ x, l = some x → I64 x
/-- parameter lengths the theorems speak about (2^62 characters / elements) -/
def Len (n : Nat) : Prop := n < 4611686018427387904
instance (x : Int) : Decidable (I64 x) := by unfold I64; infer_instance
instance (n : Nat) : Decidable (Len n) := by unfold Len; infer_instance

/-! ## `${v:offset:length}` -/

/-- The clamping arithmetic of the `Substring` arm never overflows, for every `i64` offset and
length, and what it hands to `polymorphic_subslice` is ordered and inside the parameter
(`index ≤ end ≤ len`) — or it is the declared error "substring expression < 0". -/
theorem substr_clamp_no_panic (fromArray positional undefined : Bool) (plen : Nat) (off : Int) (len : Option Int)
    (hp : Len plen) (ho : I64 off) (hl : OptI64 len) :
    ∃ r, substrBounds fromArray positional undefined plen off len = .ok r ∧
      ∀ i e, r = some (i, e) → i ≤ e ∧ e ≤ plen :=
  substrBounds_ok fromArray positional undefined plen off len hp ho hl

/-- `"${x:o:l}"` never panics: every scalar, every `i64` offset and length give a string or the
declared error.  (Full strength since the repair of the negative-length arm; before it
`x=abc; echo ${x:2:-5}` underflowed `end - index` at expansion.rs:162.) -/
theorem substring_no_panic (s : Str) (off : Int) (len : Option Int)
    (hp : Len s.length) (ho : I64 off) (hl : OptI64 len) :
    ∃ r, substring s off len = .ok r := by
  unfold substring
  obtain ⟨r, hr1, hr2⟩ := substrBounds_ok false false false s.length off len hp ho hl
  rw [hr1]
  cases r with
  | none => exact ⟨_, rfl⟩
  | some ie =>
    obtain ⟨i, e⟩ := ie
    have hie := (hr2 i e rfl).1
    obtain ⟨ps, hps⟩ := (subsliceStr_ok_iff [s] i e).mpr hie
    simp only [hps]
    exact ⟨_, rfl⟩

/-- The same for `"${a[@]:o:l}"` / `"${@:o:l}"`: the slice `fields[index..index+actual_len]` is always
in range. -/
theorem subarray_no_panic {α : Type} (positional : Bool) (xs : List α) (off : Int) (len : Option Int)
    (hp : Len xs.length) (ho : I64 off) (hl : OptI64 len) :
    ∃ r, subarray positional xs off len = .ok r := by
  unfold subarray
  obtain ⟨r, hr1, hr2⟩ := substrBounds_ok true positional false xs.length off len hp ho hl
  rw [hr1]
  cases r with
  | none => exact ⟨_, rfl⟩
  | some ie =>
    obtain ⟨i, e⟩ := ie
    have hie := hr2 i e rfl
    obtain ⟨ps, hps⟩ := (subsliceArr_ok_iff xs i e (by omega) hp).mpr hie.1
    simp only [hps]
    exact ⟨_, rfl⟩

/-- a negative length that ends before the start offset is the declared error, not a panic -/
theorem substring_negative_length_is_error :
    substring ['a', 'b', 'c'] 2 (some (-5)) = .ok none := by rfl

example : substring ['a', 'b', 'c'] 1 (some (-1)) = .ok (some ['b']) := by rfl
example : subarray false [10, 20, 30, 40] (-3) (some 2) = .ok (some [20, 30]) := by rfl
example : subarray false [10, 20, 30, 40] 1 (some (-1)) = .ok none := by rfl
example : subarray false [10, 20, 30, 40] 4 (some (-1)) = .ok (some []) := by rfl

/-- what `polymorphic_subslice` would do with an end before the index (the situation the clamping
now rules out): the plain `end - index` panics.  This is why `substr_clamp_no_panic`'s ordering
conclusion is the load-bearing fact. -/
theorem subslice_panics_iff_unordered (ps : List Str) (i e : Nat) :
    (∃ r, subsliceStr ps i e = .ok r) ↔ i ≤ e := subsliceStr_ok_iff ps i e

/-! ## array subscripts -/

/-- `get_key_for_indexed_array` never panics: every `i64` subscript gives a key or the declared
`ArrayIndexOutOfRange` error. -/
theorem index_norm_no_panic (alen : Nat) (idx : Int) (hp : Len alen) (hi : I64 idx) :
    ∃ k, indexKey alen idx = .ok k := by
  unfold indexKey
  unfold Len at hp; unfold I64 at hi
  by_cases h : idx < 0
  · rw [if_pos h, asI64_small _ (by omega), i64Add_ok _ _ (by omega)]
    exact ⟨_, rfl⟩
  · rw [if_neg h]; exact ⟨_, rfl⟩

/-- a negative subscript addresses from the end, and only inside the array -/
theorem index_norm_negative (alen : Nat) (idx : Int) (hp : Len alen) (hi : I64 idx) (hneg : idx < 0) :
    indexKey alen idx = .ok (if idx + (alen : Int) < 0 then none else some (idx + (alen : Int)).toNat) := by
  unfold indexKey
  unfold Len at hp; unfold I64 at hi
  rw [if_pos hneg, asI64_small _ (by omega), i64Add_ok _ _ (by omega)]
  simp only [bind, Except.bind, pure, Except.pure]
  split
  · rfl
  · rw [asUsize_nonneg _ (by omega) (by omega)]

example : indexKey 3 (-1) = .ok (some 2) := by
  rw [index_norm_negative 3 (-1) (by decide) (by decide) (by decide)]; simp

/-! ## brace expansion -/

/-- rule `number()` never panics.  FALSE for brush (`digits.parse::<i64>().unwrap()`). -/
def brace_number_no_panic_full : Prop := ∀ (neg : Bool) (digits : Nat), ∃ v, braceNumber neg digits = .ok v

theorem brace_number_no_panic_cex : ¬ brace_number_no_panic_full := by
  intro h
  obtain ⟨v, hv⟩ := h false 9223372036854775808
  simp [braceNumber, I64_MAX] at hv

/-- `{…digits…` panics the word parser exactly when the digits do not fit an `i64`. -/
theorem brace_number_panics_iff (neg : Bool) (digits : Nat) :
    (∃ v, braceNumber neg digits = .ok v) ↔ digits ≤ 9223372036854775807 := by
  unfold braceNumber I64_MAX
  by_cases h : (digits : Int) ≤ 9223372036854775807
  · rw [if_pos h]
    have : i64Mul digits (if neg then -1 else 1) = .ok ((digits : Int) * (if neg then -1 else 1)) := by
      unfold i64Mul
      rw [(inI64_iff _).mpr (by cases neg <;> simp <;> omega)]; rfl
    rw [this]
    constructor
    · intro _; omega
    · intro _; exact ⟨_, rfl⟩
  · rw [if_neg h]
    constructor
    · rintro ⟨v, hv⟩; cases hv
    · intro h'; omega

/-- numeric sequences never panic.  FALSE for brush (`n - increment` near `i64::MIN`). -/
def brace_numseq_no_panic_full : Prop :=
  ∀ (s e i : Int), I64 s → I64 e → I64 i → ∃ ws, numSeq s e i = .ok ws

/-- `echo {0..-9223372036854775807..9223372036854775807}` panics (braceexpansion.rs:51). -/
theorem brace_numseq_no_panic_cex : ¬ brace_numseq_no_panic_full := by
  intro h
  obtain ⟨ws, hw⟩ := h 0 (-9223372036854775807) 9223372036854775807 (by decide) (by decide) (by decide)
  have hstep : asI64 (stepOf 9223372036854775807) = 9223372036854775807 := by decide
  have h1 : descFrom (0 - 9223372036854775807) (-9223372036854775807) 9223372036854775807 = .error .subOverflow :=
    descFrom_overflow _ _ _ (by decide) (by decide)
  have h0 : descFrom 0 (-9223372036854775807) 9223372036854775807 = .error .subOverflow :=
    descFrom_step _ _ _ (by decide) (by decide) (by decide) h1
  unfold numSeq at hw
  rw [if_neg (by decide), hstep, h0] at hw
  cases hw

/-- guard: ascending, or the step (its absolute value; 0 counts as 1) can still be subtracted from `end` -/
def NumSeqOk (s e i : Int) : Prop :=
  s ≤ e ∨ (i ≠ -9223372036854775808 ∧ -9223372036854775808 ≤ e - (if i = 0 then 1 else (i.natAbs : Int)))

/-- `_partial`: inside the guard a numeric sequence never panics (and, by construction, terminates). -/
theorem brace_numseq_no_panic_partial (s e i : Int) (hs : I64 s) (_he : I64 e) (hi : I64 i)
    (hg : NumSeqOk s e i) : ∃ ws, numSeq s e i = .ok ws := by
  unfold I64 at hs hi
  unfold numSeq
  by_cases hse : s ≤ e
  · rw [if_pos hse]; exact ⟨_, rfl⟩
  · rw [if_neg hse]
    rcases hg with hg | ⟨hmin, hg⟩
    · exact absurd hg hse
    · have hstep : (stepOf i : Int) = (if i = 0 then 1 else (i.natAbs : Int)) ∧ stepOf i < 9223372036854775808 := by
        unfold stepOf unsignedAbs
        rw [asUsize_nonneg _ (by omega) (by omega)]
        by_cases h0 : i = 0
        · subst h0; simp
        · have : i.natAbs ≠ 0 := by omega
          simp [h0, this]; omega
      have hsm : asI64 (stepOf i) = (stepOf i : Int) := asI64_small _ hstep.2
      have hpos : 0 < asI64 (stepOf i) := by rw [hsm, hstep.1]; split <;> omega
      obtain ⟨r, hr⟩ := descFrom_ok s e (asI64 (stepOf i)) hpos (by rw [hsm, hstep.1]; exact hg) (by omega) hs.2
      rw [hr]; exact ⟨_, rfl⟩

example : NumSeqOk 5 1 (-2) := by unfold NumSeqOk; right; decide

/-- character sequences never panic or hang.  FALSE for brush, twice. -/
def brace_charseq_no_panic_full : Prop :=
  ∀ (s e : Nat) (i : Int), s ≤ 122 → e ≤ 122 → I64 i → ∃ ws, charSeq s e i = .ok ws

/-- `echo {z..a..200}` panics (braceexpansion.rs:76, `c as u32 - increment`). -/
theorem brace_charseq_no_panic_cex : ¬ brace_charseq_no_panic_full := by
  intro h
  obtain ⟨ws, hw⟩ := h 122 97 200 (by decide) (by decide) (by decide)
  have hstep : asU32 (stepOf 200) = 200 := by decide
  unfold charSeq at hw
  rw [if_neg (by decide), hstep, descChars_underflow 122 97 200 (by decide) (by decide)] at hw
  cases hw

/-- `echo {z..a..4294967296}` never finishes: `increment as u32` is 0 and the iterator repeats `z`. -/
theorem brace_charseq_hang_cex : charSeq 122 97 4294967296 = .error .hang := by
  have hstep : asU32 (stepOf 4294967296) = 0 := by decide
  unfold charSeq
  rw [if_neg (by decide), hstep, descChars_hang]

/-- guard: ascending, or the step as brush truncates it (`as u32`, 0 → 1 before truncation) is non-zero
and at most the end character's code point -/
def CharSeqOk (s e : Nat) (i : Int) : Prop :=
  s ≤ e ∨ (0 < asU32 (if i = 0 then 1 else i.natAbs) ∧ asU32 (if i = 0 then 1 else i.natAbs) ≤ e)

/-- `_partial`: inside the guard a character sequence neither panics nor hangs. -/
theorem brace_charseq_no_panic_partial (s e : Nat) (i : Int) (hi : I64 i) (hg : CharSeqOk s e i) :
    ∃ ws, charSeq s e i = .ok ws := by
  unfold I64 at hi
  unfold charSeq
  by_cases hse : s ≤ e
  · rw [if_pos hse]; exact ⟨_, rfl⟩
  · rw [if_neg hse]
    rcases hg with hg | ⟨hpos, hle⟩
    · exact absurd hg hse
    · have hinc : stepOf i = (if i = 0 then 1 else i.natAbs) := by
        unfold stepOf unsignedAbs
        rw [asUsize_nonneg _ (by omega) (by omega)]
        by_cases h0 : i = 0
        · subst h0; simp
        · have : i.natAbs ≠ 0 := by omega
          simp [h0, this]
      rw [hinc]
      obtain ⟨r, hr⟩ := descChars_ok s e _ hpos hle (by omega)
      rw [hr]; exact ⟨_, rfl⟩

example : CharSeqOk 122 97 (-2) := by unfold CharSeqOk asU32; right; decide

/-! ## `history N` -/

/-- `history N` never panics.  FALSE for brush (`item_count - max_entries`). -/
def history_display_no_panic_full : Prop :=
  ∀ (count : Nat) (m : Option Nat), ∃ k, histSkip count m = .ok k

theorem history_display_no_panic_cex : ¬ history_display_no_panic_full := by
  intro h
  obtain ⟨k, hk⟩ := h 3 (some 5)
  simp [histSkip, usizeSub] at hk

/-- `history N` panics exactly when N exceeds the number of entries. -/
theorem history_display_panics_iff (count : Nat) (m : Option Nat) :
    (∃ k, histSkip count m = .ok k) ↔ m.getD count ≤ count := by
  unfold histSkip usizeSub
  by_cases h : m.getD count ≤ count <;> simp [h]

example : histSkip 3 (some 2) = .ok 1 := by simp [histSkip, usizeSub]

/-! ## `break N` / `continue N` -/

/-- the level conversion of `break`/`continue` never panics, for every integer argument -/
theorem loop_levels_no_panic (n : Int) : ∃ c, loopLevels n = .ok c := by
  unfold loopLevels
  split
  · exact ⟨_, rfl⟩
  · split
    · exact ⟨_, rfl⟩
    · rw [if_pos (by omega)]; exact ⟨_, rfl⟩

/-- `try_decrement_loop_levels` never underflows -/
theorem loop_decrement_no_panic (fl : Flow) : ∃ fl', decr fl = .ok fl' := decr_ok fl

/-- any `break N` / `continue N` inside three nested loops runs to the end without a panic -/
theorem loop_nest_no_panic (isBreak : Bool) (n : Int) : ∃ r, nest3 isBreak n = .ok r := by
  unfold nest3
  obtain ⟨c, hc⟩ := loop_levels_no_panic n
  rw [hc]
  have inner : ∀ (fl : Flow) (r : Str), ∃ x, thenMark (pure (r ++ ['k'], fl)) 'K' = .ok x :=
    fun fl r => thenMark_ok _ _ ⟨_, rfl⟩
  have mid : ∀ (fl : Flow) (r : Str), ∃ x, thenMark (forLoop 2 (fun r => thenMark (pure (r ++ ['k'], fl)) 'K') r) 'J' = .ok x :=
    fun fl r => thenMark_ok _ _ (forLoop_ok _ (inner fl) 2 r)
  have outer : ∀ (fl : Flow) (r : Str), ∃ x,
      thenMark (forLoop 2 (fun r => thenMark (forLoop 2 (fun r => thenMark (pure (r ++ ['k'], fl)) 'K') r) 'J') r) 'I' = .ok x :=
    fun fl r => thenMark_ok _ _ (forLoop_ok _ (mid fl) 2 r)
  have htr : ∃ x, nest3Trace (flowOf isBreak c) = .ok x := by
    unfold nest3Trace
    exact forLoop_ok _ (outer _) 2 []
  obtain ⟨⟨r, fl'⟩, hx⟩ := htr
  simp only [hx]
  exact ⟨_, rfl⟩

/-! ## arithmetic operators (model of C07, `Model/Arith.lean`) -/

/-- every binary operator on every pair of `i64` yields a value or one of the two declared errors —
including `MIN / -1`, `MIN % -1`, shifts by ≥ 64 or < 0 and `**` with huge exponents -/
theorem arith_binop_declared_errors_only (op : Arith.BinOp) (l r : Int64) :
    (∃ v, Arith.applyBin op l r = .ok v) ∨ Arith.applyBin op l r = .err .divZero ∨
      Arith.applyBin op l r = .err .negExp := by
  cases op <;> simp only [Arith.applyBin] <;> (try split) <;> simp

example : Arith.applyBin .div Int64.minValue (-1) = .ok Int64.minValue := by decide
example : Arith.applyBin .mod Int64.minValue (-1) = .ok 0 := by decide
example : Arith.applyBin .shl 1 64 = .ok 1 := by decide

end BrushVerif.C01
