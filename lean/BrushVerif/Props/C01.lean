import BrushVerif.Proofs.Checked
import BrushVerif.Model.Arith
/-!
# C01 — no input crashes the shell (partial proof: the integer / index hot spots)

Theorems about `Model/Checked.lean`, which mirrors brush's plain-operator integer and index
arithmetic with *checked* operations (`Except Panic _`): a `Panic` is what the dev-profile binary
does (exit 101) and where the release binary silently wraps.  "No panic" = the model returns `.ok`.
Termination: every model function is accepted by Lean's termination checker (structural, or the
measures `end - n`, `n - end`, `c`); the one Rust loop that makes no progress is the explicit
outcome `Panic.hang`.

All hot spots that used to panic (`${x:2:-5}`, `{99999999999999999999}`, `{z..a..200}`,
`{z..a..4294967296}`, `history 5`) have been repaired in /repo; the models follow the repaired code
and the former `_cex` witnesses are now positive theorems (`…_former_cex`).  The tokenizer, the PEG parsers, the
interpreter, the highlighter, completion and prompt expansion are *explored* by `tools/c01.py`
(fuzzing), not proved.
-/
namespace BrushVerif.C01
open BrushVerif.Wire BrushVerif.Checked

def I64 (x : Int) : Prop := -9223372036854775808 ≤ x ∧ x ≤ 9223372036854775807
def OptI64 (l : Option Int) : Prop := ∀ x, l = some x → I64 x
/-- parameter lengths the theorems speak about (2^62 characters / elements) -/
def Len (n : Nat) : Prop := n < 4611686018427387904
instance (x : Int) : Decidable (I64 x) := by unfold I64; infer_instance
instance (n : Nat) : Decidable (Len n) := by unfold Len; infer_instance

/-! ## `${v:offset:length}` -/

/-- The clamping arithmetic of the `Substring` arm never overflows, for every `i64` offset and
length, and what it hands to `polymorphic_subslice` is ordered and inside the parameter
(`index ≤ end ≤ len`) — or it is the declared error "substring expression < 0". -/
theorem substr_clamp_no_panic (fromArray positional undefined : Bool) (plen : Nat) (off : Int) (len : Option Int)
    (hp : Len plen) (ho : I64 off) (hl : OptI64 len) :
    ∃ r, substrBounds fromArray positional undefined plen off len = .ok r ∧
      ∀ i e, r = some (i, e) → i ≤ e ∧ e ≤ plen :=
  substrBounds_ok fromArray positional undefined plen off len hp ho hl

/-- `"${x:o:l}"` never panics: every scalar, every `i64` offset and length give a string or the
declared error.  (Full strength since the repair of the negative-length arm; before it
`x=abc; echo ${x:2:-5}` underflowed `end - index` at expansion.rs:162.) -/
theorem substring_no_panic (s : Str) (off : Int) (len : Option Int)
    (hp : Len s.length) (ho : I64 off) (hl : OptI64 len) :
    ∃ r, substring s off len = .ok r := by
  unfold substring
  obtain ⟨r, hr1, hr2⟩ := substrBounds_ok false false false s.length off len hp ho hl
  rw [hr1]
  cases r with
  | none => exact ⟨_, rfl⟩
  | some ie =>
    obtain ⟨i, e⟩ := ie
    have hie := (hr2 i e rfl).1
    obtain ⟨ps, hps⟩ := (subsliceStr_ok_iff [s] i e).mpr hie
    simp only [hps]
    exact ⟨_, rfl⟩

/-- The same for `"${a[@]:o:l}"` / `"${@:o:l}"`: the slice `fields[index..index+actual_len]` is always
in range. -/
theorem subarray_no_panic {α : Type} (positional : Bool) (xs : List α) (off : Int) (len : Option Int)
    (hp : Len xs.length) (ho : I64 off) (hl : OptI64 len) :
    ∃ r, subarray positional xs off len = .ok r := by
  unfold subarray
  obtain ⟨r, hr1, hr2⟩ := substrBounds_ok true positional false xs.length off len hp ho hl
  rw [hr1]
  cases r with
  | none => exact ⟨_, rfl⟩
  | some ie =>
    obtain ⟨i, e⟩ := ie
    have hie := hr2 i e rfl
    obtain ⟨ps, hps⟩ := (subsliceArr_ok_iff xs i e (by omega) hp).mpr hie.1
    simp only [hps]
    exact ⟨_, rfl⟩

/-- a negative length that ends before the start offset is the declared error, not a panic -/
theorem substring_negative_length_is_error :
    substring ['a', 'b', 'c'] 2 (some (-5)) = .ok none := by rfl

example : substring ['a', 'b', 'c'] 1 (some (-1)) = .ok (some ['b']) := by rfl
example : subarray false [10, 20, 30, 40] (-3) (some 2) = .ok (some [20, 30]) := by rfl
example : subarray false [10, 20, 30, 40] 1 (some (-1)) = .ok none := by rfl
example : subarray false [10, 20, 30, 40] 4 (some (-1)) = .ok (some []) := by rfl

/-- what `polymorphic_subslice` would do with an end before the index (the situation the clamping
now rules out): the plain `end - index` panics.  This is why `substr_clamp_no_panic`'s ordering
conclusion is the load-bearing fact. -/
theorem subslice_panics_iff_unordered (ps : List Str) (i e : Nat) :
    (∃ r, subsliceStr ps i e = .ok r) ↔ i ≤ e := subsliceStr_ok_iff ps i e

/-! ## array subscripts -/

/-- `get_key_for_indexed_array` never panics: every `i64` subscript gives a key or the declared
`ArrayIndexOutOfRange` error. -/
theorem index_norm_no_panic (alen : Nat) (idx : Int) (hp : Len alen) (hi : I64 idx) :
    ∃ k, indexKey alen idx = .ok k := by
  unfold indexKey
  unfold Len at hp; unfold I64 at hi
  by_cases h : idx < 0
  · rw [if_pos h, asI64_small _ (by omega), i64Add_ok _ _ (by omega)]
    exact ⟨_, rfl⟩
  · rw [if_neg h]; exact ⟨_, rfl⟩

/-- a negative subscript addresses from the end, and only inside the array -/
theorem index_norm_negative (alen : Nat) (idx : Int) (hp : Len alen) (hi : I64 idx) (hneg : idx < 0) :
    indexKey alen idx = .ok (if idx + (alen : Int) < 0 then none else some (idx + (alen : Int)).toNat) := by
  unfold indexKey
  unfold Len at hp; unfold I64 at hi
  rw [if_pos hneg, asI64_small _ (by omega), i64Add_ok _ _ (by omega)]
  simp only [bind, Except.bind, pure, Except.pure]
  split
  · rfl
  · rw [asUsize_nonneg _ (by omega) (by omega)]

example : indexKey 3 (-1) = .ok (some 2) := by
  rw [index_norm_negative 3 (-1) (by decide) (by decide) (by decide)]; simp

/-! ## brace expansion

Since the repairs of `number()` and `expand_brace_expr_member` these code paths contain no plain
operator, `unwrap` or truncating cast any more: the models are pure total functions (no `Panic`
outcome in their type, termination by the measures `end - n`, `n - end`, `c`), so panic-freedom and
termination hold by construction.  What is left to prove is that the values stay where the later
steps (`to_string`, `char::from_u32`) need them. -/

/-- rule `number()` yields exactly the `i64` values; digits that do not fit make the rule fail (the
word then stays literal) — formerly `digits.parse::<i64>().unwrap()` panicked on them -/
theorem brace_number_some_iff (neg : Bool) (digits : Nat) :
    (∃ v, braceNumber neg digits = some v) ↔ I64 (if neg then -(digits : Int) else digits) := by
  unfold braceNumber I64
  simp only
  cases h : inI64 (if neg then -(digits : Int) else digits)
  · simp only [Bool.false_eq_true, if_false]
    constructor
    · rintro ⟨v, hv⟩; cases hv
    · intro hr; rw [(inI64_iff _).mpr hr] at h; cases h
  · simp only [if_true]
    exact ⟨fun _ => (inI64_iff _).mp h, fun _ => ⟨_, rfl⟩⟩

theorem brace_number_value_in_range (neg : Bool) (digits : Nat) (v : Int)
    (h : braceNumber neg digits = some v) : I64 v := by
  unfold braceNumber at h
  simp only at h
  cases hin : inI64 (if neg then -(digits : Int) else digits)
  · rw [hin] at h; simp at h
  · rw [hin] at h
    simp only [if_true, Option.some.injEq] at h
    subst h
    exact (inI64_iff _).mp hin

example : braceNumber false 99999999999999999999 = none := by decide
example : braceNumber true 9223372036854775808 = some (-9223372036854775808) := by decide

/-- every word of a numeric sequence lies between its two ends (so it is an `i64` whenever the ends
are: nothing wraps), whatever the increment — including 0, `i64::MIN` and steps larger than the
whole range -/
theorem brace_numseq_in_range (s e i w : Int) (hw : w ∈ numSeq s e i) :
    min s e ≤ w ∧ w ≤ max s e := by
  unfold numSeq at hw
  split at hw
  · have := ascFrom_mem _ _ _ _ hw; omega
  · rcases List.mem_cons.mp hw with h | h
    · subst h; omega
    · have := descFrom_mem _ _ _ _ h; omega

/-- a sequence always starts with its start value (it is never empty) -/
theorem brace_numseq_head (s e i : Int) : ∃ rest, numSeq s e i = s :: rest := by
  unfold numSeq
  split
  · rename_i h; exact ⟨_, ascFrom_head s e _ (stepOf_pos i) h⟩
  · exact ⟨_, rfl⟩

/-- a sequence never holds more words than the count the parser computes for it
(`|end - start| / step + 1`) … -/
theorem brace_numseq_length_le_count (s e i : Int) :
    (numSeq s e i).length ≤ seqCount s e i := by
  have hpos := stepOf_pos i
  unfold numSeq seqCount
  have key : ∀ (k d step : Nat), 0 < step → ((k : Int) * step ≤ d) → k ≤ d / step := by
    intro k d step hs h
    rw [Nat.le_div_iff_mul_le hs]
    have : ((k * step : Nat) : Int) ≤ d := by rw [Int.natCast_mul]; exact h
    exact Int.ofNat_le.mp this
  split
  · rename_i hse
    have h := ascFrom_length s e (stepOf i) hpos
    cases hL : (ascFrom s e (stepOf i)).length with
    | zero => exact Nat.zero_le _
    | succ k =>
      rw [hL] at h
      have hk : (k : Int) * (stepOf i) ≤ ((e - s).natAbs : Nat) := by
        rw [Int.natCast_add, Int.natCast_one, Int.add_mul, Int.one_mul] at h
        omega
      have := key k _ _ hpos hk
      omega
  · rename_i hse
    have h := descFrom_length s e (stepOf i)
    simp only [List.length_cons]
    have hk : ((descFrom s e (stepOf i)).length : Int) * (stepOf i) ≤ ((e - s).natAbs : Nat) := by omega
    have := key _ _ _ hpos hk
    omega

/-- … so a sequence the parser accepts (count at most `INT_MAX - 2`) is bounded in size; a larger one
is not expanded at all (the word stays literal, as in bash) — formerly `echo {1..99999999999}`
materialised every element until the process aborted -/
theorem brace_numseq_accepted_is_bounded (s e i : Int) (h : seqAccepted s e i = true) :
    (numSeq s e i).length ≤ 2147483645 := by
  have := brace_numseq_length_le_count s e i
  unfold seqAccepted SEQ_LIMIT at h
  simp only [decide_eq_true_eq] at h
  omega

example : seqAccepted 1 99999999999 1 = false := by decide
example : seqAccepted 1 2147483645 1 = true := by decide
example : seqAccepted 1 2147483646 1 = false := by decide
example : seqAccepted 1 9223372036854775807 4611686018427387904 = true := by decide

/-- the former panic witness `{0..-9223372036854775807..9223372036854775807}` now gives bash's answer -/
theorem brace_numseq_former_cex :
    numSeq 0 (-9223372036854775807) 9223372036854775807 = [0, -9223372036854775807] := by
  have hs : stepOf 9223372036854775807 = 9223372036854775807 := by decide
  unfold numSeq
  rw [if_neg (by decide), hs, descFrom_step _ _ _ (by decide), descFrom_stop _ _ _ (by decide)]
  rfl

/-- every character of a character sequence lies between its two ends, whatever the increment -/
theorem brace_charseq_in_range (s e : Nat) (i : Int) (w : Nat) (hw : w ∈ charSeq s e i) :
    min s e ≤ w ∧ w ≤ max s e := by
  unfold charSeq at hw
  split at hw
  · have := ascChars_mem _ _ _ _ hw; omega
  · rcases List.mem_cons.mp hw with h | h
    · subst h; omega
    · have := descChars_mem _ _ _ _ h; omega

/-- the former panic witness `{z..a..200}` and the former hang witness `{z..a..4294967296}` now both
give bash's answer, `z` -/
theorem brace_charseq_former_cex :
    charSeq 122 97 200 = [122] ∧ charSeq 122 97 4294967296 = [122] := by
  have h1 : stepU32 (stepOf 200) = 200 := by decide
  have h2 : stepU32 (stepOf 4294967296) = 4294967295 := by decide
  unfold charSeq
  rw [if_neg (by decide), h1, h2, descChars_stop _ _ _ (by decide), descChars_stop _ _ _ (by decide)]
  exact ⟨rfl, rfl⟩

/-- the step a descending character sequence uses is never 0 (the cast `as u32` that made it 0 is gone):
each produced character is strictly below the previous one, which is why the loop ends -/
theorem brace_charseq_step_positive (i : Int) : 0 < stepU32 (stepOf i) := by
  have := stepOf_pos i
  unfold stepU32; split <;> omega

/-! ## `&` in completion filters -/

/-- **Index discipline of `replace_unescaped_ampersands`.**  For every filter pattern and every word
(any Unicode, any length, also the empty word and words that contain `&` themselves) each
`replace_range(i..=i, word)` is applied at an offset that is inside the string *it is applied to*
and on a character boundary of it — so no call panics — and the result is the pattern with every
unescaped `&` replaced by the word.  The offsets come from the original pattern; they stay valid
because they are applied from the last to the first, which leaves the text before each offset
untouched.  (Applying them first-to-last shifts every later offset by `len(word) - 1`.) -/
theorem ampersand_replacement_indices_valid (pattern word : Str) :
    replaceAmpersands pattern word = .ok (substAmp pattern false word) := by
  have h := applyRev_ampOffsets word pattern [] false
  simpa [replaceAmpersands, utf8Len] using h

/-- the substitution is the identity on a filter without `&` -/
theorem ampersand_free_filter_unchanged (pattern word : Str) (h : '&' ∉ pattern) :
    substAmp pattern false word = pattern := by
  suffices ∀ esc, substAmp pattern esc word = pattern from this false
  induction pattern with
  | nil => intro esc; rfl
  | cons c cs ih =>
    intro esc
    have hc : c ≠ '&' := fun hc => h (by simp [hc])
    have hcs : '&' ∉ cs := fun hm => h (List.mem_cons_of_mem _ hm)
    unfold substAmp
    simp only
    rw [if_neg (by simp [hc]), ih hcs]

example : replaceAmpersands "&&".toList "éé".toList = .ok "éééé".toList := ampersand_replacement_indices_valid _ _
example : replaceAmpersands "a\\&&".toList [] = .ok "a\\&".toList := by
  rw [ampersand_replacement_indices_valid]; rfl
/-- what goes wrong when the discipline is broken: the second `&` of `&&` sits at byte 1 of the
pattern, but after `é` (2 bytes) replaced the first one, byte 1 is inside that `é` -/
example : replaceRange1 "é&".toList 1 "é".toList = .error .sliceRange := by rfl

/-! ## `history N` -/

/-- `history N` prints `min N count` entries, for every N — formerly `item_count - max_entries`
panicked when N exceeded the number of entries -/
theorem history_display_count (count : Nat) (m : Option Nat) :
    count - histSkip count m = min count (m.getD count) := by
  unfold histSkip; omega

example : histSkip 3 (some 5) = 0 := by decide
example : histSkip 3 (some 2) = 1 := by decide

/-! ## `break N` / `continue N` -/

/-- the level conversion of `break`/`continue` never panics, for every integer argument -/
theorem loop_levels_no_panic (n : Int) : ∃ c, loopLevels n = .ok c := by
  unfold loopLevels
  split
  · exact ⟨_, rfl⟩
  · split
    · exact ⟨_, rfl⟩
    · rw [if_pos (by omega)]; exact ⟨_, rfl⟩

/-- `try_decrement_loop_levels` never underflows -/
theorem loop_decrement_no_panic (fl : Flow) : ∃ fl', decr fl = .ok fl' := decr_ok fl

/-- any `break N` / `continue N` inside three nested loops runs to the end without a panic -/
theorem loop_nest_no_panic (isBreak : Bool) (n : Int) : ∃ r, nest3 isBreak n = .ok r := by
  unfold nest3
  obtain ⟨c, hc⟩ := loop_levels_no_panic n
  rw [hc]
  have inner : ∀ (fl : Flow) (r : Str), ∃ x, thenMark (pure (r ++ ['k'], fl)) 'K' = .ok x :=
    fun fl r => thenMark_ok _ _ ⟨_, rfl⟩
  have mid : ∀ (fl : Flow) (r : Str), ∃ x, thenMark (forLoop 2 (fun r => thenMark (pure (r ++ ['k'], fl)) 'K') r) 'J' = .ok x :=
    fun fl r => thenMark_ok _ _ (forLoop_ok _ (inner fl) 2 r)
  have outer : ∀ (fl : Flow) (r : Str), ∃ x,
      thenMark (forLoop 2 (fun r => thenMark (forLoop 2 (fun r => thenMark (pure (r ++ ['k'], fl)) 'K') r) 'J') r) 'I' = .ok x :=
    fun fl r => thenMark_ok _ _ (forLoop_ok _ (mid fl) 2 r)
  have htr : ∃ x, nest3Trace (flowOf isBreak c) = .ok x := by
    unfold nest3Trace
    exact forLoop_ok _ (outer _) 2 []
  obtain ⟨⟨r, fl'⟩, hx⟩ := htr
  simp only [hx]
  exact ⟨_, rfl⟩

/-! ## variable-dereference depth (model of C07, `Model/Arith.lean`)

`eval_expr_impl` re-enters itself through the *contents* of variables (`deref_lvalue` parses the
string and evaluates it one level deeper, at most `MAX_VARIABLE_DEREF_DEPTH = 1024` levels).  The
counter only protects the native stack if **every** path back into evaluation hands it on — also
the evaluation of an array subscript, on the reading side (`deref_lvalue`) and on the assignment
side (`assign`, `++`/`--`, `op=`).  In the model `eval`/`deref`/`assignT` pass `d` to the subscript;
these theorems say what that buys: a dereference cycle that runs through a subscript is cut off
with the declared error, from every entry point, for every parser and environment. -/

section DerefDepth
open BrushVerif.Arith

variable (P : Str → Option Expr) (env : Env) (i a : Str)

/-- `i="a[i]"; $((i))`: the cycle variable → subscript → variable ends with the declared
recursion error at every starting depth (it never runs past the bound). -/
theorem deref_depth_threads_through_subscripts
    (hP : P (varStr env i) = some (.ref (.elem a (.ref (.var i))))) (d : Nat) :
    eval P d env (.ref (.var i)) = (env, .err .recursion) := by
  have key : ∀ k d, maxDepth ≤ d + k → eval P d env (.ref (.var i)) = (env, .err .recursion) := by
    intro k
    induction k with
    | zero =>
      intro d hd
      rw [eval, resolve]
      simp only
      rw [derefR, derefStr, hP]
      simp only
      rw [dif_pos (by omega)]
    | succ k ih =>
      intro d hd
      by_cases hge : maxDepth ≤ d
      · rw [eval, resolve]
        simp only
        rw [derefR, derefStr, hP]
        simp only
        rw [dif_pos (by omega)]
      · rw [eval, resolve]
        simp only
        rw [derefR, derefStr, hP]
        simp only
        rw [dif_neg (by omega), eval, resolve, ih (d + 1) (by omega)]
  exact key maxDepth d (by omega)

/-- the same cycle entered at the subscript: `$((a[i]))` -/
theorem deref_cycle_entered_at_subscript
    (hP : P (varStr env i) = some (.ref (.elem a (.ref (.var i))))) (d : Nat) :
    eval P d env (.ref (.elem a (.ref (.var i)))) = (env, .err .recursion) := by
  rw [eval, resolve, deref_depth_threads_through_subscripts P env i a hP d]

/-- … on the assignment side: `(( a[i] = v ))` evaluates the subscript under the same counter, and
nothing is assigned -/
theorem assign_subscript_depth_threads
    (hP : P (varStr env i) = some (.ref (.elem a (.ref (.var i))))) (d : Nat) (v : Int64) :
    eval P d env (.assign (.elem a (.ref (.var i))) (.lit v)) = (env, .err .recursion) := by
  rw [eval, eval]
  simp only
  rw [resolve, deref_depth_threads_through_subscripts P env i a hP d]

/-- … and for `a[i]++` / `a[i] op= e` (the subscript is resolved once, under the same counter) -/
theorem incdec_subscript_depth_threads
    (hP : P (varStr env i) = some (.ref (.elem a (.ref (.var i))))) (d : Nat) (op : IncOp) :
    eval P d env (.incDec op (.elem a (.ref (.var i)))) = (env, .err .recursion) := by
  rw [eval, resolve, deref_depth_threads_through_subscripts P env i a hP d]

theorem opassign_subscript_depth_threads
    (hP : P (varStr env i) = some (.ref (.elem a (.ref (.var i))))) (d : Nat) (op : BinOp) (r : Expr) :
    eval P d env (.opAssign op (.elem a (.ref (.var i))) r) = (env, .err .recursion) := by
  rw [eval, resolve, deref_depth_threads_through_subscripts P env i a hP d]

end DerefDepth

/-- non-vacuity: a parser and an environment with `i="a[i]"` -/
private def cycP (s : Str) : Option Arith.Expr :=
  if s = "a[i]".toList then some (.ref (.elem ['a'] (.ref (.var ['i'])))) else none

example : Arith.eval cycP 0 [(['i'], .scalar "a[i]".toList)] (.ref (.var ['i'])) =
    ([(['i'], .scalar "a[i]".toList)], .err .recursion) :=
  deref_depth_threads_through_subscripts cycP _ ['i'] ['a'] (by decide) 0

/-! ## arithmetic operators (model of C07, `Model/Arith.lean`) -/

/-- every binary operator on every pair of `i64` yields a value or one of the two declared errors —
including `MIN / -1`, `MIN % -1`, shifts by ≥ 64 or < 0 and `**` with huge exponents -/
theorem arith_binop_declared_errors_only (op : Arith.BinOp) (l r : Int64) :
    (∃ v, Arith.applyBin op l r = .ok v) ∨ Arith.applyBin op l r = .err .divZero ∨
      Arith.applyBin op l r = .err .negExp := by
  cases op <;> simp only [Arith.applyBin] <;> (try split) <;> simp

example : Arith.applyBin .div Int64.minValue (-1) = .ok Int64.minValue := by decide
example : Arith.applyBin .mod Int64.minValue (-1) = .ok 0 := by decide
example : Arith.applyBin .shl 1 64 = .ok 1 := by decide

end BrushVerif.C01
