import BrushVerif.Model.Pattern
import BrushVerif.Spec.Glob
import BrushVerif.Proofs.Pattern
import BrushVerif.Gen.PatternTables
/-!
# C08 — glob, bracket and extglob patterns match exactly the strings bash matches

Theorems over `Model/Pattern.lean` (brush's pattern → regex translation, the anchoring/flags of the
compiled regex, a backtracking semantics of the emitted regex subset, the per-directory filter of
pathname expansion) against `Spec/Glob.lean` (the POSIX/bash whole-string matching relation).
Quantifiers: every pattern (any nesting), every subject string, extglob / nocasematch / dotglob on
and off.

The code violates the full statement in two independent ways, each with a proved counter-example
(`not_group_cex`, `nocase_class_cex`); the proved `_partial` theorems carry the corresponding
decidable guards. Repaired since: line anchoring under `(?ms)` (`exact_match_is_whole_string` holds
for every subject), a leading `]` in a bracket expression (`bracket_leading_rbracket`), and the regex
crate's private class syntax leaking through (`bracket_text_is_plain`, `caretFirst_false`).
-/
namespace BrushVerif.C08
open BrushVerif.Wire BrushVerif.Pattern BrushVerif.Glob

/-! ## the translation is correct on the fragment without `!(…)` -/

/-- Core refinement: for a pattern without `!(…)` (and without named classes when matching case-
insensitively) the remainders the emitted regex can leave are exactly the suffixes left by a prefix
that the pattern matches by the POSIX definition. Any nesting of `?( ) *( ) +( ) @( )`. -/
theorem toRe_correct_partial (nc : Bool) : ∀ (p : Pat), p.hasBang = false → ClsOk nc p →
    ∀ s r : Str, (r ∈ (toRe p).run nc s ↔ ∃ x, s = x ++ r ∧ Matches nc p x) := by
  intro p
  induction p with
  | eps =>
    intro _ _ s r
    simp only [toRe, Re.run, List.mem_singleton, Matches]
    constructor
    · rintro rfl; exact ⟨[], rfl, rfl⟩
    · rintro ⟨x, hs, rfl⟩; simpa using hs.symm
  | lit c =>
    intro _ _ s r
    simp only [toRe, Matches]
    constructor
    · intro h
      cases s with
      | nil => simp [Re.run] at h
      | cons d t =>
        simp only [Re.run] at h
        split at h
        · simp at h; subst h; exact ⟨[d], rfl, d, rfl, by assumption⟩
        · simp at h
    · rintro ⟨x, hs, d, rfl, he⟩
      subst hs
      simp [Re.run, he]
  | any =>
    intro _ _ s r
    simp only [toRe, Matches]
    constructor
    · intro h
      cases s with
      | nil => simp [Re.run] at h
      | cons d t => simp [Re.run] at h; subst h; exact ⟨[d], rfl, d, rfl⟩
    · rintro ⟨x, hs, d, rfl⟩
      subst hs
      simp [Re.run]
  | many =>
    intro _ _ s r
    have hrun : (Re.star Re.any).run nc s = starGo (Re.run nc .any) s.length s := by simp only [Re.run]
    simp only [toRe, Matches, and_true]
    rw [hrun, starGo_any nc s.length s (Nat.le_refl _) r]
    constructor
    · rintro ⟨x, hx⟩; exact ⟨x, hx.symm⟩
    · rintro ⟨x, hx⟩; exact ⟨x, hx.symm⟩
  | bracket inv ms =>
    intro _ hc s r
    have hfc : ∀ d, memB nc true ms d = memB nc false ms d := fun d =>
      memB_fc nc ms d (by rcases hc with h | h; exact Or.inl h; exact Or.inr (by simpa [Pat.hasCls] using h))
    simp only [toRe, Matches]
    by_cases hms : ms.isEmpty = true
    · have hnil : ms = [] := List.isEmpty_iff.mp hms
      subst hnil
      cases inv with
      | true =>
        simp only [List.isEmpty_nil, ite_true]
        constructor
        · intro h
          cases s with
          | nil => simp [Re.run] at h
          | cons d t => simp [Re.run] at h; subst h; exact ⟨[d], rfl, d, rfl, by simp [memB]⟩
        · rintro ⟨x, hs, d, rfl, _⟩
          subst hs
          simp [Re.run]
      | false =>
        simp only [List.isEmpty_nil, ite_true]
        constructor
        · intro h; simp [Re.run] at h
        · rintro ⟨x, _, d, _, hm⟩; simp [memB] at hm
    · simp only [hms]
      constructor
      · intro h
        cases s with
        | nil => simp [Re.run] at h
        | cons d t =>
          simp only [Re.run, Bool.false_eq_true, ite_false] at h
          split at h
          · rename_i hm
            simp at h; subst h
            exact ⟨[d], rfl, d, rfl, by rw [← hfc d]; exact hm⟩
          · simp at h
      · rintro ⟨x, hs, d, rfl, hm⟩
        subst hs
        rw [← hfc d] at hm
        simp [Re.run, hm]
  | seq a b iha ihb =>
    intro hb hc s r
    have hb' : a.hasBang = false ∧ b.hasBang = false := by simpa [Pat.hasBang] using hb
    have hca : ClsOk nc a := by
      rcases hc with h | h
      · exact Or.inl h
      · exact Or.inr (by simp [Pat.hasCls] at h; exact h.1)
    have hcb : ClsOk nc b := by
      rcases hc with h | h
      · exact Or.inl h
      · exact Or.inr (by simp [Pat.hasCls] at h; exact h.2)
    simp only [toRe, Re.run, List.mem_flatMap, Matches]
    constructor
    · rintro ⟨t, ht, hr⟩
      obtain ⟨x, hs, hx⟩ := (iha hb'.1 hca s t).mp ht
      obtain ⟨y, ht', hy⟩ := (ihb hb'.2 hcb t r).mp hr
      exact ⟨x ++ y, by rw [hs, ht']; simp, x, y, rfl, hx, hy⟩
    · rintro ⟨z, hs, x, y, rfl, hx, hy⟩
      refine ⟨y ++ r, (iha hb'.1 hca s _).mpr ⟨x, by rw [hs]; simp, hx⟩, (ihb hb'.2 hcb _ r).mpr ⟨y, rfl, hy⟩⟩
  | alt a b iha ihb =>
    intro hb hc s r
    have hb' : a.hasBang = false ∧ b.hasBang = false := by simpa [Pat.hasBang] using hb
    have hca : ClsOk nc a := by
      rcases hc with h | h
      · exact Or.inl h
      · exact Or.inr (by simp [Pat.hasCls] at h; exact h.1)
    have hcb : ClsOk nc b := by
      rcases hc with h | h
      · exact Or.inl h
      · exact Or.inr (by simp [Pat.hasCls] at h; exact h.2)
    simp only [toRe, Re.run, List.mem_append, Matches]
    rw [iha hb'.1 hca s r, ihb hb'.2 hcb s r]
    constructor
    · rintro (⟨x, hs, hx⟩ | ⟨x, hs, hx⟩)
      · exact ⟨x, hs, Or.inl hx⟩
      · exact ⟨x, hs, Or.inr hx⟩
    · rintro ⟨x, hs, hx | hx⟩
      · exact Or.inl ⟨x, hs, hx⟩
      · exact Or.inr ⟨x, hs, hx⟩
  | group0 k =>
    intro hb _ s r
    have one : ∀ t : Str, (Re.grp Re.eps).run nc t = [t] := fun t => by simp [Re.run]
    have key : (r = s ↔ ∃ x, s = x ++ r ∧ x = []) := by
      constructor
      · rintro rfl; exact ⟨[], rfl, rfl⟩
      · rintro ⟨x, hs, rfl⟩; simpa using hs.symm
    cases k with
    | bang => simp [Pat.hasBang] at hb
    | «at» => simp only [toRe, Matches, one, List.mem_singleton]; exact key
    | quest => simp only [toRe, Matches, Re.run, List.mem_append, List.mem_singleton, or_self]; exact key
    | star =>
      simp only [toRe, Matches, Re.run]
      rw [starGo_noprogress _ (fun t => by simp [Re.run]) _ s]
      simp only [List.mem_singleton]; exact key
    | plus =>
      simp only [toRe, Matches, Re.run, List.flatMap_cons, List.flatMap_nil, List.append_nil]
      rw [starGo_noprogress _ (fun t => by simp [Re.run]) _ s]
      simp only [List.mem_singleton]; exact key
  | group k b ih =>
    intro hb hc s r
    cases k with
    | bang => simp [Pat.hasBang] at hb
    | «at» =>
      have hb' : b.hasBang = false := by simpa [Pat.hasBang] using hb
      have hcb : ClsOk nc b := by rcases hc with h | h; exact Or.inl h; exact Or.inr (by simpa [Pat.hasCls] using h)
      simp only [toRe, Matches, grp_run]
      exact ih hb' hcb s r
    | quest =>
      have hb' : b.hasBang = false := by simpa [Pat.hasBang] using hb
      have hcb : ClsOk nc b := by rcases hc with h | h; exact Or.inl h; exact Or.inr (by simpa [Pat.hasCls] using h)
      simp only [toRe, Matches, Re.run, List.mem_append, List.mem_singleton]
      rw [ih hb' hcb s r]
      constructor
      · rintro (⟨x, hs, hx⟩ | rfl)
        · exact ⟨x, hs, Or.inr hx⟩
        · exact ⟨[], rfl, Or.inl rfl⟩
      · rintro ⟨x, hs, rfl | hx⟩
        · right; simpa using hs.symm
        · exact Or.inl ⟨x, hs, hx⟩
    | star =>
      have hb' : b.hasBang = false := by simpa [Pat.hasBang] using hb
      have hcb : ClsOk nc b := by rcases hc with h | h; exact Or.inl h; exact Or.inr (by simpa [Pat.hasCls] using h)
      simp only [toRe, Matches, Re.run, grp_run]
      rw [starGo_iff _ (Matches nc b) (ih hb' hcb) s.length s (Nat.le_refl _) r]
      constructor
      · rintro ⟨parts, hs, hall⟩; exact ⟨parts.flatten, hs, parts, rfl, hall⟩
      · rintro ⟨x, hs, parts, rfl, hall⟩; exact ⟨parts, hs, hall⟩
    | plus =>
      have hb' : b.hasBang = false := by simpa [Pat.hasBang] using hb
      have hcb : ClsOk nc b := by rcases hc with h | h; exact Or.inl h; exact Or.inr (by simpa [Pat.hasCls] using h)
      simp only [toRe, Matches, Re.run, grp_run, List.mem_flatMap]
      constructor
      · rintro ⟨t, ht, hr⟩
        obtain ⟨x, hs, hx⟩ := (ih hb' hcb s t).mp ht
        obtain ⟨parts, hp, hall⟩ :=
          (starGo_iff _ (Matches nc b) (ih hb' hcb) t.length t (Nat.le_refl _) r).mp hr
        refine ⟨(x :: parts).flatten, by rw [hs, hp]; simp, x :: parts, by simp, rfl, ?_⟩
        intro y hy
        rcases List.mem_cons.mp hy with rfl | hy
        · exact hx
        · exact hall y hy
      · rintro ⟨z, hs, parts, hne, rfl, hall⟩
        obtain ⟨x, ps, rfl⟩ := List.exists_cons_of_ne_nil hne
        refine ⟨ps.flatten ++ r, (ih hb' hcb s _).mpr ⟨x, by rw [hs]; simp, hall x (List.mem_cons_self ..)⟩, ?_⟩
        exact (starGo_iff _ (Matches nc b) (ih hb' hcb) _ _ (Nat.le_refl _) r).mpr
          ⟨ps, rfl, fun y hy => hall y (List.mem_cons_of_mem _ hy)⟩

/-- non-vacuity: a nested extglob pattern inside the guard, and the theorem's two sides on it -/
example : (parsePat true "a*(b|?c)[!x]".toList).hasBang = false ∧ ClsOk true (parsePat true "a*(b|?c)[!x]".toList) := by
  decide +kernel

/-- The emitted regex, anchored to the whole subject, decides POSIX matching (no `!(…)`). -/
theorem full_match_correct_partial (nc : Bool) (p : Pat) (hb : p.hasBang = false) (hc : ClsOk nc p)
    (s : Str) : (toRe p).full nc s = true ↔ Matches nc p s := by
  simp only [Re.full, List.any_eq_true, List.isEmpty_iff]
  constructor
  · rintro ⟨r, hr, rfl⟩
    obtain ⟨x, hs, hx⟩ := (toRe_correct_partial nc p hb hc s []).mp hr
    simp at hs; subst hs; exact hx
  · intro h
    exact ⟨[], (toRe_correct_partial nc p hb hc s []).mpr ⟨s, by simp, h⟩, rfl⟩

/-! ## anchoring: a match must cover the whole string, not one line of it -/

private theorem anchoredSearch_false (nc : Bool) (re : Re) :
    ∀ s : Str, anchoredSearch nc re false s = false := by
  intro s
  induction s with
  | nil => simp [anchoredSearch]
  | cons c t ih => simp [anchoredSearch, ih]

/-- What brush computes for `case` / `[[ == ]]` / `${v#p}` / pathname components — the regex
`(?s)^…$` searched at every offset of the subject — is whole-string matching by the emitted regex,
for **every** subject (newlines included) and every regex of the emitted subset: no later start
offset can contribute, and only an empty remainder satisfies `$`. (Before the repair of
`compile_regex` the flags were `(?ms)` and this failed on `abc` / `x\nabc`.) -/
theorem exact_match_is_whole_string (nc : Bool) (re : Re) (s : Str) :
    anchoredSearch nc re true s = re.full nc s := by
  cases s with
  | nil => simp [anchoredSearch, Re.full]
  | cons c t => simp [anchoredSearch, Re.full, anchoredSearch_false]

/-- the former counter-example, now a positive fact: `case $'x\nabc' in abc)` does not match, while
`?` and `*` still match a newline -/
theorem line_of_subject_does_not_match :
    exactlyMatches false false "abc".toList "x\nabc".toList = false ∧
    exactlyMatches false false "abc".toList "abc\n".toList = false ∧
    exactlyMatches false false "x?abc".toList "x\nabc".toList = true ∧
    exactlyMatches false false "*c".toList "x\nabc".toList = true ∧
    exactlyMatches false false "[!a]".toList "\n".toList = true := by
  decide +kernel

/-- End to end for one pattern text: brush's `Pattern::exactly_matches` (parse, translate, anchor,
search) agrees with the POSIX relation on the parsed pattern — for every text whose parse has no
`!(…)`, every subject (any characters, newlines included), nocasematch only without named classes. -/
theorem exactly_matches_correct_partial (ext nc : Bool) (p s : Str)
    (hb : (parsePat ext p).hasBang = false) (hc : ClsOk nc (parsePat ext p)) :
    exactlyMatches ext nc p s = true ↔ Matches nc (parsePat ext p) s := by
  unfold exactlyMatches
  rw [exact_match_is_whole_string nc _ s]
  exact full_match_correct_partial nc _ hb hc s

example : (parsePat true "+(a|b)?".toList).hasBang = false ∧ ClsOk false (parsePat true "+(a|b)?".toList) ∧
    exactlyMatches true false "+(a|b)?".toList "ab\n".toList = true := by decide +kernel

/-! ## the three other defects -/

/-- the alternatives of `!(a|ab)` -/
def aOrAb : Pat := .alt (.lit 'a') (.seq (.lit 'a') (.lit 'b'))

/-- full statement for negation groups: the regex for `!(alts)` matches exactly the strings no
alternative matches -/
def not_group_is_complement_full : Prop :=
  ∀ (nc : Bool) (b : Pat) (s : Str), b.hasBang = false → ClsOk nc b →
    ((toRe (.group .bang b)).full nc s = true ↔ ¬ Matches nc b s)

/-- `case ab in !(a|ab))` matches in brush: the atomic group commits to the alternative `a`, after
which `.+?` consumes the rest -/
theorem not_group_cex : ¬ not_group_is_complement_full := by
  intro h
  have h1 := h false aOrAb "ab".toList (by decide +kernel) (by decide +kernel)
  have h2 : (toRe (.group .bang aOrAb)).full false "ab".toList = true := by
    decide +kernel
  have h3 : Matches false aOrAb "ab".toList :=
    Or.inr ⟨['a'], ['b'], rfl, ⟨'a', rfl, by decide +kernel⟩, ⟨'b', rfl, by decide +kernel⟩⟩
  exact (h1.mp h2) h3

/-- `!(*)` matches the empty string in brush (the trailing empty alternative of the encoding) -/
theorem not_group_empty_cex :
    (toRe (.group .bang .many)).full false [] = true ∧ ¬ Matches false (.group .bang .many) [] := by
  constructor
  · decide +kernel
  · simp [Matches]

/-! ## bracket expressions: the repaired readings (formerly counter-examples) -/

/-- A `]` right after `[`, `[!` or `[^` is a member: `[]]` matches `]`, `[!]]` does not, `[]a]` matches
both, `[]-a]` is the range from `]` to `a`; brush and the POSIX reading agree. -/
theorem bracket_leading_rbracket :
    exactlyMatches false false "[]]".toList "]".toList = true ∧
    specMatches false false "[]]".toList "]".toList = some true ∧
    patternToRegexStr false "[]]".toList = "[\\]]".toList ∧
    exactlyMatches false false "[!]]".toList "]".toList = false ∧
    exactlyMatches false false "[!]]".toList "a".toList = true ∧
    exactlyMatches false false "[]a]".toList "a".toList = true ∧
    exactlyMatches false false "[]-a]".toList "^".toList = true ∧
    exactlyMatches false false "[]".toList "[]".toList = true ∧
    specParse false "[]a]".toList = some (parsePat false "[]a]".toList) := by
  decide +kernel

/-- What reaches the regex crate as class text is free of its private syntax: `\a` is the letter,
`--`/`&&`/`~~` are members or ranges, a `^` left in front by a dropped reversed range is a member. -/
theorem bracket_text_is_plain :
    patternToRegexStr false "[\\a\\!\\<]".toList = "[a\\!<]".toList ∧
    exactlyMatches false false "[\\a]".toList "a".toList = true ∧
    patternToRegexStr false "[a!--]".toList = "[a!-\\-]".toList ∧
    exactlyMatches false false "[a!--]".toList ",".toList = true ∧
    patternToRegexStr false "[--]".toList = "[-\\-]".toList ∧
    patternToRegexStr false "[a&&b~]".toList = "[a\\&\\&b\\~]".toList ∧
    exactlyMatches false false "[a&&b]".toList "&".toList = true ∧
    patternToRegexStr false "[b-a^x]".toList = "[\\^x]".toList ∧
    exactlyMatches false false "[b-a^x]".toList "x".toList = true ∧
    exactlyMatches false false "[b-a^x]".toList "a".toList = false := by
  decide +kernel

/-- For **every** parsed pattern: the text of a non-inverted class never starts with `^` (each member
text starts with a backslash, `[`, or a character other than `^`), so the regex crate can never read
a member as a negation mark — whatever ranges were dropped in front of it. -/
theorem caretFirst_false : ∀ p : Pat, p.caretFirst = false := by
  intro p
  induction p with
  | bracket inv ms =>
    simp only [Pat.caretFirst]
    cases h : renderMembers ms with
    | nil => simp
    | cons c t =>
      have : c ≠ '^' := fun e => renderMembers_ne_caret ms t (e ▸ h)
      cases inv <;> simp [this]
  | seq a b iha ihb => simp [Pat.caretFirst, iha, ihb]
  | alt a b iha ihb => simp [Pat.caretFirst, iha, ihb]
  | group k b ih => simp [Pat.caretFirst, ih]
  | _ => simp [Pat.caretFirst]

example : (parsePat false "[b-a^x]".toList) = .seq (.bracket false [.single ⟨false, '^'⟩, .single ⟨false, 'x'⟩]) .eps := by
  decide +kernel

/-- with nocasematch the regex engine folds named classes (`[[:upper:]]` matches `a`); bash does not -/
theorem nocase_class_cex :
    (toRe (.bracket false [.cls "upper".toList])).full true ['a'] = true ∧
    ¬ Matches true (.bracket false [.cls "upper".toList]) ['a'] := by
  constructor
  · decide +kernel
  · rintro ⟨d, hd, hm⟩
    have hda : d = 'a' := by injection hd with h _; exact h.symm
    subst hda
    revert hm
    decide +kernel

/-! ## the executable oracle is the relation -/

/-- `matchB` (what the driver reports as the bash prediction) decides `Matches`, for every pattern
including `!(…)` -/
theorem matchB_iff (nc : Bool) : ∀ (p : Pat) (s : Str), matchB nc p s = true ↔ Matches nc p s := by
  intro p
  induction p with
  | eps => intro s; simp [matchB, Matches]
  | lit c =>
    intro s
    simp only [Matches]
    constructor
    · intro h
      match s, h with
      | [d], h => exact ⟨d, rfl, by simpa [matchB] using h⟩
    · rintro ⟨d, rfl, he⟩; simpa [matchB] using he
  | any =>
    intro s
    simp only [Matches]
    constructor
    · intro h
      match s, h with
      | [d], _ => exact ⟨d, rfl⟩
    · rintro ⟨d, rfl⟩; simp [matchB]
  | many => intro s; simp [matchB, Matches]
  | bracket inv ms =>
    intro s
    simp only [Matches]
    constructor
    · intro h
      match s, h with
      | [d], h => exact ⟨d, rfl, by simpa [matchB] using h⟩
    · rintro ⟨d, rfl, he⟩; simpa [matchB] using he
  | seq a b iha ihb =>
    intro s
    simp only [matchB, Matches, List.any_eq_true, Bool.and_eq_true, Prod.exists]
    constructor
    · rintro ⟨x, y, hxy, hx, hy⟩
      exact ⟨x, y, (mem_splits s x y).mp hxy, (iha x).mp hx, (ihb y).mp hy⟩
    · rintro ⟨x, y, hs, hx, hy⟩
      exact ⟨x, y, (mem_splits s x y).mpr hs, (iha x).mpr hx, (ihb y).mpr hy⟩
  | alt a b iha ihb => intro s; simp [matchB, Matches, iha s, ihb s]
  | group0 k => intro s; cases k <;> simp [matchB, Matches]
  | group k b ih =>
    intro s
    cases k with
    | «at» => simpa [matchB, Matches] using ih s
    | quest => simp [matchB, Matches, ih s]
    | bang => simp [matchB, Matches, ← ih s]
    | star =>
      simp only [matchB, Matches]
      exact iterB_iff _ _ ih _ s (Nat.le_refl _)
    | plus =>
      simp only [matchB, Matches]
      cases s with
      | nil =>
        simp only [List.isEmpty_nil, ite_true, ih []]
        constructor
        · intro h; exact ⟨[[]], by simp, by simp, by simpa using h⟩
        · rintro ⟨parts, hne, hs, hall⟩
          obtain ⟨x, ps, rfl⟩ := List.exists_cons_of_ne_nil hne
          have hx : x = [] := by
            have := hs.symm
            simp only [List.flatten_cons, List.append_eq_nil_iff] at this
            exact this.1
          subst hx
          exact hall [] (List.mem_cons_self ..)
      | cons c t =>
        simp only [List.isEmpty_cons, Bool.false_eq_true, ite_false]
        rw [iterB_iff _ _ ih _ (c :: t) (Nat.le_refl _)]
        constructor
        · rintro ⟨parts, hs, hall⟩
          refine ⟨parts, ?_, hs, hall⟩
          rintro rfl; simp at hs
        · rintro ⟨parts, _, hs, hall⟩; exact ⟨parts, hs, hall⟩

example : matchB false (.group .bang (.alt (.lit 'a') (.seq (.lit 'a') (.lit 'b')))) "b".toList = true := by decide +kernel

/-! ## patterns handed over in pieces

A pattern reaches the matcher as a list of pieces cut at every quoting / expansion boundary. Its
meaning is that of the concatenation of the pieces, quoted pieces escaped — never a piece-by-piece
affair: no consumer may decide anything (is this a literal? does it need expansion?) by looking at
the pieces one at a time. -/

private theorem foldl_escape (s acc : Str) :
    s.foldl (fun a c => if needsQuoting c then a ++ ['\\', c] else a ++ [c]) acc = acc ++ escapeLiteral s := by
  induction s generalizing acc with
  | nil => simp [escapeLiteral]
  | cons c t ih =>
    simp only [List.foldl_cons, ih, escapeLiteral, List.flatMap_cons]
    split <;> simp

private theorem piecesTextGo_eq (ps : List PatPiece) (acc : Str) :
    piecesTextGo acc ps = acc ++ joinPieces ps := by
  induction ps generalizing acc with
  | nil => simp [piecesTextGo, joinPieces]
  | cons p ps ih =>
    cases p with
    | lit l => simp [piecesTextGo, ih, foldl_escape, joinPieces, PatPiece.text]
    | pat t => simp [piecesTextGo, ih, joinPieces, PatPiece.text]

/-- the text `to_regex_str` accumulates is the concatenation of the pieces, quoted ones escaped -/
theorem piecesText_eq_join (ps : List PatPiece) : piecesText ps = joinPieces ps := by
  simp [piecesText, piecesTextGo_eq]

/-- Matching a piece list is matching the joined, quote-escaped text — for every piece list, every
subject, extglob / nocasematch on or off. -/
theorem pieces_match_is_joined_text (ext nc : Bool) (ps : List PatPiece) (s : Str) :
    piecesMatch ext nc ps s = exactlyMatches ext nc (joinPieces ps) s := by
  simp [piecesMatch, piecesText_eq_join]

private theorem escapeLiteral_append (a b : Str) : escapeLiteral (a ++ b) = escapeLiteral a ++ escapeLiteral b := by
  simp [escapeLiteral, List.flatMap_append]

/-- Where the boundaries between pieces fall is irrelevant: cutting an unquoted piece in two, or a
quoted piece in two, anywhere inside any piece list, changes no answer. (`[ab]`, `[a` `b]`, `[` `ab` `]`
are one pattern; a consumer that treats them differently is wrong.) -/
theorem cutting_a_piece_preserves_matching (ext nc : Bool) (ps qs : List PatPiece) (a b s : Str) :
    piecesMatch ext nc (ps ++ [.pat a, .pat b] ++ qs) s = piecesMatch ext nc (ps ++ [.pat (a ++ b)] ++ qs) s ∧
    piecesMatch ext nc (ps ++ [.lit a, .lit b] ++ qs) s = piecesMatch ext nc (ps ++ [.lit (a ++ b)] ++ qs) s := by
  simp [pieces_match_is_joined_text, joinPieces, PatPiece.text, escapeLiteral_append]

example : piecesMatch false false [.pat "[a".toList, .pat "b]".toList] ['b'] = true := by decide +kernel

/-- … and so a piece list means what POSIX says the joined text means (same guards as for one text) -/
theorem pieces_match_correct_partial (ext nc : Bool) (ps : List PatPiece) (s : Str)
    (hb : (parsePat ext (joinPieces ps)).hasBang = false) (hc : ClsOk nc (parsePat ext (joinPieces ps))) :
    piecesMatch ext nc ps s = true ↔ Matches nc (parsePat ext (joinPieces ps)) s := by
  rw [pieces_match_is_joined_text]
  exact exactly_matches_correct_partial ext nc _ s hb hc

/-- A construct cut by a quoting boundary has no piece that is a glob on its own, yet the pattern is
one: `[a"b"]` is the pieces `[a`, quoted `b`, `]`; no piece requires expansion, the joined text is
the bracket expression `[ab]`. A per-piece test ("no piece is a glob, so the word is a literal")
is therefore unsound for any consumer; `Pattern::expand` asks the joined text and expands. -/
theorem piecewise_glob_test_is_unsound :
    let ps := [PatPiece.pat "[a".toList, .lit "b".toList, .pat "]".toList]
    ps.any (PatPiece.requiresExpansion false) = false ∧
    hasGlob false (joinPieces ps) = true ∧
    piecesMatch false false ps ['b'] = true ∧ piecesMatch false false ps "[ab]".toList = false ∧
    expandPieces false false false ps ["a".toList, "b".toList, "c".toList] = some ["a".toList, "b".toList] := by
  decide +kernel

/-- The dot-file rule looks at the component's text (the pieces' texts joined, quoting undone) — for
every piece list, empty pieces included. -/
theorem dot_rule_reads_meaning (ps : List PatPiece) :
    componentStartsWithDot ps = startsWithDot (ps.flatMap PatPiece.raw) := by
  induction ps with
  | nil => simp [componentStartsWithDot, startsWithDot]
  | cons p ps ih =>
    cases hr : p.raw with
    | nil =>
      have : componentStartsWithDot (p :: ps) = componentStartsWithDot ps := by
        simp [componentStartsWithDot, List.find?_cons, hr]
      simp only [this, ih, List.flatMap_cons, hr, List.nil_append]
    | cons c t =>
      have : componentStartsWithDot (p :: ps) = startsWithDot (c :: t) := by
        simp [componentStartsWithDot, List.find?_cons, hr]
      simp only [this, List.flatMap_cons, hr, List.cons_append]
      unfold startsWithDot
      split <;> simp_all

/-- Pathname expansion of a one-component piece list is bash's, whenever the joined text requires
expansion: same guards as for matching (the two readings of the text agree, no `!(…)`, no named
class under nocase), any directory contents, dotglob on or off. -/
theorem expandPieces_eq_spec_partial (ext nc dotglob : Bool) (ps : List PatPiece) (names : List Str) (q : Pat)
    (hs : specParse ext (specPiecesText ps) = some q)
    (hp : eraseEsc q = eraseEsc (parsePat ext (joinPieces ps)))
    (hb : (parsePat ext (joinPieces ps)).hasBang = false) (hc : ClsOk nc (parsePat ext (joinPieces ps)))
    (hg : hasGlob ext (joinPieces ps) = true) :
    expandPieces ext nc dotglob ps names = specExpandPieces ext nc dotglob ps names := by
  have hm : ∀ n, piecesMatch ext nc ps n = matchB nc q n := by
    intro n
    rw [Bool.eq_iff_iff, matchB_iff, ← Matches_erase nc q n, hp, Matches_erase]
    exact pieces_match_correct_partial ext nc ps n hb hc
  simp only [expandPieces, specExpandPieces, piecesText_eq_join, hg, hs, Bool.not_true,
    Bool.false_eq_true, ite_false, Option.map_some]
  congr 2
  apply List.filter_congr
  intro n _
  rw [hm n]
  rw [dot_rule_reads_meaning]
  simp [Bool.or_assoc]

example :
    let ps := [PatPiece.pat "[a".toList, .lit "b".toList, .pat "]".toList]
    (specParse false (specPiecesText ps)).map eraseEsc = some (eraseEsc (parsePat false (joinPieces ps))) ∧
    hasGlob false (joinPieces ps) = true ∧ (parsePat false (joinPieces ps)).hasBang = false := by
  decide +kernel

/-- quoted text shaped like a pattern stays text: `x='@(a|b)'; [[ $x == "$x" ]]`, `"*"`, `"[ab]"` -/
theorem quoted_piece_shaped_like_a_pattern_is_literal :
    piecesMatch true false [.lit "@(a|b)".toList] "@(a|b)".toList = true ∧
    piecesMatch true false [.lit "@(a|b)".toList] ['a'] = false ∧
    piecesMatch true false [.lit "*".toList] "ab".toList = false ∧
    piecesMatch true false [.lit "[ab]".toList, .pat "*".toList] "[ab]c".toList = true ∧
    piecesMatch true false [.lit "[ab]".toList, .pat "*".toList] "ac".toList = false ∧
    piecesMatch true false [.lit "+".toList, .pat "(a)".toList] "+(a)".toList = true := by
  decide +kernel

/-- The code's reading of a piece list is bash's: whenever the two readings of the text agree on
the parse (up to how a bracket member was written: `eraseEsc`) (bash quotes every character of a quoted piece, brush the ones its grammar gives a
meaning to), and under the usual guards, matching the pieces is POSIX matching of that parse. -/
theorem quoted_pieces_are_literal_partial (ext nc : Bool) (ps : List PatPiece) (q : Pat) (s : Str)
    (hs : specParse ext (specPiecesText ps) = some q)
    (hp : eraseEsc q = eraseEsc (parsePat ext (joinPieces ps)))
    (hb : (parsePat ext (joinPieces ps)).hasBang = false) (hc : ClsOk nc (parsePat ext (joinPieces ps))) :
    specPiecesMatch ext nc ps s = some (piecesMatch ext nc ps s) := by
  have hm : piecesMatch ext nc ps s = matchB nc q s := by
    rw [Bool.eq_iff_iff, matchB_iff, ← Matches_erase nc q s, hp, Matches_erase]
    exact pieces_match_correct_partial ext nc ps s hb hc
  simp [specPiecesMatch, specMatches, hs, hm]

/-- the former counter-examples: a quoted `!`, `-`, `@`, `:` is a character, not an operator —
`["!"a]` does not negate, `[a"-"c]` is no range, `"@"` in front of a group is no extglob, `[[":"alpha:]]`
no class — and the hypotheses of the theorem above hold for them -/
theorem quoted_operator_is_literal :
    let neg := [PatPiece.pat "[".toList, .lit "!".toList, .pat "a]".toList]
    let rng := [PatPiece.pat "[a".toList, .lit "-".toList, .pat "c]".toList]
    let grp := [PatPiece.lit "@".toList, .pat "(a|b)".toList]
    let cls := [PatPiece.pat "[[".toList, .lit ":".toList, .pat "alpha:]]".toList]
    piecesMatch false false neg ['b'] = false ∧ piecesMatch false false neg ['!'] = true ∧
    (specParse false (specPiecesText neg)).map eraseEsc = some (eraseEsc (parsePat false (joinPieces neg))) ∧
    piecesMatch false false rng ['b'] = false ∧ piecesMatch false false rng ['-'] = true ∧
    (specParse false (specPiecesText rng)).map eraseEsc = some (eraseEsc (parsePat false (joinPieces rng))) ∧
    piecesMatch true false grp ['a'] = false ∧ piecesMatch true false grp "@(a|b)".toList = true ∧
    piecesMatch false false cls ['a'] = false ∧ piecesMatch false false cls "a]".toList = true := by
  decide +kernel

/-! ## the dot-file rule is about what the component means, not how its leading dot was written -/

/-- A component that starts with a dot admits dot-files whether the dot was written bare, quoted or
came out of a variable: with it in front, `dotglob` makes no difference — for every rest of the
component and every directory. -/
theorem leading_dot_admits_dotfiles_however_written (ext nc : Bool) (l : Str) (rest : List PatPiece)
    (names : List Str) :
    expandPieces ext nc false (.lit ('.' :: l) :: rest) names = expandPieces ext nc true (.lit ('.' :: l) :: rest) names ∧
    expandPieces ext nc false (.pat ('.' :: l) :: rest) names = expandPieces ext nc true (.pat ('.' :: l) :: rest) names := by
  simp [expandPieces, componentStartsWithDot, List.find?_cons, PatPiece.raw, startsWithDot]

/-- quoting a leading dot does not change which names a component matches (`'.'a*`, `"."a*`, `.a*`) -/
theorem quoted_leading_dot_matches_the_same_names :
    let names := ["a".toList, "ab".toList, ".a".toList, ".ab".toList, ".b".toList, "..x".toList]
    expandPieces false false false [.lit ".".toList, .pat "a*".toList] names = some [".a".toList, ".ab".toList] ∧
    expandPieces false false false [.pat ".a*".toList] names = some [".a".toList, ".ab".toList] ∧
    expandPieces false false false [.lit ".a".toList, .pat "*".toList] names = some [".a".toList, ".ab".toList] ∧
    specExpandPieces false false false [.lit ".".toList, .pat "a*".toList] names = some [".a".toList, ".ab".toList] ∧
    expandPieces false false false [.pat "[.]a*".toList] names = some [] ∧
    expandPieces false false false [.pat "*".toList] names = some ["a".toList, "ab".toList] := by
  decide +kernel

private theorem joinPieces_filter_nonempty (ps : List PatPiece) :
    joinPieces (ps.filter fun p => !p.raw.isEmpty) = joinPieces ps := by
  induction ps with
  | nil => rfl
  | cons p ps ih =>
    cases p with
    | lit l =>
      cases l with
      | nil => simpa [joinPieces, PatPiece.raw, PatPiece.text, escapeLiteral] using ih
      | cons c t => simpa [joinPieces, PatPiece.raw] using ih
    | pat l =>
      cases l with
      | nil => simpa [joinPieces, PatPiece.raw, PatPiece.text] using ih
      | cons c t => simpa [joinPieces, PatPiece.raw] using ih

private theorem flatMap_raw_filter_nonempty (ps : List PatPiece) :
    (ps.filter fun p => !p.raw.isEmpty).flatMap PatPiece.raw = ps.flatMap PatPiece.raw := by
  induction ps with
  | nil => rfl
  | cons p ps ih =>
    cases hr : p.raw with
    | nil => simp [List.filter_cons, hr, ih]
    | cons c t => simp [List.filter_cons, hr, ih]

/-- Empty pieces are irrelevant to pathname expansion: the piece `d/` leaves an empty piece at the
head of the next component (`d/'.'a*`), and it changes nothing — neither what matches nor the
dot-file rule. (Until the repair of `Pattern::expand` the rule read that empty piece and `d/'.'a*`
hid `d/.a`.) -/
theorem dot_rule_ignores_empty_pieces (ext nc dotglob : Bool) (ps : List PatPiece) (names : List Str) :
    expandPieces ext nc dotglob ps names =
      expandPieces ext nc dotglob (ps.filter fun p => !p.raw.isEmpty) names := by
  simp only [expandPieces, piecesText_eq_join, piecesMatch, dot_rule_reads_meaning,
    joinPieces_filter_nonempty, flatMap_raw_filter_nonempty]

/-- the former counter-example: `d/'.'a*` (second component: empty piece, quoted `.`, `a*`) lists the dot-files -/
theorem empty_first_piece_does_not_hide_dotfiles :
    expandPieces false false false [.pat [], .lit ".".toList, .pat "a*".toList] ["a".toList, ".a".toList, ".ab".toList]
      = some [".a".toList, ".ab".toList] := by
  decide +kernel

/-! ## matching does not depend on the execution context

`exactlyMatches`, `piecesMatch` and `expandPieces` are functions of the pattern text (or pieces), the
subject (or directory listing) and the listed options only; the one piece of state the real code
keeps between uses is the compiled-regex cache. Its key holds everything compilation depends on,
so no history of earlier uses — other patterns, the same pattern under other options, uses inside
functions or subshells that share the cache — can change an answer. -/

private theorem cacheGet_inv {β : Type} (compile : CKey → β) (cap : Nat) (c : List (CKey × β)) (k : CKey)
    (h : ∀ e ∈ c, e.2 = compile e.1) :
    (cacheGet compile cap c k).1 = compile k ∧ ∀ e ∈ (cacheGet compile cap c k).2, e.2 = compile e.1 := by
  unfold cacheGet
  split
  · rename_i e he
    have hk : e.1 = k := by simpa using List.find?_some he
    have hm : e ∈ c := List.mem_of_find?_eq_some he
    refine ⟨by rw [h e hm, hk], ?_⟩
    intro x hx
    rcases List.mem_cons.mp hx with rfl | hx
    · exact h _ hm
    · exact h x (List.mem_filter.mp hx).1
  · refine ⟨rfl, ?_⟩
    intro x hx
    have hx' := List.mem_of_mem_take hx
    rcases List.mem_cons.mp hx' with rfl | hx'
    · rfl
    · exact h x hx'

private theorem runCache_inv {β : Type} (compile : CKey → β) (cap : Nat) (ks : List CKey) :
    ∀ c : List (CKey × β), (∀ e ∈ c, e.2 = compile e.1) → runCache compile cap c ks = ks.map compile := by
  induction ks with
  | nil => intro c _; rfl
  | cons k ks ih =>
    intro c h
    have := cacheGet_inv compile cap c k h
    simp only [runCache, List.map_cons]
    rw [this.1, ih _ this.2]

/-- For every compile function, capacity and sequence of lookups (any patterns, any flags, in any
order, repeated or not): the cached answers are the fresh answers. -/
theorem regex_cache_is_transparent {β : Type} (compile : CKey → β) (cap : Nat) (ks : List CKey) :
    runCache compile cap [] ks = ks.map compile :=
  runCache_inv compile cap ks [] (by simp)

/-- non-vacuity: the same pattern under nocasematch off / on / off again, through a cache of one entry -/
example :
    let compile := fun k : CKey => exactlyMatches false k.nc k.text "AB".toList
    runCache compile 1 [] [⟨"a*".toList, false, true⟩, ⟨"a*".toList, true, true⟩, ⟨"a*".toList, false, true⟩,
      ⟨"a*".toList, true, true⟩] = [false, true, false, true] := by
  decide +kernel

/-! ## pathname expansion of one component in one directory -/

/-- everything returned is a directory entry that the component pattern matches -/
theorem globDir_sound (ext nc dotglob : Bool) (p : Str) (names : List Str) (n : Str)
    (h : n ∈ globDir ext nc dotglob p names) : n ∈ names ∧ exactlyMatches ext nc p n = true := by
  simp only [globDir, mem_sortStrs, List.mem_filter, Bool.and_eq_true] at h
  exact ⟨h.1, h.2.1⟩

/-- dot-files stay hidden unless `dotglob` is set or the component starts with a dot -/
theorem globDir_hides_dotfiles (ext nc : Bool) (p : Str) (names : List Str)
    (hp : startsWithDot p = false) : ∀ n ∈ globDir ext nc false p names, startsWithDot n = false := by
  intro n h
  simp only [globDir, mem_sortStrs, List.mem_filter, Bool.and_eq_true, hp, Bool.or_self,
    Bool.or_false, Bool.not_eq_true'] at h
  exact h.2.2

/-- nothing that qualifies is lost (sorting only permutes) -/
theorem globDir_complete (ext nc dotglob : Bool) (p : Str) (names : List Str) (n : Str)
    (hn : n ∈ names) (hm : exactlyMatches ext nc p n = true)
    (hd : startsWithDot n = false ∨ dotglob = true ∨ startsWithDot p = true) :
    n ∈ globDir ext nc dotglob p names := by
  simp only [globDir, mem_sortStrs, List.mem_filter, Bool.and_eq_true, Bool.or_eq_true,
    Bool.not_eq_true']
  exact ⟨hn, hm, hd⟩

example : globDir false false false "*".toList ["b".toList, ".a".toList, "a".toList] = ["a".toList, "b".toList] := by
  decide +kernel

/-! ## The character tables, regenerated from the source on every run

`Gen/PatternTables.lean` is written by `tools/c08gen.py` from `pattern.rs`, `regex.rs` and
`patterns.rs` each time the check runs.  The theorems below say that the hand-written predicates the
translation theorems are stated over accept exactly the regenerated sets — for every character, and
as sets (reordering the alternatives of a `matches!` does not disturb them). -/

section Tables
open BrushVerif.Gen.PatternTables

private theorem mem_iff_of_all {L1 L2 : List Char} (h1 : L1.all (fun c => L2.contains c) = true)
    (h2 : L2.all (fun c => L1.contains c) = true) (c : Char) : c ∈ L1 ↔ c ∈ L2 := by
  rw [List.all_eq_true] at h1 h2
  constructor
  · intro h; simpa using h1 c h
  · intro h; simpa using h2 c h

/-- `needsEsc` is the source's `regex_char_needs_escaping` -/
theorem needs_escaping_set_is_the_sources (c : Char) : needsEsc c = true ↔ c ∈ needsEscTable := by
  unfold needsEsc
  rw [decide_eq_true_iff]
  exact mem_iff_of_all (by decide) (by decide) c

/-- `isSpecial` is the source's `regex_char_is_special` -/
theorem special_set_is_the_sources (c : Char) : isSpecial c = true ↔ c ∈ specialTable := by
  unfold isSpecial
  rw [decide_eq_true_iff]
  exact mem_iff_of_all (by decide) (by decide) c

/-- the characters `pattern_text` quotes in a literal piece are the special ones plus the source's
extra list -/
theorem quoting_set_is_the_sources (c : Char) :
    needsQuoting c = true ↔ c ∈ specialTable ∨ c ∈ quotingExtraTable := by
  have hq : (c = '!' ∨ c = '-' ∨ c = '@' ∨ c = ':') ↔ c ∈ quotingExtraTable :=
    (show c ∈ ['!', '-', '@', ':'] ↔ _ from mem_iff_of_all (by decide) (by decide) c) |>.symm |>.symm
      |> fun h => ⟨fun hc => h.mp (by simpa using hc), fun hc => by simpa using h.mpr hc⟩
  unfold needsQuoting
  simp only [Bool.or_eq_true, decide_eq_true_eq, special_set_is_the_sources]
  constructor
  · rintro ((((h | h) | h) | h) | h)
    · exact .inl h
    all_goals exact .inr (hq.mp (by simp [h]))
  · rintro (h | h)
    · exact .inl (.inl (.inl (.inl h)))
    · rcases hq.mpr h with h | h | h | h
      · exact .inl (.inl (.inl (.inr h)))
      · exact .inl (.inl (.inr h))
      · exact .inl (.inr h)
      · exact .inr h

/-- how a single bracket member is written into the regex class follows the source's rule
`single_char_bracket_member`: an escaped member keeps its backslash iff it is ASCII punctuation
outside the source's exception list; an unescaped one (other than a leading `]`, which the grammar
handles by its own rule) gets a backslash iff it is in the source's list -/
theorem bracket_member_escape_is_the_sources (esc : Bool) (c : Char) (hc : c ≠ ']') :
    SM.render { esc := esc, c := c } =
      if esc then (if isAsciiPunct c && !(decide (c ∈ keepBackslashExceptTable)) then ['\\', c] else [c])
      else if c ∈ memberEscTable then ['\\', c] else [c] := by
  cases esc
  · by_cases h1 : c = '[' <;> by_cases h2 : c = '&' <;> by_cases h3 : c = '~' <;> by_cases h4 : c = '^' <;>
      simp [SM.render, memberEscTable, h1, h2, h3, h4, hc]
  · by_cases h1 : c = '<' <;> by_cases h2 : c = '>' <;>
      simp [SM.render, keepBackslashExceptTable, h1, h2]

example : needsEsc '-' = true ∧ isSpecial '-' = false ∧ needsQuoting '@' = true ∧
    SM.render { esc := true, c := '<' } = ['<'] ∧ SM.render { esc := false, c := '~' } = ['\\', '~'] := by decide

end Tables

end BrushVerif.C08
