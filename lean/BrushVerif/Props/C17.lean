import BrushVerif.Proofs.Jobs
/-!
# C17 — `wait` really waits: background work is complete when it returns

Property theorems over `Model/Jobs.lean` (which mirrors brush's `JobManager`, `Job::{poll_done,wait}`,
the `wait` builtin and `check_for_completed_jobs`).  Quantifiers: every job table, every set of
already completed tasks, every completion schedule (any order, any length), every history of
launches / completions / polls / waits / queries of any length.

What is proved is the bookkeeping:
* `wait_all_returns_only_after_all_finished`, `wait_all_returns_when_all_finish`,
  `wait_all_returns_at_once_when_all_finished`, `wait_all_blocks_while_a_job_is_unfinished` — `wait`
  returns exactly when every task of every job has completed, reports every job once, empties the table;
* `ids_distinct_full_cex` / `ids_distinct_partial` (guard `NoPoll`) / `ids_distinct_fixed` — live job
  numbers: false for the code's `len + 1` numbering once the between-commands poll has removed a job,
  true on poll-free histories, true on all histories for the `max + 1` numbering;
  `job_number_addresses_its_job` — with distinct numbers `%N` names exactly job `N`;
* `current_mark_unique`, `previous_mark_unique_cex` — one current job at most; the previous mark is not unique;
* `no_job_lost_or_removed_early`, `wait_returns_with_all_launched_work_done` — over whole histories no
  job is lost, duplicated, or removed before all its tasks completed, and after a returning `wait`
  everything launched so far is complete.
That a completed tokio task's effects (file writes, output) are visible to the foreground is a
runtime fact, observed end to end (marker files), not proved.
-/
namespace BrushVerif.C17
open BrushVerif.Jobs

/-! ## `wait` without arguments -/

/-- **`wait` returns only after every job has finished.**  If `wait_all` returns, it has consumed a
prefix `taken` of the environment's completion schedule, every task of every job in the table had
completed at that moment (`fin'` is exactly the old completed set plus `taken`), the table is empty
afterwards, and every job is reported exactly once, in table order. -/
theorem wait_all_returns_only_after_all_finished (t t' : Table) (swept : List Job)
    (fin sched fin' rest : List Nat) (h : waitAll t fin sched = some (t', swept, fin', rest)) :
    (∀ j ∈ t, ∀ k ∈ j.tasks, k ∈ fin') ∧
    (∃ taken, sched = taken ++ rest ∧ fin' = taken.reverse ++ fin) ∧
    t' = [] ∧ swept.map (·.tag) = t.map (·.tag) ∧ swept.map (·.id) = t.map (·.id) := by
  simp only [waitAll] at h
  split at h
  · cases h
  · rename_i r hr
    obtain ⟨e, taken, a1, a2, a3⟩ := waitJobs_some (t' := r.1) (fin' := r.2.1) (sched' := r.2.2) hr
    rw [e, sweep_cleared] at h
    simp only [Option.some.injEq, Prod.mk.injEq] at h
    obtain ⟨rfl, rfl, rfl, rfl⟩ := h
    refine ⟨a3, ⟨taken, a1, a2⟩, rfl, ?_, ?_⟩ <;> simp [cleared, Function.comp_def]

/-- **`wait` does return** once every job's tasks are completed or scheduled to complete — whatever
the order of the schedule (arbitrary durations and finishing orders). -/
theorem wait_all_returns_when_all_finish (t : Table) (fin sched : List Nat)
    (h : ∀ j ∈ t, ∀ k ∈ j.tasks, k ∈ fin ∨ k ∈ sched) : (waitAll t fin sched).isSome = true := by
  have := waitJobs_isSome h
  simp only [waitAll]
  split
  · rename_i hn; simp [hn] at this
  · rfl

/-- **`wait` does not wait longer than needed**: when every job has already finished it returns at
once, without any further completion having to happen. -/
theorem wait_all_returns_at_once_when_all_finished (t : Table) (fin sched : List Nat)
    (h : ∀ j ∈ t, ∀ k ∈ j.tasks, k ∈ fin) :
    waitAll t fin sched = some ([], t.map cleared, fin, sched) := by
  simp only [waitAll, waitJobs_of_mem sched h, sweep_cleared]

/-- **`wait` blocks for as long as some job is unfinished**: a task that neither has completed nor
ever completes keeps it from returning. -/
theorem wait_all_blocks_while_a_job_is_unfinished (t : Table) (fin sched : List Nat) (j : Job) (k : Nat)
    (hj : j ∈ t) (hk : k ∈ j.tasks) (h1 : ¬ k ∈ fin) (h2 : ¬ k ∈ sched) : waitAll t fin sched = none := by
  cases h : waitAll t fin sched with
  | none => rfl
  | some r =>
    obtain ⟨t', swept, fin', rest⟩ := r
    obtain ⟨a, ⟨taken, b1, b2⟩, _⟩ := wait_all_returns_only_after_all_finished _ _ _ _ _ _ _ h
    have := a j hj k hk
    rw [b2] at this
    rcases List.mem_append.mp this with h' | h'
    · exact absurd (by rw [b1]; exact List.mem_append_left _ (by simpa using h')) h2
    · exact absurd h' h1

/-- a table with three jobs (one of them with two tasks), completions arriving in the order
4, 2, 9, 1, 3: `wait` returns after consuming the schedule up to task 3, not before. -/
example :
    let j (i : Nat) (ts : List Nat) : Job := { id := i, ann := .none, state := .running, tasks := ts, tag := i, orig := ts }
    waitAll [j 1 [1], j 2 [2, 3], j 3 [4]] [] [4, 2, 9, 1, 3, 7] =
      some ([], [cleared (j 1 [1]), cleared (j 2 [2, 3]), cleared (j 3 [4])], [3, 1, 9, 2, 4], [7]) := by
  decide

/-- the second job's task is neither completed nor scheduled: `wait` never returns; and with
everything completed beforehand it returns without consuming the schedule -/
example :
    let j (i : Nat) (ts : List Nat) : Job := { id := i, ann := .none, state := .running, tasks := ts, tag := i, orig := ts }
    waitAll [j 1 [1], j 2 [2]] [] [1, 5] = none ∧
    waitAll [j 1 [1], j 2 [2]] [2, 1] [5] = some ([], [cleared (j 1 [1]), cleared (j 2 [2])], [2, 1], [5]) := by
  decide

/-! ## live jobs carry distinct job numbers -/

def IdsDistinct (s : St) : Prop := (ids s.table).Nodup

/-- the property at full strength, for the code's numbering (`len + 1`): **false** -/
def ids_distinct_full : Prop := ∀ ops : List Op, IdsDistinct (run (init .lenPlus1) ops)

/-- three jobs; the first finishes and is removed by the poll between commands; a fourth is launched
and gets number `len + 1 = 3` while the old job 3 is still live -/
def dupWitness : List Op :=
  [.launch 1 false, .launch 1 false, .launch 1 false, .finish 1, .poll, .launch 1 false]

theorem ids_distinct_full_cex : ¬ ids_distinct_full := by
  intro h
  have h' := h dupWitness
  have e : ids (run (init .lenPlus1) dupWitness).table = [2, 3, 3] := by decide
  simp [IdsDistinct, e] at h'

/-- guard of the partial theorem: nothing in the history removes finished jobs one by one — no
`check_for_completed_jobs` (script given with `-c` or as a file) and no `wait %spec` (which sweeps the
job it waited for): finished jobs leave the table only through plain `wait`, which empties it -/
def NoPoll (ops : List Op) : Prop := ∀ op ∈ ops, isPoll op = false

instance (ops : List Op) : Decidable (NoPoll ops) := by unfold NoPoll; infer_instance

private def LenInv (s : St) : Prop := s.rule = .lenPlus1 ∧ ids s.table = List.range' 1 s.table.length

private theorem lenInv_step {s s' : St} (h : StepRel s false s') (hi : LenInv s) : LenInv s' := by
  obtain ⟨hr, hi⟩ := hi
  cases h with
  | same => exact ⟨hr, hi⟩
  | blocked => exact ⟨hr, hi⟩
  | launch n st _ _ =>
    refine ⟨hr, ?_⟩
    simp only [ids_add, add_length, hr, nextId, hi, List.range'_concat]
    simp; omega
  | completes fin' _ => exact ⟨hr, hi⟩
  | waitAll fin' _ _ => exact ⟨hr, rfl⟩

/-- **distinct job numbers, partial**: on every history without a between-commands poll the live
jobs are numbered `1 … n` in table order — in particular pairwise distinct. -/
theorem ids_distinct_partial (ops : List Op) (h : NoPoll ops) :
    IdsDistinct (run (init .lenPlus1) ops) ∧
    ids (run (init .lenPlus1) ops).table = List.range' 1 (run (init .lenPlus1) ops).table.length := by
  have hinv : LenInv (run (init .lenPlus1) ops) :=
    run_invariant_on LenInv (fun op => isPoll op = false)
      (fun s op hq hi => lenInv_step (step_rel_nopoll s op hq) hi) ops h _ ⟨rfl, rfl⟩
  refine ⟨?_, hinv.2⟩
  simp only [IdsDistinct, hinv.2]
  exact List.nodup_range' 1

example : NoPoll [.launch 1 false, .launch 2 true, .finish 2, .query, .launch 1 false,
    .waitAll [4, 3, 2, 1]] := by decide

private def MaxInv (s : St) : Prop := s.rule = .maxPlus1 ∧ (ids s.table).Nodup

private theorem maxInv_step {s s' : St} {b : Bool} (h : StepRel s b s') (hi : MaxInv s) : MaxInv s' := by
  obtain ⟨hr, hi⟩ := hi
  cases h with
  | same => exact ⟨hr, hi⟩
  | blocked => exact ⟨hr, hi⟩
  | launch n st _ _ =>
    refine ⟨hr, ?_⟩
    simp only [ids_add, hr, nextId]
    refine List.nodup_append.mpr ⟨hi, by simp, ?_⟩
    intro a ha b hb
    simp only [List.mem_singleton] at hb
    simp only [ids, List.mem_map] at ha
    obtain ⟨j, hj, rfl⟩ := ha
    have := le_maxId hj
    omega
  | completes fin' _ => exact ⟨hr, hi⟩
  | poll => exact ⟨hr, (poll_kept_sublist (·.id) pollDone_id _ _).nodup hi⟩
  | waitAll fin' _ _ => exact ⟨hr, List.nodup_nil⟩
  | waitSpec i j fin' lw hj _ _ =>
    refine ⟨hr, ?_⟩
    have := map_set_cleared (·.id) (fun _ => rfl) hj
    have hsub := (sweep_kept_sublist (s.table.set i (cleared j))).map (·.id)
    simp only [ids] at hi ⊢
    rw [this] at hsub
    exact hsub.nodup hi
  | sweepOnly fin' lw _ =>
    have hsub : (ids (sweep s.table).1).Sublist (ids s.table) := (sweep_kept_sublist s.table).map _
    exact ⟨hr, hsub.nodup hi⟩

/-- **distinct job numbers, repaired numbering** (`max live id + 1`): on every history, polls
included, live jobs carry pairwise distinct numbers. -/
theorem ids_distinct_fixed (ops : List Op) : IdsDistinct (run (init .maxPlus1) ops) :=
  (run_invariant MaxInv (fun s op hi => maxInv_step (step_rel s op) hi) ops _ (show MaxInv (init .maxPlus1) from ⟨rfl, List.nodup_nil⟩)).2

example : ids (run (init .maxPlus1) dupWitness).table = [2, 3, 4] := by decide

/-- **a job number names its job**: when live numbers are distinct (poll-free histories, or the
repaired numbering), `%N` resolves to exactly the job carrying number `N` — every live job can be
waited for / killed / foregrounded by its number. -/
theorem job_number_addresses_its_job (t : Table) (h : (ids t).Nodup) (j : Job) (hj : j ∈ t) :
    ∃ i, resolveIdx t (.num j.id) = some i ∧ t[i]? = some j := by
  obtain ⟨n, hn, rfl⟩ := List.getElem_of_mem hj
  have hex : ∃ x, x ∈ t ∧ decide (x.id = t[n].id) = true := ⟨t[n], hj, by simp⟩
  have hlt := List.findIdx_lt_length_of_exists hex
  have hp := List.findIdx_getElem (w := hlt)
  simp only [decide_eq_true_eq] at hp
  have hi : (ids t)[List.findIdx (fun x => decide (x.id = t[n].id)) t]'(by simpa [ids] using hlt) =
      (ids t)[n]'(by simpa [ids] using hn) := by simpa [ids] using hp
  have := (List.getElem_inj h).mp hi
  refine ⟨n, ?_, by simp [hn]⟩
  simp only [resolveIdx]
  rw [this]
  simp [hn]

example :
    let t := (run (init .maxPlus1) dupWitness).table
    (ids t).Nodup ∧ t.length = 3 ∧ resolveIdx t (.num 4) = some 2 := by
  decide

/-- with the code's numbering the newest job of `dupWitness` cannot be addressed by its number:
`%3` names the older job 3 -/
example :
    let t := (run (init .lenPlus1) dupWitness).table
    t.map (fun j => (j.id, j.tag)) = [(2, 2), (3, 3), (3, 4)] ∧ resolveIdx t (.num 3) = some 1 := by
  decide

/-! ## current / previous marks -/

private theorem cur_step {s s' : St} {b : Bool} (h : StepRel s b s')
    (hi : (anns s.table).count .current ≤ 1) : (anns s'.table).count .current ≤ 1 := by
  cases h with
  | same => exact hi
  | blocked => exact hi
  | launch n st _ _ =>
    have := demote_no_current s.table hi
    simp only [anns] at this
    simp [addAsCurrent, anns, this]
  | completes fin' _ => exact hi
  | poll => exact Nat.le_trans (List.Sublist.count_le _ (poll_kept_sublist (·.ann) pollDone_ann _ _)) hi
  | waitAll fin' _ _ => simp [anns]
  | waitSpec i j fin' lw hj _ _ =>
    have := map_set_cleared (·.ann) (fun _ => rfl) hj
    have hsub := (sweep_kept_sublist (s.table.set i (cleared j))).map (·.ann)
    simp only [anns] at hi ⊢
    rw [this] at hsub
    exact Nat.le_trans (List.Sublist.count_le _ hsub) hi
  | sweepOnly fin' lw _ =>
    have hsub : (anns (sweep s.table).1).Sublist (anns s.table) := (sweep_kept_sublist s.table).map _
    exact Nat.le_trans (List.Sublist.count_le _ hsub) hi

/-- **at most one current job** (`%%`, `%+`), on every history and for either numbering -/
theorem current_mark_unique (r : IdRule) (ops : List Op) :
    (anns (run (init r) ops).table).count .current ≤ 1 :=
  run_invariant (fun s => (anns s.table).count .current ≤ 1) (fun s op hi => cur_step (step_rel s op) hi)
    ops _ (by simp [anns, init])

example : anns (run (init .lenPlus1) [.launch 1 false, .launch 1 false, .finish 2, .poll, .launch 1 false,
    .waitSpec .prev [1]]).table = [.current] := by decide

/-- the same for the previous mark (`%-`) is **false**: `add_as_current` demotes the current job
without clearing the older previous mark (bash keeps exactly one `-`). -/
def previous_mark_unique_full : Prop :=
  ∀ ops : List Op, (anns (run (init .lenPlus1) ops).table).count .previous ≤ 1

theorem previous_mark_unique_cex : ¬ previous_mark_unique_full := by
  intro h
  have h' := h [.launch 1 false, .launch 1 false, .launch 1 false]
  have e : anns (run (init .lenPlus1) [.launch 1 false, .launch 1 false, .launch 1 false]).table =
      [.previous, .previous, .current] := by decide
  simp [e] at h'

/-! ## none run twice or lost -/

/-- **No job is lost, duplicated or dropped early**, on every history and for either numbering:
the launched jobs `1 … n` are, each exactly once, either live in the table or among the removed
ones; a job is removed (by the poll or by `wait`'s sweep) only after every task it was created with
has completed; and a live job has given up only completed tasks. -/
theorem no_job_lost_or_removed_early (r : IdRule) (ops : List Op) :
    (tags (run (init r) ops).table ++ tags (run (init r) ops).gone).Perm
      (List.range' 1 (run (init r) ops).launched) ∧
    (∀ j ∈ (run (init r) ops).gone, ∀ k ∈ j.orig, k ∈ (run (init r) ops).fin) ∧
    (∀ j ∈ (run (init r) ops).table, ∀ k ∈ j.orig, k ∈ j.tasks ∨ k ∈ (run (init r) ops).fin) := by
  have hacc : Acct (run (init r) ops) :=
    run_invariant Acct (fun s op hi => acc_step (step_rel s op) hi) ops _ (acc_init r)
  refine ⟨?_, ?_, ?_⟩
  · rw [List.perm_iff_count]
    intro a
    rw [List.count_append]
    exact hacc.tagsCount a
  · intro j hj k hk
    rcases hacc.taskInv j (Or.inr hj) k hk with h | h
    · rw [hacc.goneEmpty j hj] at h; cases h
    · exact h
  · intro j hj k hk
    exact hacc.taskInv j (Or.inl hj) k hk

private theorem step_waitAll_table (s : St) (sched : List Nat)
    (h : (step s (.waitAll sched)).stuck = false) : (step s (.waitAll sched)).table = [] := by
  by_cases hs : s.stuck = true
  · simp [step, hs] at h
  · cases hw : waitAll s.table s.fin (validSched s sched) with
    | none => simp [step, hs, hw] at h
    | some r =>
      obtain ⟨t', swept, fin', rest⟩ := r
      obtain ⟨_, _, e, _⟩ := wait_all_returns_only_after_all_finished _ _ _ _ _ _ _ hw
      simp [step, hs, hw, e]

/-- **When `wait` returns, all background work launched so far is complete and accounted for**: after
any history that ends in a `wait` which returned, the table is empty, the removed jobs are exactly
the launched jobs `1 … n` (each once), and every task any of them was created with has completed. -/
theorem wait_returns_with_all_launched_work_done (r : IdRule) (ops : List Op) (sched : List Nat)
    (h : (run (init r) (ops ++ [.waitAll sched])).stuck = false) :
    (run (init r) (ops ++ [.waitAll sched])).table = [] ∧
    (tags (run (init r) (ops ++ [.waitAll sched])).gone).Perm
      (List.range' 1 (run (init r) (ops ++ [.waitAll sched])).launched) ∧
    (∀ j ∈ (run (init r) (ops ++ [.waitAll sched])).gone, ∀ k ∈ j.orig,
      k ∈ (run (init r) (ops ++ [.waitAll sched])).fin) := by
  have e : run (init r) (ops ++ [.waitAll sched]) = step (run (init r) ops) (.waitAll sched) := by
    simp [run, List.foldl_append]
  have ht : (run (init r) (ops ++ [.waitAll sched])).table = [] := by
    rw [e] at h ⊢; exact step_waitAll_table _ _ h
  obtain ⟨a, b, _⟩ := no_job_lost_or_removed_early r (ops ++ [.waitAll sched])
  refine ⟨ht, ?_, b⟩
  simpa [ht, tags] using a

/-- eight jobs launched from anywhere, completions in arbitrary order partly before and partly during
the `wait`, polls in between: the `wait` returns, and the statement above is about a real state -/
example :
    let ops : List Op := [.launch 1 false, .launch 1 false, .launch 1 false, .finish 2, .poll, .launch 1 false,
      .launch 1 false, .finish 5, .query, .launch 1 false, .launch 1 false, .poll, .launch 1 false]
    let s := run (init .lenPlus1) (ops ++ [.waitAll [8, 1, 7, 3, 6, 4]])
    s.stuck = false ∧ tags s.gone = [2, 5, 1, 3, 4, 6, 7, 8] ∧ s.launched = 8 := by
  decide

/-! ## `wait %spec` -/

/-- **`wait %N` waits for that job, returns its status and forgets it.**  Whenever `wait <spec>`
returns for a spec that names job `j`: every task of `j` has completed, the status of `wait` is the
exit code the job's last awaited task ended with, `j` has moved to the removed jobs, and no job that
has been waited to its end is left in the table (so `%N` no longer names it and its number is free). -/
theorem wait_spec_returns_the_jobs_status_and_forgets_it (s : St) (sp : Spec) (sched : List Nat)
    (i : Nat) (j : Job) (hs : s.stuck = false) (hres : resolveIdx s.table sp = some i)
    (hj : s.table[i]? = some j) (hret : (step s (.waitSpec sp sched)).stuck = false) :
    (∀ k ∈ j.tasks, k ∈ (step s (.waitSpec sp sched)).fin) ∧
    (step s (.waitSpec sp sched)).lastWait = waitStatus j ∧
    cleared j ∈ (step s (.waitSpec sp sched)).gone ∧
    (∀ j' ∈ (step s (.waitSpec sp sched)).table, j'.tasks ≠ []) := by
  cases hw : jobWait j s.fin (validSched s sched) with
  | none => simp [step, hs, hres, hj, hw] at hret
  | some r =>
    obtain ⟨e, taken, a1, a2, a3⟩ := jobWait_some (j' := r.1) (fin' := r.2.1) (sched' := r.2.2) hw
    have hi : i < s.table.length := by
      rcases Nat.lt_or_ge i s.table.length with h | h
      · exact h
      · simp [List.getElem?_eq_none h] at hj
    simp only [step, hs, Bool.false_eq_true, if_false, hres, hj, hw, e]
    refine ⟨fun k hk => List.mem_append_right _ (a3 k hk), trivial, ?_, fun j' h' => (mem_sweep_kept h').2⟩
    apply List.mem_append_right
    simp only [sweep, List.mem_filter]
    exact ⟨List.mem_set hi _, rfl⟩

/-- **an unknown job spec**: `wait` does not block, reports status 127, and touches no live job -/
theorem wait_unknown_spec_reports_127 (s : St) (sp : Spec) (sched : List Nat) (hs : s.stuck = false)
    (hres : resolveIdx s.table sp = none) :
    (step s (.waitSpec sp sched)).stuck = false ∧ (step s (.waitSpec sp sched)).lastWait = 127 ∧
    (step s (.waitSpec sp sched)).table = (sweep s.table).1 := by
  simp [step, hs, hres]

/-- job 1 ends with status 3: `wait %1` returns 3 and removes it, a second `wait %1` finds no such
job (127), and the next background job is number 1 again only when the table is empty — here job 2
is still live, so it becomes number 3 -/
example :
    let s1 := run (init .maxPlus1) [.launch 1 false 3, .launch 1 false 0, .waitSpec (.num 1) [1]]
    let s2 := step s1 (.waitSpec (.num 1) [])
    let s3 := step s2 (.launch 1 false 0)
    s1.lastWait = 3 ∧ ids s1.table = [2] ∧ s1.gone.map (·.tag) = [1] ∧ s2.lastWait = 127 ∧ ids s3.table = [2, 3] := by
  decide

private def LiveInv (s : St) : Prop :=
  ∀ j ∈ s.table, j.state ≠ .done ∧ (j.tasks = [] → j.orig = [])

private theorem live_step {s s' : St} {b : Bool} (h : StepRel s b s') (hi : LiveInv s) : LiveInv s' := by
  cases h with
  | same => exact hi
  | blocked => exact hi
  | launch n st code hst =>
    intro j hj
    simp only [addAsCurrent] at hj
    rcases List.mem_append.mp hj with hj | hj
    · obtain ⟨j0, hj0, e1, e2, e3, _⟩ := mem_demote hj
      rw [e1, e2, e3]; exact hi j0 hj0
    · simp only [List.mem_singleton] at hj
      subst hj
      exact ⟨hst, fun h => h⟩
  | completes fin' _ => exact hi
  | poll =>
    intro j hj
    have := mem_poll_kept hj
    exact ⟨this.1, fun h => absurd h this.2⟩
  | waitAll fin' _ _ => intro j hj; cases hj
  | waitSpec i j0 fin' lw hj0 _ _ =>
    intro j hj
    obtain ⟨hm, hne⟩ := mem_sweep_kept hj
    rcases List.mem_or_eq_of_mem_set hm with h | rfl
    · exact ⟨(hi j h).1, fun h' => absurd h' hne⟩
    · exact absurd rfl hne
  | sweepOnly fin' lw _ =>
    intro j hj
    obtain ⟨hm, hne⟩ := mem_sweep_kept hj
    exact ⟨(hi j hm).1, fun h' => absurd h' hne⟩

/-- **No job that has run to its end stays in the table** — on every history, for either numbering,
after every operation: each listed job is not `Done` and still holds a task of its own (unless it
was created without any).  In particular a job that `wait %N` has waited for is never listed,
addressable or counted again; finished jobs leave through the poll, `wait %spec` or `wait`. -/
theorem no_finished_job_stays_in_the_table (r : IdRule) (ops : List Op) :
    ∀ j ∈ (run (init r) ops).table, j.state ≠ .done ∧ (j.orig ≠ [] → j.tasks ≠ []) := by
  have h : LiveInv (run (init r) ops) :=
    run_invariant LiveInv (fun s op hi => live_step (step_rel s op) hi) ops _ (by intro j hj; cases hj)
  intro j hj
  exact ⟨(h j hj).1, fun ho ht => ho ((h j hj).2 ht)⟩

example :
    let s := run (init .maxPlus1) [.launch 1 false 0, .launch 1 false 7, .launch 1 false 0, .finish 2,
      .waitSpec .prev [1], .poll]
    s.table.map (fun j => (j.id, j.state, j.tasks)) = [(3, .running, [3])] ∧ s.gone.map (·.tag) = [1, 2] := by
  decide

/-! ## the execution context does not matter -/

private theorem step_query (s : St) : step s .query = s := by
  unfold step; split <;> rfl

private theorem run_queries (s : St) (qs : List Op) (h : ∀ q ∈ qs, q = .query) : run s qs = s := by
  induction qs with
  | nil => rfl
  | cons q qs ih =>
    have hq : q = .query := h q (List.mem_cons_self ..)
    subst hq
    simp only [run, List.foldl_cons, step_query]
    exact ih (fun q hq => h q (List.mem_cons_of_mem _ hq))

private theorem enter_queries (c : Ctx) : ∀ q ∈ c.enter, q = .query := by
  cases c <;> simp [Ctx.enter]

private theorem leave_queries (c : Ctx) : ∀ q ∈ c.leave, q = .query := by
  cases c <;> simp [Ctx.leave]

/-- **The result does not depend on the context wrapper.**  For every context executed by the
current shell (function, two functions deep, `eval`, brace group with redirects, loop body, last
pipeline stage under `lastpipe`, trap handler, sourced file), every state and every sequence of
job-table operations: issuing the operations from inside the context gives exactly the state that
issuing them at top level gives — launches get the same numbers, `wait` waits for the same jobs
and blocks in the same cases, polls and sweeps remove the same jobs. -/
theorem context_does_not_matter (c : Ctx) (hc : c.forks = false) (s : St) (ops : List Op) :
    runIn c s ops = run s ops := by
  simp only [runIn, hc, Bool.false_eq_true, if_false, wrap, run, List.foldl_append]
  have h1 := run_queries s c.enter (enter_queries c)
  simp only [run] at h1
  rw [h1]
  have h2 := run_queries (List.foldl step s ops) c.leave (leave_queries c)
  simp only [run] at h2
  exact h2

/-- three jobs launched and waited for from two functions deep: the state the theorem speaks about
is a real one (numbers 1 2 3, everything removed by the `wait`) -/
example :
    let ops : List Op := [.launch 1 false, .launch 1 false, .finish 1, .poll, .launch 1 false, .waitAll [3, 2]]
    (runIn .func2 (init .maxPlus1) ops).gone.map (fun j => (j.id, j.tag)) = [(1, 1), (2, 2), (3, 3)] ∧
    (runIn .func2 (init .maxPlus1) ops).table = [] ∧ (wrap .func2 ops).length = ops.length + 4 := by
  decide

/-- **A subshell / command substitution has its own, empty job table**: a `wait` issued there
returns at once whatever the parent's unfinished jobs (it cannot wait for them), and the parent's
table is untouched. -/
theorem wait_in_a_forked_context_ignores_the_parents_jobs (c : Ctx) (hc : c.forks = true) (s : St)
    (hs : s.stuck = false) (sched : List Nat) :
    (runIn c s [.waitAll sched]).stuck = false ∧ (runIn c s [.waitAll sched]).table = s.table ∧
    (runIn c s [.waitAll sched]).gone = s.gone := by
  simp [runIn, hc, run, step, forkChild, joinChild, hs, waitAll, waitJobs, sweep]

/-- the parent has an unfinished job (task 1 never completes): its own `wait` would block, the
subshell's does not -/
example :
    let s := run (init .maxPlus1) [.launch 1 false]
    (run s [.waitAll []]).stuck = true ∧ (runIn .subshell s [.waitAll []]).stuck = false ∧
    (runIn .subshell s [.waitAll []]).table = s.table := by
  decide

end BrushVerif.C17
