import BrushVerif.Proofs.Print
/-!
# C14 — printed function definitions re-parse to the same function

`Model/Print.lean` mirrors the `Display` impls of brush-parser/src/ast.rs (`printFn` is what
`declare -f`, `type` and the `BASH_FUNC_…%%` export write) and defines the token-level reader `lex`.
The property needs the printed text to cut into exactly the tokens the printer meant (adjacency) —
then the second parse sees the same words, operators and fd numbers.

* `lex_indent` — the indentation inserted by the block printers never changes the tokens (∀ texts).
* `lex_lines` — tokens never straddle a line break, so blocks can be read line by line.
* `lex_words` — a blank-separated word list (simple command, `for` values) reads back as those words.
* `lex_compound_redirs` — the redirect list that `Command::Compound` / `FunctionBody` /
  `RedirectList` write behind the closing word reads back as intended for **every** well-formed
  redirect list (fd numbers, digit targets, any length): one blank is written before each redirect
  (after the repair of `compound_redirect_adjacent`; before it this needed a guard and
  `done> /dev/null2>& 1` was a counter-example).
* `lex_pipeline_sep` — the ` | ` between pipeline stages is its own token whatever the next stage
  starts with (repair of `pipe_then_amp_redirect`).
* `for_in_distinguished` — `for v; do` and `for v in …; do` never print alike (repair of
  `for_without_in_prints_empty_list`).
* `procsub_word_reads_back` — a process substitution word prints `<( … )` (repair of
  `procsub_word_double_parens`).
* `lex_case_items`, `lex_case_clause`, `terminators_distinct` — a `case` item (patterns, body or empty
  body, each of `;;` `;&` `;;&`) reads back as its patterns, `)`, the body's tokens and the terminator.
* `export_text_importable_by_bash`, `export_wrap_tokens` — the `BASH_FUNC_…%%` text always starts with
  `() {`; a body that is not a brace group is exported as a brace group holding it (repair of
  `export_body_not_brace_group`).
* `declare_f_context_independent`, `declare_f_after_unset` — what `declare -f name` prints is a function of
  the last definition of `name` only: not of the table before, of earlier definitions / `unset -f`, or of
  any later step that does not define or unset `name` (the context sweep checks this on brush).
* `heredoc_indented_cex` — still open: a here-document inside a brace group is printed with its end
  tag indented: no line of the printed text is the tag, the document never ends.
-/
namespace BrushVerif.C14
open BrushVerif.Wire BrushVerif.Print

/-! ## indentation and line structure -/

/-- Wrapping printed text in `indenter::indented(f).with_str("    ")` does not change its tokens. -/
theorem lex_indent (s : Str) : lex (indent s) = lex s :=
  lexGo_indent s true false [] (fun _ => rfl)

example : lex (indent "a\n\nb > c".toList) = [.word ['a'], .nl, .nl, .word ['b'], .op ['>'], .word ['c']] := by
  decide

/-- Tokens never straddle a line break. -/
theorem lex_lines (a b : Str) : lex (a ++ '\n' :: b) = lex a ++ .nl :: lex b :=
  lexGo_newline_split a false [] b

example : lex ("do".toList ++ '\n' :: "x".toList) = [.word "do".toList, .nl, .word "x".toList] := by decide

/-! ## word lists -/

/-- A blank-separated list of plain words reads back as exactly those words
(`SimpleCommand`, `CommandPrefix/Suffix`, `ForClauseCommand` values, `[[ … ]]`). -/
theorem lex_words : ∀ (ws : List Str), (∀ w ∈ ws, Plain w) → lex (joinWords ws) = ws.map .word
  | [], _ => by simp [joinWords, lex, lexGo, emit]
  | [w], h => by
    simp only [joinWords, lex, List.map]
    exact lex_word_end w (h w (by simp))
  | w :: v :: ws, h => by
    simp only [joinWords, lex, List.map]
    rw [lex_word_blank w _ (h w (by simp))]
    have ih := lex_words (v :: ws) (fun x hx => h x (by simp [hx]))
    simp only [lex, List.map] at ih
    rw [ih]

example : (∀ w ∈ ["echo".toList, "$x".toList, "7".toList], Plain w) := by
  intro w hw
  simp only [List.mem_cons, List.not_mem_nil, or_false] at hw
  rcases hw with h | h | h <;> subst h <;> exact ⟨by decide, by decide⟩

/-! ## the redirect list of a compound command -/

/-- operator text of a redirect without process substitution / here-document -/
def redirOp : Redir → Str
  | .file _ kind _ => kind
  | .outErr app _ => "&>".toList ++ (if app then ['>'] else [])
  | .hereStr _ _ => "<<<".toList
  | _ => []

def redirTgt : Redir → Str
  | .file _ _ t => t
  | .outErr _ t => t
  | .hereStr _ w => w
  | _ => []

def redirFd : Redir → Option Str
  | .file fd _ _ => fd
  | .hereStr fd _ => fd
  | _ => none

/-- the tokens a redirect is meant to be read as -/
def toksRedir (r : Redir) : List Tok :=
  (match redirFd r with | some n => [.ionum n] | none => []) ++ [.op (redirOp r), .word (redirTgt r)]

def toksRedirs : Redirs → List Tok
  | .nil => []
  | .cons r rs => toksRedir r ++ toksRedirs rs

/-- a well-formed plain redirect: a real operator (starting with `<`, `>` or `&>`), a plain target, an fd of digits -/
def WfRedir (r : Redir) : Prop :=
  (match r with | .file _ _ _ => True | .outErr _ _ => True | .hereStr _ _ => True | _ => False) ∧
  OpStr (redirOp r) ∧ ((redirOp r).head? = some '<' ∨ (redirOp r).head? = some '>' ∨ redirFd r = none) ∧
  Plain (redirTgt r) ∧
  (∀ n, redirFd r = some n → Plain n ∧ n.all isDigitC = true)

def WfRs : Redirs → Prop
  | .nil => True
  | .cons r rs => WfRedir r ∧ WfRs rs

private theorem printRedir_shape (r : Redir) (h : WfRedir r) :
    printRedir r = fdStr (redirFd r) ++ (redirOp r ++ ' ' :: redirTgt r) := by
  cases r with
  | file fd kind tgt => simp [printRedir, redirFd, redirOp, redirTgt]
  | outErr app tgt => cases app <;> simp [printRedir, redirFd, redirOp, redirTgt, fdStr]
  | hereStr fd w => simp [printRedir, redirFd, redirOp, redirTgt]
  | filePs _ _ _ _ => exact absurd h.1 (by simp)
  | hereDoc _ _ _ _ => exact absurd h.1 (by simp)

private theorem plain_of_bool (w : Str) (h : (!w.isEmpty && w.all wordChar) = true) : Plain w := by
  simp only [Bool.and_eq_true, Bool.not_eq_true', List.all_eq_true] at h
  exact ⟨by intro e; subst e; simp at h, h.2⟩

private theorem opstr_of_bool (o : Str) (h : (!o.isEmpty && o.all isOpChar) = true) : OpStr o := by
  simp only [Bool.and_eq_true, Bool.not_eq_true', List.all_eq_true] at h
  exact ⟨by intro e; subst e; simp at h, h.2⟩

/-- **Full strength.** What `Command::Compound`, `FunctionBody` and `RedirectList` print behind the
closing word `w` of a compound command (`done`, `}`, `fi`, `esac`, `]]`) reads back as `w` followed
by exactly the intended redirect tokens — for every well-formed redirect list: fd numbers, digit
targets, any length. -/
theorem lex_compound_redirs : ∀ (rs : Redirs) (w : Str), Plain w → WfRs rs →
    lex (w ++ printRedirs rs) = .word w :: toksRedirs rs
  | .nil, w, hw, _ => by
    simp only [printRedirs, List.append_nil, toksRedirs, lex]
    exact lex_word_end w hw
  | .cons r rs, w, hw, hwf => by
    obtain ⟨hr, hrs⟩ := hwf
    have ih := lex_compound_redirs rs (redirTgt r) hr.2.2.2.1 hrs
    simp only [lex] at ih ⊢
    rw [printRedirs]
    simp only [redirSep, List.cons_append, List.nil_append, List.append_assoc]
    rw [lex_word_blank w _ hw, printRedir_shape r hr]
    cases hfd : redirFd r with
    | none =>
      simp only [fdStr, List.nil_append, List.append_assoc, List.cons_append]
      rw [lex_op_blank _ _ hr.2.1, ih]
      simp [toksRedirs, toksRedir, hfd]
    | some n =>
      obtain ⟨hn, hnd⟩ := hr.2.2.2.2 n hfd
      have hh : (redirOp r).head? = some '<' ∨ (redirOp r).head? = some '>' := by
        rcases hr.2.2.1 with h | h | h
        · exact Or.inl h
        · exact Or.inr h
        · rw [hfd] at h; cases h
      simp only [fdStr, List.append_assoc, List.cons_append]
      rw [lex_ionum_op n (redirOp r) _ hn hnd hr.2.1 hh, ih]
      simp [toksRedirs, toksRedir, hfd]

/-- the former counter-example: `… done >/dev/null 2>&1` -/
def cexRedirs : Redirs :=
  .cons (.file none [('>')] "/dev/null".toList) (.cons (.file (some ['2']) ">&".toList ['1']) .nil)

private theorem cexRedirs_wf : WfRs cexRedirs := by
  refine ⟨⟨trivial, ?_, ?_, ?_, ?_⟩, ⟨trivial, ?_, ?_, ?_, ?_⟩, trivial⟩
  · exact opstr_of_bool _ (by simp [redirOp]; decide)
  · simp [redirOp, redirFd]
  · exact plain_of_bool _ (by simp [redirTgt]; decide)
  · intro n h; simp [redirFd] at h
  · exact opstr_of_bool _ (by simp [redirOp]; decide)
  · simp [redirOp, redirFd]
  · exact plain_of_bool _ (by simp [redirTgt]; decide)
  · intro n h
    simp only [redirFd, Option.some.injEq] at h
    subst h
    exact ⟨plain_of_bool _ (by decide), by decide⟩

/-- non-vacuity, and the old witness now reads back as intended -/
example : lex ("done".toList ++ printRedirs cexRedirs) =
    [.word "done".toList, .op [('>')], .word "/dev/null".toList, .ionum ['2'], .op ">&".toList, .word ['1']] :=
  lex_compound_redirs cexRedirs _ (plain_of_bool _ (by decide)) cexRedirs_wf

/-- the whole function as brush prints it -/
example : printFn ['f'] (.forIn ['i'] true [['1']] (.cons (.mk 0 false (.simple .nil (some [':']) .nil) .nil) .nil false .nil))
    cexRedirs = "f () \nfor i in 1;\ndo\n    :\ndone > /dev/null 2>& 1".toList := by
  decide

/-! ## pipelines, `for`, process substitution words -/

/-- Tokens never straddle a blank. -/
theorem lex_blank_split (a b : Str) : lex (a ++ ' ' :: b) = lex a ++ lex b :=
  lexGo_blank_split a false [] b

/-- The ` | ` that `Pipeline::fmt` writes between two stages is a token of its own, whatever text
the stages are (in particular a stage starting with `&>`). -/
theorem lex_pipeline_sep (a t : Str) : lex (a ++ " | ".toList ++ t) = lex a ++ .op ['|'] :: lex t := by
  have h : a ++ " | ".toList ++ t = a ++ ' ' :: (['|'] ++ ' ' :: t) := by simp
  rw [h, lex_blank_split, lex_blank_split]
  have : lex ['|'] = [.op ['|']] := by decide
  rw [this]; rfl

/-- a stage that starts with `&>` stays apart from the `|` in front of it -/
example :
    lex (printPipeline (.mk 0 false (.simple .nil (some ['a']) .nil)
      (.cons (.simple (.cons (.redir (.outErr false ['o'])) .nil) (some ['p']) .nil) .nil))) =
    [.word ['a'], .op ['|'], .op "&>".toList, .word ['o'], .word ['p']] := by
  decide

/-- `for v; do` (iterate over the positional parameters) and `for v in …; do` never print alike. -/
theorem for_in_distinguished (v : Str) (ws : List Str) (body body' : Items) :
    printCompound (.forIn v false [] body) ≠ printCompound (.forIn v true ws body') := by
  intro h
  have h' : "for ".toList ++ v ++ ([] : Str) ++ ";\n".toList ++
        ("do\n".toList ++ indent (printItems body) ++ "\ndone".toList) =
      "for ".toList ++ v ++ (" in ".toList ++ joinWords ws) ++ ";\n".toList ++
        ("do\n".toList ++ indent (printItems body') ++ "\ndone".toList) := h
  simp only [List.append_assoc, List.nil_append] at h'
  have h2 := List.append_cancel_left (List.append_cancel_left h')
  simp at h2

example : printCompound (.forIn ['i'] false [] .nil) = "for i;\ndo\n\ndone".toList := by decide

/-- A process substitution word `<( list )` / `>( list )` reads back as the opening operator, the
tokens of the list, and one closing parenthesis — whatever the list is. -/
theorem procsub_word_tokens (dir t : Str) (hd : OpStr dir) :
    lex (dir ++ "( ".toList ++ t ++ " )".toList) = .op (dir ++ ['(']) :: (lex t ++ [.op [')']]) := by
  have h : dir ++ "( ".toList ++ t ++ " )".toList = (dir ++ ['(']) ++ ' ' :: (t ++ ' ' :: [')']) := by simp
  have ho : OpStr (dir ++ ['(']) := ⟨by simp, by
    intro c hc
    rcases List.mem_append.mp hc with h | h
    · exact hd.2 c h
    · simp at h; subst h; decide⟩
  rw [h]
  simp only [lex]
  rw [lex_op_blank _ _ ho, lexGo_blank_split]
  have : lexGo false [] [')'] = [.op [')']] := by decide
  rw [this]

/-- `cat <(echo)` is printed `cat <( echo )` and reads back as a process substitution of `echo`. -/
theorem procsub_word_reads_back :
    lex (printCmd (.simple .nil (some "cat".toList) (.cons (.procSub ['<']
      (.cons (.mk 0 false (.simple .nil (some "echo".toList) .nil) .nil) .nil false .nil)) .nil))) =
    [.word "cat".toList, .op "<(".toList, .word "echo".toList, .op ")".toList] := by
  decide

/-! ## case items: patterns, empty bodies, the three terminators -/

/-- the tokens a pattern list `a|b|c` is meant to be read as -/
def toksPats : List Str → List Tok
  | [] => []
  | [w] => [.word w]
  | w :: v :: ws => .word w :: .op ['|'] :: toksPats (v :: ws)

private theorem joinPats_head (v : Str) (ws : List Str) : ∃ t, joinPats (v :: ws) = v ++ t := by
  cases ws with
  | nil => exact ⟨[], by simp [joinPats]⟩
  | cons u us => exact ⟨'|' :: joinPats (u :: us), by simp [joinPats]⟩

private theorem lex_pats_close : ∀ (pats : List Str), pats ≠ [] → (∀ w ∈ pats, Plain w) → ∀ s : Str,
    lex (joinPats pats ++ ')' :: '\n' :: s) = toksPats pats ++ .op [')'] :: .nl :: lex s
  | [], h, _, _ => absurd rfl h
  | [w], _, h, s => by
    simp only [joinPats, toksPats, lex, List.cons_append, List.nil_append]
    rw [lex_word_opchar w _ ')' (h w (by simp)) (by decide) (by decide) (by decide), lexGo]
    simp [emit]
  | w :: v :: ws, _, h, s => by
    have ih := lex_pats_close (v :: ws) (by simp) (fun x hx => h x (by simp [hx])) s
    obtain ⟨t, ht⟩ := joinPats_head v ws
    simp only [joinPats, toksPats, lex, List.cons_append, List.append_assoc] at ih ⊢
    rw [lex_word_opchar w _ '|' (h w (by simp)) (by decide) (by decide) (by decide)]
    have hv : Plain v := h v (by simp)
    rw [ht, List.append_assoc, lexGo_op_word ['|'] v _ (by simp) hv, ← List.append_assoc, ← ht, ih]

private theorem lex_postStr : ∀ (post : Nat), lex (postStr post) = [.op (postStr post)]
  | 0 => by decide
  | 1 => by decide
  | n + 2 => by
    show lex ";;&".toList = [.op ";;&".toList]
    decide

private theorem printCaseItems_head (r : CaseItems) :
    printCaseItems r = [] ∨ ∃ t, printCaseItems r = '\n' :: t := by
  cases r with
  | nil => exact Or.inl rfl
  | cons pats hasBody body post rest => exact Or.inr ⟨_, rfl⟩

private theorem lex_append_line_start (a r : Str) (h : r = [] ∨ ∃ t, r = '\n' :: t) :
    lex (a ++ r) = lex a ++ lex r := by
  rcases h with h | ⟨t, h⟩
  · subst h; simp [lex, lexGo, emit]
  · subst h
    rw [lex_lines]
    have : lex ('\n' :: t) = .nl :: lex t := by
      have := lex_lines [] t
      simpa [lex, lexGo, emit] using this
    rw [this]

/-- **Case items.** What `CaseItem::fmt` / `CaseClauseCommand::fmt` print for one item — patterns joined
by `|`, `)`, the (possibly absent) body on its own indented lines, the terminator on its own line —
reads back as: a line break, the patterns with `|` between them, `)`, the body's tokens (none for an
empty body), and the terminator as one operator; then the remaining items.  For every pattern list
of plain words, every body, each terminator, with or without a body. -/
theorem lex_case_items (pats : List Str) (hasBody : Bool) (body : Items) (post : Nat) (rest : CaseItems)
    (hne : pats ≠ []) (hp : ∀ w ∈ pats, Plain w) :
    lex (printCaseItems (.cons pats hasBody body post rest)) =
      .nl :: (toksPats pats ++ .op [')'] :: .nl ::
        ((if hasBody then lex (printItems body) else []) ++ .nl :: .op (postStr post) ::
          lex (printCaseItems rest))) := by
  have hunf : printCaseItems (.cons pats hasBody body post rest) =
      indent ('\n' :: joinPats pats ++ ")\n".toList ++ (if hasBody then indent (printItems body) else []) ++
        '\n' :: postStr post) ++ printCaseItems rest := rfl
  rw [hunf, lex_append_line_start _ _ (printCaseItems_head rest), lex_indent]
  have h1 : ('\n' :: joinPats pats ++ ")\n".toList ++ (if hasBody then indent (printItems body) else []) ++
        '\n' :: postStr post) =
      [] ++ '\n' :: (joinPats pats ++ ')' :: '\n' :: ((if hasBody then indent (printItems body) else []) ++
        '\n' :: postStr post)) := by simp
  rw [h1, lex_lines, lex_pats_close pats hne hp, lex_lines, lex_postStr]
  have h2 : lex (if hasBody then indent (printItems body) else []) =
      (if hasBody then lex (printItems body) else []) := by
    cases hasBody
    · simp [lex, lexGo, emit]
    · simp [lex_indent]
  rw [h2]
  simp [lex, lexGo, emit]

/-- the three terminators are three different operators -/
theorem terminators_distinct : ∀ p < 3, ∀ q < 3, postStr p = postStr q → p = q := by decide

/-- `case w in … esac` around the items -/
theorem lex_case_clause (w : Str) (items : CaseItems) (hw : Plain w) :
    lex (printCompound (.case w items)) =
      .word "case".toList :: .word w :: .word "in".toList :: (lex (printCaseItems items) ++ [.nl, .word "esac".toList]) := by
  have hunf : printCompound (.case w items) =
      "case".toList ++ ' ' :: (w ++ ' ' :: ("in".toList ++ (printCaseItems items ++ '\n' :: "esac".toList))) := by
    show "case ".toList ++ w ++ " in".toList ++ printCaseItems items ++ "\nesac".toList = _
    simp
  have hcase : lex "case".toList = [.word "case".toList] := by decide
  have hin : lex "in".toList = [.word "in".toList] := by decide
  have hesac : lex "esac".toList = [.word "esac".toList] := by decide
  have hwl : lex w = [.word w] := lex_word_end w hw
  rw [hunf, lex_blank_split, lex_blank_split, hcase, hwl]
  rcases printCaseItems_head items with h | ⟨t, h⟩
  · rw [h]; simp only [List.nil_append]
    rw [lex_lines, hin, hesac]; simp [lex, lexGo, emit]
  · rw [h]
    have e : "in".toList ++ ('\n' :: t ++ '\n' :: "esac".toList) = "in".toList ++ '\n' :: (t ++ '\n' :: "esac".toList) := by simp
    rw [e, lex_lines, lex_lines, hin, hesac]
    have : lex ('\n' :: t) = .nl :: lex t := by
      have := lex_lines [] t
      simpa [lex, lexGo, emit] using this
    rw [this]; simp

/-- every terminator, with and without a body, as brush prints it and as it reads back -/
example : printCompound (.case "$x".toList
    (.cons [['a'], "b*".toList] true (.cons (.mk 0 false (.simple .nil (some ['p']) .nil) .nil) .nil false .nil) 1
    (.cons [['c']] false .nil 2 (.cons [['*']] false .nil 0 .nil)))) =
    "case $x in\n    a|b*)\n        p\n    ;&\n    c)\n\n    ;;&\n    *)\n\n    ;;\nesac".toList := by decide

example : lex (printCaseItems (.cons [['c']] false .nil 2 (.cons [['*']] false .nil 0 .nil))) =
    [.nl, .word ['c'], .op [')'], .nl, .nl, .op ";;&".toList, .nl, .word ['*'], .op [')'], .nl, .nl, .op ";;".toList] := by
  decide

/-! ## the exported text -/

/-- bash imports a `BASH_FUNC_name%%` value only when it starts with `() {`: the exported text of
every function does, whatever compound command its body is. -/
theorem export_text_importable_by_bash (c : Compound) (rs : Redirs) :
    "() {".toList <+: exportText c rs := by
  cases c <;> exact ⟨_, rfl⟩

/-- a body that is not a brace group is exported as the tokens of a brace group holding exactly that
compound command with its redirects (so the child defines `{ body }`, as bash does) -/
theorem export_wrap_tokens (c : Compound) (rs : Redirs) (h : isBrace c = false) :
    lex (exportText c rs) =
      lex ("() ".toList ++ printCompound (.brace (.cons (.mk 0 false (.comp c rs) .nil) .nil false .nil))) := by
  have h1 : exportText c rs = "() { ".toList ++ '\n' :: ((printCompound c ++ printRedirs rs) ++ '\n' :: ['}']) := by
    simp [exportText, h]
  have h2 : "() ".toList ++ printCompound (.brace (.cons (.mk 0 false (.comp c rs) .nil) .nil false .nil)) =
      "() { ".toList ++ '\n' :: (indent (printCompound c ++ printRedirs rs) ++ '\n' :: ['}']) := by
    show "() ".toList ++ ("{ \n".toList ++ indent ((((printCompound c ++ printRedirs rs) ++ []) ++ []) ++ []) ++ "\n}".toList) = _
    simp
  rw [h1, h2, lex_lines, lex_lines, lex_lines, lex_lines, lex_indent]

example : exportText (.sub (.cons (.mk 0 false (.simple .nil (some ['p']) .nil) .nil) .nil false .nil)) .nil =
    "() { \n( p )\n}".toList := by decide

/-! ## what is printed does not depend on where the function was defined or where it is printed -/

private theorem find_filter_other (m n : Str) (hm : (m == n) = false) : ∀ (t : FTab),
    (t.filter (fun e => e.1 != m)).find? (fun e => e.1 == n) = t.find? (fun e => e.1 == n)
  | [] => rfl
  | e :: t => by
    have ih := find_filter_other m n hm t
    by_cases he : e.1 = n
    · have hnm : ¬ n = m := by intro h; rw [h] at hm; simp at hm
      simp [List.filter_cons, List.find?_cons, he, hnm]
    · by_cases h2 : e.1 = m
      · simp [List.filter_cons, h2, List.find?_cons, ih, hm]
      · simp [List.filter_cons, h2, List.find?_cons, he, ih]

private theorem get_step_other (t : FTab) (op : FOp) (n : Str) (h : op.touches n = false) :
    (t.step op).get n = t.get n := by
  cases op with
  | other => rfl
  | define m d =>
    have hm : (m == n) = false := h
    simp only [FTab.step, FTab.get, List.find?_cons, hm]
    rw [find_filter_other m n hm]
  | unset m =>
    have hm : (m == n) = false := h
    simp only [FTab.step, FTab.get]
    rw [find_filter_other m n hm]

private theorem get_run_other (ops : List FOp) : ∀ (t : FTab) (n : Str), (∀ op ∈ ops, op.touches n = false) →
    (t.run ops).get n = t.get n := by
  induction ops with
  | nil => intro t n _; rfl
  | cons op ops ih =>
    intro t n h
    simp only [FTab.run, List.foldl_cons]
    have := ih (t.step op) n (fun o ho => h o (by simp [ho]))
    simp only [FTab.run] at this
    rw [this, get_step_other t op n (h op (by simp))]

/-- **Context independence.** After `n` was defined as `d` — whatever the table held before, whatever
happened earlier (other definitions of `n`, `unset -f n`), and whatever steps follow that neither
define nor unset `n` (calls, groups, loops, `eval`, option changes, other functions being defined
or removed, printing) — `declare -f n` prints exactly `printFn n d`: a function of the last
definition only. -/
theorem declare_f_context_independent (t : FTab) (pre post : List FOp) (n : Str) (d : Def)
    (h : ∀ op ∈ post, op.touches n = false) :
    declareF (((t.run pre).step (.define n d)).run post) n = some (printFn n d.c d.rs) := by
  simp only [declareF]
  rw [get_run_other post _ n h]
  simp [FTab.step, FTab.get]

/-- non-vacuity: redefinition after `unset -f`, with another function defined and removed afterwards -/
example :
    declareF (FTab.run (FTab.step (FTab.run ([] : FTab) [.define ['f'] ⟨.brace .nil, .nil⟩, .unset ['f']])
        (.define ['f'] ⟨.sub .nil, .nil⟩))
      [.other, .define ['g'] ⟨.brace .nil, .nil⟩, .unset ['g'], .other]) ['f'] =
    some (printFn ['f'] (.sub .nil) .nil) :=
  declare_f_context_independent [] [.define ['f'] ⟨.brace .nil, .nil⟩, .unset ['f']]
    [.other, .define ['g'] ⟨.brace .nil, .nil⟩, .unset ['g'], .other] ['f'] ⟨.sub .nil, .nil⟩ (by decide)

/-- and `unset -f` really removes it: nothing is printed afterwards -/
theorem declare_f_after_unset (t : FTab) (n : Str) : declareF (t.step (.unset n)) n = none := by
  simp only [declareF, FTab.get, FTab.step]
  rw [List.find?_filter]
  have : List.find? (fun e : Str × Def => (e.1 != n) && (e.1 == n)) t = none := by
    apply List.find?_eq_none.mpr
    intro e _
    by_cases he : e.1 = n <;> simp [he]
  simp [this]

/-! ## the here-document defect (still open), on the model -/

/-- `f() { cat <<E … E; }`: the end tag is printed indented, so no line of the text is the tag. -/
theorem heredoc_indented_cex :
    let body : Items := .cons (.mk 0 false (.simple .nil (some "cat".toList)
      (.cons (.redir (.hereDoc none false ['E'] "hi\n".toList)) .nil)) .nil) .nil false .nil
    (['E'] ∈ splitOnChar '\n' (printFn ['f'] (.sub body) .nil)) ∧
    ¬ (['E'] ∈ splitOnChar '\n' (printFn ['f'] (.brace body) .nil)) := by
  decide

end BrushVerif.C14
