import BrushVerif.Proofs.Print
/-!
# C14 — printed function definitions re-parse to the same function

`Model/Print.lean` mirrors the `Display` impls of brush-parser/src/ast.rs (`printFn` is what
`declare -f`, `type` and the `BASH_FUNC_…%%` export write) and defines the token-level reader `lex`.
The property needs the printed text to cut into exactly the tokens the printer meant (adjacency) —
then the second parse sees the same words, operators and fd numbers.

* `lex_indent` — the indentation inserted by the block printers never changes the tokens (∀ texts).
* `lex_lines` — tokens never straddle a line break, so blocks can be read line by line.
* `lex_words` — a blank-separated word list (simple command, `for` values) reads back as those words.
* `lex_compound_redirs` — the redirect list that `Command::Compound` / `FunctionBody` /
  `RedirectList` write behind the closing word reads back as intended for **every** well-formed
  redirect list (fd numbers, digit targets, any length): one blank is written before each redirect
  (after the repair of `compound_redirect_adjacent`; before it this needed a guard and
  `done> /dev/null2>& 1` was a counter-example).
* `lex_pipeline_sep` — the ` | ` between pipeline stages is its own token whatever the next stage
  starts with (repair of `pipe_then_amp_redirect`).
* `for_in_distinguished` — `for v; do` and `for v in …; do` never print alike (repair of
  `for_without_in_prints_empty_list`).
* `procsub_word_reads_back` — a process substitution word prints `<( … )` (repair of
  `procsub_word_double_parens`).
* `heredoc_indented_cex` — still open: a here-document inside a brace group is printed with its end
  tag indented: no line of the printed text is the tag, the document never ends.
-/
namespace BrushVerif.C14
open BrushVerif.Wire BrushVerif.Print

/-! ## indentation and line structure -/

/-- Wrapping printed text in `indenter::indented(f).with_str("    ")` does not change its tokens. -/
theorem lex_indent (s : Str) : lex (indent s) = lex s :=
  lexGo_indent s true false [] (fun _ => rfl)

example : lex (indent "a\n\nb > c".toList) = [.word ['a'], .nl, .nl, .word ['b'], .op ['>'], .word ['c']] := by
  decide

/-- Tokens never straddle a line break. -/
theorem lex_lines (a b : Str) : lex (a ++ '\n' :: b) = lex a ++ .nl :: lex b :=
  lexGo_newline_split a false [] b

example : lex ("do".toList ++ '\n' :: "x".toList) = [.word "do".toList, .nl, .word "x".toList] := by decide

/-! ## word lists -/

/-- A blank-separated list of plain words reads back as exactly those words
(`SimpleCommand`, `CommandPrefix/Suffix`, `ForClauseCommand` values, `[[ … ]]`). -/
theorem lex_words : ∀ (ws : List Str), (∀ w ∈ ws, Plain w) → lex (joinWords ws) = ws.map .word
  | [], _ => by simp [joinWords, lex, lexGo, emit]
  | [w], h => by
    simp only [joinWords, lex, List.map]
    exact lex_word_end w (h w (by simp))
  | w :: v :: ws, h => by
    simp only [joinWords, lex, List.map]
    rw [lex_word_blank w _ (h w (by simp))]
    have ih := lex_words (v :: ws) (fun x hx => h x (by simp [hx]))
    simp only [lex, List.map] at ih
    rw [ih]

example : (∀ w ∈ ["echo".toList, "$x".toList, "7".toList], Plain w) := by
  intro w hw
  simp only [List.mem_cons, List.not_mem_nil, or_false] at hw
  rcases hw with h | h | h <;> subst h <;> exact ⟨by decide, by decide⟩

/-! ## the redirect list of a compound command -/

/-- operator text of a redirect without process substitution / here-document -/
def redirOp : Redir → Str
  | .file _ kind _ => kind
  | .outErr app _ => "&>".toList ++ (if app then ['>'] else [])
  | .hereStr _ _ => "<<<".toList
  | _ => []

def redirTgt : Redir → Str
  | .file _ _ t => t
  | .outErr _ t => t
  | .hereStr _ w => w
  | _ => []

def redirFd : Redir → Option Str
  | .file fd _ _ => fd
  | .hereStr fd _ => fd
  | _ => none

/-- the tokens a redirect is meant to be read as -/
def toksRedir (r : Redir) : List Tok :=
  (match redirFd r with | some n => [.ionum n] | none => []) ++ [.op (redirOp r), .word (redirTgt r)]

def toksRedirs : Redirs → List Tok
  | .nil => []
  | .cons r rs => toksRedir r ++ toksRedirs rs

/-- a well-formed plain redirect: a real operator (starting with `<`, `>` or `&>`), a plain target, an fd of digits -/
def WfRedir (r : Redir) : Prop :=
  (match r with | .file _ _ _ => True | .outErr _ _ => True | .hereStr _ _ => True | _ => False) ∧
  OpStr (redirOp r) ∧ ((redirOp r).head? = some '<' ∨ (redirOp r).head? = some '>' ∨ redirFd r = none) ∧
  Plain (redirTgt r) ∧
  (∀ n, redirFd r = some n → Plain n ∧ n.all isDigitC = true)

def WfRs : Redirs → Prop
  | .nil => True
  | .cons r rs => WfRedir r ∧ WfRs rs

private theorem printRedir_shape (r : Redir) (h : WfRedir r) :
    printRedir r = fdStr (redirFd r) ++ (redirOp r ++ ' ' :: redirTgt r) := by
  cases r with
  | file fd kind tgt => simp [printRedir, redirFd, redirOp, redirTgt]
  | outErr app tgt => cases app <;> simp [printRedir, redirFd, redirOp, redirTgt, fdStr]
  | hereStr fd w => simp [printRedir, redirFd, redirOp, redirTgt]
  | filePs _ _ _ _ => exact absurd h.1 (by simp)
  | hereDoc _ _ _ _ => exact absurd h.1 (by simp)

private theorem plain_of_bool (w : Str) (h : (!w.isEmpty && w.all wordChar) = true) : Plain w := by
  simp only [Bool.and_eq_true, Bool.not_eq_true', List.all_eq_true] at h
  exact ⟨by intro e; subst e; simp at h, h.2⟩

private theorem opstr_of_bool (o : Str) (h : (!o.isEmpty && o.all isOpChar) = true) : OpStr o := by
  simp only [Bool.and_eq_true, Bool.not_eq_true', List.all_eq_true] at h
  exact ⟨by intro e; subst e; simp at h, h.2⟩

/-- **Full strength.** What `Command::Compound`, `FunctionBody` and `RedirectList` print behind the
closing word `w` of a compound command (`done`, `}`, `fi`, `esac`, `]]`) reads back as `w` followed
by exactly the intended redirect tokens — for every well-formed redirect list: fd numbers, digit
targets, any length. -/
theorem lex_compound_redirs : ∀ (rs : Redirs) (w : Str), Plain w → WfRs rs →
    lex (w ++ printRedirs rs) = .word w :: toksRedirs rs
  | .nil, w, hw, _ => by
    simp only [printRedirs, List.append_nil, toksRedirs, lex]
    exact lex_word_end w hw
  | .cons r rs, w, hw, hwf => by
    obtain ⟨hr, hrs⟩ := hwf
    have ih := lex_compound_redirs rs (redirTgt r) hr.2.2.2.1 hrs
    simp only [lex] at ih ⊢
    rw [printRedirs]
    simp only [redirSep, List.cons_append, List.nil_append, List.append_assoc]
    rw [lex_word_blank w _ hw, printRedir_shape r hr]
    cases hfd : redirFd r with
    | none =>
      simp only [fdStr, List.nil_append, List.append_assoc, List.cons_append]
      rw [lex_op_blank _ _ hr.2.1, ih]
      simp [toksRedirs, toksRedir, hfd]
    | some n =>
      obtain ⟨hn, hnd⟩ := hr.2.2.2.2 n hfd
      have hh : (redirOp r).head? = some '<' ∨ (redirOp r).head? = some '>' := by
        rcases hr.2.2.1 with h | h | h
        · exact Or.inl h
        · exact Or.inr h
        · rw [hfd] at h; cases h
      simp only [fdStr, List.append_assoc, List.cons_append]
      rw [lex_ionum_op n (redirOp r) _ hn hnd hr.2.1 hh, ih]
      simp [toksRedirs, toksRedir, hfd]

/-- the former counter-example: `… done >/dev/null 2>&1` -/
def cexRedirs : Redirs :=
  .cons (.file none [('>')] "/dev/null".toList) (.cons (.file (some ['2']) ">&".toList ['1']) .nil)

private theorem cexRedirs_wf : WfRs cexRedirs := by
  refine ⟨⟨trivial, ?_, ?_, ?_, ?_⟩, ⟨trivial, ?_, ?_, ?_, ?_⟩, trivial⟩
  · exact opstr_of_bool _ (by simp [redirOp]; decide)
  · simp [redirOp, redirFd]
  · exact plain_of_bool _ (by simp [redirTgt]; decide)
  · intro n h; simp [redirFd] at h
  · exact opstr_of_bool _ (by simp [redirOp]; decide)
  · simp [redirOp, redirFd]
  · exact plain_of_bool _ (by simp [redirTgt]; decide)
  · intro n h
    simp only [redirFd, Option.some.injEq] at h
    subst h
    exact ⟨plain_of_bool _ (by decide), by decide⟩

/-- non-vacuity, and the old witness now reads back as intended -/
example : lex ("done".toList ++ printRedirs cexRedirs) =
    [.word "done".toList, .op [('>')], .word "/dev/null".toList, .ionum ['2'], .op ">&".toList, .word ['1']] :=
  lex_compound_redirs cexRedirs _ (plain_of_bool _ (by decide)) cexRedirs_wf

/-- the whole function as brush prints it -/
example : printFn ['f'] (.forIn ['i'] true [['1']] (.cons (.mk 0 false (.simple .nil (some [':']) .nil) .nil) .nil false .nil))
    cexRedirs = "f () \nfor i in 1;\ndo\n    :\ndone > /dev/null 2>& 1".toList := by
  decide

/-! ## pipelines, `for`, process substitution words -/

/-- Tokens never straddle a blank. -/
theorem lex_blank_split (a b : Str) : lex (a ++ ' ' :: b) = lex a ++ lex b :=
  lexGo_blank_split a false [] b

/-- The ` | ` that `Pipeline::fmt` writes between two stages is a token of its own, whatever text
the stages are (in particular a stage starting with `&>`). -/
theorem lex_pipeline_sep (a t : Str) : lex (a ++ " | ".toList ++ t) = lex a ++ .op ['|'] :: lex t := by
  have h : a ++ " | ".toList ++ t = a ++ ' ' :: (['|'] ++ ' ' :: t) := by simp
  rw [h, lex_blank_split, lex_blank_split]
  have : lex ['|'] = [.op ['|']] := by decide
  rw [this]; rfl

/-- a stage that starts with `&>` stays apart from the `|` in front of it -/
example :
    lex (printPipeline (.mk 0 false (.simple .nil (some ['a']) .nil)
      (.cons (.simple (.cons (.redir (.outErr false ['o'])) .nil) (some ['p']) .nil) .nil))) =
    [.word ['a'], .op ['|'], .op "&>".toList, .word ['o'], .word ['p']] := by
  decide

/-- `for v; do` (iterate over the positional parameters) and `for v in …; do` never print alike. -/
theorem for_in_distinguished (v : Str) (ws : List Str) (body body' : Items) :
    printCompound (.forIn v false [] body) ≠ printCompound (.forIn v true ws body') := by
  intro h
  have h' : "for ".toList ++ v ++ ([] : Str) ++ ";\n".toList ++
        ("do\n".toList ++ indent (printItems body) ++ "\ndone".toList) =
      "for ".toList ++ v ++ (" in ".toList ++ joinWords ws) ++ ";\n".toList ++
        ("do\n".toList ++ indent (printItems body') ++ "\ndone".toList) := h
  simp only [List.append_assoc, List.nil_append] at h'
  have h2 := List.append_cancel_left (List.append_cancel_left h')
  simp at h2

example : printCompound (.forIn ['i'] false [] .nil) = "for i;\ndo\n\ndone".toList := by decide

/-- A process substitution word `<( list )` / `>( list )` reads back as the opening operator, the
tokens of the list, and one closing parenthesis — whatever the list is. -/
theorem procsub_word_tokens (dir t : Str) (hd : OpStr dir) :
    lex (dir ++ "( ".toList ++ t ++ " )".toList) = .op (dir ++ ['(']) :: (lex t ++ [.op [')']]) := by
  have h : dir ++ "( ".toList ++ t ++ " )".toList = (dir ++ ['(']) ++ ' ' :: (t ++ ' ' :: [')']) := by simp
  have ho : OpStr (dir ++ ['(']) := ⟨by simp, by
    intro c hc
    rcases List.mem_append.mp hc with h | h
    · exact hd.2 c h
    · simp at h; subst h; decide⟩
  rw [h]
  simp only [lex]
  rw [lex_op_blank _ _ ho, lexGo_blank_split]
  have : lexGo false [] [')'] = [.op [')']] := by decide
  rw [this]

/-- `cat <(echo)` is printed `cat <( echo )` and reads back as a process substitution of `echo`. -/
theorem procsub_word_reads_back :
    lex (printCmd (.simple .nil (some "cat".toList) (.cons (.procSub ['<']
      (.cons (.mk 0 false (.simple .nil (some "echo".toList) .nil) .nil) .nil false .nil)) .nil))) =
    [.word "cat".toList, .op "<(".toList, .word "echo".toList, .op ")".toList] := by
  decide

/-! ## the here-document defect (still open), on the model -/

/-- `f() { cat <<E … E; }`: the end tag is printed indented, so no line of the text is the tag. -/
theorem heredoc_indented_cex :
    let body : Items := .cons (.mk 0 false (.simple .nil (some "cat".toList)
      (.cons (.redir (.hereDoc none false ['E'] "hi\n".toList)) .nil)) .nil) .nil false .nil
    (['E'] ∈ splitOnChar '\n' (printFn ['f'] (.sub body) .nil)) ∧
    ¬ (['E'] ∈ splitOnChar '\n' (printFn ['f'] (.brace body) .nil)) := by
  decide

end BrushVerif.C14
