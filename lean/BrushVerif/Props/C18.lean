import BrushVerif.Model.Flow
/-!
# C18 — call-stack depth and variable-scope frames are balanced

Property theorems over `Model/Flow.lean`: `St.fdepth` is the call-stack depth (`in_function`),
`St.scope` the number of variable-scope frames above the global one.  A function call pushes a call
frame and two scopes (the Command scope of `execute_command`, the Local scope of `enter_function`)
and pops them whatever the body did; a simple command that fails part-way (`Cmd.fault`) gives its
Command scope back on every exit.

Quantifiers: every program of the model's syntax (lists, and-or, `!`, `if`, loops, `case`, groups,
subshells, `$(…)`, `eval`, pipelines, calls with and without temporary assignments, every fault
kind, `break`/`continue`/`return`/`exit` anywhere), every function table, every start state, every
fuel (= every terminating run), no guard.
-/
namespace BrushVerif.C18
open BrushVerif.Flow

/-- `s'` has the same call-stack depth and the same number of scope frames as `s` -/
def Balanced (s s' : St) : Prop := s'.fdepth = s.fdepth ∧ s'.scope = s.scope

private theorem bal_refl (s : St) : Balanced s s := ⟨rfl, rfl⟩

private theorem post_bal {sup : Bool} {s x s' : St} {r0 r : Res}
    (h : some (post sup x r0) = some (s', r)) (hb : Balanced s x) : Balanced s s' := by
  simp only [post, Option.some.injEq] at h
  split at h <;>
  · simp only [Prod.mk.injEq] at h
    rw [← h.1]; exact hb

private theorem postC_bal {s x s' : St} {r0 r : Res}
    (h : some (postC x r0) = some (s', r)) (hb : Balanced s x) : Balanced s s' := by
  simp only [postC, Option.some.injEq, Prod.mk.injEq] at h
  rw [← h.1]; exact hb

private theorem bal_trans {a b c : St} (h1 : Balanced a b) (h2 : Balanced b c) : Balanced a c :=
  ⟨h2.1.trans h1.1, h2.2.trans h1.2⟩

private def BE (fuel : Nat) : Prop :=
  ∀ fs sup c s s' r, exec fuel fs sup c s = some (s', r) → Balanced s s'
private def BL (fuel : Nat) : Prop :=
  ∀ fs sup cs s s' r, execList fuel fs sup cs s = some (s', r) → Balanced s s'
private def BA (fuel : Nat) : Prop :=
  ∀ fs sup aos s r0 s' r, execAO fuel fs sup aos s r0 = some (s', r) → Balanced s s'
private def BW (fuel : Nat) : Prop :=
  ∀ fs sup isUntil cond body s r0 s' r, loopW fuel fs sup isUntil cond body s r0 = some (s', r) →
    Balanced s s'
private def BF (fuel : Nat) : Prop :=
  ∀ fs sup n body s r0 s' r, loopF fuel fs sup n body s r0 = some (s', r) → Balanced s s'
private def BC (fuel : Nat) : Prop :=
  ∀ fs sup arms force s r0 s' r, execArms fuel fs sup arms force s r0 = some (s', r) → Balanced s s'

private theorem bstep_exec (fuel : Nat) (ihE : BE fuel) (ihL : BL fuel) (ihA : BA fuel) (ihW : BW fuel)
    (ihF : BF fuel) (ihC : BC fuel) : BE (fuel + 1) := by
  intro fs sup c s s' r h
  rw [exec.eq_def] at h
  cases c with
  | leaf id codes => simp only at h; exact post_bal h ⟨rfl, rfl⟩
  | probe => simp only at h; exact post_bal h ⟨rfl, rfl⟩
  | seq cs => simp only at h; exact ihL fs sup cs s s' r h
  | andOr first rest =>
    simp only at h
    split at h
    · simp at h
    · rename_i s1 r1 he
      exact bal_trans (ihE _ _ _ _ _ _ he) (ihA _ _ _ _ _ _ _ h)
  | bang c =>
    simp only at h
    split at h
    · simp at h
    · rename_i s1 r1 he
      simp only [Option.some.injEq, Prod.mk.injEq] at h
      have h1 := ihE _ _ _ _ _ _ he
      rw [← h.1]; exact h1
  | if1 cond thn =>
    simp only at h
    split at h
    · simp at h
    · rename_i s1 r1 he
      have h1 := ihE _ _ _ _ _ _ he
      split at h
      · exact postC_bal h h1
      · split at h
        · split at h
          · simp at h
          · rename_i s2 r2 he2
            exact postC_bal h (bal_trans h1 (ihE _ _ _ _ _ _ he2))
        · exact postC_bal h h1
  | if2 cond thn els =>
    simp only at h
    split at h
    · simp at h
    · rename_i s1 r1 he
      have h1 := ihE _ _ _ _ _ _ he
      split at h
      · exact postC_bal h h1
      · split at h
        · simp at h
        · rename_i s2 r2 he2
          exact postC_bal h (bal_trans h1 (ihE _ _ _ _ _ _ he2))
  | whileU isUntil cond body =>
    simp only at h
    split at h
    · simp at h
    · rename_i s1 r1 he
      have hw := ihW _ _ _ _ _ _ _ _ _ he
      exact postC_bal h hw
  | forIn n body =>
    simp only at h
    split at h
    · simp at h
    · rename_i s1 r1 he
      have hw := ihF _ _ _ _ _ _ _ _ he
      exact postC_bal h hw
  | case arms =>
    simp only at h
    split at h
    · simp at h
    · rename_i s1 r1 he
      have hw := ihC _ _ _ _ _ _ _ _ he
      exact postC_bal h hw
  | group c =>
    simp only at h
    split at h
    · simp at h
    · rename_i s1 r1 he
      exact postC_bal h (ihE _ _ _ _ _ _ he)
  | subshell c =>
    simp only at h
    split at h
    · simp at h
    · exact post_bal h ⟨rfl, rfl⟩
  | call f =>
    simp only at h
    split at h
    · exact post_bal h ⟨rfl, rfl⟩
    · split at h
      · simp at h
      · rename_i s1 r1 he
        have h1 := ihE _ _ _ _ _ _ he
        have h2 : Balanced s { s1 with fdepth := s1.fdepth - 1, scope := s1.scope - 2 } := by
          obtain ⟨a, b⟩ := h1
          simp only at a b
          exact ⟨by simp [a], by simp [b]⟩
        split at h <;> exact post_bal h h2
  | brk n => simp only at h; split at h <;> exact post_bal h ⟨rfl, rfl⟩
  | cont n => simp only at h; split at h <;> exact post_bal h ⟨rfl, rfl⟩
  | ret code => simp only at h; split at h <;> exact post_bal h ⟨rfl, rfl⟩
  | exit code => simp only at h; exact post_bal h ⟨rfl, rfl⟩
  | setOpt o on =>
    simp only at h
    refine post_bal h ?_
    cases o <;> exact ⟨rfl, rfl⟩
  | cmdsubst c =>
    simp only at h
    split at h
    · simp at h
    · exact post_bal h ⟨rfl, rfl⟩
  | evalC c =>
    simp only at h
    split at h
    · simp at h
    · rename_i s1 r1 he
      exact post_bal h (ihE _ _ _ _ _ _ he)
  | pipe codes lastc =>
    simp only at h
    split at h
    · simp at h
    · rename_i s1 r1 he
      split at h
      · exact post_bal h (ihE _ _ _ _ _ _ he)
      · exact post_bal h ⟨rfl, rfl⟩
  | fault k =>
    simp only at h
    refine post_bal h ?_
    cases k <;> exact ⟨rfl, by simp⟩
  | callT f => simp only at h; exact ihE _ _ _ _ _ _ h

private theorem bstep_list (fuel : Nat) (ihE : BE fuel) (ihL : BL fuel) : BL (fuel + 1) := by
  intro fs sup cs s s' r h
  cases cs with
  | nil =>
    simp only [execList, Option.some.injEq, Prod.mk.injEq] at h
    rw [← h.1]; exact ⟨rfl, rfl⟩
  | cons c rest =>
    simp only [execList] at h
    split at h
    · simp at h
    · rename_i s1 r1 he
      have h1 := ihE _ _ _ _ _ _ he
      split at h
      · simp only [Option.some.injEq, Prod.mk.injEq] at h
        rw [← h.1]; exact h1
      · cases rest with
        | nil =>
          simp only [Option.some.injEq, Prod.mk.injEq] at h
          rw [← h.1]; exact h1
        | cons c2 rest2 =>
          simp only at h
          have h2 := ihL _ _ _ _ _ _ h
          exact bal_trans h1 h2

private theorem bstep_AO (fuel : Nat) (ihE : BE fuel) (ihA : BA fuel) : BA (fuel + 1) := by
  intro fs sup aos s r0 s' r h
  cases aos with
  | nil =>
    simp only [execAO, Option.some.injEq, Prod.mk.injEq] at h
    rw [← h.1]; exact ⟨rfl, rfl⟩
  | cons isAnd c rest =>
    cases rest <;>
    · simp only [execAO] at h
      split at h
      · simp only [Option.some.injEq, Prod.mk.injEq] at h
        rw [← h.1]; exact ⟨rfl, rfl⟩
      · split at h
        · exact ihA _ _ _ _ _ _ _ h
        · split at h
          · simp at h
          · rename_i s1 r1 he
            exact bal_trans (ihE _ _ _ _ _ _ he) (ihA _ _ _ _ _ _ _ h)

private theorem bstep_W (fuel : Nat) (ihE : BE fuel) (ihW : BW fuel) : BW (fuel + 1) := by
  intro fs sup isUntil cond body s r0 s' r h
  simp only [loopW] at h
  split at h
  · simp at h
  · rename_i s1 rc he
    have h1' := ihE _ _ _ _ _ _ he
    have h1 : Balanced s { s1 with last := rc.code } := h1'
    split at h
    · simp only [Option.some.injEq, Prod.mk.injEq] at h
      rw [← h.1]; exact h1
    · split at h
      · simp only [Option.some.injEq, Prod.mk.injEq] at h
        rw [← h.1]; exact h1
      · split at h
        · simp at h
        · rename_i s2 rb he2
          have h2 := bal_trans h1 (ihE _ _ _ _ _ _ he2)
          split at h
          · simp only [Option.some.injEq, Prod.mk.injEq] at h
            rw [← h.1]; exact h2
          · split at h
            · simp only [Option.some.injEq, Prod.mk.injEq] at h
              rw [← h.1]; exact h2
            · exact bal_trans h2 (ihW _ _ _ _ _ _ _ _ _ h)

private theorem bstep_F (fuel : Nat) (ihE : BE fuel) (ihF : BF fuel) : BF (fuel + 1) := by
  intro fs sup n body s r0 s' r h
  cases n with
  | zero =>
    simp only [loopF, Option.some.injEq, Prod.mk.injEq] at h
    rw [← h.1]; exact ⟨rfl, rfl⟩
  | succ n =>
    simp only [loopF] at h
    split at h
    · simp at h
    · rename_i s2 rb he2
      have h2 := ihE _ _ _ _ _ _ he2
      split at h
      · simp only [Option.some.injEq, Prod.mk.injEq] at h
        rw [← h.1]; exact h2
      · split at h
        · simp only [Option.some.injEq, Prod.mk.injEq] at h
          rw [← h.1]; exact h2
        · exact bal_trans h2 (ihF _ _ _ _ _ _ _ _ h)

private theorem bstep_C (fuel : Nat) (ihE : BE fuel) (ihC : BC fuel) : BC (fuel + 1) := by
  intro fs sup arms force s r0 s' r h
  cases arms with
  | nil =>
    simp only [execArms, Option.some.injEq, Prod.mk.injEq] at h
    rw [← h.1]; exact ⟨rfl, rfl⟩
  | cons m body t rest =>
    simp only [execArms] at h
    split at h
    · exact ihC _ _ _ _ _ _ _ _ h
    · split at h
      · simp at h
      · rename_i s1 r1 he
        have h1 := ihE _ _ _ _ _ _ he
        split at h
        · simp only [Option.some.injEq, Prod.mk.injEq] at h
          rw [← h.1]; exact h1
        · cases t with
          | exitCase =>
            simp only [Option.some.injEq, Prod.mk.injEq] at h
            rw [← h.1]; exact h1
          | fallThrough => exact bal_trans h1 (ihC _ _ _ _ _ _ _ _ h)
          | contTest => exact bal_trans h1 (ihC _ _ _ _ _ _ _ _ h)

private theorem b_all (fuel : Nat) : BE fuel ∧ BL fuel ∧ BA fuel ∧ BW fuel ∧ BF fuel ∧ BC fuel := by
  induction fuel with
  | zero =>
    refine ⟨?_, ?_, ?_, ?_, ?_, ?_⟩
    · intro fs sup c s s' r h; rw [exec.eq_def] at h; simp at h
    · intro fs sup cs s s' r h; simp [execList] at h
    · intro fs sup aos s r0 s' r h; simp [execAO] at h
    · intro fs sup isUntil cond body s r0 s' r h; simp [loopW] at h
    · intro fs sup n body s r0 s' r h; simp [loopF] at h
    · intro fs sup arms force s r0 s' r h; simp [execArms] at h
  | succ fuel ih =>
    obtain ⟨ihE, ihL, ihA, ihW, ihF, ihC⟩ := ih
    exact ⟨bstep_exec fuel ihE ihL ihA ihW ihF ihC, bstep_list fuel ihE ihL, bstep_AO fuel ihE ihA,
      bstep_W fuel ihE ihW, bstep_F fuel ihE ihF, bstep_C fuel ihE ihC⟩

/-! ## 1. every command is balanced -/

/-- Whatever a command does — every fault kind, `return`/`break`/`continue`/`exit` leaving nested
constructs inside functions called with temporary assignments, errexit — when it has run, the
call-stack depth and the number of scope frames are what they were before it.  The same holds for
the interpreter's helper loops (lists, and-or tails, `while`/`for` iterations, `case` arms). -/
theorem exec_balanced (fuel : Nat) :
    (∀ fs sup c s s' r, exec fuel fs sup c s = some (s', r) →
      s'.fdepth = s.fdepth ∧ s'.scope = s.scope) ∧
    (∀ fs sup cs s s' r, execList fuel fs sup cs s = some (s', r) →
      s'.fdepth = s.fdepth ∧ s'.scope = s.scope) ∧
    (∀ fs sup aos s r0 s' r, execAO fuel fs sup aos s r0 = some (s', r) →
      s'.fdepth = s.fdepth ∧ s'.scope = s.scope) ∧
    (∀ fs sup isUntil cond body s r0 s' r, loopW fuel fs sup isUntil cond body s r0 = some (s', r) →
      s'.fdepth = s.fdepth ∧ s'.scope = s.scope) ∧
    (∀ fs sup n body s r0 s' r, loopF fuel fs sup n body s r0 = some (s', r) →
      s'.fdepth = s.fdepth ∧ s'.scope = s.scope) ∧
    (∀ fs sup arms force s r0 s' r, execArms fuel fs sup arms force s r0 = some (s', r) →
      s'.fdepth = s.fdepth ∧ s'.scope = s.scope) :=
  b_all fuel

/-- the function table of the examples:
`f0() { for i in 1 2; do X=1 true; X=1 f1; return 3; done; }`
`f1() { nosuchcmd; true < /nonexistent; while m1; do RO=1 true; return 5; done; }` -/
def exFuncs : List Cmd :=
  [.forIn 2 (.seq (.cons (.fault .tempBuiltin) (.cons (.callT 1) (.cons (.ret (some 3)) .nil)))),
   .seq (.cons (.fault .notFound) (.cons (.fault .redirFail)
     (.cons (.whileU false (.leaf 1 [0])
       (.seq (.cons (.fault .readonlyAssign) (.cons (.ret (some 5)) .nil)))) .nil)))]

/-- non-vacuity: `f0` called at call depth 1 with 4 scope frames: `return 3` leaves the `for` loop
inside `f0` after `X=1 f1` left its `while` loop by `return 5`; depth and frames are back at 1 and 4.
With `set -e` the first fault (`nosuchcmd`, 127) exits the shell from two calls deep — still 1 and 4. -/
example :
    exec 30 exFuncs false (.call 0) { fdepth := 1, scope := 4 } =
      some ({ counts := [(1, 1)], trace := [.m 1], last := 3, fdepth := 1, scope := 4 },
        { code := 3, flow := .normal }) ∧
    exec 30 exFuncs false (.call 0) { fdepth := 1, scope := 4, errexit := true } =
      some ({ last := 127, fdepth := 1, scope := 4, errexit := true }, { code := 127, flow := .exit }) := by
  refine ⟨by decide +kernel, by decide +kernel⟩

/-! ## 2. N repetitions -/

/-- `k` copies of `c` in a row -/
def repeatCmd : Nat → Cmd → Cmds
  | 0, _ => .nil
  | k + 1, c => .cons c (repeatCmd k c)

/-- Running a command `k` times in a row, for every `k`, leaves the call-stack depth and the number
of scope frames unchanged: nothing accumulates over repetitions. -/
theorem repeat_balanced (k fuel : Nat) (fs : List Cmd) (sup : Bool) (c : Cmd) (s s' : St) (r : Res)
    (h : exec fuel fs sup (.seq (repeatCmd k c)) s = some (s', r)) :
    s'.fdepth = s.fdepth ∧ s'.scope = s.scope :=
  (exec_balanced fuel).1 fs sup (.seq (repeatCmd k c)) s s' r h

/-- non-vacuity: three calls of `f0` in a row -/
example :
    exec 40 exFuncs false (.seq (repeatCmd 3 (.call 0))) {} =
      some ({ counts := [(1, 3)], trace := [.m 1, .m 1, .m 1], last := 3 }, { code := 3, flow := .normal }) := by
  decide +kernel

/-! ## 3. every iteration starts from the same depth -/

/-- Two consecutive runs of the same command: the second starts from, and ends at, the depth and
frame count the first one started from. -/
theorem iteration_starts_from_same_depth (fuel : Nat) (fs : List Cmd) (sup : Bool) (c : Cmd)
    (s s1 s2 : St) (r1 r2 : Res) (h1 : exec fuel fs sup c s = some (s1, r1))
    (h2 : exec fuel fs sup c s1 = some (s2, r2)) :
    s1.fdepth = s.fdepth ∧ s1.scope = s.scope ∧ s2.fdepth = s.fdepth ∧ s2.scope = s.scope := by
  obtain ⟨a1, b1⟩ := (exec_balanced fuel).1 fs sup c s s1 r1 h1
  obtain ⟨a2, b2⟩ := (exec_balanced fuel).1 fs sup c s1 s2 r2 h2
  exact ⟨a1, b1, a2.trans a1, b2.trans b1⟩

/-- non-vacuity: `X=1 f1` twice from depth 2 / 5 frames -/
example :
    exec 30 exFuncs false (.callT 1) { fdepth := 2, scope := 5 } =
      some ({ counts := [(1, 1)], trace := [.m 1], last := 5, fdepth := 2, scope := 5 },
        { code := 5, flow := .normal }) ∧
    exec 30 exFuncs false (.callT 1) { counts := [(1, 1)], trace := [.m 1], last := 5, fdepth := 2, scope := 5 } =
      some ({ counts := [(1, 2)], trace := [.m 1, .m 1], last := 5, fdepth := 2, scope := 5 },
        { code := 5, flow := .normal }) := by
  refine ⟨by decide +kernel, by decide +kernel⟩

/-! ## 4. faults -/

/-- Every kind of simple command that fails part-way gives its Command scope back, has the
kind's status, and normal flow — or `exit` by errexit. -/
theorem fault_gives_scope_back (k : FaultKind) (fuel : Nat) (fs : List Cmd) (sup : Bool) (s s' : St)
    (r : Res) (h : exec (fuel + 1) fs sup (.fault k) s = some (s', r)) :
    s'.scope = s.scope ∧ s'.fdepth = s.fdepth ∧ r.code = k.code ∧
      (r.flow = .normal ∨ r.flow = .exit) ∧ s'.last = k.code := by
  rw [exec.eq_def] at h
  cases k <;>
  · simp only [post, Option.some.injEq] at h
    split at h <;>
    · simp only [Prod.mk.injEq] at h
      obtain ⟨rfl, rfl⟩ := h
      simp

/-- non-vacuity: `nosuchcmd` with 3 frames: status 127, 3 frames; with `set -e` it exits, 3 frames -/
example :
    exec 1 [] false (.fault .notFound) { scope := 3 } =
      some ({ last := 127, scope := 3 }, { code := 127, flow := .normal }) ∧
    exec 1 [] false (.fault .notFound) { scope := 3, errexit := true } =
      some ({ last := 127, scope := 3, errexit := true }, { code := 127, flow := .exit }) ∧
    exec 1 [] false (.fault .redirFail) { scope := 0 } =
      some ({ last := 1 }, { code := 1, flow := .normal }) := by
  refine ⟨by decide +kernel, by decide +kernel, by decide +kernel⟩

/-! ## 5. function frames -/

private theorem post_flow_cases (sup : Bool) (x : St) (r0 : Res) :
    (post sup x r0).2.flow = r0.flow ∨ (post sup x r0).2.flow = .exit := by
  simp only [post]
  split
  · exact Or.inr rfl
  · exact Or.inl rfl

/-- A function call pops its call frame and both scopes on every way out of the body — falling off
the end, `return`, `break`/`continue` out of the body's loops, `exit`, errexit — and `return` never
propagates past the call. -/
theorem function_frames_popped_on_every_exit (fuel : Nat) (fs : List Cmd) (sup : Bool) (f : Nat)
    (s s' : St) (r : Res) (h : exec fuel fs sup (.call f) s = some (s', r)) :
    s'.fdepth = s.fdepth ∧ s'.scope = s.scope ∧ r.flow ≠ .ret := by
  obtain ⟨a, b⟩ := (exec_balanced fuel).1 fs sup (.call f) s s' r h
  refine ⟨a, b, ?_⟩
  have key : ∀ (x : St) (r0 : Res), r0.flow ≠ .ret → some (post sup x r0) = some (s', r) →
      r.flow ≠ .ret := by
    intro x r0 h0 hp
    simp only [Option.some.injEq] at hp
    have := post_flow_cases sup x r0
    rw [hp] at this
    simp only at this
    rcases this with e | e
    · rw [e]; exact h0
    · rw [e]; intro hh; cases hh
  cases fuel with
  | zero => rw [exec.eq_def] at h; simp at h
  | succ fuel =>
    rw [exec.eq_def] at h
    simp only at h
    split at h
    · exact key _ _ (by intro hh; cases hh) h
    · split at h
      · simp at h
      · rename_i s1 r1 _
        split at h
        · exact key _ _ (by intro hh; cases hh) h
        · exact key _ _ (by intro hh; cases hh) h
        · exact key _ _ (by intro hh; cases hh) h
        · rename_i hb hc hr
          exact key _ _ hr h

/-- non-vacuity: `g() { while m1; do break 3; done; }` (break escaping the body: status 99, frames
popped) and `h() { exit 4; }` -/
example :
    exec 12 [.whileU false (.leaf 1 [0]) (.brk (some 3))] false (.call 0) { fdepth := 2, scope := 7 } =
      some ({ counts := [(1, 1)], trace := [.m 1], last := 99, fdepth := 2, scope := 7 },
        { code := 99, flow := .normal }) ∧
    exec 12 [.exit (some 4)] false (.call 0) { fdepth := 2, scope := 7 } =
      some ({ last := 4, fdepth := 2, scope := 7 }, { code := 4, flow := .exit }) := by
  refine ⟨by decide +kernel, by decide +kernel⟩

end BrushVerif.C18
