import BrushVerif.Proofs.QuoteAnsi
import BrushVerif.Proofs.QuoteEnv
/-!
# C13 — shell-quoted output re-reads to the original values

Theorems about `Model/Quote.lean` (brush's `escape::quote` and the printers built on it, tables
regenerated from escape.rs) and `Model/Unquote.lean` (what brush's `eval` makes of the text; `b`
selects the bash reader — since the repair of the `$'\0dd'` reading the two agree on everything
the quoting routines print).  Quantifiers: every string over every character but NUL
(`Str = List Char`), both read positions (argument of a command / value of an assignment), every
quoting mode, forced or not.

After the repairs (leading `~`/`#` and `~` after `:`/`=` are quoted; `$'\0dd'` takes three digits in
all; `export -p` and `alias` quote their values) every statement about `quote` and the printers built
on it holds at full strength: no guards other than "no NUL".  `trap -p` still prints the command
between single quotes unescaped: `trap_p_full` / `trap_p_cex` / `trap_p_partial`.
-/
namespace BrushVerif.C13
open BrushVerif.Wire BrushVerif.Quote BrushVerif.Gen.QuoteTables

/-- no ASCII control character (those switch `quote` to the ANSI-C style) -/
def noCtl (s : Str) : Bool := s.all fun c => !isAsciiControl c

def noNul (s : Str) : Bool := s.all fun c => c.toNat != 0

private theorem noNul_mem (s : Str) (h : noNul s = true) : ∀ c ∈ s, c.toNat ≠ 0 := by
  intro c hc
  have := List.all_eq_true.mp h c hc
  simpa using this

/-! ## the table -/

/-- every character that is special to the reader outside quotes is in `needs_escaping` (or is a
control character, which forces ANSI-C quoting) -/
theorem needs_escaping_covers_metachars :
    ∀ c ∈ readerSpecial, needsEscaping c = true ∨ isAsciiControl c = true := by
  intro c hc
  have := special_covered c hc
  simpa using this

example : ';' ∈ readerSpecial ∧ needsEscaping ';' = true := by decide

/-! ## the four styles -/

/-- single-quoted text reads back, in both positions, for every string -/
theorem read_singleQuote (b : Bool) (s : Str) :
    readArgs b (singleQuote s) = .words [s] ∧ readAsg b (singleQuote s) = .value s := by
  have h := fun st ws => read_singleQuote_gen b st ws s []
  simp only [List.append_nil] at h
  simp [readArgs, readAsg, h, rd_un_nil, Res.prepend]

example : singleQuote "a'b c".toList = "'a'\\''b c'".toList := by decide

/-- double-quoted text reads back, in both positions, for every string -/
theorem read_doubleQuote (b : Bool) (s : Str) :
    readArgs b (doubleQuote s) = .words [s] ∧ readAsg b (doubleQuote s) = .value s := by
  have h := fun st ws => read_doubleQuote_gen b st ws s []
  simp only [List.append_nil] at h
  simp [readArgs, readAsg, h, rd_un_nil, Res.prepend]

example : doubleQuote "a\"$b".toList = "\"a\\\"\\$b\"".toList := by decide

private theorem read_bs_any (b st ws : Bool) (s : Str) (hs : s ≠ []) (hc : noCtl s = true) :
    rd b (.un st ws) (bsGo none s) = .ok [] (some s) [] := by
  cases s with
  | nil => exact absurd rfl hs
  | cons c cs => exact read_bsGo b cs c none st ws hc (fun h => absurd rfl h)

/-- backslash-escaped text (what `printf %q` uses) reads back, in both positions, for every string
without control characters — a leading `~`/`#` and a `~` after `:`/`=` included -/
theorem read_backslashEscape (b : Bool) (s : Str) (hc : noCtl s = true) :
    readArgs b (backslashEscape s) = .words [s] ∧ readAsg b (backslashEscape s) = .value s := by
  cases s with
  | nil =>
    have h := fun st ws => read_singleQuote_gen b st ws [] []
    simp [singleQuote] at h
    simp [backslashEscape, readArgs, readAsg, h, rd_un_nil, Res.prepend]
  | cons c cs =>
    have h := fun st ws => read_bs_any b st ws (c :: cs) (by simp) hc
    simp only [backslashEscape, List.isEmpty_cons, Bool.false_eq_true, if_false, readArgs, readAsg, h]
    simp

example : backslashEscape "~a b=~#".toList = "\\~a\\ b=\\~#".toList := by decide
example : readArgs false (backslashEscape ['#', 'a']) = .words [['#', 'a']] := by decide

/-- ANSI-C quoted text reads back in brush and in bash, in both positions, for every NUL-free string -/
theorem read_ansiC (b : Bool) (s : Str) (h : noNul s = true) :
    readArgs b (ansiCQuote s) = .words [s] ∧ readAsg b (ansiCQuote s) = .value s := by
  have hd := decode_ansi b s (noNul_mem s h)
  have := fun st ws => read_ansiCQuote b st ws s hd
  simp [readArgs, readAsg, this]

/-- the former counter-example: `$'\x01'7` is printed as `$'\0017'` and now reads back -/
example : readArgs false (ansiCQuote ['\x01', '7']) = .words [['\x01', '7']] := by decide

/-! ## the dispatcher `escape::quote` -/

private theorem noCtl_any (o : Opts) (s : Str) (h : noCtl s = true) :
    s.any (fun c => needsAnsiC c && (!o.avoidNl || c != '\n')) = false := by
  induction s with
  | nil => rfl
  | cons c cs ih =>
    simp only [noCtl, List.all_cons, Bool.and_eq_true, Bool.not_eq_true'] at h
    have ih' := ih (by simpa [noCtl] using h.2)
    rw [List.any_cons, ih']; simp [needsAnsiC, h.1]

/-- whatever `quote` prints — any mode, forced or only if needed — reads back to the original
string, as an argument and as an assigned value, in brush and in bash -/
theorem read_quote (b : Bool) (o : Opts) (s : Str) (hnl : o.avoidNl = false) (h : noNul s = true) :
    readArgs b (quote o s) = .words [s] ∧ readAsg b (quote o s) = .value s := by
  cases hc : noCtl s with
  | false =>
    have hany : s.any (fun c => needsAnsiC c && (!o.avoidNl || c != '\n')) = true := by
      obtain ⟨c, hm, hcc⟩ := List.all_eq_false.mp hc
      exact List.any_eq_true.mpr ⟨c, hm, by simp [needsAnsiC, hnl]; simpa using hcc⟩
    have hq : quote o s = ansiCQuote s := by unfold quote; rw [hany]; simp
    rw [hq]; exact read_ansiC b s h
  | true =>
    unfold quote
    rw [noCtl_any o s hc]
    simp only [Bool.false_eq_true, if_false]
    split
    · -- left as it is: nothing to escape, nothing special by position
      rename_i hcond
      simp only [Bool.not_eq_true', Bool.or_eq_false_iff] at hcond
      obtain ⟨⟨⟨_, h2⟩, h3⟩, h4⟩ := hcond
      have hne : s ≠ [] := by intro e; subst e; simp at h2
      have hr := fun st ws => read_bs_any b st ws s hne hc
      rw [bsGo_id s none h3 h4] at hr
      simp [readArgs, readAsg, hr]
    · cases hm : o.mode with
      | backslash => simp only []; exact read_backslashEscape b s hc
      | single => simp only []; exact read_singleQuote b s
      | double => simp only []; exact read_doubleQuote b s

example : quote { always := false, mode := .single } ['~'] = ['\'', '~', '\''] := by decide

/-! ## printers -/

/-- `printf %q` -/
theorem printfQ_rereads (b : Bool) (v : Str) (h : noNul v = true) :
    readArgs b (printfQ v) = .words [v] ∧ readAsg b (printfQ v) = .value v :=
  read_quote b _ v rfl h

/-- `${v@Q}` and the value in `${v@A}` -/
theorem atQ_rereads (b : Bool) (v : Str) (h : noNul v = true) :
    readArgs b (atQ v) = .words [v] ∧ readAsg b (atQ v) = .value v :=
  read_quote b _ v rfl h

/-- xtrace arguments and the values `set` prints -/
theorem traceArg_rereads (b : Bool) (v : Str) (h : noNul v = true) :
    readArgs b (traceArg v) = .words [v] ∧ readAsg b (traceArg v) = .value v :=
  read_quote b _ v rfl h

/-- the value `declare -p` and `export -p` print for a scalar -/
theorem declare_p_value_rereads (b : Bool) (v : Str) (h : noNul v = true) :
    readAsg b (declValue v) = .value v :=
  (read_quote b _ v rfl h).2

/-- a `declare -<flags> name=value` line carries the attribute flags it was printed with — what
`eval` of the line restores (the line of `declare -p` and, identically, of `export -p`) -/
theorem declare_line_carries_attributes (attrs name v : Str) (h : ' ' ∉ attrs) :
    declFlags (declareP attrs name v) = some (attrStr attrs) ∧
    declFlags (exportP attrs name v) = some (attrStr attrs) := by
  have hp : "declare -".toList = ['d', 'e', 'c', 'l', 'a', 'r', 'e', ' ', '-'] := by decide
  have hs : ' ' ∉ attrStr attrs := by
    unfold attrStr; split
    · simp
    · exact h
  have ht : ∀ (a r : Str), ' ' ∉ a → (a ++ ' ' :: r).takeWhile (· != ' ') = a := by
    intro a r ha
    induction a with
    | nil => simp
    | cons c cs ih =>
      simp only [List.mem_cons, not_or] at ha
      have hc : c ≠ ' ' := fun e => ha.1 e.symm
      simp [hc, ih ha.2]
  have hshape : declareP attrs name v =
      'd' :: 'e' :: 'c' :: 'l' :: 'a' :: 'r' :: 'e' :: ' ' :: '-' ::
        (attrStr attrs ++ ' ' :: (name ++ '=' :: declValue v)) := by
    unfold declareP
    rw [hp]
    simp only [List.cons_append, List.nil_append, List.append_assoc]
  have : declFlags (declareP attrs name v) = some (attrStr attrs) := by
    rw [hshape, declFlags, ht _ _ hs]
  exact ⟨this, this⟩

example : declFlags (exportP "rx".toList "v".toList "1".toList) = some "rx".toList := by decide

example : printfQ "a b".toList = "a\\ b".toList := by decide

private theorem rd_sq_bash (b : Bool) (v t : Str) :
    rd b .sq (v.flatMap (fun c => if c = '\'' then ['\'', '\\', '\'', '\''] else [c]) ++ '\'' :: t) =
      (rd b (.un true false) t).prepend v := by
  induction v with
  | nil => simp [rd_sq_q, Res.prepend_nil, start_rd_un_true]
  | cons c cs ih =>
    by_cases hc : c = '\''
    · subst hc
      simp [rd_sq_q, rd_un_bs_quote, rd_un_sq, ih]
    · simp [hc, rd_sq_c b c _ hc, ih]

/-- the quoting `alias` uses reads back for every body, single quotes included -/
theorem sqBash_rereads (b : Bool) (v : Str) :
    readArgs b (sqBash v) = .words [v] ∧ readAsg b (sqBash v) = .value v := by
  unfold sqBash
  by_cases h : v = ['\'']
  · subst h
    simp [readArgs, readAsg, rd_un_bs_quote, rd_un_nil, Res.push]
  · have := rd_sq_bash b v []
    simp [h, readArgs, readAsg, rd_un_sq, this, rd_un_nil, Res.prepend]

example : sqBash "it's".toList = "'it'\\''s'".toList := by decide

/-! ## `trap -p` (not repaired: the command is printed between single quotes, unescaped) -/

/-- the command word of `trap -p`'s line -/
def trapWord (v : Str) : Str := '\'' :: (v ++ ['\''])

example : trapP "a b".toList "SIGUSR1".toList = "trap -- ".toList ++ trapWord "a b".toList ++ " SIGUSR1".toList := by decide

def trap_p_full : Prop := ∀ v : Str, readArgs false (trapWord v) = .words [v]

theorem trap_p_cex : ¬ trap_p_full := by
  intro h
  have := h ['a', '\'', 'b']
  revert this
  decide

private theorem rd_sq_plain (b : Bool) (v t : Str) (h : '\'' ∉ v) :
    rd b .sq (v ++ '\'' :: t) = (rd b (.un true false) t).prepend v := by
  induction v with
  | nil => simp [rd_sq_q, Res.prepend_nil, start_rd_un_true]
  | cons c cs ih =>
    simp only [List.mem_cons, not_or] at h
    have hc : c ≠ '\'' := fun e => h.1 e.symm
    simp [rd_sq_c b c _ hc, ih h.2]

/-- `trap -- 'cmd' SIG` reads back when the command holds no single quote -/
theorem trap_p_partial (b : Bool) (v : Str) (h : '\'' ∉ v) :
    readArgs b (trapWord v) = .words [v] := by
  have := rd_sq_plain b v [] h
  simp [trapWord, readArgs, rd_un_sq, this, rd_un_nil, Res.prepend]

/-! ## whole-environment listings (`declare -p`, `set`, `export -p`) over a stack of scopes

`visible` mirrors `ShellEnvironment::iter_using_policy`; `lookupEnv` is the by-name lookup.  A local
that hides a global (or a caller's local, or a temporary binding hiding a global) must be what the
listing prints — and the hidden binding must not be printed at all. -/

/-- the view the listings print holds, for every name, the innermost binding -/
theorem listing_view_is_innermost (env : Env) (n : Str) :
    (visible env).lookup n = lookupEnv env n := by
  have := lookup_visibleFrom env [] n
  simpa [visible] using this

/-- … and each name once: a hidden outer binding is not listed -/
theorem listing_one_entry_per_name (env : Env) : ((visible env).map (·.1)).Nodup :=
  namesOnce_visibleFrom env [] (by simp [NamesOnce])

/-- every entry of the view is the innermost binding of its name -/
theorem listing_entries_are_innermost (env : Env) :
    ∀ e ∈ visible env, lookupEnv env e.1 = some e.2 := by
  intro e he
  rw [← listing_view_is_innermost]
  exact lookup_of_mem _ (listing_one_entry_per_name env) e he

/-- a listing prints the line of the innermost binding of every name -/
theorem listing_prints_innermost (line : Str → Var → Option Str) (env : Env) (n : Str) (v : Var) (t : Str)
    (h : lookupEnv env n = some v) (ht : line n v = some t) : t ∈ listing line env := by
  rw [← listing_view_is_innermost] at h
  exact List.mem_filterMap.mpr ⟨(n, v), mem_of_lookup_env _ _ _ h, ht⟩

/-- … and only such lines -/
theorem listing_prints_only_innermost (line : Str → Var → Option Str) (env : Env) (t : Str)
    (h : t ∈ listing line env) : ∃ n v, lookupEnv env n = some v ∧ line n v = some t := by
  obtain ⟨e, he, ht⟩ := List.mem_filterMap.mp h
  exact ⟨e.1, e.2, listing_entries_are_innermost env e he, ht⟩

/-- context independence: what a listing shows for a name depends only on the name's visible
(innermost) binding — not on hidden bindings, nor on how many scopes the execution context put
around it (function frames, `eval`, a sourced file, a handler …) -/
theorem listing_entry_depends_only_on_visible_binding (env₁ env₂ : Env) (n : Str)
    (h : lookupEnv env₁ n = lookupEnv env₂ n) :
    (visible env₁).lookup n = (visible env₂).lookup n := by
  rw [listing_view_is_innermost, listing_view_is_innermost, h]

/-- a context frame that does not bind the name (a function called in between, a wrapper) changes
nothing for it, in the by-name lookup and in the listings alike -/
theorem listing_entry_ignores_context_frames (frame : Scope) (env : Env) (n : Str)
    (h : frame.lookup n = none) :
    lookupEnv (frame :: env) n = lookupEnv env n ∧
    (visible (frame :: env)).lookup n = (visible env).lookup n := by
  have h1 : lookupEnv (frame :: env) n = lookupEnv env n := by
    rw [lookupEnv_cons, h]; simp
  exact ⟨h1, listing_entry_depends_only_on_visible_binding _ _ n h1⟩

example :
    let v : Var := { attrs := ['x'], kind := 's', vals := ["a b".toList] }
    let other : Var := { attrs := [], kind := 's', vals := ["1".toList] }
    (visible [[("i".toList, other)], [("v".toList, v)]]).lookup "v".toList =
      (visible [[("v".toList, v)]]).lookup "v".toList := by decide

/-- `declare -p` (no name) line of a scalar -/
def declLine (n : Str) (v : Var) : Option Str :=
  match v.vals with
  | [x] => if v.kind = 's' then some (declareP v.attrs n x) else none
  | _ => none

/-- in any scope stack, the no-name `declare -p` listing holds the line of the visible scalar, and
the value printed in it reads back to the visible value -/
theorem declare_listing_rereads (b : Bool) (env : Env) (n x attrs : Str)
    (h : lookupEnv env n = some { attrs := attrs, kind := 's', vals := [x] }) (hx : noNul x = true) :
    declareP attrs n x ∈ listing declLine env ∧ readAsg b (declValue x) = .value x :=
  ⟨listing_prints_innermost declLine env n _ _ h (by simp [declLine]), declare_p_value_rereads b x hx⟩

/-- `export -p` line: only for exported variables, the same line as `declare -p` -/
def exportLine (n : Str) (v : Var) : Option Str := if hasX v.attrs then declLine n v else none

/-- in any scope stack, `export -p` holds for the visible exported scalar exactly its `declare -p`
line: all of its attribute flags, and a value that reads back to the visible value -/
theorem export_listing_rereads_with_attributes (b : Bool) (env : Env) (n x attrs : Str)
    (h : lookupEnv env n = some { attrs := attrs, kind := 's', vals := [x] })
    (hx : hasX attrs = true) (hs : ' ' ∉ attrs) (hn : noNul x = true) :
    exportP attrs n x ∈ listing exportLine env ∧
    declFlags (exportP attrs n x) = some attrs ∧
    readAsg b (declValue x) = .value x := by
  refine ⟨listing_prints_innermost exportLine env n _ _ h (by simp [exportLine, hx, declLine, exportP]), ?_,
    declare_p_value_rereads b x hn⟩
  have := (declare_line_carries_attributes attrs n x hs).2
  have hne : attrs.isEmpty = false := by
    cases attrs with
    | nil => simp [hasX] at hx
    | cons _ _ => rfl
  simpa [attrStr, hne] using this

/-- a visible binding that is not exported has no line in `export -p`, whatever it hides -/
theorem export_listing_omits_unexported (env : Env) (t : Str) (h : t ∈ listing exportLine env) :
    ∃ n v, lookupEnv env n = some v ∧ hasX v.attrs = true ∧ declLine n v = some t := by
  obtain ⟨n, v, hl, ht⟩ := listing_prints_only_innermost exportLine env t h
  unfold exportLine at ht
  by_cases hx : hasX v.attrs = true
  · exact ⟨n, v, hl, hx, by simpa [hx] using ht⟩
  · simp [hx] at ht

example :
    let inner : Var := { attrs := [], kind := 's', vals := ["it's".toList] }
    let outer : Var := { attrs := ['x'], kind := 's', vals := ["outer".toList] }
    let w : Var := { attrs := [], kind := 's', vals := ["END".toList] }
    visible [[("v".toList, inner)], [("v".toList, outer), ("w".toList, w)]] =
      [("v".toList, inner), ("w".toList, w)] := by decide

end BrushVerif.C13
