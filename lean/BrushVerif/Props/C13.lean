import BrushVerif.Proofs.QuoteAnsi
/-!
# C13 — shell-quoted output re-reads to the original values

Theorems about `Model/Quote.lean` (brush's `escape::quote` and the printers built on it, tables
regenerated from escape.rs) and `Model/Unquote.lean` (what brush's `eval` makes of the text; `b`
selects bash's reading of `$'\0dd'`).  Quantifiers: every string over every character (`Str = List
Char`), both read positions (argument of a command / value of an assignment).

Where brush's code does not satisfy the full statement, the full statement is kept as a `def … : Prop`,
refuted on a concrete witness (`_cex`) and proved under a decidable guard (`_partial`).
-/
namespace BrushVerif.C13
open BrushVerif.Wire BrushVerif.Quote BrushVerif.Gen.QuoteTables

/-- no ASCII control character (those switch `quote` to the ANSI-C style) -/
def noCtl (s : Str) : Bool := s.all fun c => !isAsciiControl c

/-- guard of the unquoted / backslash style: the text does not start with `~` (or `#` in argument
position) and holds no `:~` -/
def unqGuard (argPos : Bool) : Str → Bool
  | [] => true
  | c :: cs => c != '~' && !(argPos && c == '#') && bsInner (c :: cs)

/-! ## the table -/

/-- every character that is special to the reader outside quotes is in `needs_escaping` (or is a
control character, which forces ANSI-C quoting) -/
theorem needs_escaping_covers_metachars :
    ∀ c ∈ readerSpecial, needsEscaping c = true ∨ isAsciiControl c = true := by
  intro c hc
  have := special_covered c hc
  simpa using this

example : ';' ∈ readerSpecial ∧ needsEscaping ';' = true := by decide

/-! ## the three plain styles -/

/-- single-quoted text reads back, in both positions, for every string -/
theorem read_singleQuote (b : Bool) (s : Str) :
    readArgs b (singleQuote s) = .words [s] ∧ readAsg b (singleQuote s) = .value s := by
  have h := fun st ws => read_singleQuote_gen b st ws s []
  simp only [List.append_nil] at h
  simp [readArgs, readAsg, h, rd_un_nil, Res.prepend]

example : singleQuote "a'b c".toList = "'a'\\''b c'".toList := by decide

/-- double-quoted text reads back, in both positions, for every string -/
theorem read_doubleQuote (b : Bool) (s : Str) :
    readArgs b (doubleQuote s) = .words [s] ∧ readAsg b (doubleQuote s) = .value s := by
  have h := fun st ws => read_doubleQuote_gen b st ws s []
  simp only [List.append_nil] at h
  simp [readArgs, readAsg, h, rd_un_nil, Res.prepend]

example : doubleQuote "a\"$b".toList = "\"a\\\"\\$b\"".toList := by decide

/-- full statement for the backslash style (what `printf %q` uses) -/
def read_backslashEscape_full : Prop :=
  ∀ s : Str, noCtl s = true → readArgs false (backslashEscape s) = .words [s]

/-- `printf %q '~'` prints `~`, which `eval` expands to `$HOME`; `printf %q '#'` prints a comment -/
theorem read_backslashEscape_cex : ¬ read_backslashEscape_full := by
  intro h
  have := h ['~'] (by decide)
  revert this
  decide

theorem read_backslashEscape_hash_cex :
    readArgs false (backslashEscape ['#', 'a']) = .words [] := by decide

private theorem read_bs_first (b st ws : Bool) (argPos : Bool) (s : Str) (hs : s ≠ [])
    (hg : unqGuard argPos s = true) (hst : argPos = false → st = true) :
    rd b (.un st ws) (s.flatMap bsChar) = .ok [] (some s) [] := by
  cases s with
  | nil => exact absurd rfl hs
  | cons c cs =>
    simp only [unqGuard, bsInner, Bool.and_eq_true, bne_iff_ne, ne_eq, Bool.not_eq_true',
      Bool.and_eq_false_imp, beq_iff_eq] at hg
    obtain ⟨⟨h1, h2⟩, ⟨⟨h3, h4⟩, h5⟩⟩ := hg
    have hcol : ¬(c = ':' ∧ cs.head? = some '~') := by
      intro ⟨a, b'⟩; have := h4 a; simp [b'] at this
    have hh : c = '#' → st = true := by
      intro hc
      cases argPos with
      | true => have := h2 rfl; exact absurd hc (by simpa using this)
      | false => exact hst rfl
    rw [List.flatMap_cons, read_bsChar b st ws c cs h3 hcol hh (fun hc => absurd hc h1), read_bsInner b cs h5]
    simp [Res.push]

/-- backslash-escaped text reads back unless it starts with `~`/`#` (or holds `:~`) -/
theorem read_backslashEscape_partial (b : Bool) (s : Str) (hg : unqGuard true s = true) (hc : noCtl s = true) :
    readArgs b (backslashEscape s) = .words [s] := by
  cases s with
  | nil =>
    have h := read_singleQuote_gen b false true [] []
    simp [singleQuote] at h
    simp [backslashEscape, readArgs, h, rd_un_nil, Res.prepend]
  | cons c cs =>
    have := read_bs_first b false true true (c :: cs) (by simp) hg (by simp)
    simp only [backslashEscape, List.isEmpty_cons, Bool.false_eq_true, if_false, readArgs, this]
    simp

theorem read_backslashEscape_asg_partial (b : Bool) (s : Str) (hg : unqGuard false s = true) :
    readAsg b (backslashEscape s) = .value s := by
  cases s with
  | nil =>
    have h := read_singleQuote_gen b true true [] []
    simp [singleQuote] at h
    simp [backslashEscape, readAsg, h, rd_un_nil, Res.prepend]
  | cons c cs =>
    have := read_bs_first b true true false (c :: cs) (by simp) hg (by simp)
    simp only [backslashEscape, List.isEmpty_cons, Bool.false_eq_true, if_false, readAsg, this]
    simp

example : unqGuard true "a b#~:c".toList = true ∧ noCtl "a b#~:c".toList = true := by decide

/-! ## the dispatcher `escape::quote` -/

/-- full statement: whatever `quote` prints, for whatever options, reads back -/
def read_quote_full : Prop :=
  ∀ (o : Opts) (s : Str), ('\x00' ∉ s) → readArgs false (quote o s) = .words [s]

/-- `$'\x01'7` is printed as `$'\0017'`, which brush reads as `\x0f` (bash reads it back correctly) -/
theorem read_quote_cex_octal : ¬ read_quote_full := by
  intro h
  have := h { always := true, mode := .single } ['\x01', '7'] (by decide)
  revert this
  decide

theorem ansiC_octal_cex :
    readArgs false (ansiCQuote ['\x01', '7']) = .words [['\x0f']] ∧
    readArgs true (ansiCQuote ['\x01', '7']) = .words [['\x01', '7']] := by decide

/-- a leading `~` is left unquoted when quoting is "if needed" -/
theorem read_quote_cex_tilde :
    readArgs false (quote { always := false, mode := .single } ['~']) = .words [home] := by decide

private theorem flatMap_bsChar_id (s : Str) (h : s.any needsEscaping = false) : s.flatMap bsChar = s := by
  induction s with
  | nil => rfl
  | cons c cs ih =>
    simp only [List.any_cons, Bool.or_eq_false_iff] at h
    simp [bsChar, h.1, ih h.2]

private theorem noCtl_any (o : Opts) (s : Str) (h : noCtl s = true) :
    s.any (fun c => needsAnsiC c && (!o.avoidNl || c != '\n')) = false := by
  induction s with
  | nil => rfl
  | cons c cs ih =>
    simp only [noCtl, List.all_cons, Bool.and_eq_true, Bool.not_eq_true'] at h
    have ih' := ih (by simpa [noCtl] using h.2)
    rw [List.any_cons, ih']; simp [needsAnsiC, h.1]

/-- for strings without control characters `quote` reads back in argument position, for every
mode: always when quotes are forced, and under the unquoted-text guard otherwise -/
theorem read_quote_partial (b : Bool) (o : Opts) (s : Str) (hc : noCtl s = true)
    (hg : (o.always = false ∨ o.mode = .backslash) → unqGuard true s = true) :
    readArgs b (quote o s) = .words [s] := by
  unfold quote
  rw [noCtl_any o s hc]
  simp only [Bool.false_eq_true, if_false]
  split
  · -- left as it is: not always, non-empty, nothing to escape
    rename_i h
    simp only [Bool.not_eq_true', Bool.or_eq_false_iff] at h
    obtain ⟨⟨h1, h2⟩, h3⟩ := h
    have hne : s ≠ [] := by intro e; subst e; simp at h2
    have := read_bs_first b false true true s hne (hg (Or.inl h1)) (by simp)
    rw [flatMap_bsChar_id s h3] at this
    simp [readArgs, this]
  · rename_i h
    cases hm : o.mode with
    | backslash => simp only []; exact read_backslashEscape_partial b s (hg (Or.inr hm)) hc
    | single => simp only []; exact (read_singleQuote b s).1
    | double => simp only []; exact (read_doubleQuote b s).1

example : noCtl "it's $x".toList = true := by decide

/-! ## ANSI-C quoting (strings with control characters) -/

def noNul (s : Str) : Bool := s.all fun c => c.toNat != 0

private theorem noNul_mem (s : Str) (h : noNul s = true) : ∀ c ∈ s, c.toNat ≠ 0 := by
  intro c hc
  have := List.all_eq_true.mp h c hc
  simpa using this

/-- what `ansi_c_quote` prints is read back by bash's rule for `\0dd`, for every NUL-free string -/
theorem read_ansiC_bash (s : Str) (h : noNul s = true) :
    readArgs true (ansiCQuote s) = .words [s] ∧ readAsg true (ansiCQuote s) = .value s := by
  have hd := decode_ansi true s (noNul_mem s h) (by simp)
  have := fun st ws => read_ansiCQuote true st ws s hd
  simp [readArgs, readAsg, this]

/-- full statement for brush's own reader -/
def read_ansiC_brush_full : Prop :=
  ∀ s : Str, noNul s = true → readArgs false (ansiCQuote s) = .words [s]

theorem read_ansiC_brush_cex : ¬ read_ansiC_brush_full := by
  intro h
  have := h ['\x01', '7'] (by decide)
  revert this
  decide

/-- brush reads its own ANSI-C quoting back when no `\0dd` escape is followed by an octal digit -/
theorem read_ansiC_brush_partial (s : Str) (h : noNul s = true) (hg : octSafe s = true) :
    readArgs false (ansiCQuote s) = .words [s] ∧ readAsg false (ansiCQuote s) = .value s := by
  have hd := decode_ansi false s (noNul_mem s h) (fun _ => hg)
  have := fun st ws => read_ansiCQuote false st ws s hd
  simp [readArgs, readAsg, this]

example : octSafe ['a', '\x01', 'b', '\n', '7', '\x7f', '7'] = true ∧ noNul ['a', '\x01', 'b', '\n', '7', '\x7f', '7'] = true := by decide

/-- the dispatcher on strings with control characters, every mode, forced or not -/
theorem read_quote_ctl_partial (b : Bool) (o : Opts) (s : Str) (hnl : o.avoidNl = false)
    (hc : noCtl s = false) (h : noNul s = true) (hg : b = false → octSafe s = true) :
    readArgs b (quote o s) = .words [s] ∧ readAsg b (quote o s) = .value s := by
  have hany : s.any (fun c => needsAnsiC c && (!o.avoidNl || c != '\n')) = true := by
    obtain ⟨c, hm, hcc⟩ := List.all_eq_false.mp hc
    exact List.any_eq_true.mpr ⟨c, hm, by simp [needsAnsiC, hnl]; simpa using hcc⟩
  have hq : quote o s = ansiCQuote s := by unfold quote; rw [hany]; simp
  rw [hq]
  have hd := decode_ansi b s (noNul_mem s h) hg
  have := fun st ws => read_ansiCQuote b st ws s hd
  simp [readArgs, readAsg, this]

/-! ## printers built on `quote` -/

/-- `${v@Q}` reads back in both positions (no control characters) -/
theorem atQ_rereads (b : Bool) (v : Str) (hc : noCtl v = true) :
    readArgs b (atQ v) = .words [v] ∧ readAsg b (atQ v) = .value v := by
  have : atQ v = singleQuote v := by
    unfold atQ forceQuote quote
    rw [noCtl_any _ v hc]; simp
  rw [this]; exact read_singleQuote b v

/-- the value `declare -p` prints for a scalar reads back as the value of the assignment -/
theorem declare_p_value_rereads (b : Bool) (v : Str) (hc : noCtl v = true) :
    readAsg b (declValue v) = .value v := by
  have : declValue v = doubleQuote v := by
    unfold declValue forceQuote quote
    rw [noCtl_any _ v hc]; simp
  rw [this]; exact (read_doubleQuote b v).2

/-- `printf %q` -/
theorem printfQ_partial (b : Bool) (v : Str) (hc : noCtl v = true) (hg : unqGuard true v = true) :
    readArgs b (printfQ v) = .words [v] :=
  read_quote_partial b _ v hc (fun _ => hg)

example : printfQ "a b".toList = "a\\ b".toList := by decide

/-! ## printers that do not escape (`alias`, `trap -p`, `export -p`) -/

/-- full statement for the quoting `alias` and `trap -p` use: the body between single quotes -/
def naive_single_full : Prop := ∀ v : Str, readAsg false ('\'' :: (v ++ ['\''])) = .value v

theorem naive_single_cex : ¬ naive_single_full := by
  intro h
  have := h ['a', '\'', 'b']
  revert this
  decide

private theorem rd_sq_plain (b : Bool) (v t : Str) (h : '\'' ∉ v) :
    rd b .sq (v ++ '\'' :: t) = (rd b (.un true false) t).prepend v := by
  induction v with
  | nil => simp [rd_sq_q, Res.prepend_nil, start_rd_un_true]
  | cons c cs ih =>
    simp only [List.mem_cons, not_or] at h
    have hc : c ≠ '\'' := fun e => h.1 e.symm
    simp [rd_sq_c b c _ hc, ih h.2]

/-- `alias x='body'` / `trap -- 'cmd' SIG` read back when the body holds no single quote -/
theorem naive_single_partial (b : Bool) (v : Str) (h : '\'' ∉ v) :
    readAsg b ('\'' :: (v ++ ['\''])) = .value v := by
  have := rd_sq_plain b v [] h
  simp [readAsg, rd_un_sq, this, rd_un_nil, Res.prepend]

/-- full statement for `export -p`: the value between double quotes -/
def naive_double_full : Prop := ∀ v : Str, readAsg false ('"' :: (v ++ ['"'])) = .value v

theorem naive_double_cex : ¬ naive_double_full := by
  intro h
  have := h ['a', '"', 'b']
  revert this
  decide

/-- `export -p` reads back when the value holds none of `"` `$` `` ` `` `\` -/
theorem naive_double_partial (b : Bool) (v : Str) (h : ∀ c ∈ v, dqEscapable c = false) :
    readAsg b ('"' :: (v ++ ['"'])) = .value v := by
  have hb : ∀ (v t : Str), (∀ c ∈ v, dqEscapable c = false) →
      rd b .dq (v ++ '"' :: t) = (rd b (.un true false) t).prepend v := by
    intro v t hv
    induction v with
    | nil => simp [rd_dq_q, Res.prepend_nil, start_rd_un_true]
    | cons c cs ih =>
      have hc := hv c (by simp)
      simp only [dqEscapable, Bool.or_eq_false_iff, decide_eq_false_iff_not] at hc
      obtain ⟨⟨⟨h1, h2⟩, h3⟩, h4⟩ := hc
      simp [rd_dq_c b c _ h3 h1 h2 h4, ih (fun x hx => hv x (by simp [hx]))]
  simp [readAsg, rd_un_dq, hb v [] h, rd_un_nil, Res.prepend]

example : ∀ c ∈ "a b'c".toList, dqEscapable c = false := by decide

end BrushVerif.C13
