import BrushVerif.Proofs.Expand
/-!
# C05 — unquoted words expand to the same argument lists as in bash

`Model/Expand.lean` mirrors brush (`fullExpandB`: brace alternatives joined with a space and re-read as one
word; `"$*"` joined with a space when IFS is empty); `Spec/WordExp.lean` is the reference (`specExpandB`: brace
expansion yields words that are expanded separately; `fieldsOf`: POSIX field splitting for white-space IFS).
-/
namespace BrushVerif.C05
open BrushVerif.Wire BrushVerif.Expand BrushVerif.WordExp

/-! ## field splitting -/

/-- **split_eq_posix_ws**: the loop of `split_fields`, run on the unquoted values of `$x`, `$@`, `${a[@]}`…,
produces for every value its maximal runs of non-IFS characters, in order, values never merged — which is
POSIX field splitting whenever IFS consists of white space (C05's IFS settings: unset, default, space, newline;
with an empty IFS nothing is split). -/
theorem split_eq_posix_ws (ifs : Str) (vals : List Str) (c a u : Bool) :
    splitFields ifs { fields := vals.map fun v => [Piece.split v], concatenate := c, fromArray := a, undefined := u } =
      (vals.flatMap (fieldsOf ifs)).map fun s => [Piece.split s] := by
  rw [splitFields_values]; simp [List.map_flatMap]

example : splitFields " \n".toList { fields := [" a  b\n".toList, [], "c".toList].map fun v => [Piece.split v] } =
    ["a".toList, "b".toList, "c".toList].map fun s => [Piece.split s] := by
  rw [split_eq_posix_ws]; decide

/-- with an empty IFS nothing is split, and an empty value disappears -/
theorem split_empty_ifs (v : Str) : fieldsOf [] v = if v.isEmpty then [] else [v] := by
  have h : ∀ (cur s : Str), splitOnAcc ([] : Str).contains cur s = [cur ++ s] := by
    intro cur s
    induction s generalizing cur with
    | nil => simp [splitOnAcc]
    | cons c cs ih => simp [splitOnAcc, ih]
  simp only [fieldsOf, h]
  cases v <;> simp

/-- the full-strength statement for *any* IFS is false: for an IFS of non-white-space characters POSIX keeps
the empty fields between adjacent delimiters, brush drops them (outside C05's quantifier; evidence only) -/
def split_eq_posix_full : Prop :=
  ∀ (ifs v : Str), (∀ c ∈ ifs, c ≠ ' ' ∧ c ≠ '\t' ∧ c ≠ '\n') →
    splitFields ifs { fields := [[Piece.split v]] } = (splitKeepEmpty ifs v).map fun s => [Piece.split s]

theorem split_cex_nonws : ¬ split_eq_posix_full := by
  intro h
  have := h ":".toList "a::b".toList (by decide)
  revert this; decide

/-! ## brace expansion -/

/-- the full-strength statement: brush's word expansion equals the reference semantics -/
def word_expansion_refines_spec_full : Prop :=
  ∀ (env : Env) (opts : Opts) (names : List Str) (w : BWord),
    fullExpandB env opts names w = specExpandB env opts names w

/-- `IFS=:; printf '<%s>' {a,b}c` gives `<ac bc>`: the alternatives are joined with a space and only an IFS
holding a space separates them again -/
theorem brace_cex_ifs_without_space : ¬ word_expansion_refines_spec_full := by
  intro h
  have := h { ifs := some ":".toList } {} []
    [.braces [[.plain (.base (.text "a".toList))], [.plain (.base (.text "b".toList))]], .piece (.plain (.base (.text "c".toList)))]
  revert this; decide

/-- also with the empty IFS, which is inside C05's quantifier -/
theorem brace_cex_empty_ifs :
    fullExpandB { ifs := some [] } {} []
      [.braces [[.plain (.base (.text "a".toList))], [.plain (.base (.text "b".toList))]]] = some ["a b".toList] ∧
    specExpandB { ifs := some [] } {} []
      [.braces [[.plain (.base (.text "a".toList))], [.plain (.base (.text "b".toList))]]] = some ["a".toList, "b".toList] := by
  decide

/-- second recorded divergence: `"$*"` with an empty IFS -/
theorem star_join_cex_empty_ifs :
    fullExpandB { ifs := some [], args := ["a".toList, "b".toList] } {} [] [.piece (.dq [.base (.param (.allPos true))])]
      = some ["a b".toList] ∧
    specExpandB { ifs := some [], args := ["a".toList, "b".toList] } {} [] [.piece (.dq [.base (.param (.allPos true))])]
      = some ["ab".toList] := by
  decide

/-! ### the guarded statement -/

/-- with a non-empty IFS the `"$*"` separator of the reference and of brush coincide -/
private theorem fullExpand_spec_env (env : Env) (opts : Opts) (names : List Str) (hi : env.ifsStr ≠ []) (w' : Word) :
    fullExpand { env with bashStarJoin := true } opts names w' = fullExpand env opts names w' := by
  have hj : ∀ b, ({ env with bashStarJoin := b } : Env).joiner = env.joiner := by
    intro b
    simp only [Env.joiner, Env.ifsStr]
    cases h : env.ifs.getD [' ', '\t', '\n'] with
    | nil => exact absurd h hi
    | cons c r => rfl
  have hP : expandParam { env with bashStarJoin := true } = expandParam env := by
    funext p; cases p <;> simp [expandParam]
  have hA0 : expandA0 { env with bashStarJoin := true } = expandA0 env := by
    funext a; cases a <;> simp [expandA0, hP]
  have hW0 : expandW0 { env with bashStarJoin := true } = expandW0 env := by
    funext x; cases x <;> simp [expandW0, hA0, hj]
  have hOp : expandOpWord { env with bashStarJoin := true } = expandOpWord env := by
    funext d x
    unfold expandOpWord
    simp only [hA0, hW0, hj]
  have hA1 : expandA1 { env with bashStarJoin := true } = expandA1 env := by
    funext d a; cases a <;> simp only [expandA1, hA0, hOp, hP]
  have hWP : expandWP { env with bashStarJoin := true } = expandWP env := by
    funext p; cases p <;> simp [expandWP, hA1, hj]
  simp [fullExpand, basicExpand, hWP, Env.ifsStr]

private theorem braceProduct_nobraces : ∀ w : BWord, hasBraces w = false →
    braceProduct w = [w.filterMap fun | .piece p => some p | .braces _ => none] := by
  intro w
  induction w with
  | nil => intro _; rfl
  | cons b r ih =>
    intro h
    cases b with
    | braces a => simp [hasBraces] at h
    | piece p =>
      have hr : hasBraces r = false := by simpa [hasBraces] using h
      simp [braceProduct, ih hr]

/-- decidable guard of the partial theorem: IFS is non-empty; every generated word has the same tilde-prefix for
brush and bash; and if the word has brace expressions then IFS holds a space, no generated word is empty, and only
the first generated word has a tilde-prefix (clauses `star_joined_with_space_when_ifs_empty`,
`brace_alternatives_joined_with_space`, `empty_brace_alternative_kept`,
`tilde_after_brace_alternative_not_expanded`) -/
def InDomain (env : Env) (w : BWord) : Prop :=
  env.ifsStr ≠ [] ∧
  (∀ x ∈ braceProduct w, tildeFix tildeTermsBrush x = tildeFix tildeTermsBash x) ∧
  (hasBraces w = true → ' ' ∈ env.ifsStr ∧ (∀ x ∈ braceProduct w, x ≠ []) ∧ laterWordsOk (braceProduct w))

instance (env : Env) (w : BWord) : Decidable (InDomain env w) := by unfold InDomain; infer_instance

private theorem all_ne_nil_iff (l : List Word) : (∀ x ∈ l, x ≠ []) ↔ [] ∉ l :=
  ⟨fun h hm => h _ hm rfl, fun h x hx hxe => h (hxe ▸ hx)⟩

/-- the driver's report `domainFlags` is empty exactly inside the guard -/
theorem domainFlags_nil_iff (env : Env) (w : BWord) : domainFlags env w = [] ↔ InDomain env w := by
  unfold domainFlags InDomain
  by_cases h1 : env.ifsStr = [] <;> by_cases h2 : hasBraces w = true <;>
    by_cases h3 : ' ' ∈ env.ifsStr <;> by_cases h4 : [] ∉ braceProduct w <;>
    by_cases h5 : (∀ x ∈ braceProduct w, tildeFix tildeTermsBrush x = tildeFix tildeTermsBash x) <;>
    by_cases h6 : laterWordsOk (braceProduct w) <;> simp [all_ne_nil_iff, h1, h2, h3, h4, h5, h6]

/-- **word_expansion_refines_spec_partial**: inside the guard, brush's word expansion (brace alternatives joined
with a space and re-read as one word — tilde-prefix only at its start —, then parameter/command/arithmetic
expansion, coalescing, field splitting, pathname expansion) yields exactly the argument list of the reference
semantics (brace expansion first, every generated word expanded separately, each with its own tilde-prefix) — for
every word, environment, option set and directory. -/
theorem word_expansion_refines_spec_partial (env : Env) (opts : Opts) (names : List Str) (w : BWord)
    (hd : InDomain env w) :
    fullExpandB env opts names w = specExpandB env opts names w := by
  obtain ⟨hi, hterm, hbr⟩ := hd
  have hfe : fullExpand { env with bashStarJoin := true } opts names = fullExpand env opts names :=
    funext (fullExpand_spec_env env opts names hi)
  simp only [fullExpandB, specExpandB, hfe]
  cases hb : hasBraces w with
  | false =>
    have hx := hterm _ (by rw [braceProduct_nobraces w hb]; exact List.mem_singleton.mpr rfl)
    simp only [braceJoin, braceJoinRaw, hb, braceProduct_nobraces w hb, List.map_cons, List.map_nil, Bool.false_eq_true,
      ↓reduceIte]
    rw [seqAppend_single]
    exact congrArg (fullExpand env opts names) hx
  | true =>
    obtain ⟨hsp, hne, hlater⟩ := hbr hb
    have hmap : (braceProduct w).map (fun x => if x.isEmpty then [WP.dq []] else x) = braceProduct w := by
      have hid : ∀ x ∈ braceProduct w, (fun x : Word => if x.isEmpty then [WP.dq []] else x) x = id x := by
        intro x hx
        have := hne x hx
        cases x with
        | nil => exact absurd rfl this
        | cons a r => rfl
      rw [List.map_congr_left hid, List.map_id]
    simp only [braceJoin, braceJoinRaw, hb, ↓reduceIte, hmap]
    cases hp : braceProduct w with
    | nil => simp [tildeFix, fullExpand, basicExpand, coalesce, splitFields, splitGo, globFields, seqAppend]
    | cons x r =>
      rw [hp] at hlater hne hterm
      obtain ⟨hx1, hr⟩ := hlater
      have hjoin : tildeFix tildeTermsBrush (x ++ r.flatMap fun y => WP.plain (.base (.text [' '])) :: y) =
          tildeFix tildeTermsBash x ++
            (r.map (tildeFix tildeTermsBash)).flatMap fun y => WP.plain (.base (.text [' '])) :: y := by
        rw [tildeFix_append _ _ _ (hne x (by simp)) hx1, untildeAll_joined, hterm x (by simp), List.flatMap_map]
        congr 1
        rw [List.flatMap_def, List.flatMap_def]
        congr 1
        apply List.map_congr_left
        intro y hy
        rw [hr y hy]
      simp only [hjoin]
      rw [fullExpand_joined env opts names hsp]
      simp [List.map_map, Function.comp_def]

example : InDomain { vars := [("s".toList, " a  b ".toList)] }
    [.braces [[.plain (.base (.param (.named "s".toList)))], [.dq [.base (.text "*".toList)]]],
     .piece (.plain (.base (.text "c".toList)))] := by decide

example : fullExpandB { vars := [("s".toList, " a  b ".toList)] } {} ["a".toList]
    [.braces [[.plain (.base (.param (.named "s".toList)))], [.dq [.base (.text "*".toList)]]],
     .piece (.plain (.base (.text "c".toList)))] =
    specExpandB { vars := [("s".toList, " a  b ".toList)] } {} ["a".toList]
    [.braces [[.plain (.base (.param (.named "s".toList)))], [.dq [.base (.text "*".toList)]]],
     .piece (.plain (.base (.text "c".toList)))] :=
  word_expansion_refines_spec_partial _ _ _ _ (by decide)

/-- the guard's tilde conjunct is needed: `HOME=/hh; set -- ~/b{x,y}` gives `/hh/bx ~/by` in brush (the joined
text `~/bx ~/by` has only one word start), `/hh/bx /hh/by` in bash — with the default IFS and no empty word -/
theorem tilde_after_brace_cex :
    fullExpandB { home := "/hh".toList } {} []
      [.piece (.plain (.base .tilde)), .piece (.plain (.base (.text "/b".toList))),
       .braces [[.plain (.base (.text "x".toList))], [.plain (.base (.text "y".toList))]]]
      = some ["/hh/bx".toList, "~/by".toList] ∧
    specExpandB { home := "/hh".toList } {} []
      [.piece (.plain (.base .tilde)), .piece (.plain (.base (.text "/b".toList))),
       .braces [[.plain (.base (.text "x".toList))], [.plain (.base (.text "y".toList))]]]
      = some ["/hh/bx".toList, "/hh/by".toList] := by
  decide

/-- and a brace alternative that is `~` alone is not expanded even in first position (`{~,a}`: a space follows it) -/
theorem tilde_alone_in_brace_cex :
    fullExpandB { home := "/hh".toList } {} []
      [.braces [[.plain (.base .tilde)], [.plain (.base (.text "a".toList))]]] = some ["~".toList, "a".toList] ∧
    specExpandB { home := "/hh".toList } {} []
      [.braces [[.plain (.base .tilde)], [.plain (.base (.text "a".toList))]]] = some ["/hh".toList, "a".toList] := by
  decide

/-- inside the guard: a tilde-prefix in front of a brace expression whose alternatives follow a `/` … is outside;
a tilde-prefix word without braces, and a brace word whose first alternative only carries the prefix, are inside -/
example : InDomain { home := " /x ".toList }
    [.piece (.plain (.base .tilde)), .piece (.plain (.base (.text "/a*".toList)))] := by decide

example : InDomain {}
    [.braces [[.plain (.base .tilde), .plain (.base (.text "/x".toList))], [.plain (.base (.text "y".toList))]]] := by decide

example : ¬ InDomain { home := "/hh".toList }
    [.piece (.plain (.base .tilde)), .piece (.plain (.base (.text "/b".toList))),
     .braces [[.plain (.base (.text "x".toList))], [.plain (.base (.text "y".toList))]]] := by decide

/-- coalescing adjacent pieces is associative: how a word is cut into groups of pieces does not matter -/
theorem coalesce_assoc (a b c : List Expansion) :
    (coalesce (a ++ b ++ c)).fields = glue (coalesce a).fields (glue (coalesce b).fields (coalesce c).fields) := by
  rw [List.append_assoc, coalesce_append_fields, coalesce_append_fields]

example : glue (glue [[.split "a".toList]] [[.unsplit "b".toList], []]) [[.split "c".toList]] =
    glue [[.split "a".toList]] (glue [[.unsplit "b".toList], []] [[.split "c".toList]]) := glue_assoc _ _ _

/-! ## `$@` / `$*` field structure -/

private theorem glue_tail (post : Str) : ∀ (l : List Str) (F : Field),
    (glue (F :: l.map (fun a => [Piece.unsplit a])) [[Piece.unsplit post]]).map fieldStr =
      (match l with
       | [] => [fieldStr F ++ post]
       | b :: r => fieldStr F :: atTail post (b :: r)) := by
  intro l
  induction l with
  | nil => intro F; simp [glue, fieldStr, Piece.str]
  | cons b r ih =>
    intro F
    have := ih [Piece.unsplit b]
    simp only [List.map_cons, glue] at this ⊢
    rw [this]
    cases r <;> simp [atTail, fieldStr, Piece.str]


/-- **at_star_field_structure**: inside double quotes `$*` contributes ONE field — the parameters joined with
the separator — while `$@` contributes one field per parameter, the first continuing the text before it and the
last continued by the text after it (`"x$@y"`); with no parameters `"$@"` contributes nothing. -/
theorem at_star_field_structure (env : Env) (pre post : Str) :
    (basicExpand env [.dq [.base (.text pre), .base (.param (.allPos true)), .base (.text post)]]).fields.map fieldStr
      = [pre ++ joinWith env.joiner env.args ++ post] ∧
    (basicExpand env [.dq [.base (.text pre), .base (.param (.allPos false)), .base (.text post)]]).fields.map fieldStr
      = atGlue pre post env.args := by
  constructor
  · have hc : ∀ e ∈ [A1.base (.text pre), .base (.param (.allPos true)), .base (.text post)].map (expandA1 env true),
        e.concatenate = true := by
      intro e he; simp at he
      rcases he with rfl | rfl | rfl <;> simp [expandA1, expandA0, expandParam, arrayExp, Expansion.ofPiece]
    obtain ⟨G, hG, _, _, hs⟩ := expandDQ_concat env.joiner _ hc
    simp only [basicExpand, List.map_cons, List.map_nil, coalesce_single, expandWP] at hG ⊢
    rw [hG]
    simp only [List.map_cons, List.map_nil, hs]
    simp [expandA1, expandA0, expandParam, arrayExp, Expansion.ofPiece, joinedStr, joinWith, fieldStr, Piece.str,
      Function.comp_def]
  · simp only [basicExpand, List.map_cons, List.map_nil, coalesce_single, expandWP, expandA1, expandA0, expandParam,
      expandDQ, List.foldl_cons, List.foldl_nil, List.isEmpty_cons, Bool.false_eq_true, ↓reduceIte]
    have h1 : dqStep env.joiner [] (Expansion.ofPiece (.split pre)) = [[Piece.unsplit pre]] := by
      simp [dqStep, Expansion.ofPiece, intersperseFlat, Piece.mkUnsplit, glue]
    rw [h1]
    cases hargs : env.args with
    | nil =>
      cases pre <;> cases post <;>
        simp [dqStep, arrayExp, Expansion.ofPiece, intersperseFlat, Piece.mkUnsplit, glue, atGlue, fieldStr, Piece.str,
          dropNullAt, sawEmptyList, nullOnly]
    | cons a r =>
      rw [dropNullAt_not_saw _ _ (by simp [sawEmptyList, arrayExp, Expansion.ofPiece])]
      have h2 : dqStep env.joiner [[Piece.unsplit pre]] (arrayExp (a :: r) false) =
          [Piece.unsplit pre, Piece.unsplit a] :: r.map (fun x => [Piece.unsplit x]) := by
        simp [dqStep, arrayExp, Piece.mkUnsplit, glue, Function.comp_def]
      rw [h2]
      have h3 : ∀ fs, dqStep env.joiner fs (Expansion.ofPiece (.split post)) = glue fs [[Piece.unsplit post]] := by
        intro fs; simp [dqStep, Expansion.ofPiece, intersperseFlat, Piece.mkUnsplit]
      rw [h3, glue_tail]
      cases r with
      | nil => simp [atGlue, fieldStr, Piece.str]
      | cons b r' => simp [atGlue, fieldStr, Piece.str]

example : (basicExpand { args := ["a".toList, [], "b c".toList] }
    [.dq [.base (.text "x".toList), .base (.param (.allPos false)), .base (.text "y".toList)]]).fields.map fieldStr
    = ["xa".toList, [], "b cy".toList] := (at_star_field_structure _ _ _).2

/-- **empty_at_with_null_rest_removed** (was finding C05-5 `empty_at_in_quotes_with_null_rest_keeps_field`, repaired in
/repo 14c5f22): without positional parameters, a double-quoted string made of `$@` and variables that are all empty
yields NO argument (as `"$@"` alone) — whatever IFS, the options and the directory are. -/
theorem empty_at_with_null_rest_removed (env : Env) (opts : Opts) (names : List Str) (e : Str)
    (hargs : env.args = []) (he : lookup env.vars e = some []) :
    fullExpand env opts names [.dq [.base (.param (.allPos false)), .base (.param (.named e))]] = some [] ∧
    fullExpand env opts names [.dq [.base (.param (.named e)), .base (.param (.allPos false))]] = some [] := by
  constructor <;>
    simp [fullExpand, basicExpand, coalesce, glue, expandWP, expandA1, expandA0, expandParam, hargs, he, expandDQ,
      dqStep, arrayExp, Expansion.ofStr, Expansion.ofPiece, intersperseFlat, Piece.mkUnsplit, dropNullAt, sawEmptyList,
      nullOnly, Piece.str, splitFields, splitGo, globFields]

example : fullExpand { vars := [("e".toList, [])] } { nullglob := true } ["a".toList]
    [.dq [.base (.param (.allPos false)), .base (.param (.named "e".toList))]] = some [] :=
  (empty_at_with_null_rest_removed _ _ _ _ rfl rfl).1

/-- …while a separately quoted null next to it still counts: `"$@"""` is one empty argument -/
example : fullExpand {} {} [] [.dq [.base (.param (.allPos false))], .dq []] = some [[]] := by decide

/-! ## an empty quoted piece is transparent to pathname expansion -/

/-- **empty_quoted_piece_transparent_to_globbing** (was finding C05-4 `leading_empty_quoted_piece_hides_dotfiles`,
repaired in /repo a135ffb): an empty quoted string in front of a field changes nothing about its pathname expansion —
in particular `"".*` lists the dot-files exactly as `.*` does — for every non-empty field, option set and directory. -/
theorem empty_quoted_piece_transparent_to_globbing (opts : Opts) (names : List Str) (f : Field) (hne : f ≠ []) :
    globField opts names (Piece.unsplit [] :: f) = globField opts names f := by
  cases f with
  | nil => exact absurd rfl hne
  | cons p r =>
    simp [globField, patExpand, requiresExpansion, patternText, toPattern, Pattern.escapeLiteral, firstStartsWithDot,
      PatPiece.str, fieldStr, Piece.str]

example : globField {} [".h".toList, "a".toList] [.unsplit [], .split ".*".toList] = some [".h".toList] := by
  rw [empty_quoted_piece_transparent_to_globbing _ _ _ (by simp)]; decide

/-! ## the execution context does not matter -/

/-- **word_expansion_reads_only_visible_state** (context sweep): brush's expansion of a word with brace
expressions, and the reference semantics, depend on the environment only through what it shows (`SameView`: visible
value of every name, positional parameters, IFS, HOME) — not on hidden globals, the caller's parameters, or where
(function, subshell, `eval`, loop, second time round) the word is expanded. -/
theorem word_expansion_reads_only_visible_state (e1 e2 : Env) (h : SameView e1 e2) (opts : Opts)
    (names : List Str) (w : BWord) :
    fullExpandB e1 opts names w = fullExpandB e2 opts names w ∧
    specExpandB e1 opts names w = specExpandB e2 opts names w := by
  constructor
  · exact fullExpand_sameView e1 e2 h opts names _
  · have h' : SameView { e1 with bashStarJoin := true } { e2 with bashStarJoin := true } :=
      ⟨h.1, h.2.1, h.2.2.1, h.2.2.2.1, h.2.2.2.2.1, rfl⟩
    simp only [specExpandB]
    congr 1
    apply List.map_congr_left
    intro x _
    exact fullExpand_sameView _ _ h' opts names _

example : fullExpandB { vars := [("s".toList, "a b".toList), ("s".toList, "hidden *".toList)], args := ["p".toList] } {} []
      [.braces [[.plain (.base (.param (.named "s".toList)))], [.dq [.base (.param (.allPos false))]]]] =
    fullExpandB { vars := [("s".toList, "a b".toList)], args := ["p".toList] } {} []
      [.braces [[.plain (.base (.param (.named "s".toList)))], [.dq [.base (.param (.allPos false))]]]] :=
  (word_expansion_reads_only_visible_state _ _ (sameView_shadow { args := ["p".toList] } _ _ _) _ _ _).1

/-! ## the history of IFS does not matter

The model's expansion takes the environment (with IFS in it) as an argument and has no other memory, so the statement
below is short on the model. Its content is in the correspondence: the "IFS history" family of `tools/c05.py` runs
sequences of these events through brush and bash (plain / `declare` / `typeset` / `export` / `readonly` / `declare -g`
assignments, `unset`, `local` once and twice, prefix assignments, subshells, function return) with expansions in
between, and compares every list with the model's for the IFS in force at that point (env.rs: `update_or_add`,
`get_mut`, `get_mut_using_policy`, `add`, `unset`, `pop_scope`; `Shell::ifs`). -/

/-- what can happen to IFS between two expansions -/
inductive IfsEvent where
  /-- `IFS=v`, `declare`/`typeset`/`export`/`readonly IFS=v`, `declare -g IFS=v`, a second `local IFS=v` -/
  | assign (v : Str)
  /-- `unset IFS` -/
  | unset
  /-- a scope with its own IFS begins: first `local IFS=v` in a function, `IFS=v cmd`, `( IFS=v; … )` -/
  | enterLocal (v : Str)
  /-- that scope ends: the shadowed value is visible again -/
  | leave
  /-- a word is expanded (this consults IFS and changes nothing) -/
  | expand (w : BWord)

/-- the environment after a history; the second component is the stack of shadowed IFS values -/
def runIfs : Env → List (Option Str) → List IfsEvent → Env × List (Option Str)
  | e, st, [] => (e, st)
  | e, st, .assign v :: r => runIfs { e with ifs := some v } st r
  | e, st, .unset :: r => runIfs { e with ifs := none } st r
  | e, st, .enterLocal v :: r => runIfs { e with ifs := some v } (e.ifs :: st) r
  | e, [], .leave :: r => runIfs e [] r
  | e, s :: st, .leave :: r => runIfs { e with ifs := s } st r
  | e, st, .expand _ :: r => runIfs e st r

private theorem runIfs_changes_only_ifs (e : Env) (st : List (Option Str)) (h : List IfsEvent) :
    (runIfs e st h).1 = { e with ifs := (runIfs e st h).1.ifs } := by
  induction h generalizing e st with
  | nil => rfl
  | cons ev r ih =>
    cases ev with
    | assign v => rw [runIfs]; exact ih _ _
    | unset => rw [runIfs]; exact ih _ _
    | enterLocal v => rw [runIfs]; exact ih _ _
    | expand w => rw [runIfs]; exact ih _ _
    | leave =>
      cases st with
      | nil => rw [runIfs]; exact ih _ _
      | cons s st => rw [runIfs]; exact ih _ _

/-- **fields_depend_on_current_ifs_only**: two histories (any assignments, unsets, scopes entered and left, expansions
in between) that end with the same visible IFS give the same argument list for every word — brush's expansion and the
reference semantics alike. Nothing but the current value is remembered. -/
theorem fields_depend_on_current_ifs_only (e : Env) (h1 h2 : List IfsEvent) (opts : Opts) (names : List Str) (w : BWord)
    (hifs : (runIfs e [] h1).1.ifs = (runIfs e [] h2).1.ifs) :
    fullExpandB (runIfs e [] h1).1 opts names w = fullExpandB (runIfs e [] h2).1 opts names w ∧
    specExpandB (runIfs e [] h1).1 opts names w = specExpandB (runIfs e [] h2).1 opts names w := by
  have a := runIfs_changes_only_ifs e [] h1
  have b := runIfs_changes_only_ifs e [] h2
  rw [a, b, hifs]
  exact ⟨rfl, rfl⟩

/-- `IFS=' '; $v; local IFS=:; $v; declare IFS=' '` against a plain `IFS=' '`: same lists -/
example : fullExpandB (runIfs { vars := [("v".toList, "a b:c".toList)] } []
      [.assign " ".toList, .expand [], .enterLocal ":".toList, .expand [], .assign " ".toList]).1 {} []
      [.piece (.plain (.base (.param (.named "v".toList))))] = some ["a".toList, "b:c".toList] :=
  (fields_depend_on_current_ifs_only _ _ [.assign " ".toList] {} [] _ rfl).1.trans (by decide)

/-- **stale_ifs_changes_fields**: the value matters — there are a word, a variable value and two IFS values for which
the lists differ, so an expansion that used a remembered IFS after an assignment would be observable
(`v=$'a b\tc'`: three arguments under the default IFS, two after `declare IFS=' '`). -/
theorem stale_ifs_changes_fields : ∃ (w : BWord) (e : Env) (old new : Str),
    fullExpandB (runIfs e [] [.assign old, .expand w, .assign new]).1 {} [] w ≠
    fullExpandB { e with ifs := some old } {} [] w :=
  ⟨[.piece (.plain (.base (.param (.named "v".toList))))], { vars := [("v".toList, "a b\tc".toList)] },
    " \t\n".toList, " ".toList, by decide⟩

end BrushVerif.C05
