import BrushVerif.Proofs.Cache
import BrushVerif.Proofs.Accumulate
/-!
# C15 — a program means the same however it is delivered and whatever was parsed before

* parsing through brush's memoising caches is a pure function of text and options: `memo_transparent`,
  `memo_key_must_determine`, `keys_cover_params`, `gen_caches_transparent` (over `Gen.Caches`, regenerated from
  the `#[cached]` items and the regex LRU on every run);
* on standard input a command runs as soon as, and only when, the text read so far forms a complete command:
  `accumulate_runs_maximal_complete_chunks`, `accumulate_loses_nothing`, `bad_token_never_waits`,
  `completeness_decision_independent_of_character_width`, `stdin_chunks_independent_of_character_width`,
  `unterminated_kinds_incomplete` (over `Gen.IncompleteErrors`);
* `$LINENO` on standard input equals `$LINENO` of the same text as a file: `stdin_lineno_eq_file_lineno`.
-/
namespace BrushVerif.C15
open BrushVerif.Wire BrushVerif.Cache BrushVerif.Accumulate BrushVerif.AccumulateSpec
open BrushVerif.Gen.IncompleteErrors

/-! ## caches -/

/-- If the key determines the function's value, a process that has served any history of calls through the cache
(any capacity, any eviction pattern) returns exactly what fresh computations return. -/
theorem memo_transparent {K V X : Type} [DecidableEq K] (f : X → V) (key : X → K) (keep : V → Bool) (cap : Nat)
    (hkey : ∀ x y, key x = key y → f x = f y) (history : List X) :
    (runMemo f key keep cap [] history).1 = history.map f :=
  runMemo_outputs keep cap hkey [] history (sound_nil f key)

example : (runMemo (fun x : Nat × Bool => if x.2 then x.1 + 1 else x.1) (fun x => (x.1, x.2)) (fun _ => true) 1 []
    [(1, true), (1, false), (1, true), (2, true), (1, true)]).1 = [2, 1, 2, 3, 2] := by decide

/-- Conversely the key *must* determine the value: two calls that share a key but not a value are answered
wrongly by any cache that can hold at least one entry, once the first value is one that gets stored.
(This is what dropping the options from a key does.) -/
theorem memo_key_must_determine {K V X : Type} [DecidableEq K] (f : X → V) (key : X → K) (keep : V → Bool)
    (cap : Nat) (hcap : 1 ≤ cap) (x y : X) (hk : key x = key y) (hv : f x ≠ f y) (hkeep : keep (f x) = true) :
    (runMemo f key keep cap [] [x, y]).1 ≠ [x, y].map f := by
  obtain ⟨n, rfl⟩ : ∃ n, cap = n + 1 := ⟨cap - 1, by omega⟩
  simp only [runMemo, memoStep, get?, Cache.set, remove, hk, hkeep, List.filter_nil, List.take_succ_cons, List.take_nil,
    if_true, List.map_cons, List.map_nil, ne_eq, List.cons.injEq, true_and, and_true]
  exact hv

example : (runMemo (fun x : Nat × Bool => if x.2 then x.1 + 1 else x.1) (fun x => x.1) (fun _ => true) 64 []
    [(1, true), (1, false)]).1 = [2, 2] := by decide

/-- Every memoised function's key holds every parameter of the function (fields of option structs included). -/
theorem keys_cover_params :
    ∀ c, c ∈ BrushVerif.Gen.Caches.caches → ∀ p, p ∈ c.params → p ∈ c.key := by
  decide

example : (BrushVerif.Gen.Caches.caches.filter (fun c => c.params.length ≥ 4)).length ≥ 3 := by decide

private theorem map_eq_of_mem {α β : Type} (a b : α → β) : ∀ (l : List α), l.map a = l.map b →
    ∀ p, p ∈ l → a p = b p := by
  intro l
  induction l with
  | nil => intro _ p hp; simp at hp
  | cons x xs ih =>
    intro h p hp
    simp only [List.map_cons, List.cons.injEq] at h
    simp only [List.mem_cons] at hp
    rcases hp with rfl | hp
    · exact h.1
    · exact ih h.2 p hp

/-- Hence each of brush's caches is transparent for any function of the declared parameters: whatever was parsed
before, under whatever alternation of options, a call returns what a fresh process would compute. -/
theorem gen_caches_transparent {V : Type} (c : BrushVerif.Gen.Caches.CacheDef)
    (hc : c ∈ BrushVerif.Gen.Caches.caches) (f : Assign → V)
    (hf : ∀ a b, sameParams c.params a b → f a = f b) (keep : V → Bool) (cap : Nat) (history : List Assign) :
    (runMemo f (keyOf c.key) keep cap [] history).1 = history.map f := by
  apply memo_transparent
  intro a b hk
  apply hf
  intro p hp
  exact map_eq_of_mem a b c.key hk p (keys_cover_params c hc p hp)

/-! ## standard input -/

/-- The programs brush executes from standard input tile the input lines into maximal-complete groups: a group ends
at the first line after which no more input is needed (as soon as), never before (only when); only the last group
may be incomplete (input ended). For every completeness predicate and every input. -/
theorem accumulate_runs_maximal_complete_chunks (needs : Str → Bool) (lines : List Str)
    (hne : ∀ l, l ∈ lines → l ≠ []) : Tiles needs lines (chunks needs lines) :=
  chunks_tiles needs lines hne

/-- Nothing is dropped, duplicated or reordered. -/
theorem accumulate_loses_nothing (needs : Str → Bool) (lines : List Str)
    (hne : ∀ l, l ∈ lines → l ≠ []) : (chunks needs lines).flatten = lines.flatten :=
  tiles_flatten (chunks_tiles needs lines hne)

example : chunks (fun s => decide (s.length < 3)) [['a'], ['b'], ['c'], ['d']] = [['a', 'b', 'c'], ['d']] := by
  simp [chunks_cons, readProgram, chunks]

/-- A bad token (`ParsingNear`) or a non-`is_incomplete` tokenizer error is never waited on, an end-of-input parse
error always is — for every parser. -/
theorem bad_token_never_waits (parse : Str → Outcome) (input : Str) :
    (parse input = .near → needsMoreInput parse input = false) ∧
    (parse input = .atEnd → needsMoreInput parse input = true) ∧
    (∀ e, parse input = .tok e → needsMoreInput parse input = isIncomplete e) := by
  refine ⟨fun h => ?_, fun h => ?_, fun e h => ?_⟩ <;> simp [needsMoreInput, h]

/-- The tokenizer errors treated as "more input may complete it" are exactly the `Unterminated…` kinds. -/
theorem unterminated_kinds_incomplete :
    ∀ e : TokErr, isIncomplete e = "Unterminated".toList.isPrefixOf e.name.toList := by
  intro e; cases e <;> decide

/-! ### the decision does not depend on the encoding width of the characters -/

/-- Replace characters by others (of any UTF-8 width) without touching newline and backslash; if the parser's outcome
class is indifferent to the replacement (it only renames non-syntax characters), so is the completeness decision.
The decision never looks at a byte or character position. -/
theorem completeness_decision_independent_of_character_width (σ : Char → Char) (hσ : SyntaxNeutral σ)
    (parse : Str → Outcome) (hp : ∀ s, parse (s.map σ) = parse s) (input : Str) :
    needsMoreInput parse (input.map σ) = needsMoreInput parse input :=
  needsMoreInput_map hσ parse hp input

/-- …and therefore standard input is cut into the same programs, character for character. -/
theorem stdin_chunks_independent_of_character_width (σ : Char → Char) (hσ : SyntaxNeutral σ)
    (parse : Str → Outcome) (hp : ∀ s, parse (s.map σ) = parse s) (lines : List Str) :
    chunks (needsMoreInput parse) (lines.map (List.map σ)) =
      (chunks (needsMoreInput parse) lines).map (List.map σ) :=
  chunks_map_aux _ σ (needsMoreInput_map hσ parse hp) lines.length lines (Nat.le_refl _)

example : SyntaxNeutral (fun c => if c = 'e' then 'é' else c) :=
  ⟨fun c => by by_cases h : c = 'e' <;> simp [h], fun c => by by_cases h : c = 'e' <;> simp [h]⟩

/-- A decision that compares the tokenizer's position (a count of characters: at an `is_incomplete` error the
tokenizer has consumed the whole text) with the text's length in UTF-8 bytes is *not* independent of it. -/
def utf8Len (s : Str) : Nat := (s.map Char.utf8Size).sum

def needsMoreInputByteGuard (parse : Str → Outcome) (input : Str) : Bool :=
  match parse input with
  | .tok e => isIncomplete e && decide (utf8Len input ≤ input.length)
  | .atEnd => true
  | .near => false
  | .ok => endsWithLineContinuation parse input

theorem byte_length_guard_depends_on_character_width :
    ¬ (∀ (σ : Char → Char), SyntaxNeutral σ → ∀ (parse : Str → Outcome), (∀ s, parse (s.map σ) = parse s) →
        ∀ input, needsMoreInputByteGuard parse (input.map σ) = needsMoreInputByteGuard parse input) := by
  intro h
  have := h (fun c => if c = 'e' then 'é' else c)
    ⟨fun c => by by_cases h : c = 'e' <;> simp [h], fun c => by by_cases h : c = 'e' <;> simp [h]⟩
    (fun _ => .tok .UnterminatedSingleQuote) (fun _ => rfl) "echo 'e\n".toList
  revert this
  decide

/-! ## `$LINENO` -/

/-- For newline-terminated input, the line offset in force while the `k`-th program from standard input runs is the
number of lines consumed before it; so a command preceded by `pre` inside that program sees
`$LINENO = 1 + (newlines before it in the whole text)` — what the same text gives as a script file. -/
theorem stdin_lineno_eq_file_lineno (needs : Str → Bool) (lines : List Str) (hl : ∀ l, l ∈ lines → NlLine l)
    (k : Nat) (hk : k < (chunks needs lines).length) (pre : Str) :
    ((offsets 0 (chunks needs lines))[k]?).map (fun off => currentLine off (1 + pre.count '\n')) =
      some (1 + (((chunks needs lines).take k).flatten ++ pre).count '\n') := by
  have hne : ∀ l, l ∈ lines → l ≠ [] := by
    intro l h; obtain ⟨b, rfl⟩ := hl l h; simp
  have ht := chunks_tiles needs lines hne
  have hcount : ∀ c, c ∈ chunks needs lines → lineCount c = c.count '\n' := by
    intro c hc
    obtain ⟨g, hg, hsub, rfl⟩ := tiles_chunk_groups ht c hc
    obtain ⟨b, hb⟩ := flatten_nl_group g hg (fun l h => hl l (hsub l h))
    rw [hb]; exact lineCount_nl b
  rw [offsets_get _ hcount 0 k hk]
  simp only [Option.map_some, currentLine, List.count_append]
  congr 1; omega

example : offsets 0 ["a\nb\n".toList, "c\n".toList, "d\n".toList] = [0, 2, 3] := by decide

/-- A chunk may end in several newlines (a backslash-newline continuation whose next line is empty): every one of
them is a line of the input and is counted. -/
example : offsets 0 ["echo joined \\\n\n".toList, "\n".toList, "echo $LINENO\n".toList] = [0, 2, 3] := by decide

/-- Counting the lines of the chunk *after* stripping its trailing newlines (`trim_end_matches('\n')` before
`lines().count().max(1)`) is not the same thing: the theorem above is false for that count. -/
def lineCountTrimmed (s : Str) : Nat := lineCount ((s.reverse.dropWhile (· = '\n')).reverse)

def offsetsTrimmed : Nat → List Str → List Nat
  | _, [] => []
  | off, c :: cs => off :: offsetsTrimmed (off + lineCountTrimmed c) cs

theorem trimmed_line_count_breaks_lineno :
    ¬ (∀ (cs : List Str) (k : Nat), k < cs.length → (∀ c, c ∈ cs → ∃ b : Str, c = b ++ ['\n']) →
        (offsetsTrimmed 0 cs)[k]? = some (((cs.take k).flatten).count '\n')) := by
  intro h
  have := h ["a\\\n\n".toList, "b\n".toList] 1 (by decide)
    (by intro c hc
        simp only [List.mem_cons, List.mem_nil_iff, or_false] at hc
        rcases hc with rfl | rfl
        · exact ⟨"a\\\n".toList, by decide⟩
        · exact ⟨"b".toList, by decide⟩)
  revert this
  decide

/-- …whereas the count brush uses satisfies it for every list of newline-terminated chunks, whatever number of
newlines each ends in. -/
theorem line_count_exact_for_nl_chunks (cs : List Str) (hcs : ∀ c, c ∈ cs → ∃ b : Str, c = b ++ ['\n'])
    (k : Nat) (hk : k < cs.length) :
    (offsets 0 cs)[k]? = some (((cs.take k).flatten).count '\n') := by
  have := offsets_get cs (fun c hc => by obtain ⟨b, rfl⟩ := hcs c hc; exact lineCount_nl b) 0 k hk
  simpa using this

end BrushVerif.C15
