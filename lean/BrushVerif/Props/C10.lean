import BrushVerif.Proofs.Fd
import BrushVerif.Proofs.HereDoc
import BrushVerif.Gen.RedirTables
/-!
# C10 — redirections give each command bash's descriptors and are undone afterwards

Theorems over `Model/Fd.lean` (brush's persistent table + per-command overlay, `setup_redirect`,
the redirect loops, `exec`, `compose_std_command`) against `Spec/FdFlat.lean` (one flat POSIX table
changed by `open`/`dup2`/`close` left to right), and over `Model/HereDoc.lean` (the tokenizer's
here-document state machine).

Where brush departs from the reference the full statement is refuted on a witness (`_cex`) and the
theorem is proved under a decidable guard (`_partial` in the doc comment):

* inside a command that has redirected descriptor N itself, `exec N>…` stays shadowed by that
  redirection (`exec_shadowed_by_enclosing_cex`); otherwise `exec` persists exactly its own redirections
  in every context;
* an external child inherits the process's descriptor 0, 1 or 2 where the tables say "closed"
  (`child_closed_std_cex`).

Every redirection form — including the move forms `N>&M-` and `&>word` under noclobber — now refines
the flat table without a guard.
-/
namespace BrushVerif.C10
open BrushVerif.Wire BrushVerif.Fd
open BrushVerif.FdFlat (Flat setF openFor outErr)

/-- `setup_redirect` on (persistent table, overlay) refines `open`/`dup2`/`close` on the flat table:
same resulting descriptors, same file system and open file descriptions, failure exactly when the
reference fails — for every redirection form -/
theorem overlay_refines_flat (nc : Bool) (P O : Table) (s : Sys) (r : Redir) :
    (applyRedirect nc P O s r).map (fun x => (flatten P x.1, x.2)) = FdFlat.apply nc (flatten P O) s r := by
  cases r with
  | file n k p =>
    simp only [applyRedirect, FdFlat.apply, sysOpen_flagsFor]
    cases openFor nc s k p with
    | none => rfl
    | some x => simp [flatten_setT_open, H.ofd]
  | dup n input src dash =>
    cases src with
    | none =>
      cases dash <;> simp [applyRedirect, FdFlat.apply, flatten_setT_notPresent]
    | fd m =>
      simp only [applyRedirect, FdFlat.apply, flatten_tryFd]
      cases tryFd P O m with
      | none => rfl
      | some h =>
        by_cases hc : dash = true ∧ m ≠ n.getD (if input then 0 else 1)
        · simp [hc, flatten_setT_open, flatten_setT_notPresent]
        · simp [hc, flatten_setT_open]
    | word p =>
      simp only [applyRedirect, FdFlat.apply]
      by_cases hc : n.getD (if input then 0 else 1) = 1 ∧ dash = false
      · simp only [hc, and_self, ↓reduceIte]
        exact outErrTo_eq nc P O s p false
      · simp [hc]
  | outErr p a =>
    simp only [applyRedirect, FdFlat.apply]
    exact outErrTo_eq nc P O s p a
  | here n c =>
    simp [applyRedirect, FdFlat.apply, Sys.push, flatten_setT_open, H.ofd]

/-- the move form: `3>&1-` makes 3 a copy of 1 and closes 1 -/
example :
    (applyRedirect false initP emptyT initSys (.dup (some 3) false (.fd 1) true)).map
      (fun x => (flatten initP x.1 3, flatten initP x.1 1)) = some (some 1, none) := by
  simp [applyRedirect, tryFd, emptyT, initP, Table.tryFd, flatten, setT, H.ofd]

/-- **left to right**: a whole redirection list, applied by brush's loop to its overlay, gives the
descriptors, files and success/failure that applying `open`/`dup2`/`close` one after the other to a
flat table gives — including where the loop stops at the first failing redirection -/
theorem redirects_left_to_right (nc : Bool) (P : Table) (rs : List Redir)
    (O : Table) (s : Sys) :
    (fun x : Table × Sys × Bool => (flatten P x.1, x.2.1, x.2.2)) (applyAll nc P O s rs)
      = FdFlat.applyAll nc (flatten P O) s rs := by
  induction rs generalizing O s with
  | nil => rfl
  | cons r rs ih =>
    have h1 := overlay_refines_flat nc P O s r
    simp only [Fd.applyAll, FdFlat.applyAll]
    cases hr : applyRedirect nc P O s r with
    | none =>
      rw [hr] at h1
      simp only [Option.map_none] at h1
      rw [← h1]
    | some x =>
      rw [hr] at h1
      simp only [Option.map_some] at h1
      rw [← h1]
      exact ih x.1 x.2

/-- order matters: `2>&1 >a` leaves descriptor 2 on the old standard output, `>a 2>&1` puts it on the file -/
example :
    let r1 : Redir := .dup (some 2) false (.fd 1) false
    let r2 : Redir := .file none .write 0
    (flatten initP (applyAll false initP emptyT initSys [r1, r2]).1) 2 = some 1 ∧
    (flatten initP (applyAll false initP emptyT initSys [r2, r1]).1) 2 = some 3 := by
  simp [applyAll, applyRedirect, tryFd, emptyT, initP, Table.tryFd, flatten, setT, sysOpen, initSys, initFs,
    flagsFor, isReg, defaultFd, Sys.push, mkOfd, H.ofd]

/-! ## noclobber -/

/-- the only redirection that may empty an existing regular file under noclobber: `>|` -/
def Clobbering : Redir → Bool
  | .file _ .clobber _ => true
  | _ => false

/-- under noclobber no other redirection changes an existing file -/
theorem noclobber_never_truncates_existing_regular (P O O' : Table) (s s' : Sys) (r : Redir) (p : Path) (n : Node)
    (hreg : s.fs p = some n) (hnot : Clobbering r = false)
    (h : applyRedirect true P O s r = some (O', s')) : s'.fs p = some n := by
  cases r with
  | file fd k q =>
    simp only [applyRedirect, Option.map_eq_some_iff] at h
    obtain ⟨⟨id, s1⟩, h1, h2⟩ := h
    simp only [Prod.mk.injEq] at h2
    obtain ⟨_, rfl⟩ := h2
    refine sysOpen_preserves s s1 q p _ id n hreg ?_ h1
    cases k <;> simp [flagsFor, Clobbering] at hnot ⊢
    split <;> simp
  | dup fd input src dash =>
    cases src with
    | none =>
      simp only [applyRedirect, Option.some.injEq, Prod.mk.injEq] at h
      rw [← h.2]; exact hreg
    | fd m =>
      simp only [applyRedirect, Option.map_eq_some_iff] at h
      obtain ⟨hh, _, h2⟩ := h
      simp only [Prod.mk.injEq] at h2
      rw [← h2.2]; exact hreg
    | word q =>
      by_cases hc : fd.getD (if input then 0 else 1) = 1 ∧ dash = false
      · simp only [applyRedirect, hc, and_self, ↓reduceIte, outErrTo, Option.map_eq_some_iff] at h
        obtain ⟨⟨id, s1⟩, h1, h2⟩ := h
        simp only [Prod.mk.injEq] at h2
        obtain ⟨_, rfl⟩ := h2
        refine sysOpen_preserves s s1 q p _ id n hreg ?_ h1
        simp [outErrFlags]; split <;> simp
      · simp [applyRedirect, hc] at h
  | outErr q a =>
    simp only [applyRedirect, outErrTo, Option.map_eq_some_iff] at h
    obtain ⟨⟨id, s1⟩, h1, h2⟩ := h
    simp only [Prod.mk.injEq] at h2
    obtain ⟨_, rfl⟩ := h2
    refine sysOpen_preserves s s1 q p _ id n hreg ?_ h1
    cases a <;> simp [outErrFlags]
    split <;> simp
  | here fd c =>
    simp [applyRedirect, Sys.push] at h
    obtain ⟨_, rfl⟩ := h
    exact hreg

/-- … and in particular `>` on an existing regular file fails -/
theorem noclobber_write_refuses_existing_regular (P O : Table) (s : Sys) (n : Option Fd) (p : Path) (d : Str) (t : Bool)
    (hreg : s.fs p = some (.reg d t)) : applyRedirect true P O s (.file n .write p) = none := by
  simp [applyRedirect, flagsFor, isReg, hreg, sysOpen]

/-- the whole list: whatever happens (including a failure half way), every existing file keeps its bytes -/
theorem noclobber_list_keeps_existing (P : Table) (rs : List Redir) (hnot : ∀ r ∈ rs, Clobbering r = false)
    (O : Table) (s : Sys) (p : Path) (n : Node) (hreg : s.fs p = some n) :
    (applyAll true P O s rs).2.1.fs p = some n := by
  induction rs generalizing O s with
  | nil => exact hreg
  | cons r rs ih =>
    simp only [applyAll]
    cases hr : applyRedirect true P O s r with
    | none => exact hreg
    | some x =>
      obtain ⟨O', s'⟩ := x
      exact ih (fun r' hr' => hnot r' (by simp [hr'])) O' s'
        (noclobber_never_truncates_existing_regular P O O' s s' r p n hreg (hnot r (by simp)) hr)

/-- `&>word` and `>&word` obey noclobber too: on an existing regular file they fail -/
theorem noclobber_out_and_err_refuses_existing_regular (P O : Table) (s : Sys) (p : Path) (d : Str) (t : Bool)
    (hreg : s.fs p = some (.reg d t)) :
    applyRedirect true P O s (.outErr p false) = none ∧
    applyRedirect true P O s (.dup none false (.word p) false) = none := by
  simp [applyRedirect, outErrTo, outErrFlags, isReg, hreg, sysOpen]

example : applyRedirect true initP emptyT initSys (.file none .write 3) = none :=
  noclobber_write_refuses_existing_regular _ _ _ _ _ _ _ rfl

/-! ## append -/

/-- `>>p` keeps the bytes of `p`, and everything later written through the new descriptor lands after them -/
theorem append_preserves_prefix (nc : Bool) (P O O' : Table) (s s' : Sys) (n : Option Fd) (p : Path) (d : Str) (t : Bool)
    (hreg : s.fs p = some (.reg d t))
    (h : applyRedirect nc P O s (.file n .append p) = some (O', s')) :
    s'.fs p = some (.reg d t) ∧
    ∃ id, tryFd P O' (n.getD 1) = some (.file id) ∧
      ∀ (b : Str), (sysWrite s' id b false).1.fs p = some (.reg (d ++ b) t) := by
  simp only [applyRedirect, flagsFor, Option.map_eq_some_iff] at h
  obtain ⟨⟨id, s1⟩, h1, h2⟩ := h
  simp only [Prod.mk.injEq, defaultFd] at h2
  obtain ⟨rfl, rfl⟩ := h2
  have hfs : s1.fs p = some (.reg d t) := sysOpen_preserves s s1 p p _ id _ hreg (Or.inl rfl) h1
  refine ⟨hfs, id, by simp [tryFd, setT], ?_⟩
  intro b
  -- the new open file description is the last one, opened for appending on `p`
  have hid : s1.ofds[id]? = some { tgt := .path p, rd := false, wr := true, app := true, pos := 0 } := by
    simp only [sysOpen, hreg, mkOfd, Sys.push] at h1
    simp at h1
    obtain ⟨rfl, rfl⟩ := h1
    simp
  simp [sysWrite, hid, hfs, setFs, overwrite_at_end]

example : ∃ O' s', applyRedirect false initP emptyT initSys (.file none .append 3) = some (O', s') := by
  simp [applyRedirect, flagsFor, sysOpen, initSys, initFs, isReg, Sys.push]

/-! ## restoration -/

mutual
/-- no `exec` anywhere in the command -/
def noExec : Cmd → Bool
  | .probe _ _ => true
  | .echo _ _ => true
  | .exec _ => false
  | .group b _ => noExecs b
  | .sub _ _ => true          -- whatever a subshell does stays in the subshell
  | .call b _ _ => noExecs b
def noExecs : Cmds → Bool
  | .nil => true
  | .cons c cs => noExec c && noExecs cs
end

mutual
/-- **afterwards the shell's own descriptors are exactly as before**: whatever redirections a command
carries (simple, compound, function call or definition, nested arbitrarily, failing or not), the shell's
table is the same function afterwards — only `exec` changes it -/
theorem shell_table_unchanged_after_command (nc : Bool) (c : Cmd) (P O : Table) (s : Sys) (h : noExec c = true) :
    (run nc c P O s).P = P := by
  cases c with
  | probe tag rs => simp only [run]; split <;> rfl
  | echo tag rs => simp only [run]; split <;> rfl
  | exec rs => simp [noExec] at h
  | group b rs =>
    simp only [run]
    split
    · exact shell_table_unchanged_after_commands nc b P _ _ 0 (by simpa [noExec] using h)
    · rfl
  | sub b rs => simp only [run]; split <;> rfl
  | call b drs rs =>
    have hb : noExecs b = true := by simpa [noExec] using h
    simp only [run]
    split
    · split
      · exact shell_table_unchanged_after_commands nc b P _ _ 0 hb
      · rfl
    · rfl
theorem shell_table_unchanged_after_commands (nc : Bool) (cs : Cmds) (P O : Table) (s : Sys) (st : Nat)
    (h : noExecs cs = true) : (runs nc cs P O s st).P = P := by
  cases cs with
  | nil => rfl
  | cons c cs =>
    simp only [noExecs, Bool.and_eq_true] at h
    simp only [runs]
    have h1 := shell_table_unchanged_after_command nc c P O s h.1
    rw [shell_table_unchanged_after_commands nc cs _ O _ _ h.2]; exact h1
end

example : noExec (.group (.cons (.probe 1 [.file none .write 0]) (.cons (.sub (.cons (.exec [.file (some 3) .write 1]) .nil) []) .nil))
    [.dup (some 2) false (.fd 1) false]) = true := by
  simp [noExec, noExecs]

private theorem tryFd_persist (P O : Table) (own : List Fd) (fd : Fd) :
    tryFd (persist P O own) emptyT fd = if fd ∈ own then tryFd P O fd else P.tryFd fd := by
  have e : tryFd (persist P O own) emptyT fd = (persist P O own).tryFd fd := rfl
  rw [e]
  by_cases h : fd ∈ own
  · simp only [Table.tryFd, persist, h, ↓reduceIte]
    generalize tryFd P O fd = x
    cases x <;> rfl
  · simp only [Table.tryFd, persist, h, ↓reduceIte]
    cases P fd <;> rfl

/-- **only `exec` redirections persist, and exactly those** — in every context, whatever the enclosing
commands have redirected (`O`): after a successful `exec rs`
* at each descriptor `rs` itself changes, the shell's table holds what applying `rs` left to right to
  the flat table the command started from puts there;
* at every other descriptor the shell's table is what it was — in particular the redirections of an
  enclosing compound command or function call are not made permanent;
and the files and open file descriptions are those of the flat run.  If a redirection of `rs` fails
the shell's table is untouched. -/
theorem exec_persists_exactly_its_redirects (nc : Bool) (P O : Table) (s : Sys) (rs : List Redir) :
    let r := run nc (.exec rs) P O s
    let f := FdFlat.applyAll nc (flatten P O) s rs
    (f.2.2 = true →
      (∀ fd ∈ rs.flatMap ownFds, flatten r.P emptyT fd = f.1 fd) ∧
      (∀ fd, fd ∉ rs.flatMap ownFds → flatten r.P emptyT fd = flatten P emptyT fd) ∧
      r.s.fs = f.2.1.fs ∧ r.s.ofds = f.2.1.ofds) ∧
    (f.2.2 = false → r.P = P) := by
  have key := redirects_left_to_right nc P rs O s
  simp only [run]
  generalize Fd.applyAll nc P O s rs = x at key ⊢
  obtain ⟨O', s', ok⟩ := x
  simp only at key
  rw [← key]
  cases ok with
  | false => simp [failSimple]
  | true =>
    simp only [↓reduceIte, forall_const, Bool.true_eq_false, false_implies, and_true]
    refine ⟨?_, ?_, ?_, ?_⟩
    · intro fd hfd
      simp only [flatten, tryFd_persist, hfd, ↓reduceIte]
    · intro fd hfd
      simp only [flatten, tryFd_persist, hfd, ↓reduceIte]
      rfl
    · simp only [noteExec]; split <;> simp [Sys.note] <;> split <;> rfl
    · simp only [noteExec]; split <;> simp [Sys.note] <;> split <;> rfl

/-- at top level (nothing enclosing is redirected) the whole table is the flat one -/
theorem exec_at_top_level_is_flat (nc : Bool) (P : Table) (s : Sys) (rs : List Redir)
    (hok : (FdFlat.applyAll nc (flatten P emptyT) s rs).2.2 = true) :
    flatten (run nc (.exec rs) P emptyT s).P emptyT = (FdFlat.applyAll nc (flatten P emptyT) s rs).1 := by
  have h := (exec_persists_exactly_its_redirects nc P emptyT s rs).1 hok
  funext fd
  by_cases hfd : fd ∈ rs.flatMap ownFds
  · exact h.1 fd hfd
  · rw [h.2.1 fd hfd, applyAll_outside_own nc rs _ s fd hfd]

/-- `{ exec 3>a; } 4>b`: descriptor 4, redirected by the enclosing group only, is not persisted -/
example :
    let O := setT emptyT 4 (.open (.file 2))
    let r := run false (.exec [.file (some 3) .write 0]) initP O initSys
    flatten r.P emptyT 4 = none ∧ flatten r.P emptyT 3 = some 3 := by
  simp [run, Fd.applyAll, applyRedirect, flagsFor, isReg, sysOpen, initSys, initFs, Sys.push, setT, emptyT,
    flatten, persist, entryOf, ownFds, tryFd, initP, Table.tryFd, H.ofd, mkOfd]

/-- what is left of the difference: inside a command that has itself redirected descriptor N, an
`exec N>file` changes the shell's table but the enclosing redirection keeps shadowing it there
(`{ exec >a; echo x; } >b` writes x to b; in bash to a) -/
theorem exec_shadowed_by_enclosing_cex :
    let O := setT emptyT 1 (.open (.file 2))
    let r := run false (.exec [.file none .write 0]) initP O initSys
    flatten r.P O 1 = some 2 ∧ (FdFlat.applyAll false (flatten initP O) initSys [.file none .write 0]).1 1 = some 3 := by
  simp [run, Fd.applyAll, applyRedirect, flagsFor, isReg, sysOpen, initSys, initFs, Sys.push, setT, emptyT,
    flatten, persist, entryOf, ownFds, tryFd, initP, Table.tryFd, H.ofd, mkOfd, FdFlat.applyAll, FdFlat.apply, openFor, setF, defaultFd]

/-! ## execution contexts -/

/-- **the result does not depend on the wrapper**: a command run as the body of a brace group, loop or
`if` without redirections, or as the body of a function called (and defined) without redirections, leaves
exactly the shell table, files, open file descriptions, probe reports and status that running it directly
leaves; inside `( … )` the system state and the status are the same and the shell's table is untouched.
(What a command sees and does is a function of the two tables and the system it is handed — there is no
other context.) -/
theorem context_wrapper_transparent (nc : Bool) (c : Cmd) (P O : Table) (s : Sys) :
    run nc (.group (.cons c .nil) []) P O s = run nc c P O s ∧
    run nc (.call (.cons c .nil) [] []) P O s = run nc c P O s ∧
    (run nc (.sub (.cons c .nil) []) P O s).s = (run nc c P O s).s ∧
    (run nc (.sub (.cons c .nil) []) P O s).status = (run nc c P O s).status ∧
    (run nc (.sub (.cons c .nil) []) P O s).P = P := by
  refine ⟨?_, ?_, ?_, ?_, ?_⟩ <;> simp [run, runs, Fd.applyAll]

/-- … hence at any depth: two functions deep, a function inside a loop inside a group, … -/
theorem nested_wrappers_transparent (nc : Bool) (c : Cmd) (P O : Table) (s : Sys) :
    run nc (.call (.cons (.call (.cons c .nil) [] []) .nil) [] []) P O s = run nc c P O s ∧
    run nc (.group (.cons (.call (.cons (.group (.cons c .nil) []) .nil) [] []) .nil) []) P O s = run nc c P O s := by
  constructor <;> simp [(context_wrapper_transparent nc _ P O s).1, (context_wrapper_transparent nc _ P O s).2.1]

example :
    let c : Cmd := .probe 1 [.dup (some 2) false (.fd 1) false, .file none .write 0]
    run false (.call (.cons c .nil) [] []) initP emptyT initSys = run false c initP emptyT initSys ∧
    (run false c initP emptyT initSys).s.rep ≠ [] := by
  refine ⟨(context_wrapper_transparent false _ initP emptyT initSys).2.1, ?_⟩
  simp [run, Fd.applyAll, applyRedirect, runProbe, tryFd, emptyT, initP, Table.tryFd, setT, sysOpen, initSys, initFs,
    flagsFor, isReg, defaultFd, Sys.push, mkOfd]

/-! ## what an external command receives -/

/-- an external command receives, at every descriptor the tables have open, exactly the open file
description the tables name — also for 0, 1, 2 after `2>&1`, `1>&2`, `0<&3` … -/
theorem child_gets_table_entry (P O : Table) (fd : Fd) (h : H) (hopen : tryFd P O fd = some h) :
    childFd P O fd = flatten P O fd := by
  simp [childFd, flatten, hopen]

/-- descriptors 3 and up that the tables have closed are closed in the child -/
theorem child_closed_high (P O : Table) (fd : Fd) (h3 : 3 ≤ fd) (hc : tryFd P O fd = none) : childFd P O fd = none := by
  have : ¬ fd < 3 := Nat.not_lt.mpr h3
  simp [childFd, hc, this]

/-- … but a closed descriptor 0, 1 or 2 is inherited from the process: after `<&-` the child still has a standard input -/
theorem child_closed_std_cex :
    let O := (applyAll false initP emptyT initSys [.dup none true .none true]).1
    flatten initP O 0 = none ∧ childFd initP O 0 = some 0 := by
  simp [applyAll, applyRedirect, tryFd, emptyT, initP, Table.tryFd, flatten, setT, childFd]

example : childFd initP (applyAll false initP emptyT initSys [.dup (some 2) false (.fd 1) false]).1 2 = some 1 := by
  simp [applyAll, applyRedirect, tryFd, emptyT, initP, Table.tryFd, setT, childFd, H.ofd]

/-! ## here-documents -/

open BrushVerif.HereDoc in
/-- **byte-exact bodies**: for every list of lines (arbitrary characters except newline) none of which
equals the delimiter once leading tabs are removed under `<<-`, and — when the delimiter is unquoted
(`expands`) — none of which ends in an unescaped backslash (a line continuation), followed by the
delimiter line, the scanner returns exactly those lines (tab-stripped under `<<-`, untouched
otherwise) and leaves exactly the text after the delimiter line.  Lines that merely contain the
delimiter, start or end with it, or differ from it by trailing blanks do not end the document. -/
theorem heredoc_body_exact (removeTabs expands : Bool) (tag : Str) (lines : List Str) (rest : Str)
    (htag : '\n' ∉ tag) (htagT : removeTabs = true → tag.head? ≠ some '\t')
    (hl : ∀ l ∈ lines, '\n' ∉ l ∧ stripTabs removeTabs l ≠ tag)
    (hcont : expands = true → ∀ l ∈ lines, trailingBackslashes (stripTabs removeTabs l) % 2 = 0) (tabs : Nat) :
    scan removeTabs expands tag [] (joinLines lines ++ (List.replicate (if removeTabs then tabs else 0) '\t' ++ tag ++ ['\n']) ++ rest)
      = some (joinLines (lines.map (stripTabs removeTabs)), rest) :=
  scan_lines removeTabs expands tag lines rest htag htagT hl hcont tabs

open BrushVerif.HereDoc in
example : scan true true "EOF".toList [] "\tEOFx\n EOF\n\t\tEOF\nrest".toList = some ("EOFx\n EOF\n".toList, "rest".toList) := by
  decide

open BrushVerif.HereDoc in
/-- a continued line swallows a following delimiter-looking line (unquoted delimiter), as in bash -/
example : scan false true "EOF".toList [] "foo\\\nEOF\nEOF\nrest".toList = some ("foo\\\nEOF\n".toList, "rest".toList) := by
  decide

open BrushVerif.HereDoc in
/-- expansion is decided by the delimiter's form alone: a delimiter word with any quoting character
leaves the body untouched, whatever the body is -/
theorem heredoc_quoted_delimiter_is_literal (tagWord xval body : Str) (c : Char) (hc : c ∈ tagWord)
    (hq : c = '\\' ∨ c = '\'' ∨ c = '"') : content tagWord xval body = body := by
  have : tagWord.any isQuoting = true := by
    rw [List.any_eq_true]
    exact ⟨c, hc, by rcases hq with rfl | rfl | rfl <;> simp [isQuoting]⟩
  simp [content, requiresExpansion, this]

/-! ## The tables of `setup_redirect`, regenerated from the source on every run

`Gen/RedirTables.lean` is written by `tools/c10gen.py` from `brush-core/src/interp.rs` each time the
check runs.  The three theorems below identify the hand-written tables that every refinement theorem
above is stated over (`Fd.defaultFd`, `Fd.flagsFor`, `Fd.outErrFlags`) with the regenerated ones, for
every kind, both noclobber settings and both "an existing regular file is there" answers; the fourth
restates the refinement theorem directly over the regenerated tables. -/

/-- the descriptor a redirection applies to when none is written is the source's table -/
theorem default_fd_table_is_the_sources (k : Kind) :
    defaultFd k = BrushVerif.Gen.genDefaultFd (BrushVerif.Gen.RKind.ofKind k) := by
  cases k <;> rfl

/-- the `OpenOptions` of a file redirection are the source's `match kind` arms -/
theorem open_flags_table_is_the_sources (nc existsReg : Bool) (k : Kind) :
    flagsFor nc existsReg k = BrushVerif.Gen.genFlagsFor nc existsReg (BrushVerif.Gen.RKind.ofKind k) := by
  cases k <;> cases nc <;> cases existsReg <;> rfl

/-- the `OpenOptions` of `&>word` / `&>>word` are those of `setup_redirect_output_and_error_to` -/
theorem out_err_flags_are_the_sources (nc existsReg append : Bool) :
    outErrFlags nc existsReg append = BrushVerif.Gen.genOutErrFlags nc existsReg append := by
  cases nc <;> cases existsReg <;> cases append <;> rfl

/-- what the regenerated tables say about the forms the property names: `>` truncates unless noclobber
protects an existing regular file (then the open is exclusive and fails), `>|` always truncates, `>>`
appends and never truncates, `<` neither creates nor writes, `<>` creates without truncating -/
theorem regenerated_tables_meet_posix (nc existsReg : Bool) :
    (BrushVerif.Gen.genFlagsFor nc existsReg .clobber).trunc = true ∧
    (BrushVerif.Gen.genFlagsFor nc existsReg .append).trunc = false ∧
    (BrushVerif.Gen.genFlagsFor nc existsReg .append).app = true ∧
    (BrushVerif.Gen.genFlagsFor nc existsReg .read).creat = false ∧
    (BrushVerif.Gen.genFlagsFor nc existsReg .read).wr = false ∧
    (BrushVerif.Gen.genFlagsFor nc existsReg .readWrite).trunc = false ∧
    (BrushVerif.Gen.genFlagsFor nc existsReg .readWrite).creat = true ∧
    ((BrushVerif.Gen.genFlagsFor nc existsReg .write).trunc = !nc) ∧
    ((BrushVerif.Gen.genFlagsFor nc existsReg .write).excl = (nc && existsReg)) ∧
    ((BrushVerif.Gen.genOutErrFlags nc existsReg false).excl = (nc && existsReg)) ∧
    (BrushVerif.Gen.genOutErrFlags nc existsReg true).trunc = false := by
  cases nc <;> cases existsReg <;> decide

/-- the refinement theorem, read over the regenerated tables: a file redirection opens the path with
the flags the source's table gives and installs the handle at the descriptor the source's table gives -/
theorem file_redirect_uses_regenerated_tables (nc : Bool) (P O : Table) (s : Sys) (n : Option Fd) (k : Kind) (p : Path) :
    applyRedirect nc P O s (.file n k p) =
      (sysOpen s p (BrushVerif.Gen.genFlagsFor nc (isReg s p) (BrushVerif.Gen.RKind.ofKind k))).map fun (id, s') =>
        (setT O (n.getD (BrushVerif.Gen.genDefaultFd (BrushVerif.Gen.RKind.ofKind k))) (.open (.file id)), s') := by
  simp only [applyRedirect, open_flags_table_is_the_sources, default_fd_table_is_the_sources]

/-- the tables are not degenerate: noclobber turns `>` on an existing regular file into an exclusive,
non-truncating open, and `>>` differs from `>` -/
example : (BrushVerif.Gen.genFlagsFor true true .write).excl = true ∧
    (BrushVerif.Gen.genFlagsFor true true .write).trunc = false ∧
    (BrushVerif.Gen.genFlagsFor false true .write).trunc = true ∧
    BrushVerif.Gen.genFlagsFor false false .append ≠ BrushVerif.Gen.genFlagsFor false false .write := by decide


end BrushVerif.C10
