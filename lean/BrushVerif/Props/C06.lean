import BrushVerif.Proofs.ParamOps
/-!
# C06 — parameter-expansion operators compute bash's result for every value and operand

Property theorems over `Model/ParamOps.lean` (mirror of `expansion.rs` / `patterns.rs`) against
`Spec/ParamOps.lean` (bash / POSIX reference semantics).  Quantifiers: every string (any length, any
characters), every matcher `m : Str → Bool` (so: every pattern language), every offset and length in
`Int`, every element list.

Where the code as it stands violates the statement, the full statement is kept as `def …_full`,
refuted on a witness (`…_cex`), proved under a decidable guard (`…_partial`), and proved without the
guard for the repaired algorithm (`…Fixed…`), so that the guard can be dropped once the repair lands.
-/
namespace BrushVerif.C06
open BrushVerif.Wire BrushVerif.ParamOps BrushVerif.ParamSpec

/-! ## prefix / suffix removal (independent of bash) -/

/-- `${v##p}`: what is left is `v` minus its longest prefix accepted by the matcher — the empty
prefix included —, for every matcher and every string. -/
theorem remove_largest_prefix_is_longest (m : Str → Bool) (s : Str) :
    RemovesPrefix m true s (removeLargestPrefix m s) := by
  unfold removeLargestPrefix RemovesPrefix
  rcases largestPrefixGo_spec m s s.length with ⟨j, h1, h2, h3, h4, h5⟩ | ⟨h1, h2⟩
  · left
    refine ⟨j, h2, h3, h4, ?_⟩
    intro i hi hm
    simp only [↓reduceIte]
    by_cases hij : i ≤ j
    · exact hij
    · have := h5 i (by omega) hi; simp [this] at hm
  · by_cases h0 : m [] = true
    · left
      refine ⟨0, by omega, by simpa using h0, by simpa using h2, ?_⟩
      intro i hi hm
      simp only [↓reduceIte]
      by_cases hi0 : i = 0
      · omega
      · have := h1 i (by omega) hi; simp [this] at hm
    · right
      refine ⟨?_, h2⟩
      intro i hi
      by_cases hi0 : i = 0
      · subst hi0; simpa using h0
      · exact h1 i (by omega) hi

example : removeLargestPrefix (fun t => t.length ≤ 2) "abc".toList = "c".toList := by decide

/-- Full statement for `${v#p}` (shortest prefix, the empty one included). -/
def remove_smallest_prefix_is_shortest_full : Prop :=
  ∀ (m : Str → Bool) (s : Str), RemovesPrefix m false s (removeSmallestPrefix m s)

/-- The loop never tries the empty prefix: with a pattern that accepts the empty string
(`${x#*}`) a character is deleted although deleting nothing is the shortest match. -/
theorem remove_smallest_prefix_cex : ¬ remove_smallest_prefix_is_shortest_full := by
  intro h
  have h1 := h (fun _ => true) ['a']
  rcases h1 with ⟨k, _, _, hr, hmin⟩ | ⟨hn, _⟩
  · have hk : k ≤ 0 := by simpa using hmin 0 (by simp) rfl
    have hk0 : k = 0 := by omega
    subst hk0
    simp [removeSmallestPrefix, smallestPrefixGo] at hr
  · have := hn 0 (by simp); simp at this

/-- Guarded version: whenever the matcher rejects the empty string, `${v#p}` deletes exactly the
shortest matching prefix. -/
theorem remove_smallest_prefix_is_shortest_partial (m : Str → Bool) (s : Str) (hg : m [] = false) :
    RemovesPrefix m false s (removeSmallestPrefix m s) := by
  unfold removeSmallestPrefix RemovesPrefix
  rcases smallestPrefixGo_spec m s s.length 0 with ⟨j, h1, h2, h3, h4, h5⟩ | ⟨h1, h2⟩
  · left
    refine ⟨j, by omega, h3, h4, ?_⟩
    intro i hi hm
    simp only [Bool.false_eq_true, ↓reduceIte]
    by_cases hji : j ≤ i
    · exact hji
    · by_cases hi0 : i = 0
      · subst hi0; simp [hg] at hm
      · have := h5 i (by omega) (by omega); simp [this] at hm
  · right
    refine ⟨?_, h2⟩
    intro i hi
    by_cases hi0 : i = 0
    · subst hi0; simpa using hg
    · exact h1 i (by omega) (by omega)

example : (fun t : Str => t = ['a', 'b']) [] = false ∧
    removeSmallestPrefix (fun t => t = ['a', 'b']) "abc".toList = "c".toList := by decide

/-- The repaired loop (empty candidate first) meets the full statement. -/
theorem remove_smallest_prefix_fixed_is_shortest (m : Str → Bool) (s : Str) :
    RemovesPrefix m false s (removeSmallestPrefixFixed m s) := by
  unfold removeSmallestPrefixFixed
  by_cases h0 : m [] = true
  · simp only [h0, ↓reduceIte]
    left
    exact ⟨0, by omega, by simpa using h0, by simp, by intro i _ _; simp⟩
  · have hf : m [] = false := by simpa using h0
    simp only [hf, Bool.false_eq_true, ↓reduceIte]
    exact remove_smallest_prefix_is_shortest_partial m s hf

example : removeSmallestPrefixFixed (fun _ => true) "abc".toList = "abc".toList := by decide

/-- `${v%%p}`: `v` minus its longest suffix accepted by the matcher, the empty one included. -/
theorem remove_largest_suffix_is_longest (m : Str → Bool) (s : Str) :
    RemovesSuffix m true s (removeLargestSuffix m s) := by
  unfold removeLargestSuffix RemovesSuffix
  rcases largestSuffixGo_spec m s s.length 0 with ⟨j, h1, h2, h3, h4, h5⟩ | ⟨h1, h2⟩
  · left
    refine ⟨j, by omega, h3, h4, ?_⟩
    intro i hi hm
    simp only [↓reduceIte]
    by_cases hji : j ≤ i
    · exact hji
    · have := h5 i (by omega) (by omega); simp [this] at hm
  · by_cases h0 : m [] = true
    · left
      refine ⟨s.length, by omega, by simpa using h0, by simpa using h2, ?_⟩
      intro i hi hm
      simp only [↓reduceIte]
      by_cases hin : i = s.length
      · omega
      · have := h1 i (by omega) (by omega); simp [this] at hm
    · right
      refine ⟨?_, h2⟩
      intro i hi
      by_cases hin : i = s.length
      · subst hin; simpa using h0
      · exact h1 i (by omega) (by omega)

example : removeLargestSuffix (fun t => t.length ≤ 2) "abc".toList = "a".toList := by decide

def remove_smallest_suffix_is_shortest_full : Prop :=
  ∀ (m : Str → Bool) (s : Str), RemovesSuffix m false s (removeSmallestSuffix m s)

/-- `${x%*}` deletes the last character: the empty suffix is never tried. -/
theorem remove_smallest_suffix_cex : ¬ remove_smallest_suffix_is_shortest_full := by
  intro h
  have h1 := h (fun _ => true) ['a']
  rcases h1 with ⟨k, hk, _, hr, hmin⟩ | ⟨hn, _⟩
  · have hk1 : 1 ≤ k := by simpa using hmin 1 (by simp) rfl
    have hk' : k ≤ 1 := by simpa using hk
    have hk0 : k = 1 := by omega
    subst hk0
    simp [removeSmallestSuffix, smallestSuffixGo] at hr
  · have := hn 0 (by simp); simp at this

theorem remove_smallest_suffix_is_shortest_partial (m : Str → Bool) (s : Str) (hg : m [] = false) :
    RemovesSuffix m false s (removeSmallestSuffix m s) := by
  unfold removeSmallestSuffix RemovesSuffix
  rcases smallestSuffixGo_spec m s s.length with ⟨j, h1, h3, h4, h5⟩ | ⟨h1, h2⟩
  · left
    refine ⟨j, by omega, h3, h4, ?_⟩
    intro i hi hm
    simp only [Bool.false_eq_true, ↓reduceIte]
    by_cases hij : i ≤ j
    · exact hij
    · by_cases hin : i = s.length
      · subst hin; simp [hg] at hm
      · have := h5 i (by omega) (by omega); simp [this] at hm
  · right
    refine ⟨?_, h2⟩
    intro i hi
    by_cases hin : i = s.length
    · subst hin; simpa using hg
    · exact h1 i (by omega)

example : (fun t : Str => t = ['b', 'c']) [] = false ∧
    removeSmallestSuffix (fun t => t = ['b', 'c']) "abc".toList = "a".toList := by decide

theorem remove_smallest_suffix_fixed_is_shortest (m : Str → Bool) (s : Str) :
    RemovesSuffix m false s (removeSmallestSuffixFixed m s) := by
  unfold removeSmallestSuffixFixed
  by_cases h0 : m [] = true
  · simp only [h0, ↓reduceIte]
    left
    refine ⟨s.length, by omega, by simpa using h0, by simp, ?_⟩
    intro i hi _; simpa using hi
  · have hf : m [] = false := by simpa using h0
    simp only [hf, Bool.false_eq_true, ↓reduceIte]
    exact remove_smallest_suffix_is_shortest_partial m s hf

example : removeSmallestSuffixFixed (fun _ => true) "abc".toList = "abc".toList := by decide

/-! ## `- = ? +` -/

/-- The four `match (test_type, classify())` blocks compute POSIX's table, entry by entry
(the quantifier is the whole 4 × 2 × 3 table). -/
theorem param_test_table_eq_posix (op : TestOp) (colon : Bool) (st : PState) :
    testAction op colon st = posixTable op colon st := by
  cases op <;> cases colon <;> cases st <;> rfl

example : testAction .errorIfUnset true .definedEmpty = .error := rfl

/-- set / null / unset as bash sees the parameter -/
def ClassifyGuard : Param → Prop
  | .all vals _ | .posAll vals _ => ¬ (2 ≤ vals.length ∧ vals.all (·.isEmpty) = true)
  | _ => True

def classify_eq_bash_state_full : Prop :=
  ∀ (p : Param) (nounset : Bool) (e : Expansion), expandParam p true nounset = some e → classify e = bashState p

/-- `a=("" ""); ${a[@]:+s}`: bash sees the non-null string `" "`, `classify` sees only empty pieces. -/
theorem classify_eq_bash_state_cex : ¬ classify_eq_bash_state_full := by
  intro h
  have := h (.all [[], []] false) false _ rfl
  simp [classify, bashState] at this

private theorem any_not_eq_not_all (l : List Str) :
    (l.any fun f => !f.isEmpty) = !(l.all fun f => f.isEmpty) := by
  induction l with
  | nil => rfl
  | cons a t ih => simp only [List.any_cons, List.all_cons, ih, Bool.not_and]

private theorem classify_list (vals : List Str) (star : Bool)
    (hv : ¬ (2 ≤ vals.length ∧ vals.all (·.isEmpty) = true)) :
    classify { fields := vals, concatenate := star, fromArray := true, undefined := false } =
      bashState (.all vals star) := by
  match vals with
  | [] => simp [classify, bashState]
  | [v] => cases v <;> simp [classify, bashState]
  | v :: w :: r =>
    have hv' : ((v :: w :: r).all (·.isEmpty)) = false := by
      cases h : (v :: w :: r).all (·.isEmpty) with
      | false => rfl
      | true => exact absurd ⟨by simp, h⟩ hv
    have hne : (v :: w :: r).any (fun f => !f.isEmpty) = true := by
      rw [any_not_eq_not_all, hv']; rfl
    simp only [classify, hne, bashState]; simp

/-- `Expansion::classify` of what `expand_parameter_allowing_unset` returns is bash's state of the
parameter (scalar, element, positional, `[@]`, `[*]`, `$@`, `$*`; with or without nounset), unless
a list of two or more elements consists of empty strings only. -/
theorem classify_eq_bash_state_partial (p : Param) (nounset : Bool) (e : Expansion)
    (hg : ClassifyGuard p) (he : expandParam p true nounset = some e) : classify e = bashState p := by
  have scalar : ∀ s : Str, classify (ofStr s) = if s.isEmpty then .definedEmpty else .nonZero := by
    intro s; cases s <;> simp [classify, ofStr]
  have undef : classify undefinedExp = .undefined := by simp [classify, undefinedExp]
  cases p with
  | named v =>
    cases v with
    | none => simp [expandParam, undefinedExpansion] at he; subst he; rw [undef]; rfl
    | some s => simp [expandParam] at he; subst he; rw [scalar]; rfl
  | elem v ex =>
    cases v with
    | none => simp [expandParam, undefinedExpansion] at he; subst he; rw [undef]; rfl
    | some s => simp [expandParam] at he; subst he; rw [scalar]; rfl
  | pos v =>
    cases v with
    | none => simp [expandParam, undefinedExpansion] at he; subst he; rw [undef]; rfl
    | some s => simp [expandParam] at he; subst he; rw [scalar]; rfl
  | all vals star =>
    simp only [expandParam, Option.some.injEq] at he; subst he
    exact classify_list vals star hg
  | posAll vals star =>
    simp only [expandParam, Option.some.injEq] at he; subst he
    rw [classify_list vals star hg]; rfl

example : ClassifyGuard (.all [[], ['a']] true) := by simp [ClassifyGuard]

/-- `"${@+w}"` / `"${a[@]+w}"` over no elements -/
def EmptyAtList : Param → Prop
  | .all [] false | .posAll [] false => True
  | _ => False

private theorem null_only_from_alternative (op : TestOp) (colon : Bool) (st : PState)
    (h : posixTable op colon st = .null) : op = .useAlternative := by
  cases op <;> cases colon <;> cases st <;> first | rfl | cases h

/-- The whole `${p-w}` `${p=w}` `${p?w}` `${p+w}` family (with and without the colon, under
nounset or not, for every kind of parameter, value and word): the model of brush's arms produces
bash's outcome — substituted value, assignment, or failure — outside the two recorded corners. -/
theorem test_ops_refine_bash_partial (p : Param) (nounset : Bool) (m m' : Str → Bool)
    (op : TestOp) (colon : Bool) (word : Str)
    (hg : ClassifyGuard p) (hg2 : ¬ (op = .useAlternative ∧ EmptyAtList p)) :
    expandExpr p nounset m (.test op colon word) = bashExpr p nounset m' (.test op colon word) := by
  simp only [expandExpr, bashExpr]
  cases he : expandParam p true nounset with
  | none => rfl
  | some e =>
    simp only []
    rw [classify_eq_bash_state_partial p nounset e hg he, param_test_table_eq_posix]
    cases hpt : posixTable op colon (bashState p) with
    | param => rfl
    | word => rfl
    | assign => rfl
    | error => rfl
    | null =>
      have hop := null_only_from_alternative _ _ _ hpt
      have hne : ¬ EmptyAtList p := fun h => hg2 ⟨hop, h⟩
      cases p with
      | all vals star => cases vals <;> cases star <;> simp_all [EmptyAtList]
      | posAll vals star => cases vals <;> cases star <;> simp_all [EmptyAtList]
      | _ => rfl

example : ClassifyGuard (.named none) ∧ ¬ (TestOp.assignDefault = .useAlternative ∧ EmptyAtList (.named none)) ∧
    expandExpr (.named none) true (fun _ => false) (.test .assignDefault true ['w']) =
      { res := .ok (ofStr ['w']), assigned := some ['w'] } := by
  refine ⟨trivial, by simp, by decide⟩

/-! ## `${#v}` -/

def length_counts_chars_full : Prop := ∀ s : Str, polyLen (ofStr s) = s.length

/-- `${#x}` of `é` is 2: `polymorphic_len` adds up `String::len`, which counts bytes. -/
theorem length_counts_chars_cex : ¬ length_counts_chars_full := by
  intro h; have := h ['é']; revert this; decide

theorem length_counts_chars_partial (s : Str) (h : ∀ c ∈ s, c.toNat < 0x80) :
    polyLen (ofStr s) = s.length := by
  simp [polyLen, ofStr, byteLen_ascii s h]

example : polyLen (ofStr "a b".toList) = 3 := by decide

/-- for `a[@]`, `a[*]`, `$@`, `$*` the length is the number of elements -/
theorem length_counts_elements (vals : List Str) (star : Bool) :
    polyLen { fields := vals, concatenate := star, fromArray := true, undefined := false } = vals.length := by
  simp [polyLen]

/-- the repaired length counts characters -/
theorem length_fixed_counts_chars (s : Str) : polyLenChars (ofStr s) = s.length := by
  simp [polyLenChars, ofStr]

example : polyLenChars (ofStr ['é', 'a']) = 2 := by decide

/-! ## `${v:offset:length}` -/

private theorem take_min_drop {α : Type} (s : List α) (o k : Nat) :
    (s.drop o).take (min k (s.length - o)) = (s.drop o).take k := by
  rw [List.take_eq_take_iff]; simp [List.length_drop]

private theorem asUsize_nonneg (x : Int) (h : 0 ≤ x) : asUsize x = x.toNat := by
  simp [asUsize]; omega

/-- where bash starts: the offset, counted from the end when negative -/
private def startOf (n : Nat) (off : Int) : Int := if off < 0 then off + n else off

/-- the bounds the `Substring` arm computes when no length is given -/
private theorem substrBounds_none (n : Nat) (off : Int) :
    0 ≤ (substrBounds n off none).1 ∧ (substrBounds n off none).1 ≤ n ∧
    (substrBounds n off none).1 = (if startOf n off < 0 ∨ startOf n off > n then (n : Int) else startOf n off) ∧
    (substrBounds n off none).2 = n := by
  simp only [substrBounds, startOf]
  refine ⟨?_, ?_, ?_, trivial⟩ <;> (split <;> (try split) <;> (try split)) <;> omega

/-- … and for a non-negative length -/
private theorem substrBounds_some (n : Nat) (off l : Int) (hl : 0 ≤ l) :
    0 ≤ (substrBounds n off (some l)).1 ∧ (substrBounds n off (some l)).1 ≤ n ∧
    (substrBounds n off (some l)).1 = (if startOf n off < 0 ∨ startOf n off > n then (n : Int) else startOf n off) ∧
    (substrBounds n off (some l)).2 = (substrBounds n off (some l)).1 + min l (n - (substrBounds n off (some l)).1) := by
  have hneg : ¬ l < 0 := by omega
  simp only [substrBounds, startOf, hneg, ↓reduceIte]
  refine ⟨?_, ?_, ?_, trivial⟩ <;> (split <;> (try split) <;> (try split)) <;> omega

def substr_refines_bash_full : Prop :=
  ∀ (s : Str) (off : Int) (len : Option Int),
    match bashSubstr s off len with
    | some r => ∃ e, substring (ofStr s) off len = .ok e ∧ joinWith [' '] e.fields = r
    | none => substring (ofStr s) off len = .err

/-- `x=abcdef; ${x:1:-1}`: a negative length is an end offset in bash (`bcde`); the code adds the
length of the string and goes on using it as a length (`bcdef`). -/
theorem substr_cex_negative_length : ¬ substr_refines_bash_full := by
  intro h
  have h1 := h "abcdef".toList 1 (some (-1))
  have hb : bashSubstr "abcdef".toList 1 (some (-1)) = some "bcde".toList := by decide
  have hs : substring (ofStr "abcdef".toList) 1 (some (-1)) = .ok (ofStr "bcdef".toList) := by decide
  rw [hb] at h1
  obtain ⟨e, he, hj⟩ := h1
  rw [hs] at he; cases he
  revert hj; decide

/-- `x=abc; ${x:2:-5}`: the end offset falls before the start; bash reports an error, the code
subtracts past zero (a panic in debug builds). -/
theorem substr_cex_negative_length_panics :
    substring (ofStr "abc".toList) 2 (some (-5)) = .panic ∧ bashSubstr "abc".toList 2 (some (-5)) = none := by
  decide

/-- `x=éa; ${x: -1}`: the negative offset is taken from the byte length (3), landing past the
last character. -/
theorem substr_cex_byte_length : ¬ substr_refines_bash_full := by
  intro h
  have h1 := h ['é', 'a'] (-1) none
  have hb : bashSubstr ['é', 'a'] (-1) none = some ['a'] := by decide
  have hs : substring (ofStr ['é', 'a']) (-1) none = .ok { ofStr [] with fields := [] } := by decide
  rw [hb] at h1
  obtain ⟨e, he, hj⟩ := h1
  rw [hs] at he; cases he
  revert hj; decide

private theorem polySubslice_str (s : Str) (b : Int × Int) (h0 : 0 ≤ b.1) (h1 : b.1 ≤ b.2) (h2 : b.2 ≤ s.length) :
    ∃ e, polySubslice (ofStr s) (asUsize b.1) (asUsize b.2) = .ok e ∧
      joinWith [' '] e.fields = (s.drop b.1.toNat).take (b.2.toNat - b.1.toNat) := by
  rw [asUsize_nonneg _ h0, asUsize_nonneg _ (by omega : 0 ≤ b.2)]
  have hle : ¬ b.2.toNat < b.1.toNat := by omega
  refine ⟨_, by simp only [polySubslice, hle, ↓reduceIte, ofStr]; rfl, ?_⟩
  exact sliceFields_single s _ _ (by omega)

/-- the slice taken at the bounds computed from the character count is bash's substring
(length absent or non-negative) -/
private theorem slice_at_bounds (s : Str) (off : Int) (len : Option Int) (hl : ∀ l, len = some l → 0 ≤ l) :
    ∃ e, polySubslice (ofStr s) (asUsize (substrBounds (↑s.length) off len).1)
        (asUsize (substrBounds (↑s.length) off len).2) = .ok e ∧
      bashSubstr s off len = some (joinWith [' '] e.fields) := by
  have key := polySubslice_str s
  cases len with
  | none =>
    obtain ⟨h0, h1, h3, h4⟩ := substrBounds_none s.length off
    generalize substrBounds (↑s.length) off none = b at h0 h1 h3 h4
    obtain ⟨e, he, hj⟩ := key b h0 (by omega) (by omega)
    refine ⟨e, he, ?_⟩
    rw [hj]
    simp only [bashSubstr]
    change (if startOf s.length off < 0 ∨ startOf s.length off > ↑s.length then some [] else _) = _
    by_cases hout : startOf s.length off < 0 ∨ startOf s.length off > ↑s.length
    · simp only [hout, ↓reduceIte] at h3 ⊢
      have : b.1.toNat = s.length := by omega
      simp [this]
    · simp only [hout, ↓reduceIte] at h3 ⊢
      rw [h3]
      have : b.2.toNat - (startOf s.length off).toNat = s.length - (startOf s.length off).toNat := by omega
      rw [this, List.take_of_length_le (by simp [List.length_drop])]; rfl
  | some l =>
    have hl0 := hl l rfl
    have hneg : ¬ l < 0 := by omega
    obtain ⟨h0, h1, h3, h4⟩ := substrBounds_some s.length off l hl0
    generalize substrBounds (↑s.length) off (some l) = b at h0 h1 h3 h4
    obtain ⟨e, he, hj⟩ := key b h0 (by omega) (by omega)
    refine ⟨e, he, ?_⟩
    rw [hj]
    simp only [bashSubstr, hneg, ↓reduceIte]
    change (if startOf s.length off < 0 ∨ startOf s.length off > ↑s.length then some [] else _) = _
    by_cases hout : startOf s.length off < 0 ∨ startOf s.length off > ↑s.length
    · simp only [hout, ↓reduceIte] at h3 ⊢
      have : b.1.toNat = s.length := by omega
      simp [this]
    · simp only [hout, ↓reduceIte] at h3 ⊢
      have : b.2.toNat - b.1.toNat = min l.toNat (s.length - b.1.toNat) := by omega
      rw [this, take_min_drop, h3]; rfl


/-- For every string whose byte length equals its character count (ASCII), every offset and
every non-negative or absent length, the `Substring` arm yields bash's substring. -/
theorem substr_refines_bash_partial (s : Str) (off : Int) (len : Option Int)
    (hl : ∀ l, len = some l → 0 ≤ l) (hb : byteLen s = s.length) :
    ∃ e, substring (ofStr s) off len = .ok e ∧ bashSubstr s off len = some (joinWith [' '] e.fields) := by
  have hp : polyLen (ofStr s) = s.length := by simp [polyLen, ofStr, hb]
  simp only [substring, hp]
  exact slice_at_bounds s off len hl

example : substring (ofStr "abcdef".toList) (-4) (some 2) = .ok (ofStr "cd".toList) := by decide

/-- The repaired arm (`substringFixed`: character count, a negative length is an end offset, an
end before the start is an error) yields bash's substring, or fails where bash fails, for every
string, offset and length — no guard. -/
theorem substr_fixed_refines_bash (s : Str) (off : Int) (len : Option Int) :
    match bashSubstr s off len with
    | some r => ∃ e, substringFixed (ofStr s) off len = .ok e ∧ joinWith [' '] e.fields = r
    | none => substringFixed (ofStr s) off len = .err := by
  have hp : polyLenChars (ofStr s) = s.length := by simp [polyLenChars, ofStr]
  by_cases hneg : ∃ l, len = some l ∧ l < 0
  · obtain ⟨l, rfl, hl⟩ := hneg
    simp only [substringFixed, hp, substrBoundsFixed, bashSubstr, hl, ↓reduceIte, Int.ofNat_eq_natCast]
    generalize ho : (if off < 0 then off + (↑s.length : Int) else off) = o
    by_cases hout : o < 0 ∨ o > ↑s.length
    · have hout' : (off < 0 ∧ off + ↑s.length < 0) ∨ off > ↑s.length := by split at ho <;> omega
      simp only [hout, hout', ↓reduceIte]
      obtain ⟨e, he, hj⟩ := polySubslice_str s (↑s.length, ↑s.length) (by simp) (by simp) (by simp)
      exact ⟨e, he, by rw [hj]; simp⟩
    · have hout' : ¬ ((off < 0 ∧ off + ↑s.length < 0) ∨ off > ↑s.length) := by split at ho <;> omega
      have hoff2 : min (if off < 0 then if off + ↑s.length < 0 then ↑s.length else off + ↑s.length else off) ↑s.length
          = o := by
        split at ho <;> (try split) <;> omega
      simp only [hout, hout', ↓reduceIte, hoff2]
      by_cases hend : ↑s.length + l < o
      · simp only [hend, ↓reduceIte]
      · simp only [hend, ↓reduceIte]
        obtain ⟨e, he, hj⟩ := polySubslice_str s (o, ↑s.length + l) (by simp only; omega) (by simp only; omega) (by simp only; omega)
        refine ⟨e, he, ?_⟩
        rw [hj]
        have : (↑s.length + l).toNat - o.toNat = (↑s.length + l - o).toNat := by omega
        simp only [this]
  · have hl : ∀ l, len = some l → 0 ≤ l := by
      intro l h; by_cases h0 : 0 ≤ l
      · exact h0
      · exact absurd ⟨l, h, by omega⟩ hneg
    obtain ⟨e, he, hj⟩ := slice_at_bounds s off len hl
    have hb : substrBoundsFixed (↑s.length) off len = some (substrBounds (↑s.length) off len) := by
      cases len with
      | none => rfl
      | some l =>
        have : ¬ l < 0 := by have := hl l rfl; omega
        simp only [substrBoundsFixed, substrBounds, this, ↓reduceIte]
    rw [hj]
    refine ⟨e, ?_, rfl⟩
    simp only [substringFixed, hp]
    change (match substrBoundsFixed (↑s.length) off len with | none => _ | some b => _) = _
    rw [hb]; exact he

example : substringFixed (ofStr "abcdef".toList) 1 (some (-1)) = .ok (ofStr "bcde".toList) ∧
    substringFixed (ofStr "abc".toList) 2 (some (-5)) = .err ∧
    substringFixed (ofStr ['é', 'a']) (-1) none = .ok (ofStr ['a']) := by decide

/-! ## `${a[@]:offset:length}`, `${@:offset:length}` -/

def listExp (xs : List Str) (star : Bool) : Expansion :=
  { fields := xs, concatenate := star, fromArray := true, undefined := false }

def slice_refines_bash_full : Prop :=
  ∀ (pos : Bool) (xs : List Str) (star : Bool) (off : Int) (len : Option Int),
    match bashSlice pos xs off len with
    | some r => substring (listExp xs star) off len = .ok (listExp r star)
    | none => substring (listExp xs star) off len = .err

/-- `a=(1 2 3 4); ${a[@]:1:-1}`: bash rejects a negative length on a list; brush returns `2 3 4`. -/
theorem slice_cex_negative_length : ¬ slice_refines_bash_full := by
  intro h
  have h1 := h false [['1'], ['2'], ['3'], ['4']] false 1 (some (-1))
  have hb : bashSlice false [['1'], ['2'], ['3'], ['4']] 1 (some (-1)) = none := by decide
  rw [hb] at h1
  revert h1; decide

/-- For every element list (array elements, or `$0 $1 …`), every offset and every non-negative or
absent length, the slice is bash's: the elements from `offset` (counted from the end when
negative; nothing when out of range), at most `length` of them. -/
theorem slice_refines_bash_partial (pos : Bool) (xs : List Str) (star : Bool) (off : Int) (len : Option Int)
    (hl : ∀ l, len = some l → 0 ≤ l) :
    ∃ r, bashSlice pos xs off len = some r ∧ substring (listExp xs star) off len = .ok (listExp r star) := by
  have hp : polyLen (listExp xs star) = xs.length := by simp [polyLen, listExp]
  have key : ∀ b : Int × Int, 0 ≤ b.1 → b.1 ≤ b.2 → b.2 ≤ xs.length →
      polySubslice (listExp xs star) (asUsize b.1) (asUsize b.2) =
        .ok (listExp ((xs.drop b.1.toNat).take (min (b.2.toNat - b.1.toNat) (xs.length - b.1.toNat))) star) := by
    intro b h0 h1 h2
    rw [asUsize_nonneg _ h0, asUsize_nonneg _ (by omega : 0 ≤ b.2)]
    have hle : ¬ b.2.toNat < b.1.toNat := by omega
    simp only [polySubslice, hle, ↓reduceIte, listExp]
  simp only [substring, hp]
  cases len with
  | none =>
    obtain ⟨h0, h1, h3, h4⟩ := substrBounds_none xs.length off
    generalize substrBounds (↑xs.length) off none = b at h0 h1 h3 h4
    rw [key b h0 (by omega) (by omega)]
    by_cases hemp : xs = []
    · subst hemp; exact ⟨[], by simp [bashSlice], by simp⟩
    have hne : xs.isEmpty = false := by cases xs <;> simp_all
    simp only [bashSlice, hne, Bool.false_eq_true, ↓reduceIte]
    change ∃ r, (if startOf xs.length off < 0 ∨ startOf xs.length off > ↑xs.length then some [] else _) = some r ∧ _
    by_cases hout : startOf xs.length off < 0 ∨ startOf xs.length off > ↑xs.length
    · simp only [hout, ↓reduceIte] at h3 ⊢
      have hn : b.1.toNat = xs.length := by omega
      exact ⟨[], rfl, by simp [hn]⟩
    · simp only [hout, ↓reduceIte] at h3 ⊢
      refine ⟨_, rfl, ?_⟩
      have : min (b.2.toNat - b.1.toNat) (xs.length - b.1.toNat) = xs.length - b.1.toNat := by omega
      rw [this, List.take_of_length_le (by simp [List.length_drop]), h3]; rfl
  | some l =>
    have hl0 := hl l rfl
    have hneg : ¬ l < 0 := by omega
    obtain ⟨h0, h1, h3, h4⟩ := substrBounds_some xs.length off l hl0
    generalize substrBounds (↑xs.length) off (some l) = b at h0 h1 h3 h4
    rw [key b h0 (by omega) (by omega)]
    by_cases hemp : xs = []
    · subst hemp; exact ⟨[], by simp [bashSlice], by simp⟩
    have hne : xs.isEmpty = false := by cases xs <;> simp_all
    simp only [bashSlice, hne, Bool.false_eq_true, ↓reduceIte, hneg]
    change ∃ r, (if startOf xs.length off < 0 ∨ startOf xs.length off > ↑xs.length then some [] else _) = some r ∧ _
    by_cases hout : startOf xs.length off < 0 ∨ startOf xs.length off > ↑xs.length
    · simp only [hout, ↓reduceIte] at h3 ⊢
      have hn : b.1.toNat = xs.length := by omega
      exact ⟨[], rfl, by simp [hn]⟩
    · simp only [hout, ↓reduceIte] at h3 ⊢
      refine ⟨_, rfl, ?_⟩
      have : min (b.2.toNat - b.1.toNat) (xs.length - b.1.toNat) = min l.toNat (xs.length - b.1.toNat) := by omega
      rw [this, take_min_drop, h3]; rfl

example : substring (listExp [['p'], ['q'], ['r']] false) (-2) (some 1) = .ok (listExp [['q']] false) := by decide

end BrushVerif.C06
