import BrushVerif.Proofs.ParamOps
import BrushVerif.Proofs.ParamSubst
/-!
# C06 — parameter-expansion operators compute bash's result for every value and operand

Property theorems over `Model/ParamOps.lean` (mirror of `expansion.rs` / `patterns.rs`) against
`Spec/ParamOps.lean` (bash / POSIX reference semantics).  Quantifiers: every string (any length, any
characters), every matcher `m : Str → Bool` (so: every pattern language), every offset and length in
`Int`, every element list.

The model mirrors the code after the repairs of the shortest-match loops, the character-counting
length, the negative substring length, the null-ness of lists of empty elements and `"${@+w}"` over
no elements; every theorem below is at full strength (no domain guard).
-/
namespace BrushVerif.C06
open BrushVerif.Wire BrushVerif.ParamOps BrushVerif.ParamSpec

/-! ## prefix / suffix removal (independent of bash) -/

/-- `${v##p}`: what is left is `v` minus its longest prefix accepted by the matcher — the empty
prefix included —, for every matcher and every string. -/
theorem remove_largest_prefix_is_longest (m : Str → Bool) (s : Str) :
    RemovesPrefix m true s (removeLargestPrefix m s) := by
  unfold removeLargestPrefix RemovesPrefix
  rcases largestPrefixGo_spec m s s.length with ⟨j, h1, h2, h3, h4, h5⟩ | ⟨h1, h2⟩
  · left
    refine ⟨j, h2, h3, h4, ?_⟩
    intro i hi hm
    simp only [↓reduceIte]
    by_cases hij : i ≤ j
    · exact hij
    · have := h5 i (by omega) hi; simp [this] at hm
  · by_cases h0 : m [] = true
    · left
      refine ⟨0, by omega, by simpa using h0, by simpa using h2, ?_⟩
      intro i hi hm
      simp only [↓reduceIte]
      by_cases hi0 : i = 0
      · omega
      · have := h1 i (by omega) hi; simp [this] at hm
    · right
      refine ⟨?_, h2⟩
      intro i hi
      by_cases hi0 : i = 0
      · subst hi0; simpa using h0
      · exact h1 i (by omega) hi

example : removeLargestPrefix (fun t => t.length ≤ 2) "abc".toList = "c".toList := by decide

private theorem smallest_prefix_loop (m : Str → Bool) (s : Str) (hg : m [] = false) :
    RemovesPrefix m false s (smallestPrefixGo m s s.length 0) := by
  unfold RemovesPrefix
  rcases smallestPrefixGo_spec m s s.length 0 with ⟨j, h1, h2, h3, h4, h5⟩ | ⟨h1, h2⟩
  · left
    refine ⟨j, by omega, h3, h4, ?_⟩
    intro i hi hm
    simp only [Bool.false_eq_true, ↓reduceIte]
    by_cases hji : j ≤ i
    · exact hji
    · by_cases hi0 : i = 0
      · subst hi0; simp [hg] at hm
      · have := h5 i (by omega) (by omega); simp [this] at hm
  · right
    refine ⟨?_, h2⟩
    intro i hi
    by_cases hi0 : i = 0
    · subst hi0; simpa using hg
    · exact h1 i (by omega) (by omega)


/-- `${v#p}`: what is left is `v` minus its shortest prefix accepted by the matcher — the empty
prefix included (`${x#*}` deletes nothing) —, for every matcher and every string. -/
theorem remove_smallest_prefix_is_shortest (m : Str → Bool) (s : Str) :
    RemovesPrefix m false s (removeSmallestPrefix m s) := by
  unfold removeSmallestPrefix
  by_cases h0 : m [] = true
  · simp only [h0, ↓reduceIte]
    left
    exact ⟨0, by omega, by simpa using h0, by simp, by intro i _ _; simp⟩
  · have hf : m [] = false := by simpa using h0
    simp only [hf, Bool.false_eq_true, ↓reduceIte]
    exact smallest_prefix_loop m s hf

example : removeSmallestPrefix (fun _ => true) "abc".toList = "abc".toList ∧
    removeSmallestPrefix (fun t => t = ['a', 'b']) "abc".toList = "c".toList := by decide

/-- `${v%%p}`: `v` minus its longest suffix accepted by the matcher, the empty one included. -/
theorem remove_largest_suffix_is_longest (m : Str → Bool) (s : Str) :
    RemovesSuffix m true s (removeLargestSuffix m s) := by
  unfold removeLargestSuffix RemovesSuffix
  rcases largestSuffixGo_spec m s s.length 0 with ⟨j, h1, h2, h3, h4, h5⟩ | ⟨h1, h2⟩
  · left
    refine ⟨j, by omega, h3, h4, ?_⟩
    intro i hi hm
    simp only [↓reduceIte]
    by_cases hji : j ≤ i
    · exact hji
    · have := h5 i (by omega) (by omega); simp [this] at hm
  · by_cases h0 : m [] = true
    · left
      refine ⟨s.length, by omega, by simpa using h0, by simpa using h2, ?_⟩
      intro i hi hm
      simp only [↓reduceIte]
      by_cases hin : i = s.length
      · omega
      · have := h1 i (by omega) (by omega); simp [this] at hm
    · right
      refine ⟨?_, h2⟩
      intro i hi
      by_cases hin : i = s.length
      · subst hin; simpa using h0
      · exact h1 i (by omega) (by omega)

example : removeLargestSuffix (fun t => t.length ≤ 2) "abc".toList = "a".toList := by decide

private theorem smallest_suffix_loop (m : Str → Bool) (s : Str) (hg : m [] = false) :
    RemovesSuffix m false s (smallestSuffixGo m s s.length) := by
  unfold RemovesSuffix
  rcases smallestSuffixGo_spec m s s.length with ⟨j, h1, h3, h4, h5⟩ | ⟨h1, h2⟩
  · left
    refine ⟨j, by omega, h3, h4, ?_⟩
    intro i hi hm
    simp only [Bool.false_eq_true, ↓reduceIte]
    by_cases hij : i ≤ j
    · exact hij
    · by_cases hin : i = s.length
      · subst hin; simp [hg] at hm
      · have := h5 i (by omega) (by omega); simp [this] at hm
  · right
    refine ⟨?_, h2⟩
    intro i hi
    by_cases hin : i = s.length
    · subst hin; simpa using hg
    · exact h1 i (by omega)


/-- `${v%p}`: `v` minus its shortest suffix accepted by the matcher, the empty one included. -/
theorem remove_smallest_suffix_is_shortest (m : Str → Bool) (s : Str) :
    RemovesSuffix m false s (removeSmallestSuffix m s) := by
  unfold removeSmallestSuffix
  by_cases h0 : m [] = true
  · simp only [h0, ↓reduceIte]
    left
    refine ⟨s.length, by omega, by simpa using h0, by simp, ?_⟩
    intro i hi _; simpa using hi
  · have hf : m [] = false := by simpa using h0
    simp only [hf, Bool.false_eq_true, ↓reduceIte]
    exact smallest_suffix_loop m s hf

example : removeSmallestSuffix (fun _ => true) "abc".toList = "abc".toList ∧
    removeSmallestSuffix (fun t => t = ['b', 'c']) "abc".toList = "a".toList := by decide

/-! ## `- = ? +` -/

/-- The four `match (test_type, classify())` blocks compute POSIX's table, entry by entry
(the quantifier is the whole 4 × 2 × 3 table). -/
theorem param_test_table_eq_posix (op : TestOp) (colon : Bool) (st : PState) :
    testAction op colon st = posixTable op colon st := by
  cases op <;> cases colon <;> cases st <;> rfl

example : testAction .errorIfUnset true .definedEmpty = .error := rfl

private theorem any_not_eq_not_all (l : List Str) :
    (l.any fun f => !f.isEmpty) = !(l.all fun f => f.isEmpty) := by
  induction l with
  | nil => rfl
  | cons a t ih => simp only [List.any_cons, List.all_cons, ih, Bool.not_and]


private theorem classify_list (vals : List Str) (star : Bool) :
    classify { fields := vals, concatenate := star, fromArray := true, undefined := false } =
      bashState (.all vals star) := by
  match vals with
  | [] => simp [classify, bashState]
  | [v] => cases v <;> simp [classify, bashState]
  | v :: w :: r => simp [classify, bashState]

/-- `Expansion::classify` of what `expand_parameter_allowing_unset` returns is bash's state of the
parameter: scalar, element, positional, `[@]`, `[*]`, `$@`, `$*` (a list of two or more elements
is never null, whatever the elements); with or without nounset. -/
theorem classify_eq_bash_state (p : Param) (nounset : Bool) (e : Expansion)
    (he : expandParam p true nounset = some e) : classify e = bashState p := by
  have scalar : ∀ s : Str, classify (ofStr s) = if s.isEmpty then .definedEmpty else .nonZero := by
    intro s; cases s <;> simp [classify, ofStr]
  have undef : classify undefinedExp = .undefined := by simp [classify, undefinedExp]
  cases p with
  | named v =>
    cases v with
    | none => simp [expandParam, undefinedExpansion] at he; subst he; rw [undef]; rfl
    | some s => simp [expandParam] at he; subst he; rw [scalar]; rfl
  | elem v ex =>
    cases v with
    | none => simp [expandParam, undefinedExpansion] at he; subst he; rw [undef]; rfl
    | some s => simp [expandParam] at he; subst he; rw [scalar]; rfl
  | pos v =>
    cases v with
    | none => simp [expandParam, undefinedExpansion] at he; subst he; rw [undef]; rfl
    | some s => simp [expandParam] at he; subst he; rw [scalar]; rfl
  | all vals star =>
    simp only [expandParam, Option.some.injEq] at he; subst he
    exact classify_list vals star
  | posAll vals star =>
    simp only [expandParam, Option.some.injEq] at he; subst he
    rw [classify_list vals star]; rfl

example : classify { fields := [[], []], concatenate := false, fromArray := true, undefined := false } = .nonZero := by
  decide

private theorem null_only_from_alternative (op : TestOp) (colon : Bool) (st : PState)
    (h : posixTable op colon st = .null) : op = .useAlternative := by
  cases op <;> cases colon <;> cases st <;> first | rfl | cases h

/-- The whole `${p-w}` `${p=w}` `${p?w}` `${p+w}` family (with and without the colon, under
nounset or not, for every kind of parameter, value and word): the model of brush's arms produces
bash's outcome — substituted value, assignment, failure, or (for `"${@+w}"` over no elements) no
field at all. -/
theorem test_ops_refine_bash (p : Param) (nounset : Bool) (m m' : Str → Bool)
    (op : TestOp) (colon : Bool) (word : Str) :
    expandExpr p nounset m (.test op colon word) = bashExpr p nounset m' (.test op colon word) := by
  simp only [expandExpr, bashExpr]
  cases he : expandParam p true nounset with
  | none => rfl
  | some e =>
    simp only []
    rw [classify_eq_bash_state p nounset e he, param_test_table_eq_posix]
    cases hpt : posixTable op colon (bashState p) with
    | param => rfl
    | word => rfl
    | assign => rfl
    | error => rfl
    | null =>
      cases p with
      | named v => cases v <;> simp [expandParam, undefinedExpansion] at he <;> subst he <;> simp [undefinedExp, ofStr]
      | elem v ex => cases v <;> simp [expandParam, undefinedExpansion] at he <;> subst he <;> simp [undefinedExp, ofStr]
      | pos v => cases v <;> simp [expandParam, undefinedExpansion] at he <;> subst he <;> simp [undefinedExp, ofStr]
      | all vals star =>
        simp only [expandParam, Option.some.injEq] at he; subst he
        cases vals <;> cases star <;> simp
      | posAll vals star =>
        simp only [expandParam, Option.some.injEq] at he; subst he
        cases vals <;> cases star <;> simp

example : expandExpr (.named none) true (fun _ => false) (.test .assignDefault true ['w']) =
      { res := .ok (ofStr ['w']), assigned := some ['w'] } ∧
    (expandExpr (.posAll [] false) false (fun _ => false) (.test .useAlternative false ['w'])).res =
      .ok { fields := [], concatenate := false, fromArray := true, undefined := false } := by
  decide

/-! ## `${#v}` -/

/-- `${#v}` is the number of characters of the value, whatever the characters (multi-byte included) -/
theorem length_counts_chars (s : Str) : polyLen (ofStr s) = s.length := by
  simp [polyLen, ofStr]

example : polyLen (ofStr ['é', 'a']) = 2 := by decide

/-- for `a[@]`, `a[*]`, `$@`, `$*` the length is the number of elements -/
theorem length_counts_elements (vals : List Str) (star : Bool) :
    polyLen { fields := vals, concatenate := star, fromArray := true, undefined := false } = vals.length := by
  simp [polyLen]

/-! ## `${v:offset:length}` -/

private theorem take_min_drop {α : Type} (s : List α) (o k : Nat) :
    (s.drop o).take (min k (s.length - o)) = (s.drop o).take k := by
  rw [List.take_eq_take_iff]; simp [List.length_drop]

private theorem asUsize_nonneg (x : Int) (h : 0 ≤ x) : asUsize x = x.toNat := by
  simp [asUsize]; omega

/-- where bash starts: the offset, counted from the end when negative -/
private def startOf (n : Nat) (off : Int) : Int := if off < 0 then off + n else off

/-- the bounds of the `Substring` arm on its path for an absent or non-negative length -/
private def nnBounds (plen : Int) (off : Int) (len : Option Int) : Int × Int :=
  let off1 := if off < 0 then (if off + plen < 0 then plen else off + plen) else off
  let off2 := min off1 plen
  let end_ := match len with
    | some l => off2 + min l (plen - off2)
    | none => plen
  (off2, end_)

private theorem substrBounds_nn (plen : Int) (u fa ps : Bool) (off : Int) (len : Option Int)
    (hl : ∀ l, len = some l → 0 ≤ l) :
    substrBounds plen u fa ps off len = some (nnBounds plen off len) := by
  cases len with
  | none => rfl
  | some l =>
    have : ¬ l < 0 := by have := hl l rfl; omega
    simp only [substrBounds, nnBounds, this, ↓reduceIte]

private theorem nnBounds_none (n : Nat) (off : Int) :
    0 ≤ (nnBounds n off none).1 ∧ (nnBounds n off none).1 ≤ n ∧
    (nnBounds n off none).1 = (if startOf n off < 0 ∨ startOf n off > n then (n : Int) else startOf n off) ∧
    (nnBounds n off none).2 = n := by
  simp only [nnBounds, startOf]
  refine ⟨?_, ?_, ?_, trivial⟩ <;> (split <;> (try split) <;> (try split)) <;> omega

private theorem nnBounds_some (n : Nat) (off l : Int) (_hl : 0 ≤ l) :
    0 ≤ (nnBounds n off (some l)).1 ∧ (nnBounds n off (some l)).1 ≤ n ∧
    (nnBounds n off (some l)).1 = (if startOf n off < 0 ∨ startOf n off > n then (n : Int) else startOf n off) ∧
    (nnBounds n off (some l)).2 = (nnBounds n off (some l)).1 + min l (n - (nnBounds n off (some l)).1) := by
  simp only [nnBounds, startOf]
  refine ⟨?_, ?_, ?_, trivial⟩ <;> (split <;> (try split) <;> (try split)) <;> omega

private theorem polySubslice_str (s : Str) (b : Int × Int) (h0 : 0 ≤ b.1) (h1 : b.1 ≤ b.2) (h2 : b.2 ≤ s.length) :
    ∃ e, polySubslice (ofStr s) (asUsize b.1) (asUsize b.2) = .ok e ∧
      joinWith [' '] e.fields = (s.drop b.1.toNat).take (b.2.toNat - b.1.toNat) := by
  rw [asUsize_nonneg _ h0, asUsize_nonneg _ (by omega : 0 ≤ b.2)]
  have hle : ¬ b.2.toNat < b.1.toNat := by omega
  refine ⟨_, by simp only [polySubslice, hle, ↓reduceIte, ofStr]; rfl, ?_⟩
  exact sliceFields_single s _ _ (by omega)

/-- the slice taken at the bounds computed from the character count is bash's substring
(length absent or non-negative) -/
private theorem slice_at_bounds (s : Str) (off : Int) (len : Option Int) (hl : ∀ l, len = some l → 0 ≤ l) :
    ∃ e, polySubslice (ofStr s) (asUsize (nnBounds (↑s.length) off len).1)
        (asUsize (nnBounds (↑s.length) off len).2) = .ok e ∧
      bashSubstr s off len = some (joinWith [' '] e.fields) := by
  have key := polySubslice_str s
  cases len with
  | none =>
    obtain ⟨h0, h1, h3, h4⟩ := nnBounds_none s.length off
    generalize nnBounds (↑s.length) off none = b at h0 h1 h3 h4
    obtain ⟨e, he, hj⟩ := key b h0 (by omega) (by omega)
    refine ⟨e, he, ?_⟩
    rw [hj]
    simp only [bashSubstr]
    change (if startOf s.length off < 0 ∨ startOf s.length off > ↑s.length then some [] else _) = _
    by_cases hout : startOf s.length off < 0 ∨ startOf s.length off > ↑s.length
    · simp only [hout, ↓reduceIte] at h3 ⊢
      have : b.1.toNat = s.length := by omega
      simp [this]
    · simp only [hout, ↓reduceIte] at h3 ⊢
      rw [h3]
      have : b.2.toNat - (startOf s.length off).toNat = s.length - (startOf s.length off).toNat := by omega
      rw [this, List.take_of_length_le (by simp [List.length_drop])]; rfl
  | some l =>
    have hl0 := hl l rfl
    have hneg : ¬ l < 0 := by omega
    obtain ⟨h0, h1, h3, h4⟩ := nnBounds_some s.length off l hl0
    generalize nnBounds (↑s.length) off (some l) = b at h0 h1 h3 h4
    obtain ⟨e, he, hj⟩ := key b h0 (by omega) (by omega)
    refine ⟨e, he, ?_⟩
    rw [hj]
    simp only [bashSubstr, hneg, ↓reduceIte]
    change (if startOf s.length off < 0 ∨ startOf s.length off > ↑s.length then some [] else _) = _
    by_cases hout : startOf s.length off < 0 ∨ startOf s.length off > ↑s.length
    · simp only [hout, ↓reduceIte] at h3 ⊢
      have : b.1.toNat = s.length := by omega
      simp [this]
    · simp only [hout, ↓reduceIte] at h3 ⊢
      have : b.2.toNat - b.1.toNat = min l.toNat (s.length - b.1.toNat) := by omega
      rw [this, take_min_drop, h3]; rfl



/-- `${v:o:l}` on a scalar: for every string (multi-byte characters included), every offset and
every length — absent, positive, zero or negative — the `Substring` arm yields bash's substring, and
fails exactly where bash reports `substring expression < 0`. -/
theorem substr_refines_bash (s : Str) (off : Int) (len : Option Int) :
    match bashSubstr s off len with
    | some r => ∃ e, substring (ofStr s) false off len = .ok e ∧ joinWith [' '] e.fields = r
    | none => substring (ofStr s) false off len = .err := by
  have hp : polyLen (ofStr s) = s.length := by simp [polyLen, ofStr]
  by_cases hneg : ∃ l, len = some l ∧ l < 0
  · obtain ⟨l, rfl, hl⟩ := hneg
    have hu : (ofStr s).undefined = false := rfl
    have hf : (ofStr s).fromArray = false := rfl
    simp only [substring, hp, substrBounds, bashSubstr, hl, ↓reduceIte, Int.ofNat_eq_natCast, hu, hf,
      Bool.false_and, Bool.or_false, Bool.false_or]
    generalize ho : (if off < 0 then off + (↑s.length : Int) else off) = o
    by_cases hout : o < 0 ∨ o > ↑s.length
    · have hout' : (decide (off > ↑s.length) || decide (off < 0) && decide (off + ↑s.length < 0)) = true := by
        simp only [Bool.or_eq_true, Bool.and_eq_true, decide_eq_true_eq]; split at ho <;> omega
      have hoff2 : min (if off < 0 then if off + ↑s.length < 0 then ↑s.length else off + ↑s.length else off) ↑s.length
          = (↑s.length : Int) := by
        split at ho <;> (try split) <;> omega
      simp only [hout, hout', ↓reduceIte, hoff2]
      obtain ⟨e, he, hj⟩ := polySubslice_str s (↑s.length, ↑s.length) (by simp) (by simp) (by simp)
      exact ⟨e, he, by rw [hj]; simp⟩
    · have hout' : (decide (off > ↑s.length) || decide (off < 0) && decide (off + ↑s.length < 0)) = false := by
        rw [Bool.eq_false_iff]; simp only [ne_eq, Bool.or_eq_true, Bool.and_eq_true, decide_eq_true_eq]
        split at ho <;> omega
      have hoff2 : min (if off < 0 then if off + ↑s.length < 0 then ↑s.length else off + ↑s.length else off) ↑s.length
          = o := by
        split at ho <;> (try split) <;> omega
      simp only [hout, hout', ↓reduceIte, hoff2, Bool.false_eq_true]
      by_cases hend : ↑s.length + l < o
      · simp only [hend, ↓reduceIte, decide_true]
      · simp only [hend, ↓reduceIte, decide_false, Bool.false_eq_true]
        obtain ⟨e, he, hj⟩ := polySubslice_str s (o, ↑s.length + l) (by simp only; omega) (by simp only; omega) (by simp only; omega)
        refine ⟨e, he, ?_⟩
        rw [hj]
        have : (↑s.length + l).toNat - o.toNat = (↑s.length + l - o).toNat := by omega
        simp only [this]
  · have hl : ∀ l, len = some l → 0 ≤ l := by
      intro l h; by_cases h0 : 0 ≤ l
      · exact h0
      · exact absurd ⟨l, h, by omega⟩ hneg
    obtain ⟨e, he, hj⟩ := slice_at_bounds s off len hl
    rw [hj]
    refine ⟨e, ?_, rfl⟩
    simp only [substring, hp, Int.ofNat_eq_natCast]
    rw [substrBounds_nn _ _ _ _ _ _ hl]; exact he

example : substring (ofStr "abcdef".toList) false 1 (some (-1)) = .ok (ofStr "bcde".toList) ∧
    substring (ofStr "abc".toList) false 2 (some (-5)) = .err ∧
    substring (ofStr ['é', 'a']) false (-1) none = .ok (ofStr ['a']) ∧
    substring (ofStr "abcdef".toList) false (-4) (some 2) = .ok (ofStr "cd".toList) := by decide

/-! ## `${a[@]:offset:length}`, `${@:offset:length}` -/

def listExp (xs : List Str) (star : Bool) : Expansion :=
  { fields := xs, concatenate := star, fromArray := true, undefined := false }

private theorem polySubslice_list (xs : List Str) (star : Bool) (b : Int × Int)
    (h0 : 0 ≤ b.1) (h1 : b.1 ≤ b.2) (_h2 : b.2 ≤ xs.length) :
    polySubslice (listExp xs star) (asUsize b.1) (asUsize b.2) =
      .ok (listExp ((xs.drop b.1.toNat).take (min (b.2.toNat - b.1.toNat) (xs.length - b.1.toNat))) star) := by
  rw [asUsize_nonneg _ h0, asUsize_nonneg _ (by omega : 0 ≤ b.2)]
  have hle : ¬ b.2.toNat < b.1.toNat := by omega
  simp only [polySubslice, hle, ↓reduceIte, listExp]

/-- the list slice for an absent or non-negative length -/
private theorem slice_nonneg (pos : Bool) (xs : List Str) (star : Bool) (off : Int) (len : Option Int)
    (hl : ∀ l, len = some l → 0 ≤ l) :
    ∃ r, bashSlice pos xs off len = some r ∧ substring (listExp xs star) pos off len = .ok (listExp r star) := by
  have hp : polyLen (listExp xs star) = xs.length := by simp [polyLen, listExp]
  have key := polySubslice_list xs star
  simp only [substring, hp, Int.ofNat_eq_natCast]
  rw [substrBounds_nn _ _ _ _ _ _ hl]
  simp only []
  cases len with
  | none =>
    obtain ⟨h0, h1, h3, h4⟩ := nnBounds_none xs.length off
    generalize nnBounds (↑xs.length) off none = b at h0 h1 h3 h4
    rw [key b h0 (by omega) (by omega)]
    by_cases hemp : xs = []
    · subst hemp; exact ⟨[], by simp [bashSlice], by simp⟩
    have hne : xs.isEmpty = false := by cases xs <;> simp_all
    simp only [bashSlice, hne, Bool.false_eq_true, ↓reduceIte]
    change ∃ r, (if startOf xs.length off < 0 ∨ startOf xs.length off > ↑xs.length then some [] else _) = some r ∧ _
    by_cases hout : startOf xs.length off < 0 ∨ startOf xs.length off > ↑xs.length
    · simp only [hout, ↓reduceIte] at h3 ⊢
      have hn : b.1.toNat = xs.length := by omega
      exact ⟨[], rfl, by simp [hn]⟩
    · simp only [hout, ↓reduceIte] at h3 ⊢
      refine ⟨_, rfl, ?_⟩
      have : min (b.2.toNat - b.1.toNat) (xs.length - b.1.toNat) = xs.length - b.1.toNat := by omega
      rw [this, List.take_of_length_le (by simp [List.length_drop]), h3]; rfl
  | some l =>
    have hl0 := hl l rfl
    have hneg : ¬ l < 0 := by omega
    obtain ⟨h0, h1, h3, h4⟩ := nnBounds_some xs.length off l hl0
    generalize nnBounds (↑xs.length) off (some l) = b at h0 h1 h3 h4
    rw [key b h0 (by omega) (by omega)]
    by_cases hemp : xs = []
    · subst hemp; exact ⟨[], by simp [bashSlice], by simp⟩
    have hne : xs.isEmpty = false := by cases xs <;> simp_all
    simp only [bashSlice, hne, Bool.false_eq_true, ↓reduceIte, hneg]
    change ∃ r, (if startOf xs.length off < 0 ∨ startOf xs.length off > ↑xs.length then some [] else _) = some r ∧ _
    by_cases hout : startOf xs.length off < 0 ∨ startOf xs.length off > ↑xs.length
    · simp only [hout, ↓reduceIte] at h3 ⊢
      have hn : b.1.toNat = xs.length := by omega
      exact ⟨[], rfl, by simp [hn]⟩
    · simp only [hout, ↓reduceIte] at h3 ⊢
      refine ⟨_, rfl, ?_⟩
      have : min (b.2.toNat - b.1.toNat) (xs.length - b.1.toNat) = min l.toNat (xs.length - b.1.toNat) := by omega
      rw [this, take_min_drop, h3]; rfl


/-- `${a[@]:o:l}`, `${a[*]:o:l}`, `${@:o:l}`, `${*:o:l}` (dense element lists; `$0` in front of the
positional ones, so that list is never empty): for every offset and every length the slice is
bash's — the elements from `offset` (counted from the end when negative; nothing when out of range),
at most `length` of them — and a negative length fails exactly where bash reports it. -/
theorem slice_refines_bash (pos : Bool) (xs : List Str) (star : Bool) (off : Int) (len : Option Int)
    (hpos : pos = true → xs ≠ []) :
    match bashSlice pos xs off len with
    | some r => substring (listExp xs star) pos off len = .ok (listExp r star)
    | none => substring (listExp xs star) pos off len = .err := by
  by_cases hneg : ∃ l, len = some l ∧ l < 0
  · obtain ⟨l, rfl, hl⟩ := hneg
    have hp : polyLen (listExp xs star) = xs.length := by simp [polyLen, listExp]
    have hu : (listExp xs star).undefined = false := rfl
    have hf : (listExp xs star).fromArray = true := rfl
    simp only [substring, hp, substrBounds, bashSlice, hl, ↓reduceIte, Int.ofNat_eq_natCast, hu, hf,
      Bool.true_and, Bool.true_or, Bool.or_false]
    generalize ho : (if off < 0 then off + (↑xs.length : Int) else off) = o
    by_cases hemp : xs = []
    · subst hemp
      have hps : pos = false := by cases pos <;> simp_all
      subst hps
      simp only [List.isEmpty_nil, ↓reduceIte, List.length_nil, Int.natCast_zero] at ho ⊢
      have hsel : (decide (off > 0) || decide (off < 0) && decide (off + 0 < 0) ||
          !false && decide (min (if off < 0 then if off + 0 < 0 then 0 else off + 0 else off) 0 = 0)) = true := by
        simp only [Bool.or_eq_true, Bool.and_eq_true, decide_eq_true_eq, Bool.not_false, Bool.true_and]
        split <;> (try split) <;> omega
      simp only [hsel, ↓reduceIte]
      have hmin : min (if off < 0 then if off + 0 < 0 then 0 else off + 0 else off) 0 = (0 : Int) := by
        split <;> (try split) <;> omega
      rw [hmin]
      simp [polySubslice, asUsize, listExp]
    · have hne : xs.isEmpty = false := by cases xs <;> simp_all
      simp only [hne, Bool.false_eq_true, ↓reduceIte]
      have hout_iff : (decide (off > ↑xs.length) || decide (off < 0) && decide (off + ↑xs.length < 0)) =
          decide (o < 0 ∨ o > ↑xs.length) := by
        rw [Bool.eq_iff_iff]
        simp only [Bool.or_eq_true, Bool.and_eq_true, decide_eq_true_eq]
        split at ho <;> omega
      by_cases hout : o < 0 ∨ o > ↑xs.length
      · have hoff2 : min (if off < 0 then if off + ↑xs.length < 0 then ↑xs.length else off + ↑xs.length else off) ↑xs.length
            = (↑xs.length : Int) := by
          split at ho <;> (try split) <;> omega
        have hc : (o < 0 ∨ o > ↑xs.length ∨ (o = ↑xs.length ∧ (!pos) = true)) := by
          rcases hout with h | h
          · exact Or.inl h
          · exact Or.inr (Or.inl h)
        simp only [hout_iff, hout, decide_true, Bool.true_or, ↓reduceIte, hc, hoff2]
        rw [polySubslice_list xs star (↑xs.length, ↑xs.length) (by simp) (by simp) (by simp)]
        simp [listExp]
      · have hoff2 : min (if off < 0 then if off + ↑xs.length < 0 then ↑xs.length else off + ↑xs.length else off) ↑xs.length
            = o := by
          split at ho <;> (try split) <;> omega
        simp only [hout_iff, hout, decide_false, Bool.false_or, hoff2]
        by_cases hend : o = ↑xs.length ∧ (!pos) = true
        · have hc : (o < 0 ∨ o > ↑xs.length ∨ (o = ↑xs.length ∧ (!pos) = true)) := Or.inr (Or.inr hend)
          have hb : (!pos && decide (o = ↑xs.length)) = true := by
            simp only [Bool.and_eq_true, decide_eq_true_eq]; exact ⟨hend.2, hend.1⟩
          simp only [hb, ↓reduceIte, hc]
          rw [hend.1, polySubslice_list xs star (↑xs.length, ↑xs.length) (by simp) (by simp) (by simp)]
          simp [listExp]
        · have hc : ¬ (o < 0 ∨ o > ↑xs.length ∨ (o = ↑xs.length ∧ (!pos) = true)) := by
            intro h; rcases h with h | h | h
            · exact hout (Or.inl h)
            · exact hout (Or.inr h)
            · exact hend h
          have hb : (!pos && decide (o = ↑xs.length)) = false := by
            rw [Bool.eq_false_iff]; simp only [ne_eq, Bool.and_eq_true, decide_eq_true_eq]
            intro h; exact hend ⟨h.2, h.1⟩
          simp only [hb, Bool.false_eq_true, ↓reduceIte, hc]
  · have hl : ∀ l, len = some l → 0 ≤ l := by
      intro l h; by_cases h0 : 0 ≤ l
      · exact h0
      · exact absurd ⟨l, h, by omega⟩ hneg
    obtain ⟨r, hr, hs⟩ := slice_nonneg pos xs star off len hl
    rw [hr]; exact hs

example : substring (listExp [['p'], ['q'], ['r']] false) false (-2) (some 1) = .ok (listExp [['q']] false) ∧
    substring (listExp [['1'], ['2'], ['3'], ['4']] false) false 1 (some (-1)) = .err ∧
    substring (listExp [['p']] false) false 1 (some (-2)) = .ok (listExp [] false) ∧
    substring (listExp [shellName] true) true 1 (some (-1)) = .err := by decide

/-! ## indirection `${!ref…}`: a two-stage lookup -/

/-- the reference holds the text `name` (scalar, array element or positional) -/
def RefHolds (ref : Param) (name : Str) : Prop :=
  ref = .named (some name) ∨ (∃ ex, ref = .elem (some name) ex) ∨ ref = .pos (some name)

/-- the reference has no value -/
def RefUnset (ref : Param) : Prop :=
  ref = .named none ∨ (∃ ex, ref = .elem none ex) ∨ ref = .pos none

private theorem expandIndirect_holds (ref : Param) (name : Str) (env : Str → Option Param) (t : Param)
    (a nounset : Bool) (hr : RefHolds ref name) (ht : env name = some t) :
    expandIndirect ref env a nounset = expandParam t a nounset := by
  have hj : fieldsToString (ofStr name) = name := by simp [fieldsToString, ofStr, joinWith]
  rcases hr with rfl | ⟨ex, rfl⟩ | rfl <;> simp only [expandIndirect, expandParam, hj, ht]

private theorem assign_only_from_assignDefault (op : TestOp) (colon : Bool) (st : PState)
    (h : testAction op colon st = .assign) : op = .assignDefault := by
  cases op <;> cases colon <;> cases st <;> first | rfl | cases h

/-- operators whose outcome does not depend on *which* parameter is written in the braces:
everything except `${#…}` (no indirect form) and the `$@` slice (which puts `$0` in front of what
is written) -/
def SameThroughReference (t : Param) : Op → Prop
  | .len => False
  | .sub _ _ => match t with
    | .posAll _ _ => False
    | _ => True
  | _ => True

/-- **`${!ref op w}` is `${target op w}`**: when the reference holds the text of a parameter, every
operator — plain, `- :- + :+ = := ? :?`, `# ## % %%`, `:offset:length` — yields through the reference
exactly the outcome it yields on the target written directly (for `=`: the same substituted value
and the same assignment, made to the target), for every state of the target (set,
null, unset, list), **with nounset on or off**.  (The target is looked up with the same
`allow_unset_vars` as the operator uses directly: an unset target under `set -u` is tolerated by
exactly the operators that tolerate it when written directly.) -/
theorem indirect_eq_target (ref : Param) (name : Str) (env : Str → Option Param) (t : Param)
    (nounset : Bool) (m : Str → Bool) (op : Op)
    (hr : RefHolds ref name) (ht : env name = some t) (hop : SameThroughReference t op) :
    expandExprInd ref env nounset m op = expandExpr t nounset m op := by
  have h := fun a => expandIndirect_holds ref name env t a nounset hr ht
  cases op with
  | plain => simp only [expandExprInd, expandExpr, h]
  | len => exact absurd hop (by simp [SameThroughReference])
  | sub off len =>
    simp only [expandExprInd, expandExpr, h]
    cases t with
    | posAll vals star => exact absurd hop (by simp [SameThroughReference])
    | named v => rfl
    | elem v ex => rfl
    | pos v => rfl
    | all vals star => rfl
  | test k colon word =>
    cases k with
    | assignDefault =>
      have hres : ∀ a, expandParam ref a nounset = some (ofStr name) := by
        intro a; rcases hr with rfl | ⟨ex, rfl⟩ | rfl <;> rfl
      have hj : fieldsToString (ofStr name) = name := by simp [fieldsToString, ofStr, joinWith]
      simp only [expandExprInd, expandExpr, h, hres, hj, ht]
      cases expandParam t true nounset with
      | none => rfl
      | some e =>
        simp only []
        cases testAction .assignDefault colon (classify e) with
        | assign => cases t <;> rfl
        | param => rfl
        | word => rfl
        | error => rfl
        | null => rfl
    | useDefault =>
      simp only [expandExprInd, expandExpr, h]
      cases expandParam t true nounset with
      | none => rfl
      | some e =>
        simp only []
        cases hta : testAction .useDefault colon (classify e) with
        | assign => exact absurd (assign_only_from_assignDefault _ _ _ hta) (by decide)
        | param => rfl
        | word => rfl
        | error => rfl
        | null => rfl
    | errorIfUnset =>
      simp only [expandExprInd, expandExpr, h]
      cases expandParam t true nounset with
      | none => rfl
      | some e =>
        simp only []
        cases hta : testAction .errorIfUnset colon (classify e) with
        | assign => exact absurd (assign_only_from_assignDefault _ _ _ hta) (by decide)
        | param => rfl
        | word => rfl
        | error => rfl
        | null => rfl
    | useAlternative =>
      simp only [expandExprInd, expandExpr, h]
      cases expandParam t true nounset with
      | none => rfl
      | some e =>
        simp only []
        cases hta : testAction .useAlternative colon (classify e) with
        | assign => exact absurd (assign_only_from_assignDefault _ _ _ hta) (by decide)
        | param => rfl
        | word => rfl
        | error => rfl
        | null => rfl
  | rm k hasPat => simp only [expandExprInd, expandExpr, h]

/-- `${!ref:=w}` assigns to the variable the reference names: whenever `=` assigns at all through
a reference to a plain variable `v`, the outcome is the one of `${v:=w}` — `w` substituted and `w`
assigned to `v` (not to the reference) — with nounset on or off. -/
theorem indirect_assign_assigns_target (ref : Param) (name : Str) (env : Str → Option Param) (v : Option Str)
    (nounset : Bool) (m : Str → Bool) (colon : Bool) (word : Str)
    (hr : RefHolds ref name) (ht : env name = some (.named v))
    (hs : posixTable .assignDefault colon (bashState (.named v)) = .assign) :
    expandExprInd ref env nounset m (.test .assignDefault colon word) =
      { res := .ok (ofStr word), assigned := some word } := by
  rw [indirect_eq_target ref name env (.named v) nounset m _ hr ht (by simp [SameThroughReference]),
    test_ops_refine_bash (.named v) nounset m m .assignDefault colon word]
  cases v <;> simp only [bashExpr, expandParam, undefinedExpansion, Bool.true_or, ↓reduceIte, hs]

/-- The testing operators (`=` included) through a reference compute the outcome bash computes for
the target written directly, for every state of the target, with nounset on or off.  (bash itself
refuses `=` through a reference to an array element — `Spec.bashExprInd`, recorded finding
`indirect_assign_element_target_accepted`.) -/
theorem indirect_test_ops_refine_bash (ref : Param) (name : Str) (env : Str → Option Param) (t : Param)
    (nounset : Bool) (m m' : Str → Bool) (op : TestOp) (colon : Bool) (word : Str)
    (hr : RefHolds ref name) (ht : env name = some t) :
    expandExprInd ref env nounset m (.test op colon word) = bashExpr t nounset m' (.test op colon word) := by
  rw [indirect_eq_target ref name env t nounset m _ hr ht (by simp [SameThroughReference])]
  exact test_ops_refine_bash t nounset m m' op colon word

/-- A reference without a value cannot be followed: every `${!ref…}` fails, whatever the operator
and whether or not nounset is on (the empty text names no parameter). -/
theorem indirect_unset_reference_fails (ref : Param) (env : Str → Option Param) (nounset : Bool)
    (m : Str → Bool) (op : Op) (hr : RefUnset ref) (he : env [] = none) (hop : op ≠ .len) :
    (expandExprInd ref env nounset m op).res = .err := by
  have h : ∀ a, expandIndirect ref env a nounset = none := by
    intro a
    have hj : fieldsToString undefinedExp = [] := by simp [fieldsToString, undefinedExp, joinWith]
    rcases hr with rfl | ⟨ex, rfl⟩ | rfl <;>
      (simp only [expandIndirect, expandParam, undefinedExpansion]; split <;> simp_all)
  cases op with
  | len => exact absurd rfl hop
  | plain => simp only [expandExprInd, h]
  | sub off len => simp only [expandExprInd, h]
  | test k colon word => simp only [expandExprInd, h]
  | rm k hasPat => simp only [expandExprInd, h]

example : RefHolds (.named (some ['v'])) ['v'] ∧
    expandExprInd (.named (some ['v'])) (fun n => if n = ['v'] then some (.named none) else none) true
      (fun _ => false) (.test .useDefault false ['w']) = { res := .ok (ofStr ['w']) } ∧
    (expandExprInd (.named (some ['v'])) (fun n => if n = ['v'] then some (.named none) else none) true
      (fun _ => false) .plain).res = .err := by
  refine ⟨Or.inl rfl, by decide, by decide⟩

/-! ## execution contexts: the result does not depend on the wrapper -/

/-- **The operation reads only the visible binding.**  Wrapping the expansion in any number of
frames that do not bind the name — entering functions (however deep), a brace group, a loop body,
`eval`, a sourced file, a trap handler, a temporary environment for other names — changes nothing:
every operator yields the outcome it yields without the wrappers, for every state of the
parameter, with nounset on or off. -/
theorem context_wrapper_independent (ws : List Frame) (sc : Scopes) (n : Str) (nounset : Bool)
    (m : Str → Bool) (op : Op) (hw : ∀ f ∈ ws, Frame.find f n = none) :
    expandIn (ws ++ sc) n nounset m op = expandIn sc n nounset m op := by
  have hv : visible (ws ++ sc) n = visible sc n := by
    induction ws with
    | nil => rfl
    | cons f fs ih =>
      have hf : Frame.find f n = none := hw f (by simp)
      have := ih (fun g hg => hw g (by simp [hg]))
      simp only [List.cons_append, visible, hf, this]
  simp only [expandIn, hv]

/-- **A local hides the global**: when the innermost frame binds the name (a `local`, the copy made
by `local -a`, a temporary binding `v=x f`, a function's own positional list), the outcome is the
one of that binding, whatever the outer frames hold — in particular a local that is unset makes
`${v-w}` yield `w` even though a global `v` has a value. -/
theorem local_hides_global (f : Frame) (g g' : Scopes) (n : Str) (p : Param) (nounset : Bool)
    (m : Str → Bool) (op : Op) (hf : Frame.find f n = some p) :
    expandIn (f :: g) n nounset m op = expandExpr p nounset m op ∧
    expandIn (f :: g) n nounset m op = expandIn (f :: g') n nounset m op := by
  simp [expandIn, visible, hf]

example : expandIn [[(['v'], .named none)], [(['v'], .named (some ['G']))]] ['v'] true (fun _ => false)
      (.test .useDefault false ['w']) = { res := .ok (ofStr ['w']) } ∧
    expandIn [[(['z'], .named (some ['1']))], [(['v'], .named (some ['G']))]] ['v'] true (fun _ => false) .plain
      = { res := .ok (ofStr ['G']) } := by decide

private theorem stateAfter_none (p : Param) (o : Outcome) (h : o.assigned = none) : stateAfter p o = p := by
  cases p <;> simp [stateAfter, h]

/-- only `=` on a variable or an element assigns -/
private theorem assigned_none (p : Param) (nounset : Bool) (m : Str → Bool) (op : Op)
    (h : (∀ c w, op ≠ .test .assignDefault c w) ∨ (∀ v, p ≠ .named v) ∧ (∀ v ex, p ≠ .elem v ex)) :
    (expandExpr p nounset m op).assigned = none := by
  cases op with
  | plain => simp only [expandExpr]; cases expandParam p false nounset <;> rfl
  | len => simp only [expandExpr]; split <;> rfl
  | sub off len => simp only [expandExpr]; cases expandParam p false nounset <;> rfl
  | rm k hasPat => simp only [expandExpr]; cases expandParam p false nounset <;> rfl
  | test k colon word =>
    simp only [expandExpr]
    cases expandParam p true nounset with
    | none => rfl
    | some e =>
      simp only []
      cases hta : testAction k colon (classify e) with
      | param => rfl
      | word => rfl
      | error => rfl
      | null => simp only []; split <;> rfl
      | assign =>
        have hk : k = .assignDefault := by
          cases k <;> cases colon <;> cases hc : classify e <;> simp_all [testAction]
        subst hk
        rcases h with h | ⟨h1, h2⟩
        · exact absurd rfl (h colon word)
        · cases p with
          | named v => exact absurd rfl (h1 v)
          | elem v ex => exact absurd rfl (h2 v ex)
          | pos v => rfl
          | all vals star => rfl
          | posAll vals star => rfl

/-- when `=` assigns, it assigns the word and substitutes it -/
private theorem assigned_some (p : Param) (nounset : Bool) (m : Str → Bool) (colon : Bool) (word x : Str)
    (h : (expandExpr p nounset m (.test .assignDefault colon word)).assigned = some x) :
    x = word ∧ (expandExpr p nounset m (.test .assignDefault colon word)).res = .ok (ofStr word) := by
  simp only [expandExpr] at h ⊢
  cases he : expandParam p true nounset with
  | none => simp [he] at h
  | some e =>
    simp only [he] at h ⊢
    cases hta : testAction .assignDefault colon (classify e) with
    | param => simp [hta] at h
    | word => simp [hta] at h
    | error => simp [hta] at h
    | null => simp only [hta] at h; split at h <;> simp at h
    | assign =>
      simp only [hta] at h ⊢
      cases p <;> simp_all

/-- `=` on a variable that already holds the word substitutes the word -/
private theorem assign_on_word (p : Param) (nounset : Bool) (m : Str → Bool) (colon : Bool) (word : Str)
    (hp : p = .named (some word) ∨ p = .elem (some word) true) :
    (expandExpr p nounset m (.test .assignDefault colon word)).res = .ok (ofStr word) := by
  have hcl : classify (ofStr word) = if word.isEmpty then .definedEmpty else .nonZero := by
    cases word <;> simp [classify, ofStr]
  rcases hp with rfl | rfl <;>
    (simp only [expandExpr, expandParam, hcl]; cases word <;> cases colon <;> simp [testAction])

/-- **A second evaluation in the same shell gives the same result**: after `${p op w}` has been
evaluated (and, for `=`, has assigned), evaluating the same expansion again yields the same
substitution or the same failure — for every operator, state, word and matcher. -/
theorem reevaluation_stable (p : Param) (nounset : Bool) (m : Str → Bool) (op : Op) :
    (expandExpr (stateAfter p (expandExpr p nounset m op)) nounset m op).res =
      (expandExpr p nounset m op).res := by
  cases ha : (expandExpr p nounset m op).assigned with
  | none => rw [stateAfter_none _ _ ha]
  | some x =>
    have hop : ∃ c w, op = .test .assignDefault c w := by
      apply Classical.byContradiction; intro hn
      have := assigned_none p nounset m op (Or.inl (fun c w h => hn ⟨c, w, h⟩))
      simp [this] at ha
    obtain ⟨colon, word, rfl⟩ := hop
    obtain ⟨rfl, hres⟩ := assigned_some p nounset m colon word x ha
    rw [hres]
    cases p with
    | named v => exact assign_on_word _ nounset m colon x (Or.inl (by simp [stateAfter, ha]))
    | elem v ex => exact assign_on_word _ nounset m colon x (Or.inr (by simp [stateAfter, ha]))
    | pos v => exact absurd ha (by rw [assigned_none _ _ _ _ (Or.inr ⟨by simp, by simp⟩)]; simp)
    | all vals star => exact absurd ha (by rw [assigned_none _ _ _ _ (Or.inr ⟨by simp, by simp⟩)]; simp)
    | posAll vals star => exact absurd ha (by rw [assigned_none _ _ _ _ (Or.inr ⟨by simp, by simp⟩)]; simp)

example : (expandExpr (.named none) true (fun _ => false) (.test .assignDefault true ['w'])).assigned = some ['w'] ∧
    stateAfter (.named none) (expandExpr (.named none) true (fun _ => false) (.test .assignDefault true ['w'])) =
      .named (some ['w']) := by decide

/-! ## pattern substitution `${v/p/r}` `${v//p/r}` `${v/#p/r}` `${v/%p/r}`

Over `Model/ParamSubst.lean` (mirror of `replace_substring` + `fancy_regex::Regex::replacen` +
`Matches::next_with`) against `Spec/ParamSubst.lean` (bash's `pat_subst`).
Quantifiers: every regex engine `e` (any pattern language, any preference order), every matcher,
every value, every replacement. -/

section Subst
open BrushVerif.ParamSubst BrushVerif.SubstSpec

/-- A pattern that matches nowhere in the value leaves it alone — for all four forms, every
engine and every replacement. -/
theorem patsub_no_match_identity (e : Engine) (rep : Str → Str) (k : MatchKind) (s : Str)
    (h : ∀ t, t <:+ s → e t = []) : replaceSubstring e rep k s = s := by
  have hf : ∀ t, t <:+ s → firstAt e t = none := fun t ht => by simp [firstAt, h t ht]
  have he : ∀ t, t <:+ s → endAt e t = none := fun t ht => by simp [endAt, h t ht]
  cases k with
  | first => simp [replaceSubstring, replaceOnce, findFrom_none_of_forall _ s hf]
  | all => simp [replaceSubstring, replaceAll, replAllGo, findFrom_none_of_forall _ s hf]
  | atStart => simp [replaceSubstring, hf s (List.suffix_refl _)]
  | atEnd => simp [replaceSubstring, replaceOnce, findFrom_none_of_forall _ s he]

example : replaceSubstring (fun t => if t.take 1 = ['z'] then [1] else []) (fun _ => ['X']) .all "abc".toList
    = "abc".toList := by decide

/-- `${v/#p/r}`: when the engine's first choice at offset 0 is the longest match, the result is
the replacement followed by what is left of the value after its LONGEST prefix the pattern
matches; the value itself when no prefix matches. -/
theorem patsub_prefix_longest (e : Engine) (m : Str → Bool) (rep : Str → Str) (s : Str)
    (h : firstAt e s = longestAt m s) :
    (∃ k, k ≤ s.length ∧ m (s.take k) = true ∧ (∀ j, j ≤ s.length → m (s.take j) = true → j ≤ k) ∧
        replaceSubstring e rep .atStart s = rep (s.take k) ++ s.drop k) ∨
    ((∀ j, j ≤ s.length → m (s.take j) = false) ∧ replaceSubstring e rep .atStart s = s) := by
  unfold longestAt at h
  rcases longestGo_spec m s s.length with ⟨k, h1, h2, h3, h4⟩ | ⟨h1, h2⟩
  · left; exact ⟨k, h2, h3, h4, by simp [replaceSubstring, h, h1]⟩
  · right; exact ⟨h2, by simp [replaceSubstring, h, h1]⟩

/-- `${v/%p/r}`: dually, the LONGEST suffix the pattern matches is replaced (when, at every
offset, `re$` succeeds exactly where the pattern matches the rest of the value). -/
theorem patsub_suffix_longest (e : Engine) (m : Str → Bool) (rep : Str → Str) (s : Str)
    (h : ∀ t, t <:+ s → endAt e t = endMatcher m t) :
    (∃ i, i ≤ s.length ∧ m (s.drop i) = true ∧ (∀ j, j < i → m (s.drop j) = false) ∧
        replaceSubstring e rep .atEnd s = s.take i ++ rep (s.drop i)) ∨
    ((∀ j, j ≤ s.length → m (s.drop j) = false) ∧ replaceSubstring e rep .atEnd s = s) := by
  have hc := findFrom_congr _ _ s h
  simp only [replaceSubstring, replaceOnce, hc]
  cases hf : findFrom (endMatcher m) s with
  | none =>
    right
    refine ⟨?_, rfl⟩
    intro j hj
    have := findFrom_none_spec _ _ hf j hj
    unfold endMatcher at this
    by_cases hm : m (s.drop j) = true
    · simp [hm] at this
    · simpa using hm
  | some p =>
    obtain ⟨i, k⟩ := p
    left
    obtain ⟨h1, h2, h3⟩ := findFrom_some_spec _ _ _ _ hf
    unfold endMatcher at h2 h3
    have hm : m (s.drop i) = true := by
      by_cases hm : m (s.drop i) = true
      · exact hm
      · simp [hm] at h2
    have hk : k = s.length - i := by simp [hm] at h2; omega
    refine ⟨i, h1, hm, ?_, ?_⟩
    · intro j hj
      have := h3 j hj
      by_cases hmj : m (s.drop j) = true
      · simp [hmj] at this
      · simpa using hmj
    · subst hk
      simp [List.take_of_length_le, List.drop_eq_nil_of_le, show s.length ≤ i + (s.length - i) by omega]

example : replaceSubstring (fun t => if t = ['c'] then [1] else []) (fun _ => ['X']) .atEnd "abc".toList
    = "abX".toList := by decide

/-- `${v//p/r}` with a pattern that matches exactly the single characters of a set `S` is a
`map` over the value: every character of `S` becomes the replacement (computed from that
character), every other character stays. -/
theorem patsub_all_single_char_map (e : Engine) (S : Char → Bool) (rep : Str → Str) (s : Str)
    (h0 : firstAt e [] = none)
    (h1 : ∀ c t, (c :: t) <:+ s → firstAt e (c :: t) = if S c then some 1 else none) :
    replaceSubstring e rep .all s = s.flatMap (fun c => if S c then rep [c] else [c]) := by
  simp only [replaceSubstring, replaceAll]
  exact replAllGo_single _ S rep s h0 h1 _ s false (List.suffix_refl _) (by omega)

example : replaceSubstring (fun t => match t with | c :: _ => if c = 'a' then [1] else [] | [] => [])
    (fun m => '<' :: m ++ ['>']) .all "aba".toList = "<a>b<a>".toList := by decide

/-- What the iterator does with an engine that reports the empty match at every position: the
replacement goes in front of the value, after each of its characters — and once more at the very
end (`n + 1` insertions for `n` characters; the loop terminates). -/
theorem patsub_all_empty_matches (e : Engine) (r s : Str) (h : ∀ t, firstAt e t = some 0) :
    replaceSubstring e (fun _ => r) .all s = r ++ s.flatMap (fun c => c :: r) := by
  simp only [replaceSubstring, replaceAll]
  exact replAllGo_empty _ r h s _ (by omega)

/-- bash does not insert after the last character: brush differs from bash on every non-empty
value whenever the pattern matches only the empty string (known finding
`replace_empty_match_differs`; C06-12). -/
def patsub_empty_match_full : Prop :=
  ∀ (e : Engine) (m : Str → Bool) (r s : Str), (∀ t, firstAt e t = some 0) → (∀ t, m t = t.isEmpty) →
    replaceSubstring e (fun _ => r) .all s = specReplace m (fun _ => r) .all s

theorem patsub_empty_match_cex : ¬ patsub_empty_match_full := by
  intro h
  have := h (fun _ => [0]) (fun t => t.isEmpty) ['X'] ['b'] (fun _ => rfl) (fun _ => rfl)
  revert this
  decide

/-- **Model = bash's semantics under a decidable guard**: the pattern does not match the empty
string, and at every position of the value the engine's first choice is the longest match (and
`re$` succeeds exactly where the pattern matches the rest).  Then all four forms compute bash's
result, for every replacement function. -/
theorem patsub_eq_spec_partial (e : Engine) (m : Str → Bool) (rep : Str → Str) (k : MatchKind) (s : Str)
    (hne : m [] = false) (hg : agreeOn e m s = true) :
    replaceSubstring e rep k s = specReplace m rep k s := by
  obtain ⟨hfirst, hend⟩ := agreeOn_sound e m s hg
  cases k with
  | first =>
    simp only [replaceSubstring, replaceOnce, specReplace, leftmostLongest_eq,
      findFrom_congr _ _ s hfirst]
    cases findFrom (longestAt m) s with
    | none => rfl
    | some p => rfl
  | all =>
    simp only [replaceSubstring, replaceAll, specReplace]
    cases s with
    | nil =>
      have : longestAt m [] = none := by simp [longestAt, longestGo, hne]
      simp [replAllGo, findFrom, hfirst [] (List.suffix_refl _), this, hne]
    | cons c t =>
      simp only [List.isEmpty_cons, Bool.false_eq_true, ↓reduceIte]
      exact replAllGo_eq_spec e m rep _ hne hfirst _ _ false (List.suffix_refl _)
  | atStart =>
    simp only [replaceSubstring, specReplace, hfirst s (List.suffix_refl _)]
    cases longestAt m s <;> rfl
  | atEnd =>
    simp only [replaceSubstring, replaceOnce, specReplace, findFrom_congr _ _ s hend, findFrom_endMatcher]
    cases longestSuffixStart m s with
    | none => rfl
    | some i =>
      simp [List.take_of_length_le, List.drop_eq_nil_of_le, show s.length ≤ i + (s.length - i) by omega]

example : agreeOn (fun t => if t.take 1 = ['a'] then [1] else []) (fun t => t = ['a']) "banana".toList = true ∧
    replaceSubstring (fun t => if t.take 1 = ['a'] then [1] else []) (fun _ => ['o']) .all "banana".toList
      = "bonono".toList := by decide

/-- At full strength — any engine that finds exactly the matches of the pattern, in whatever
order it likes — the equation fails: a backtracking engine takes the first alternative that
matches, bash the longest (known finding `replace_alternation_leftmost_first`; C06-11). -/
def patsub_eq_spec_full : Prop :=
  ∀ (e : Engine) (m : Str → Bool) (rep : Str → Str) (k : MatchKind) (s : Str),
    (∀ t n, n ∈ e t ↔ n ≤ t.length ∧ m (t.take n) = true) →
    replaceSubstring e rep k s = specReplace m rep k s

/-- `@(?|??)` on `ab`: the engine answers `?` first. -/
theorem patsub_eq_spec_cex : ¬ patsub_eq_spec_full := by
  intro h
  have := h (fun t => if 2 ≤ t.length then [1, 2] else if t.length = 1 then [1] else [])
    (fun t => t.length == 1 || t.length == 2) (fun _ => ['X']) .first ['a', 'b'] (by
      intro t n
      simp only [List.length_take, Bool.or_eq_true, beq_iff_eq]
      by_cases h2 : 2 ≤ t.length
      · simp only [h2, ↓reduceIte, List.mem_cons, List.not_mem_nil, or_false]; omega
      · by_cases h1 : t.length = 1
        · simp [h1]; omega
        · simp only [h2, h1, ↓reduceIte, List.not_mem_nil, false_iff]; omega)
  revert this
  decide

/-! ### the replacement text -/

/-- **Replacement text = bash's under a guard**: written inline and without an unquoted `&`, the
text brush inserts is the text bash inserts, whatever was matched (`$` included: the replacement
is not a regex template). -/
theorem replacement_eq_spec_partial (r : List RAtom) (m : Str) (hamp : ∀ a ∈ r, a ≠ RAtom.amp) :
    brushTpl true r = specRep r m := by
  induction r with
  | nil => rfl
  | cons a r ih =>
    have iha := ih (fun x hx => hamp x (List.mem_cons_of_mem _ hx))
    cases a with
    | amp => exact absurd rfl (hamp _ (List.mem_cons_self))
    | lit c => simpa [brushTpl, specRep] using iha

example : brushTpl true [.lit '$', .lit '0', .lit '&', .lit '\\'] = "$0&\\".toList := by decide

/-- Whole operator: pattern guard and replacement guard together give bash's `${v/p/r}`. -/
theorem patsub_word_eq_spec_partial (e : Engine) (m : Str → Bool) (r : List RAtom) (k : MatchKind) (s : Str)
    (hne : m [] = false) (hg : agreeOn e m s = true) (hamp : ∀ a ∈ r, a ≠ RAtom.amp) :
    patSub e (brushTpl true r) k s = specReplace m (specRep r) k s := by
  have hrep : (fun _ : Str => brushTpl true r) = specRep r := by
    funext mt; exact replacement_eq_spec_partial r mt hamp
  unfold patSub
  rw [hrep]
  exact patsub_eq_spec_partial e m _ k s hne hg

/-- Without the guard it fails: `&` is not the matched text (known finding
`replace_ampersand_not_matched_text`; C06-19). -/
def replacement_eq_spec_full : Prop :=
  ∀ (r : List RAtom) (m : Str), brushTpl true r = specRep r m

theorem replacement_amp_cex : ¬ replacement_eq_spec_full := by
  intro h; have := h [.amp] ['b']; revert this; decide

/-! ## case modification `${v^p}` `${v^^p}` `${v,p}` `${v,,p}` and `${v@U}` `${v@L}` `${v@u}` -/

/-- `^^` (and `,,`, `@U`, `@L`) is idempotent for every case mapping whose images are fixed by
the mapping — multi-character images included (`ß ↦ SS`). -/
theorem casemod_all_idempotent (f : Char → Str) (hf : ∀ c, (f c).flatMap f = f c) (s : Str) :
    caseAll f none (caseAll f none s) = caseAll f none s := by
  simp only [caseAll, mapCase]
  induction s with
  | nil => rfl
  | cons c t ih => simp only [List.flatMap_cons, List.flatMap_append, hf, ih]

example : caseAll (fun c => if c = 'ß' then ['S', 'S'] else if c = 'a' then ['A'] else [c]) none "aßb".toList
    = "ASSb".toList := by decide

/-- `^` / `,` change at most the first character: the rest of the value and its length stay, for
every mapping (also one to several characters: only the first character of the image is used)
and every pattern. -/
theorem casemod_first_changes_only_first (f : Char → Str) (a : Char → Bool) (s : Str) :
    (caseFirst f a s).drop 1 = s.drop 1 ∧ (caseFirst f a s).length = s.length := by
  cases s with
  | nil => exact ⟨rfl, rfl⟩
  | cons c t =>
    simp only [caseFirst]
    split
    · split <;> simp
    · simp

/-- `,,` after `^^` is `,,` (for mappings where lowering an upper-cased character lowers the
character — ASCII and every simple one-to-one mapping). -/
theorem casemod_lower_after_upper (up low : Char → Str) (h : ∀ c, (up c).flatMap low = low c) (s : Str) :
    caseAll low none (caseAll up none s) = caseAll low none s := by
  simp only [caseAll, mapCase]
  induction s with
  | nil => rfl
  | cons c t ih => simp only [List.flatMap_cons, List.flatMap_append, h, ih]

example : (∀ c, ((fun c => if c = 'a' then ['A'] else [c]) c).flatMap (fun c => if c = 'A' then ['a'] else [c])
    = (fun c => if c = 'A' then ['a'] else [c]) c) := by
  intro c; by_cases h : c = 'a' <;> simp [h]

/-- The pattern form only touches matching characters: when the regex finds exactly the single
characters of the value that the pattern matches (the decidable guard `singleOn`), `${v^^p}`
maps those characters and leaves every other one — bash's result. -/
theorem casemod_eq_spec_partial (e : Engine) (m : Str → Bool) (g : Char → Char) (s : Str)
    (hg : singleOn e m s = true) :
    caseAll (fun c => [g c]) (some e) s = specCaseAll g (some m) s := by
  simp only [singleOn, List.all_eq_true, List.mem_range] at hg
  have h0 : firstAt e [] = none := by
    have := hg s.length (by omega)
    simpa using this
  have h1 : ∀ c t, (c :: t) <:+ s → firstAt e (c :: t) = if m [c] then some 1 else none := by
    intro c t ht
    obtain ⟨i, hi, hd⟩ := suffix_eq_drop ht
    have := hg i (by omega)
    rw [← hd] at this
    simpa using this
  simp only [caseAll, specCaseAll, replaceAll]
  rw [replAllGo_single _ (fun c => m [c]) _ s h0 h1 _ s false (List.suffix_refl _) (by omega)]
  have key : ∀ l : Str, l.flatMap (fun c => if m [c] = true then mapCase (fun c => [g c]) [c] else [c]) =
      l.map (fun c => if m [c] = true then g c else c) := by
    intro l
    induction l with
    | nil => rfl
    | cons d u ih =>
      by_cases hm : m [d] = true
      · simp [List.flatMap_cons, mapCase, hm]; simpa [mapCase] using ih
      · simp [List.flatMap_cons, mapCase, hm]; simpa [mapCase] using ih
  exact key s

example : singleOn (fun t => match t with | c :: _ => if c = 'a' then [1] else [] | [] => []) (fun t => t = ['a'])
    "aba".toList = true := by decide

/-- Without the guard: a pattern of two characters is found inside the value and the whole match
is mapped; bash tests single characters (known finding `casemod_pattern_matches_substrings`). -/
def casemod_eq_spec_full : Prop :=
  ∀ (e : Engine) (m : Str → Bool) (g : Char → Char) (s : Str),
    (∀ t n, n ∈ e t ↔ n ≤ t.length ∧ m (t.take n) = true) →
    caseAll (fun c => [g c]) (some e) s = specCaseAll g (some m) s

theorem casemod_eq_spec_cex : ¬ casemod_eq_spec_full := by
  intro h
  have := h (fun t => if 2 ≤ t.length then [2] else []) (fun t => t.length == 2)
    (fun c => if c = 'a' then 'A' else if c = 'b' then 'B' else c) ['a', 'b', 'c'] (by
      intro t n
      simp only [List.length_take, beq_iff_eq]
      by_cases h2 : 2 ≤ t.length
      · simp only [h2, ↓reduceIte, List.mem_cons, List.not_mem_nil, or_false]; omega
      · simp only [h2, ↓reduceIte, List.not_mem_nil, false_iff]; omega)
  revert this
  decide

/-- `${v@u}` on a value without whitespace capitalizes the first character only, as bash does. -/
theorem capitalize_eq_spec_partial (g : Char → Char) (s : Str) (h : ∀ c ∈ s, isWs c = false) :
    initialCaps (fun c => [g c]) s = specCapitalize g s := by
  cases s with
  | nil => rfl
  | cons c t =>
    simp [initialCaps, initialCapsGo, specCapitalize, h c (by simp),
      initialCapsGo_no_ws _ t (fun d hd => h d (List.mem_cons_of_mem _ hd))]

/-- With whitespace every word is capitalized (known finding `at_u_capitalizes_every_word`; C06-7). -/
def capitalize_eq_spec_full : Prop :=
  ∀ (g : Char → Char) (s : Str), initialCaps (fun c => [g c]) s = specCapitalize g s

theorem capitalize_eq_spec_cex : ¬ capitalize_eq_spec_full := by
  intro h
  have := h (fun c => if c = 'a' then 'A' else if c = 'b' then 'B' else c) ['a', ' ', 'b']
  revert this
  decide

end Subst

end BrushVerif.C06
