import BrushVerif.Model.Traps
import BrushVerif.Proofs.ErrTrap
/-!
# C16 — the EXIT trap runs exactly once on every way out, and traps preserve `$?`

Theorems over `Model/Traps.lean`.  Quantifiers: every program `main` and every handler `h` (any
`Flow.Cmd`: `exit n` at any depth, errexit, functions, loops, eval, subshells …), every function
table, every fuel (= every terminating run), every front end.
-/
namespace BrushVerif.C16
open BrushVerif.Flow BrushVerif.Traps

/-- **Exactly once, last, with the terminating status.**  Whatever way `main` ends (its result
`(s, r)` may carry `exit`, errexit's exit, or run off the end), the shell's output is `main`'s output
followed by the output of exactly one run of the handler, started with `$?` = the terminating
status; the process status is that status (also when the handler calls `exit`: see
`exit_status_full_cex`). -/
theorem exit_trap_runs_exactly_once_and_last (fe : FrontEnd) (fuel : Nat) (fs : List Cmd)
    (h main : Cmd) (out : Outcome) (hrun : runShell fe fuel fs (some h) main false = some out) :
    ∃ s r s1 rh,
      exec fuel fs false main {} = some (s, r) ∧
      exec fuel fs false h { s with last := r.code } = some (s1, rh) ∧
      out.trace = s1.trace ∧
      out.status = r.code := by
  unfold runShell at hrun
  cases hm : exec fuel fs false main {} with
  | none => simp [hm] at hrun
  | some sr =>
    obtain ⟨s, r⟩ := sr
    simp only [hm, Bool.false_eq_true, ↓reduceIte, invokeTrap, List.not_mem_nil, TSt.handler] at hrun
    cases hh : exec fuel fs false h { s with last := r.code } with
    | none => simp [hh] at hrun
    | some sr1 =>
      obtain ⟨s1, rh⟩ := sr1
      refine ⟨s, r, s1, rh, rfl, hh, ?_, ?_⟩
      · simp [hh] at hrun; rw [← hrun]
      · simp [hh] at hrun; rw [← hrun]

/-- non-vacuity: `trap 'm9; exit 7' EXIT; set -e; m1; false-leaf; m3` — errexit ends `main` at the
failing leaf, the handler runs once, last and sees 3 (its `exit 7` does not change brush's status) -/
example : runShell .dashC 20 []
      (some (.seq (.cons .probe (.cons (.leaf 9 [0]) (.cons (.exit (some 7)) .nil)))))
      (.seq (.cons (.setOpt .errexit true) (.cons (.leaf 1 [0]) (.cons (.leaf 2 [3]) (.cons (.leaf 3 [0]) .nil)))))
      false
    = some { trace := [.m 1, .m 2, .q 3, .m 9], status := 3 } := by decide +kernel

/-- **Without a handler** nothing is added: output and status are `main`'s. -/
theorem no_trap_no_effect (fe : FrontEnd) (fuel : Nat) (fs : List Cmd) (main : Cmd) (s : St) (r : Res)
    (hm : exec fuel fs false main {} = some (s, r)) :
    runShell fe fuel fs none main false = some { trace := s.trace, status := r.code } := by
  simp [runShell, hm, invokeTrap, TSt.handler]

/-- **`exec` replaces the shell without running the trap.** -/
theorem exec_replaces_shell_without_trap (fe : FrontEnd) (fuel : Nat) (fs : List Cmd) (h : Option Cmd)
    (main : Cmd) (s : St) (r : Res) (hm : exec fuel fs false main {} = some (s, r)) :
    runShell fe fuel fs h main true = some { trace := s.trace, status := r.code } := by
  simp [runShell, hm]

/-- **The delivery mode is irrelevant** for the exit funnel. -/
theorem front_end_irrelevant (fe1 fe2 : FrontEnd) (fuel : Nat) (fs : List Cmd) (h : Option Cmd)
    (main : Cmd) (x : Bool) : runShell fe1 fuel fs h main x = runShell fe2 fuel fs h main x := rfl

/-- **Traps preserve `$?`**: a handler (ERR or EXIT, any body, exiting or not) leaves `$?` exactly as
it found it. -/
theorem trap_preserves_status (fuel : Nat) (fs : List Cmd) (sig : Sig) (t t' : TSt) (x : Bool)
    (h : invokeTrap fuel fs sig t = some (t', x)) : t'.st.last = t.st.last := by
  unfold invokeTrap at h
  split at h
  · simp at h; rw [← h.1]
  · split at h
    · simp at h; rw [← h.1]
    · split at h
      · simp at h
      · simp at h; rw [← h.1]

/-- The property's last clause at full strength: the process ends with the terminating status
*unless the handler itself calls `exit`*, in which case the handler's status counts. -/
def exit_status_full : Prop :=
  ∀ (fuel : Nat) (fs : List Cmd) (h main : Cmd) (out : Outcome) (s : St) (r : Res) (s1 : St) (rh : Res),
    runShell .dashC fuel fs (some h) main false = some out →
    exec fuel fs false main {} = some (s, r) →
    exec fuel fs false h { s with last := r.code } = some (s1, rh) →
    out.status = (if rh.flow = .exit then rh.code else r.code)

/-- `trap 'exit 7' EXIT; exit 3` ends with 3 in brush (7 in bash). -/
theorem exit_status_full_cex : ¬ exit_status_full := by
  intro hfull
  have := hfull 5 [] (.exit (some 7)) (.exit (some 3)) { trace := [], status := 3 }
    { last := 3 } { code := 3, flow := .exit } { last := 7 } { code := 7, flow := .exit }
    (by decide +kernel) (by decide +kernel) (by decide +kernel)
  revert this
  decide

/-- … and it holds whenever the handler does not exit. -/
theorem exit_status_partial (fe : FrontEnd) (fuel : Nat) (fs : List Cmd) (h main : Cmd) (out : Outcome)
    (s : St) (r : Res) (s1 : St) (rh : Res)
    (hrun : runShell fe fuel fs (some h) main false = some out)
    (hm : exec fuel fs false main {} = some (s, r))
    (hh : exec fuel fs false h { s with last := r.code } = some (s1, rh))
    (hne : rh.flow ≠ .exit) :
    out.status = (if rh.flow = .exit then rh.code else r.code) := by
  simp [runShell, hm, invokeTrap, TSt.handler, hh] at hrun
  simp [hne, ← hrun]

/-- **A handler never re-enters itself**: while the handler for a signal is running, delivering
that signal again does nothing at all. -/
theorem handler_not_reentered (fuel : Nat) (fs : List Cmd) (sig : Sig) (t : TSt)
    (h : sig ∈ t.active) : invokeTrap fuel fs sig t = some (t, false) := by
  simp [invokeTrap, h]

example : invokeTrap 5 [] .err { st := {}, errTrap := some (.leaf 1 [1]), active := [.err] }
    = some ({ st := {}, errTrap := some (.leaf 1 [1]), active := [.err] }, false) := by
  simp [invokeTrap]

/-! ### Subshells with their own EXIT trap -/

/-- The property for a subshell that registers an EXIT trap, at full strength: what brush does equals
the reference (handler runs once, last, sees the terminating status). -/
def subshell_own_exit_trap_full : Prop :=
  ∀ (fuel : Nat) (fs : List Cmd) (sup : Bool) (h : Option Cmd) (c : Cmd) (s : St),
    subshellOwnTrap fuel fs sup h c s = subshellOwnTrapSpec fuel fs sup h c s

/-- `( trap 'm9' EXIT; m1; exit 3 )`: brush never runs the handler (bash prints m1, m9). -/
theorem subshell_own_exit_trap_full_cex : ¬ subshell_own_exit_trap_full := by
  intro hfull
  have := hfull 10 [] false (some (.leaf 9 [0]))
    (.seq (.cons (.leaf 1 [0]) (.cons (.exit (some 3)) .nil))) {}
  revert this
  decide +kernel

/-- … and it holds for every subshell that registers no EXIT trap of its own (whatever the parent's
traps are: brush's clone carries them but nothing ever invokes them for the clone). -/
theorem subshell_own_exit_trap_partial (fuel : Nat) (fs : List Cmd) (sup : Bool) (c : Cmd) (s : St) :
    subshellOwnTrap fuel fs sup none c s = subshellOwnTrapSpec fuel fs sup none c s := by
  cases fuel with
  | zero => (simp only [subshellOwnTrap, subshellOwnTrapSpec]; rw [exec.eq_def])
  | succ n =>
    simp only [subshellOwnTrap, subshellOwnTrapSpec]
    rw [exec.eq_def]; simp only
    cases exec n fs sup c s with
    | none => rfl
    | some sr => rfl

/-- What brush loses is exactly the handler's run: up to the handler, its output is the reference's
(the reference's trace extends brush's), whenever both terminate. -/
theorem subshell_own_trap_only_handler_missing (fuel : Nat) (fs : List Cmd) (sup : Bool) (h c : Cmd) (s : St)
    (s1 : St) (r1 : Res) (hc : exec fuel fs sup c s = some (s1, r1))
    (s2 : St) (rh : Res) (hh : exec fuel fs false h { s1 with last := r1.code } = some (s2, rh)) :
    subshellOwnTrap (fuel + 1) fs sup (some h) c s
        = some (post sup { s with trace := s1.trace } { code := r1.code, flow := .normal }) ∧
    subshellOwnTrapSpec (fuel + 1) fs sup (some h) c s
        = some (post sup { s with trace := s2.trace }
            { code := if rh.flow = .exit then rh.code else r1.code, flow := .normal }) := by
  constructor
  · simp only [subshellOwnTrap]; rw [exec.eq_def]; simp only [hc]
  · simp [subshellOwnTrapSpec, hc, hh]

example : subshellOwnTrapSpec 10 [] false (some (.seq (.cons .probe (.cons (.leaf 9 [0]) .nil))))
      (.seq (.cons (.leaf 1 [0]) (.cons (.exit (some 3)) .nil))) {}
    = some ({ trace := [.m 1, .q 3, .m 9], last := 3 }, { code := 3, flow := .normal }) := by decide +kernel

end BrushVerif.C16

/-! ## Where the ERR trap fires (Model/ErrTrap.lean: `AndOrList::execute`, `Pipeline::execute`,
`invoke_trap_handler`; Spec/ErrTrap.lean: bash's documented rule) -/
namespace BrushVerif.C16
open BrushVerif.ErrTrap BrushVerif.ErrTrapSpec

/-- **The ERR handler is not re-entered.**  Run any command (in particular the handler's own body,
with failing commands, functions, subshells, loops … at any depth) while the handler's frame is
active, through the full interpreter with the live `invoke_trap_handler`: it behaves exactly as the
program without any trap -- no second start, same output, same status. -/
theorem err_handler_not_reentered (et : Bool) (h : Option ErrTrap.Cmd) (c : ErrTrap.Cmd) (w : Bool)
    (ctx : Ctx) (s : ErrTrap.St) (ha : ctx.active = true) :
    execE et h c w ctx s = execP c w ctx s :=
  exec_active et h c w ctx s ha

/-- non-vacuity: `trap 'echo E$?; false; echo h90' ERR; false` -- one start, although the handler fails inside -/
example : (execE false (some (.seq (.leaf 91 1) (.leaf 90 0))) (.leaf 1 1) true {} {}).1.trace
    = [.fire 1 false, .m true 90] := by decide

/-- **No firing in exempt contexts, at any depth.**  Once `suppress_errexit` is set (the condition of
`if`/`while`/`until`, every and-or operand but the last, everything under `!`) nothing below fires:
through function calls, subshells, groups, loops, pipelines. -/
theorem err_no_firing_in_exempt_context (et : Bool) (h : Option ErrTrap.Cmd) (c : ErrTrap.Cmd) (w : Bool)
    (ctx : Ctx) (s : ErrTrap.St) (hs : ctx.sup = true) :
    execE et h c w ctx s = execP c w ctx s :=
  exec_sup et h c w ctx s hs

/-- … in particular for the four syntactic positions of the property: the handler never starts while
the condition of an `if` or loop, the left operand of `&&`/`||`, or the operand of `!` runs; and a
`!` pipeline itself never fires. -/
theorem err_fires_only_outside_exempt_positions (et : Bool) (h : Option ErrTrap.Cmd) (a b e : ErrTrap.Cmd)
    (ctx : Ctx) (s : ErrTrap.St) :
    execE et h (.not a) true ctx s = execP (.not a) true ctx s ∧
    execE et h (.and a b) true ctx s
      = (let x := execP a true { ctx with sup := true } s
         if x.2.flow ≠ .normal then x else if x.2.code = 0 then execE et h b true ctx x.1 else x) ∧
    execE et h (.or a b) true ctx s
      = (let x := execP a true { ctx with sup := true } s
         if x.2.flow ≠ .normal then x else if x.2.code ≠ 0 then execE et h b true ctx x.1 else x) ∧
    execE et h (.ifc a b e) false ctx s
      = (let x := execP a true { ctx with sup := true } s
         if x.2.flow ≠ .normal then x
         else if x.2.code = 0 then execE et h b true ctx x.1 else execE et h e true ctx x.1) := by
  have hx : ∀ s, exec (invoke et h) a true { ctx with sup := true } s = execP a true { ctx with sup := true } s :=
    fun s => exec_sup et h a true _ s rfl
  have hn : ∀ s, exec (invoke et h) a false { ctx with sup := true } s = exec noFire a false { ctx with sup := true } s :=
    fun s => exec_sup et h a false _ s rfl
  refine ⟨?_, ?_, ?_, ?_⟩
  · simp [execE, execP, exec, hn, pipeEnd, noFire]
  · simp [execE, exec, hx]
  · simp [execE, exec, hx]
  · simp [execE, exec, hx]

/-- non-vacuity, with a function, an and-or list and a `!`: `set -E; f() { false; echo m3; }; f && echo m4; ! f; f`
-- silent in the first two calls, fires inside `f` in the third -/
example : (execE true (some (.leaf 90 0))
      (.seq (.and (.call (.seq (.leaf 2 1) (.leaf 3 0))) (.leaf 4 0))
        (.seq (.not (.call (.seq (.leaf 2 1) (.leaf 3 0)))) (.call (.seq (.leaf 2 1) (.leaf 3 0))))) true {} {}).1.trace
    = [.m false 3, .m false 4, .m false 3, .fire 1 false, .m true 90, .m false 3] := by decide

/-- **Every firing is for a failure at a checked position, and the handler preserves `$?` and the
pipeline's result.**  The end of `Pipeline::execute` with the live handler differs from the one without
a trap at most in the output; and it differs at all only for a non-zero status, outside
`suppress_errexit`, not under `!`, at a checkpoint, outside a running handler. -/
theorem err_trap_preserves_status (et : Bool) (h : Option ErrTrap.Cmd) (ctx : Ctx) (bang cp : Bool)
    (sr : ErrTrap.St × Res) :
    (pipeEnd (invoke et h) ctx bang cp sr).2 = (pipeEnd noFire ctx bang cp sr).2 ∧
    (pipeEnd (invoke et h) ctx bang cp sr).1.last = (pipeEnd noFire ctx bang cp sr).1.last ∧
    ((pipeEnd (invoke et h) ctx bang cp sr).1 ≠ (pipeEnd noFire ctx bang cp sr).1 →
      sr.2.code ≠ 0 ∧ ctx.sup = false ∧ bang = false ∧ cp = true ∧ ctx.active = false) := by
  refine ⟨by simp [pipeEnd], ?_, ?_⟩
  · have hl : ∀ (c : Ctx) (r : Res) (s : ErrTrap.St), (invoke et h c r s).last = s.last := by
      intro c r s
      unfold invoke
      split
      · rfl
      · split
        · rfl
        · split <;> rfl
    simp [pipeEnd, noFire, apply_ite ErrTrap.St.last, hl]
  · intro hne
    cases hb : bang <;> cases hc : cp <;> cases hsup : ctx.sup <;> cases hact : ctx.active <;>
      simp_all [pipeEnd, noFire, invoke]
    intro h0; simp [h0] at hne

/-- The property at full strength: brush fires exactly where bash's rule says. -/
def err_firing_equals_reference_full : Prop :=
  ∀ (et : Bool) (h c : ErrTrap.Cmd),
    fires (execE et (some h) c true {} {}).1.trace = fires (ErrTrapSpec.ref et (some h) c {} {}).1.trace

/-- `trap 'echo E$?' ERR; exit 3`: brush runs the handler for the `exit` that is leaving, bash does
not (recorded finding err_trap_fires_again_for_leaving_command). -/
theorem err_firing_equals_reference_cex : ¬ err_firing_equals_reference_full := by
  intro hfull
  have := hfull false (.leaf 90 0) (.exit 3)
  revert this
  decide

end BrushVerif.C16
