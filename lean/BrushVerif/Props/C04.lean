import BrushVerif.Proofs.Expand
import BrushVerif.Proofs.Pattern
import BrushVerif.Proofs.WordParse
/-!
# C04 — quoted expansions arrive byte-exact: never re-split, re-globbed or re-parsed

Property theorems over `Model/Expand.lean` (which mirrors brush's `ExpansionPiece`/`WordField`/`Expansion`
algebra, `process_double_quoted_pieces`, `coalesce_expansions`, `split_fields`, the piece-to-pattern
conversion and `expand_pathnames_in_field`).  Every theorem quantifies over **all** values (any characters —
the model has no NUL restriction except where a command substitution strips it), all IFS values
(`env.ifs`, including unset and empty), all glob option sets (`opts`) and all directory listings (`names`).
-/
namespace BrushVerif.C04
open BrushVerif.Wire BrushVerif.Expand BrushVerif.WordExp

/-! ## the carrier lemma: a field made of quoted pieces is never globbed -/

/-- **literal_never_globs**: pathname expansion of a field whose pieces all came out of quotes yields exactly
its text — whatever the text (`*`, `[`, `\`, …), the directory content, and nullglob/failglob/dotglob/extglob. -/
theorem literal_never_globs (opts : Opts) (names : List Str) (f : Field)
    (h : ∀ p ∈ f, p.isUnsplit = true) (hne : f ≠ []) :
    globField opts names f = some [fieldStr f] :=
  globField_literal opts names f h hne

example : globField { nullglob := true, failglob := true } ["a".toList, "*".toList] [.unsplit "*".toList, .unsplit "[".toList]
    = some ["*[".toList] := literal_never_globs _ _ _ (by decide) (by decide)

/-- and field splitting never cuts it -/
theorem quoted_never_splits (ifs : Str) (e : Expansion)
    (h : ∀ f ∈ e.fields, (∀ p ∈ f, p.isUnsplit = true) ∧ f ≠ []) : splitFields ifs e = e.fields :=
  splitFields_unsplit ifs e h

example : splitFields " *x".toList { fields := [[.unsplit " * x ".toList]] } = [[.unsplit " * x ".toList]] :=
  quoted_never_splits _ _ (by decide)

/-! ## double-quoted strings -/

/-- **dq_concat_exact** (the general statement): a double-quoted string whose pieces are all "scalar"
(text, `$x`, `${x}`, `$(…)`, `$((…))`, `$*`, `${x:-w}`… — everything except `$@`/`${a[@]}`) expands to exactly
ONE argument: the concatenation of the pieces' values; never split, never globbed, an empty result is kept. -/
theorem dq_concat_exact (env : Env) (opts : Opts) (names : List Str) (as : List A1)
    (h : ∀ a ∈ as, (expandA1 env true a).concatenate = true) :
    fullExpand env opts names [.dq as] =
      some [as.flatMap fun a => joinedStr env.joiner (expandA1 env true a)] := by
  obtain ⟨G, hG, hu, hne, hs⟩ := expandDQ_concat env.joiner (as.map (expandA1 env true))
    (by intro e he; obtain ⟨a, ha, rfl⟩ := List.mem_map.mp he; exact h a ha)
  have hf : (basicExpand env [.dq as]).fields = [G] := by
    simp only [basicExpand, List.map_cons, List.map_nil, coalesce_single, expandWP, hG]
  have := split_glob_unsplit env.ifsStr opts names (basicExpand env [.dq as])
    (by rw [hf]; intro f hfm; simp at hfm; subst hfm; exact ⟨hu, hne⟩)
  rw [fullExpand, this, hf]
  simp [hs, List.flatMap_map]

example : fullExpand { vars := [("x".toList, "* a".toList)], ifs := some "a".toList } { nullglob := true } ["*".toList]
    [.dq [.base (.text "-".toList), .base (.param (.named "x".toList))]] = some ["-* a".toList] := by
  rw [dq_concat_exact _ _ _ _ (by decide)]; decide

/-- **dq_param_exact**: `"$x"` / `"${x}"` delivers exactly the value of `x` as exactly one argument. -/
theorem dq_param_exact (env : Env) (opts : Opts) (names : List Str) (x v : Str)
    (hx : lookup env.vars x = some v) :
    fullExpand env opts names [.dq [.base (.param (.named x))]] = some [v] := by
  have hc : ∀ a ∈ [A1.base (.param (.named x))], (expandA1 env true a).concatenate = true := by
    intro a ha; simp at ha; subst ha
    simp [expandA1, expandA0, expandParam, hx, Expansion.ofStr, Expansion.ofPiece]
  rw [dq_concat_exact env opts names _ hc]
  simp [expandA1, expandA0, expandParam, hx, Expansion.ofStr, Expansion.ofPiece, joinedStr, joinWith, fieldStr, Piece.str]

example : fullExpand { vars := [("x".toList, " *\n'\"$(x)`~{a,b}".toList)], ifs := some [] }
    { failglob := true } ["a".toList] [.dq [.base (.param (.named "x".toList))]]
    = some [" *\n'\"$(x)`~{a,b}".toList] := dq_param_exact _ _ _ _ _ rfl

/-- **dq_cmdsubst_exact**: `"$(printf %s "$x")"` delivers the command's output exactly (no NUL in it, trailing
newlines being what command substitution removes by definition). -/
theorem dq_cmdsubst_exact (env : Env) (opts : Opts) (names : List Str) (v : Str)
    (hnul : Char.ofNat 0 ∉ v) (hnl : v.getLast? ≠ some '\n') :
    fullExpand env opts names [.dq [.base (.cmdsub v)]] = some [v] := by
  have hc : ∀ a ∈ [A1.base (.cmdsub v)], (expandA1 env true a).concatenate = true := by
    intro a ha; simp at ha; subst ha; simp [expandA1, expandA0, Expansion.ofPiece]
  rw [dq_concat_exact env opts names _ hc]
  simp [expandA1, expandA0, Expansion.ofPiece, joinedStr, joinWith, fieldStr, Piece.str,
    filter_no_nul' v hnul, trimTrailingNl_id v hnl]

/-- what command substitution does to trailing newlines, for every output -/
theorem dq_cmdsubst_trims (env : Env) (opts : Opts) (names : List Str) (v : Str) (hnul : Char.ofNat 0 ∉ v) :
    fullExpand env opts names [.dq [.base (.cmdsub v)]] = some [trimTrailingNl v] := by
  have hc : ∀ a ∈ [A1.base (.cmdsub v)], (expandA1 env true a).concatenate = true := by
    intro a ha; simp at ha; subst ha; simp [expandA1, expandA0, Expansion.ofPiece]
  rw [dq_concat_exact env opts names _ hc]
  simp [expandA1, expandA0, Expansion.ofPiece, joinedStr, joinWith, fieldStr, Piece.str, filter_no_nul' v hnul]

example : fullExpand {} { nullglob := true } [] [.dq [.base (.cmdsub "* ?".toList)]] = some ["* ?".toList] :=
  dq_cmdsubst_exact _ _ _ _ (by decide) (by decide)

/-- `""` is one empty argument, also under nullglob -/
theorem empty_quotes_kept (env : Env) (opts : Opts) (names : List Str) :
    fullExpand env opts names [.dq []] = some [[]] := by
  rw [dq_concat_exact env opts names [] (by simp)]; rfl

/-! ## `"$@"` and `"${a[@]}"` -/

private theorem at_fields (vals : List Str) :
    ∀ f ∈ (vals.map fun v => [Piece.unsplit v]), (∀ p ∈ f, p.isUnsplit = true) ∧ f ≠ [] := by
  intro f hf
  obtain ⟨v, _, rfl⟩ := List.mem_map.mp hf
  exact ⟨by intro p hp; simp at hp; subst hp; rfl, by simp⟩

private theorem dq_array_exact (env : Env) (opts : Opts) (names : List Str) (p : Param) (vals : List Str)
    (hp : expandParam env p = arrayExp vals false) :
    fullExpand env opts names [.dq [.base (.param p)]] = some vals := by
  have hf : (basicExpand env [.dq [.base (.param p)]]).fields = vals.map fun v => [Piece.unsplit v] := by
    simp only [basicExpand, List.map_cons, List.map_nil, coalesce_single, expandWP, expandA1, expandA0, hp, expandDQ,
      List.foldl_cons, List.foldl_nil, dqStep_array_nil, dropNullAt_array]
    simp
  have := split_glob_unsplit env.ifsStr opts names (basicExpand env [.dq [.base (.param p)]])
    (by rw [hf]; exact at_fields vals)
  rw [fullExpand, this, hf]
  simp [fieldStr, Piece.str, Function.comp_def]

/-- **dq_at_exact**: `"$@"` delivers exactly the positional parameters — as many arguments as there are
parameters (none for none), empty ones kept, each byte-exact. -/
theorem dq_at_exact (env : Env) (opts : Opts) (names : List Str) :
    fullExpand env opts names [.dq [.base (.param (.allPos false))]] = some env.args :=
  dq_array_exact env opts names _ _ rfl

example : fullExpand { args := [[], "a b".toList, "*".toList, []], ifs := some "a".toList } { nullglob := true }
    ["x".toList] [.dq [.base (.param (.allPos false))]] = some [[], "a b".toList, "*".toList, []] := dq_at_exact _ _ _
example : fullExpand {} {} [] [.dq [.base (.param (.allPos false))]] = some [] := dq_at_exact _ _ _

/-- **dq_array_at_exact**: `"${a[@]}"` delivers exactly the elements of `a`. -/
theorem dq_array_at_exact (env : Env) (opts : Opts) (names : List Str) (a : Str) (vals : List Str)
    (ha : lookup env.arrays a = some vals) :
    fullExpand env opts names [.dq [.base (.param (.allIdx a false))]] = some vals :=
  dq_array_exact env opts names _ _ (by simp [expandParam, ha])

example : fullExpand { arrays := [("k".toList, ["? ".toList, []])] } { failglob := true } []
    [.dq [.base (.param (.allIdx "k".toList false))]] = some ["? ".toList, []] := dq_array_at_exact _ _ _ _ _ rfl

/-! ## assignment -/

/-- **assign_copies_exact**: `y=$x` and `y="$x"` store exactly the value of `x` (no splitting, no globbing:
`basic_expand_to_str`), whatever IFS is. -/
theorem assign_copies_exact (env : Env) (x v : Str) (hx : lookup env.vars x = some v) :
    expandToStr env [.plain (.base (.param (.named x)))] = v ∧
    expandToStr env [.dq [.base (.param (.named x))]] = v := by
  constructor
  · simp [expandToStr, basicExpand, expandWP, expandA1, expandA0, expandParam, hx, Expansion.ofStr, Expansion.ofPiece,
      coalesce, glue, fieldsToString, joinWith, fieldStr, Piece.str]
  · have hc : ∀ e ∈ [expandA1 env true (.base (.param (.named x)))], e.concatenate = true := by
      intro e he; simp at he; subst he
      simp [expandA1, expandA0, expandParam, hx, Expansion.ofStr, Expansion.ofPiece]
    obtain ⟨G, hG, _, _, hs⟩ := expandDQ_concat env.joiner _ hc
    have hf : (basicExpand env [.dq [.base (.param (.named x))]]).fields = [G] := by
      simp only [basicExpand, List.map_cons, List.map_nil, coalesce_single, expandWP, hG]
    simp only [expandToStr, fieldsToString, hf, List.map_cons, List.map_nil, joinWith, hs]
    simp [expandA1, expandA0, expandParam, hx, Expansion.ofStr, Expansion.ofPiece, joinedStr, joinWith, fieldStr, Piece.str]

example : expandToStr { vars := [("x".toList, " a  *\n".toList)], ifs := some " ".toList }
    [.plain (.base (.param (.named "x".toList)))] = " a  *\n".toList := (assign_copies_exact _ _ _ rfl).1

/-! ## unquoted `$x`: field splitting and pathname expansion only -/

private theorem basic_unquoted (env : Env) (x v : Str) (hx : lookup env.vars x = some v) :
    basicExpand env [.plain (.base (.param (.named x)))] =
      { fields := [v].map fun s => [Piece.split s], concatenate := true, fromArray := false, undefined := false } := by
  simp [basicExpand, expandWP, expandA1, expandA0, expandParam, hx, Expansion.ofStr, Expansion.ofPiece, coalesce, glue]

/-- **unquoted_is_split_then_glob_only**: unquoted `$x` is the value cut into its maximal runs of non-IFS
characters (`WordExp.fieldsOf`, defined on strings, independent of the code), each run then offered to
pathname expansion as a pattern. Nothing else happens to the content: no quote removal, no brace, tilde or
parameter expansion, no command parsing — the value's characters only ever act as IFS separators or glob
characters. -/
theorem unquoted_is_split_then_glob_only (env : Env) (opts : Opts) (names : List Str) (x v : Str)
    (hx : lookup env.vars x = some v) :
    fullExpand env opts names [.plain (.base (.param (.named x)))] =
      globFields opts names ((fieldsOf env.ifsStr v).map fun s => [Piece.split s]) := by
  rw [fullExpand, basic_unquoted env x v hx, splitFields_values]
  simp

/-- a run without glob characters is passed through verbatim -/
private theorem globField_plain (opts : Opts) (names : List Str) (s : Str)
    (h : Pattern.hasGlob opts.extglob s = false) : globField opts names [.split s] = some [s] := by
  have ht : patternText [PatPiece.pattern s] = s := by simp [patternText]
  simp [globField, patExpand, requiresExpansion, toPattern, ht, h, PatPiece.str, fieldStr, Piece.str]

private theorem globFields_plain (opts : Opts) (names : List Str) (ss : List Str)
    (h : opts.noglob = true ∨ ∀ s ∈ ss, Pattern.hasGlob opts.extglob s = false) :
    globFields opts names (ss.map fun s => [Piece.split s]) = some ss := by
  induction ss with
  | nil => rfl
  | cons s r ih =>
    have ih' := ih (h.imp id fun h' t ht => h' t (by simp [ht]))
    rw [List.map_cons, globFields]
    split
    · simp [ih', fieldStr, Piece.str]
    · rename_i hng
      rcases h with h | h
      · exact absurd h hng
      · simp [globField_plain opts names s (h s (by simp)), ih']

/-- **unquoted_without_glob_chars_is_split_only**: when no run of the value holds a glob character (or under
`set -f`), unquoted `$x` is exactly the list of runs — quotes, `$`, backquotes, braces, tildes, backslashes in the
value all arrive verbatim. -/
theorem unquoted_without_glob_chars_is_split_only (env : Env) (opts : Opts) (names : List Str) (x v : Str)
    (hx : lookup env.vars x = some v)
    (h : opts.noglob = true ∨ ∀ s ∈ fieldsOf env.ifsStr v, Pattern.hasGlob opts.extglob s = false) :
    fullExpand env opts names [.plain (.base (.param (.named x)))] = some (fieldsOf env.ifsStr v) := by
  rw [unquoted_is_split_then_glob_only env opts names x v hx, globFields_plain opts names _ h]

example : fullExpand { vars := [("x".toList, "'a b' $(c) {d,e} ~ \"f\" *".toList)] } { noglob := true } ["a".toList]
    [.plain (.base (.param (.named "x".toList)))]
    = some ["'a".toList, "b'".toList, "$(c)".toList, "{d,e}".toList, "~".toList, "\"f\"".toList, "*".toList] := by
  rw [unquoted_without_glob_chars_is_split_only _ _ _ _ _ rfl (Or.inl rfl)]; decide
example : fullExpand { vars := [("x".toList, "'a ~".toList)] } {} ["a".toList]
    [.plain (.base (.param (.named "x".toList)))] = some ["'a".toList, "~".toList] := by
  rw [unquoted_without_glob_chars_is_split_only _ _ _ _ _ rfl (Or.inr (by
    simp [fieldsOf, splitOnAcc, Env.ifsStr, Pattern.hasGlob, Pattern.globPieceAt, Pattern.parseBracket,
      Pattern.parsePiece, Pattern.kindOf]))]; decide

/-- every word an unquoted `$x` produces is a run of the value or an existing directory entry -/
theorem unquoted_words_are_runs_or_names (env : Env) (opts : Opts) (names : List Str) (x v : Str)
    (hx : lookup env.vars x = some v) (out : List Str)
    (ho : fullExpand env opts names [.plain (.base (.param (.named x)))] = some out) :
    ∀ w ∈ out, w ∈ fieldsOf env.ifsStr v ∨ w ∈ names := by
  rw [unquoted_is_split_then_glob_only env opts names x v hx] at ho
  generalize fieldsOf env.ifsStr v = ss at ho
  induction ss generalizing out with
  | nil => simp [globFields] at ho; subst ho; simp
  | cons s r ih =>
    rw [List.map_cons, globFields] at ho
    split at ho
    · cases hr : globFields opts names (r.map fun s => [Piece.split s]) with
      | none => simp [hr] at ho
      | some o =>
        simp [hr] at ho; subst ho
        intro w hw
        rcases List.mem_cons.mp hw with rfl | hw
        · left; simp [fieldStr, Piece.str]
        · rcases ih o hr w hw with h | h
          · left; exact List.mem_cons_of_mem _ h
          · right; exact h
    · cases hg : globField opts names [.split s] with
      | none => simp [hg] at ho
      | some g =>
        cases hr : globFields opts names (r.map fun s => [Piece.split s]) with
        | none => simp [hg, hr] at ho
        | some o =>
          simp [hg, hr] at ho; subst ho
          intro w hw
          rcases List.mem_append.mp hw with hw | hw
          · -- from the glob of `s`: `s` itself, or directory entries
            simp only [globField, patExpand, List.map_cons, List.map_nil, toPattern, List.isEmpty_cons,
              Bool.false_eq_true, ↓reduceIte] at hg
            split at hg
            · split at hg <;> simp at hg <;> subst hg <;> simp [fieldStr, Piece.str] at hw
              left; simp [hw]
            · rename_i paths hp
              split at hp
              · simp at hp; subst hp
                simp [PatPiece.str] at hg; subst hg; simp at hw; left; simp [hw]
              · simp at hp; subst hp
                split at hg
                · split at hg
                  · simp at hg
                  · split at hg <;> simp at hg <;> subst hg <;> simp [fieldStr, Piece.str] at hw
                    left; simp [hw]
                · simp at hg; subst hg
                  right
                  have := (Pattern.mem_sortStrs _ _).mp hw
                  exact (List.mem_filter.mp this).1
          · rcases ih o hr w hw with h | h
            · left; exact List.mem_cons_of_mem _ h
            · right; exact h

/-! ## the execution context does not matter -/

/-- **expansion_reads_only_visible_state** (context sweep): word expansion is a function of the word, the glob
options, the directory and what the environment *shows* — the visible value of every name, the current positional
parameters, IFS, HOME. Two shells that differ in anything else (a global hidden by a function's `local`, the
caller's positional parameters under a function's own, the order or history of assignments, how deep in functions,
subshells, `eval` or loops the word is expanded) expand it alike; and so does the same shell expanding it a second
time after IFS was changed and restored. -/
theorem expansion_reads_only_visible_state (e1 e2 : Env) (h : SameView e1 e2) (opts : Opts) (names : List Str)
    (w : Word) :
    fullExpand e1 opts names w = fullExpand e2 opts names w ∧ expandToStr e1 w = expandToStr e2 w :=
  ⟨fullExpand_sameView e1 e2 h opts names w, expandToStr_sameView e1 e2 h w⟩

/-- a function's `local x=v` over a global `x=old`: only `v` is seen -/
example : fullExpand { vars := [("x".toList, "a b".toList), ("x".toList, "* old".toList)] } {} ["q".toList]
      [.plain (.base (.param (.named "x".toList)))] =
    fullExpand { vars := [("x".toList, "a b".toList)] } {} ["q".toList] [.plain (.base (.param (.named "x".toList)))] :=
  (expansion_reads_only_visible_state _ _ (sameView_shadow {} _ _ _) _ _ _).1

/-! ## The word parser (`brush-parser/src/word.rs`) — `Model/WordParse.lean`

`WordParse.parseWord` mirrors `word::parse` with the default parser options on a fragment (everything else answers
`unsup`); `tools/c04.py` compares it with the real parser on every word up to length 5 over a 16-character alphabet.
The parser model is a total function of the word alone: determinism and purity hold by construction. -/
section WordParser
open BrushVerif.WordParse

/-- Spans tile the word: the pieces `word::parse` returns are in order, adjacent, non-empty and cover `[0, len)`
(byte offsets) — no byte of the word is dropped and none is read twice. -/
theorem parsed_spans_tile_the_word (w : Str) (ps : List SP) (h : parseWord w = .ok ps) :
    Tiles 0 (blen w) (ps.map fun x => (x.s, x.e)) := by
  have hs := skipN_ok (w.length + 1)
  have body : ∀ (s : Str) (qs : List SP) (r : Str), blen s ≤ blen w →
      wordGo (skipN (w.length + 1)) false (blen w) (s.length + 1) s = .ok (qs, r) →
      Tiles (blen w - blen s) (blen w) (qs.map fun x => (x.s, x.e)) := by
    intro s qs r hle hh
    have := wordGo_tiles _ hs false _ _ s qs r hle hh
    have hr := this.2.2 rfl
    rw [hr] at this
    simpa [blen] using this.2.1
  unfold parseWord at h
  simp only at h
  split at h
  · rename_i r
    have hc := blen_cons_lt '~' r
    split at h
    · simp at h
    · split at h
      · rename_i t r' ht
        have := tildeExpr_le _ _ _ ht
        split at h
        · rename_i qs r'' hh
          simp only [Res.ok.injEq] at h
          rw [← h]
          simp only [List.cons_append, List.nil_append, List.map_cons, Tiles]
          exact ⟨trivial, by omega, body r' qs r'' (by omega) hh⟩
        · simp at h
        · simp at h
      · split at h
        · rename_i qs r'' hh
          simp only [Res.ok.injEq, List.nil_append] at h
          rw [← h]
          simpa using body _ qs r'' (Nat.le_refl _) hh
        · simp at h
        · simp at h
  · split at h
    · rename_i qs r'' hh
      simp only [Res.ok.injEq, List.nil_append] at h
      rw [← h]
      simpa using body _ qs r'' (Nat.le_refl _) hh
    · simp at h
    · simp at h

/-- non-vacuity: a tilde prefix, a two-byte character, nested quotes and `${v:-"a b"}` -/
example : parseWord "~/é\"x\\$${u:-\"a b\"}\"'q'".toList = .ok
    [⟨.atom (.tilde .home), 0, 1⟩, ⟨.atom (.text "/é".toList), 1, 4⟩,
     ⟨.dq [⟨.text "x".toList, 5, 6⟩, ⟨.esc "\\$".toList, 6, 8⟩,
           ⟨.paramOp (.named "u".toList) true "-".toList "\"a b\"".toList, 8, 19⟩], 4, 20⟩,
     ⟨.atom (.sq "q".toList), 20, 23⟩] := by decide

/-- The spans inside a closed double-quoted sequence tile the text between the quotes. -/
theorem double_quoted_inner_spans_tile (n tot k : Nat) (s : Str) (inner : List SA) (r : Str)
    (hle : blen s ≤ tot) (h : dqGo (skipN n) tot k s = .ok (inner, r)) :
    Tiles (tot - blen s) (tot - (blen r + 1)) (inner.map fun x => (x.s, x.e)) :=
  (dqGo_tiles _ (skipN_ok n) tot k s inner r hle h).2

/-- Inside `'…'` nothing is special: whatever the body contains (backslashes, `$`, `"`, newlines…), the piece is
the body verbatim and parsing resumes right after the closing quote. -/
theorem single_quotes_hide_everything (skip : Str → Res Str) (stop : Bool) (tot : Nat) (body rest : Str)
    (hb : '\'' ∉ body) :
    wordOne skip stop tot '\'' (body ++ '\'' :: rest) = .ok (.atom (.sq body), rest) := by
  have key : takeUntil '\'' (body ++ '\'' :: rest) = some (body, rest) := by
    induction body with
    | nil => simp [takeUntil]
    | cons c cs ih =>
      have hc : c ≠ '\'' := fun e => hb (by simp [e])
      have := ih (fun m => hb (List.mem_cons_of_mem _ m))
      simp [takeUntil, hc, this]
  simp [wordOne, key]

example : wordOne (skipN 3) false 9 '\'' "a\\$\"b' c".toList = .ok (.atom (.sq "a\\$\"b".toList), " c".toList) :=
  single_quotes_hide_everything _ _ _ "a\\$\"b".toList " c".toList (by decide)

/-- An unquoted backslash followed by any character `c` is always exactly one escape piece for that `c`
(two characters of source), whatever follows and whatever the stop character is. -/
theorem unquoted_backslash_escapes_one_char (skip : Str → Res Str) (stop : Bool) (tot : Nat) (c : Char) (r : Str) :
    wordOne skip stop tot '\\' (c :: r) = .ok (.atom (.esc ['\\', c]), r) := by
  simp [wordOne]

/-- Inside `"…"` a backslash is an escape only before `$`, backquote, `"` and `\`; before any other character it
stays in the text, followed by that character. -/
theorem double_quoted_backslash (skip : Str → Res Str) (d : Char) (r : Str) :
    (isDqEscapable d = true → dqOne skip '\\' (d :: r) = .ok (.esc ['\\', d], r)) ∧
    (isDqEscapable d = false →
      dqOne skip '\\' (d :: r) = .ok (.text ('\\' :: d :: (dqRun r).1), (dqRun r).2)) := by
  constructor
  · intro h; simp [dqOne, h]
  · intro h
    have h' := h
    simp only [isDqEscapable, Bool.or_eq_false_iff, decide_eq_false_iff_not] at h'
    simp only [dqOne, h, dqRun, h'.1.1.1, h'.1.1.2, h'.1.2]
    have hb := h'.2
    simp
    split <;> simp_all

example : dqOne (skipN 1) '\\' "a\\\"".toList = .ok (.text "\\a".toList, "\\\"".toList) := by decide

/-- `$name` never starts with a digit: after `$`, a digit `1`..`9` is a positional parameter of exactly one digit. -/
theorem dollar_digit_is_one_positional (skip : Str → Res Str) (inDq : Bool) (c : Char) (r : Str)
    (hc : isDigit c = true) (h0 : c ≠ '0') :
    dollar skip inDq (c :: r) = .ok (.param (.pos (c.toNat - 48)), r) := by
  have h1 : c ≠ '\'' := by intro e; rw [e] at hc; revert hc; decide
  have h2 : c ≠ '[' := by intro e; rw [e] at hc; revert hc; decide
  have h3 : c ≠ '`' := by intro e; rw [e] at hc; revert hc; decide
  have h4 : c ≠ '"' := by intro e; rw [e] at hc; revert hc; decide
  have h5 : c ≠ '(' := by intro e; rw [e] at hc; revert hc; decide
  have h6 : c ≠ '{' := by intro e; rw [e] at hc; revert hc; decide
  unfold dollar
  split <;> simp_all

/-- `render_then_parse` for a normal form `N` of spanned piece lists: the text the check renders for the pieces is read
back by the parser as exactly those pieces, spans included. The full property wants `N` = every piece list the C04/C05
generators produce. MISSING from what is proved below (`render_then_parse_partial`): double-quoted sequences and the
`$` pieces (`$name`, `${…}`, `$(…)`, `$((…))`) and the tilde prefix — for those the agreement of text and pieces rests
on the exhaustive correspondence run (leg W of `tools/c04.py`) and on concrete examples, not on a theorem. -/
def render_then_parse_full (N : List SP → Prop) : Prop :=
  ∀ ps : List SP, N ps → parseWord (renderWord ps) = .ok ps

/-- The restricted normal form: atoms `as` with `NF as` (single-quoted pieces whose body has no `'`; escapes `\c` for
any `c`; non-empty text runs of `Ordinary` characters = anything but `'` `"` `$` backquote `\` `~`; no two text runs
adjacent), carrying the spans `position!()` assigns (`spannedFrom`). -/
def RestrictedNormalForm (ps : List SP) : Prop :=
  ∃ as : List Atom, NF as ∧ ps = spannedFrom (blen (renderAtoms as)) as

/-- `render_then_parse` on the quote / escape / plain-text fragment, for words of any length: rendering such a piece
list and parsing the text gives back the same pieces with the same spans. -/
theorem render_then_parse_partial : render_then_parse_full RestrictedNormalForm := by
  intro ps ⟨as, hnf, hps⟩
  rw [hps, renderWord_spannedFrom]
  exact parseWord_render as hnf

/-- non-vacuity: `a b'x"$'\'é}` = text, single-quoted (holding `"` and `$`), escape, text with a two-byte character -/
example : RestrictedNormalForm
    [⟨.atom (.text "a b".toList), 0, 3⟩, ⟨.atom (.sq "x\"$".toList), 3, 8⟩, ⟨.atom (.esc "\\'".toList), 8, 10⟩,
     ⟨.atom (.text "é}".toList), 10, 13⟩] := by
  refine ⟨[.text "a b".toList, .sq "x\"$".toList, .esc "\\'".toList, .text "é}".toList], ?_, by decide⟩
  simp [NF, OkAtom, Ordinary, isTextAtom]

/-- the full property fails for an arbitrary piece list: two adjacent text runs are read back as one -/
theorem render_then_parse_needs_a_normal_form : ¬ render_then_parse_full (fun _ => True) := by
  intro h
  have := h [⟨.atom (.text ['a']), 0, 1⟩, ⟨.atom (.text ['b']), 1, 2⟩] trivial
  revert this; decide

end WordParser

end BrushVerif.C04
