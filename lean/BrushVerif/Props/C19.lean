import BrushVerif.Proofs.Highlight
/-!
# C19 — syntax highlighting covers the typed line exactly

Theorems over `Model/Highlight.lean`, the model of `Highlighter::{highlight_program,
highlight_word_piece, append_span, skip_ahead}` (brush-interactive/src/highlighting.rs).  They
quantify over every token/piece tree (any nesting depth, any number of tokens and pieces, any
text including multi-byte chars) and every cursor.

The tokenizer and the word parser are *inputs*: `wfProg` (tokens ordered by char index, pieces
ordered and inside their parents, a nested command's text between its delimiters) and "no trap"
(every offset handed to `append_span` is a char boundary of the input line) are decidable
hypotheses that the correspondence run evaluates on brush's real tokenizer / parser output for
every generated line.  Both fail on the unchanged tree:

* a here-document: the tokenizer emits body and end tag *before* the tokens that follow the tag on
  the operator's line, so `wfProg` is false and the spans overlap (`spans_tile_line_cex`);
* an escaped backquote inside a backquoted substitution: the word parser unescapes it, the nested
  command is shorter than its source, and a span ends inside a multi-byte char
  (`spans_on_char_boundaries_cex`).
-/
namespace BrushVerif.C19
open BrushVerif.Wire BrushVerif.Highlight

/-- **Tiling.**  For every well-formed tree and every cursor the spans are non-empty, ordered,
contiguous, non-overlapping and cover exactly `[0, len)`: the first starts at 0, each starts where
the previous one ended, the last ends at the byte length of the line. -/
theorem spans_tile_line_partial (p : Prog) (cursor : Nat) (hw : wfProg p = true) :
    TilesFrom 0 (highlight p cursor) (byteLen p.line) := by
  have h := hlProg_inv p.line cursor p 0 HS.init hw (by simp [TInv, HS.init, TilesFrom]) (by simp [HS.init])
  have h2 := h.2
  simp only [Nat.zero_add] at h2
  have h1 := h.1
  unfold TInv at h1
  rw [h2] at h1
  exact h1

/-- the full statement: no hypothesis on the tokenizer's output -/
def spans_tile_line_full : Prop :=
  ∀ (p : Prog) (cursor : Nat), TilesFrom 0 (highlight p cursor) (byteLen p.line)

/-- what the tokenizer and the word parser return for the line `<<a⏎a` (a complete here-document):
operator `<<` [0,2), tag `a` [2,3), body token [4,5), end-tag token [5,5), and only then the newline
operator [3,4) (`./check C19 --replay` on the line prints this tree) -/
def heredocTree : Prog :=
  .ok "<<a\na".toList
    [.op 0 2, .word 2 3 ['a'] .notFound [.leaf 0 1 .text], .word 4 5 [] .external [.leaf 0 1 .text],
     .word 5 5 ['a'] .notFound [], .op 3 4]

theorem heredocTree_spans : highlight heredocTree 0 =
    [⟨0, 2, .Operator⟩, ⟨2, 3, .NotFoundCommand⟩, ⟨3, 4, .Comment⟩, ⟨4, 5, .Default⟩,
     ⟨3, 4, .Operator⟩, ⟨4, 5, .Comment⟩] := by
  simp [highlight, highlightSt, heredocTree, hlProg, hlToks, hlPieces, hlPiece, appendSpan, skipAhead,
    HS.init, byteOff, byteLen, kindForWord, classify, leafKind, Prog.line, Char.utf8Size]

/-- `<<a⏎a`: the spans overlap (… 4-5, then 3-4 again). -/
theorem spans_tile_line_cex : ¬ spans_tile_line_full := by
  intro h
  have := h heredocTree 0
  rw [heredocTree_spans] at this
  simp [TilesFrom] at this

/-- the tree of the line ``echo "$(ls é)" 🚀`` (double quotes, a nested command substitution,
2- and 4-byte chars), as the tokenizer and the word parser return it -/
def sampleTree : Prog :=
  .ok "echo \"$(ls é)\" 🚀".toList
    [.word 0 4 "echo".toList .builtin [.leaf 0 4 .text],
     .word 5 14 "$(ls é)".toList .notFound
       [.dq 0 10 [.sub 1 9 2 (.ok "ls é".toList
          [.word 0 2 "ls".toList .external [.leaf 0 2 .text],
           .word 3 4 "é".toList .notFound [.leaf 0 2 .text]])]],
     .word 15 16 "🚀".toList .notFound [.leaf 0 4 .text]]

theorem sampleTree_wf : wfProg sampleTree = true := by
  simp [sampleTree, wfProg, wfToks, wfPieces, wfPiece, pieceEnd, byteOff, byteLen, Prog.line, Char.utf8Size]

theorem sampleTree_spans : highlightSt sampleTree 7 =
    { spans := [⟨0, 4, .Builtin⟩, ⟨4, 5, .Comment⟩, ⟨5, 6, .Quoted⟩, ⟨6, 8, .CommandSubstitution⟩,
        ⟨8, 10, .ExternalCommand⟩, ⟨10, 11, .CommandSubstitution⟩, ⟨11, 13, .Default⟩,
        ⟨13, 14, .CommandSubstitution⟩, ⟨14, 15, .Quoted⟩, ⟨15, 16, .Quoted⟩, ⟨16, 20, .Default⟩],
      cur := 20, missing := some .Quoted, trap := none } := by
  simp [highlightSt, sampleTree, hlProg, hlToks, hlPieces, hlPiece, appendSpan, skipAhead, setMissing,
    HS.init, byteOff, byteLen, kindForWord, classify, leafKind, Prog.line, Char.utf8Size,
    isBoundary, isBoundaryFrom]

/-- non-vacuity of `spans_tile_line_partial`: a nested, multi-byte tree meets `wfProg` -/
example : wfProg sampleTree = true ∧ (highlight sampleTree 7).length = 11 :=
  ⟨sampleTree_wf, by simp [highlight, sampleTree_spans]⟩

/-- **Char boundaries.**  Unless one of `append_span`'s debug assertions fires (`trap`), every span
endpoint is a char boundary of the line: gap filling introduces no offset of its own. -/
theorem spans_on_char_boundaries_partial (p : Prog) (cursor : Nat)
    (ht : (highlightSt p cursor).trap = none) :
    ∀ s ∈ highlight p cursor, isBoundary p.line s.start = true ∧ isBoundary p.line s.stop = true := by
  have st := step_hlProg p.line cursor p 0 HS.init
  have b0 : BInv p.line HS.init := fun _ => ⟨isBoundary_zero _, by simp [HS.init]⟩
  exact (st.2 b0 ht).2

/-- the full statement: every endpoint is a char boundary, whatever the parsers return -/
def spans_on_char_boundaries_full : Prop :=
  ∀ (p : Prog) (cursor : Nat), ∀ s ∈ highlight p cursor,
    isBoundary p.line s.start = true ∧ isBoundary p.line s.stop = true

/-- the tree of the line `` `\`é` ``: one backquoted substitution [0,6) whose command is
`` `é `` (the word parser has removed the backslash), which does not tokenize -/
def backquoteTree : Prog :=
  .ok "`\\`é`".toList [.word 0 5 "`\\`é`".toList .notFound [.sub 0 6 1 (.failed "`é".toList)]]

theorem backquoteTree_spans : highlightSt backquoteTree 0 =
    { spans := [⟨0, 1, .CommandSubstitution⟩, ⟨1, 4, .Default⟩, ⟨4, 6, .CommandSubstitution⟩],
      cur := 6, missing := some .CommandSubstitution, trap := some 4 } := by
  simp [highlightSt, backquoteTree, hlProg, hlToks, hlPieces, hlPiece, appendSpan, skipAhead, setMissing,
    HS.init, byteOff, byteLen, kindForWord, classify, leafKind, Prog.line, Char.utf8Size,
    isBoundary, isBoundaryFrom]

/-- `` `\`é` ``: the span 1..4 ends inside `é` (bytes 3..5) although the tree is well-formed. -/
theorem spans_on_char_boundaries_cex : ¬ spans_on_char_boundaries_full ∧ wfProg backquoteTree = true := by
  constructor
  · intro h
    have := h backquoteTree 0 ⟨1, 4, .Default⟩ (by simp [highlight, backquoteTree_spans])
    revert this
    simp [backquoteTree, Prog.line, isBoundary, isBoundaryFrom, Char.utf8Size]
  · simp [backquoteTree, wfProg, wfToks, wfPieces, wfPiece, pieceEnd, byteOff, byteLen, Prog.line, Char.utf8Size]

/-- non-vacuity: the sample tree raises no trap -/
example : (highlightSt sampleTree 7).trap = none := by rw [sampleTree_spans]

/-- **Rendering reproduces the text.**  Resolving every span against the line the way
`Highlighted::text` does (`line.get(range).unwrap_or("")`) and concatenating gives back the line. -/
theorem render_reproduces_text_partial (p : Prog) (cursor : Nat) (hw : wfProg p = true)
    (ht : (highlightSt p cursor).trap = none) :
    (highlight p cursor).flatMap (spanText p.line) = p.line := by
  have hb := spans_on_char_boundaries_partial p cursor ht
  have htile := spans_tile_line_partial p cursor hw
  have e : (highlight p cursor).flatMap (spanText p.line) =
      (highlight p cursor).flatMap (fun s => sliceFrom p.line 0 s.start s.stop) := by
    apply flatMap_congr'
    intro s hs
    simp [spanText, hb s hs]
  rw [e, tiles_render p.line 0 0 _ _ htile]
  simpa using slice_full p.line 0

/-- Why the boundary hypothesis is needed for rendering: in `` `\`é` `` the span 1..4 resolves to
nothing, so does 4..6, and only the opening backquote is rendered. -/
theorem render_cex :
    (highlight backquoteTree 0).flatMap (spanText backquoteTree.line) = "`".toList := by
  have e : highlight backquoteTree 0 =
      [⟨0, 1, .CommandSubstitution⟩, ⟨1, 4, .Default⟩, ⟨4, 6, .CommandSubstitution⟩] := by
    simp [highlight, backquoteTree_spans]
  rw [e]
  simp [spanText, backquoteTree, Prog.line, isBoundary, isBoundaryFrom, sliceFrom, Char.utf8Size]

/-- **`append_span` needs monotone input** (the converse of the invariant step): a non-empty range
that starts before `current_byte_index` always breaks the tiling — this is what turns an unordered
token stream into overlapping spans. -/
theorem append_span_monotone_needed (top : Str) (h : HS) (k : Kind) (s e : Nat)
    (hi : TilesFrom 0 h.spans h.cur) (hlt : s < h.cur) (hse : s < e) :
    ¬ TilesFrom 0 (appendSpan top h k s e).spans (appendSpan top h k s e).cur := by
  intro hc
  have hg : ¬ s > h.cur := by omega
  simp only [appendSpan, hg, hse, ↓reduceIte] at hc
  have h1 := (tiles_snoc_inv 0 e ⟨s, e, k⟩ h.spans hc).1
  have := tiles_end_unique 0 _ _ h.spans hi h1
  simp at this
  omega

/-- non-vacuity: after `echo` (0..4) a range starting at 2 -/
example : TilesFrom 0 [⟨0, 4, Kind.Builtin⟩] 4 ∧ (2 : Nat) < 4 := by simp [TilesFrom]

/-- **Fallback.**  When the tokenizer rejects the line, the whole line is one `Default` span. -/
theorem fallback_when_tokenizer_fails (line : Str) (cursor : Nat) (h : 0 < byteLen line) :
    highlight (.failed line) cursor = [⟨0, byteLen line, .Default⟩] := by
  simp [highlight, highlightSt, hlProg, appendSpan, HS.init, h]

example : highlight (.failed "'é".toList) 0 = [⟨0, 3, .Default⟩] := by
  simp [highlight, highlightSt, hlProg, appendSpan, HS.init, byteLen, Char.utf8Size]

/-- **The span boundaries are a function of the line and of what the tokenizer / word parser make of
it — nothing else.**  Two trees with the same geometry (texts, token spans, piece offsets, nesting:
what the parsers compute from the line and their option flags) give the same byte ranges, and the
same debug-assertion outcome, whatever the cursor and however the shell classifies the words
(aliases, functions, builtins, keywords, `PATH`, cwd).  Shell state outside the parser options
and the line editor's cursor can only recolour spans, never move one. -/
theorem ranges_depend_only_on_geometry (p q : Prog) (c c' : Nat) (hg : geomProg p = geomProg q) :
    ranges (highlight p c) = ranges (highlight q c') ∧
      (highlightSt p c).trap = (highlightSt q c').trap := by
  have hl : p.line = q.line := by rw [← geomProg_line p, ← geomProg_line q, hg]
  have s1 := sim_hlProg p.line c 0 p 0 HS.init HS.init (Sim.refl _)
  have s2 := sim_hlProg q.line c' 0 q 0 HS.init HS.init (Sim.refl _)
  rw [hg, hl] at s1
  have s := s1.trans s2.symm
  rw [← hl] at s
  refine ⟨?_, ?_⟩
  · have := s.1
    simpa [highlight, highlightSt, hl] using this
  · have := s.2.2
    simpa [highlightSt, hl] using this

/-- in particular the boundaries do not depend on the cursor (any byte offset, also inside a char) -/
theorem ranges_independent_of_cursor (p : Prog) (c c' : Nat) :
    ranges (highlight p c) = ranges (highlight p c') :=
  (ranges_depend_only_on_geometry p p c c' rfl).1

/-- the sample line in another shell: `echo` is an alias, `ls` is not on `PATH`, `é` names a function -/
def sampleTreeOtherShell : Prog :=
  .ok "echo \"$(ls é)\" 🚀".toList
    [.word 0 4 "echo".toList .alias [.leaf 0 4 .text],
     .word 5 14 "$(ls é)".toList .notFound
       [.dq 0 10 [.sub 1 9 2 (.ok "ls é".toList
          [.word 0 2 "ls".toList .notFound [.leaf 0 2 .text],
           .word 3 4 "é".toList .function [.leaf 0 2 .text]])]],
     .word 15 16 "🚀".toList .notFound [.leaf 0 4 .text]]

/-- non-vacuity: same geometry, different shell state and cursor (12 is inside `é`) — and the kinds
really differ, so the theorem is not about equal inputs -/
example : geomProg sampleTree = geomProg sampleTreeOtherShell ∧
    highlight sampleTree 7 ≠ highlight sampleTreeOtherShell 12 := by
  constructor
  · simp [sampleTree, sampleTreeOtherShell, geomProg, geomToks, geomPieces, geomPiece]
  · have e : highlight sampleTree 7 = (highlightSt sampleTree 7).spans := rfl
    rw [e, sampleTree_spans]
    intro h
    have h0 := congrArg (fun l => l.head?.map (·.kind)) h
    revert h0
    simp [highlight, highlightSt, sampleTreeOtherShell, hlProg, hlToks, hlPieces, hlPiece, appendSpan, skipAhead,
      setMissing, HS.init, byteOff, byteLen, kindForWord, classify, leafKind, Prog.line, Char.utf8Size,
      isBoundary, isBoundaryFrom]

end BrushVerif.C19
