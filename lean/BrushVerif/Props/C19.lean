import BrushVerif.Proofs.Highlight
import BrushVerif.Proofs.Tokenizer
/-!
# C19 — syntax highlighting covers the typed line exactly

Theorems over `Model/Highlight.lean`, the model of `Highlighter::{highlight_program,
highlight_word_piece, append_span, skip_ahead}` (brush-interactive/src/highlighting.rs).  They
quantify over every token/piece tree (any nesting depth, any number of tokens and pieces, any
text including multi-byte chars) and every cursor.

The tokenizer and the word parser are *inputs*: `wfProg` (tokens ordered by char index, pieces
ordered and inside their parents, a nested command's text between its delimiters) and "no trap"
(every offset handed to `append_span` is a char boundary of the input line) are decidable
hypotheses that the correspondence run evaluates on brush's real tokenizer / parser output for
every generated line.  Both fail on the unchanged tree:

* a here-document: the tokenizer emits body and end tag *before* the tokens that follow the tag on
  the operator's line, so `wfProg` is false and the spans overlap (`spans_tile_line_cex`);
* an escaped backquote inside a backquoted substitution: the word parser unescapes it, the nested
  command is shorter than its source, and a span ends inside a multi-byte char
  (`spans_on_char_boundaries_cex`).
-/
namespace BrushVerif.C19
open BrushVerif.Wire BrushVerif.Highlight

/-- **Tiling.**  For every well-formed tree and every cursor the spans are non-empty, ordered,
contiguous, non-overlapping and cover exactly `[0, len)`: the first starts at 0, each starts where
the previous one ended, the last ends at the byte length of the line. -/
theorem spans_tile_line_partial (p : Prog) (cursor : Nat) (hw : wfProg p = true) :
    TilesFrom 0 (highlight p cursor) (byteLen p.line) := by
  have h := hlProg_inv p.line cursor p 0 HS.init hw (by simp [TInv, HS.init, TilesFrom]) (by simp [HS.init])
  have h2 := h.2
  simp only [Nat.zero_add] at h2
  have h1 := h.1
  unfold TInv at h1
  rw [h2] at h1
  exact h1

/-- the full statement: no hypothesis on the tokenizer's output -/
def spans_tile_line_full : Prop :=
  ∀ (p : Prog) (cursor : Nat), TilesFrom 0 (highlight p cursor) (byteLen p.line)

/-- what the tokenizer and the word parser return for the line `<<a⏎a` (a complete here-document):
operator `<<` [0,2), tag `a` [2,3), body token [4,5), end-tag token [5,5), and only then the newline
operator [3,4) (`./check C19 --replay` on the line prints this tree) -/
def heredocTree : Prog :=
  .ok "<<a\na".toList
    [.op 0 2, .word 2 3 ['a'] .notFound [.leaf 0 1 .text], .word 4 5 [] .external [.leaf 0 1 .text],
     .word 5 5 ['a'] .notFound [], .op 3 4]

theorem heredocTree_spans : highlight heredocTree 0 =
    [⟨0, 2, .Operator⟩, ⟨2, 3, .NotFoundCommand⟩, ⟨3, 4, .Comment⟩, ⟨4, 5, .Default⟩,
     ⟨3, 4, .Operator⟩, ⟨4, 5, .Comment⟩] := by
  simp [highlight, highlightSt, heredocTree, hlProg, hlToks, hlPieces, hlPiece, appendSpan, skipAhead,
    HS.init, byteOff, byteLen, kindForWord, classify, leafKind, Prog.line, Char.utf8Size]

/-- `<<a⏎a`: the spans overlap (… 4-5, then 3-4 again). -/
theorem spans_tile_line_cex : ¬ spans_tile_line_full := by
  intro h
  have := h heredocTree 0
  rw [heredocTree_spans] at this
  simp [TilesFrom] at this

/-- the tree of the line ``echo "$(ls é)" 🚀`` (double quotes, a nested command substitution,
2- and 4-byte chars), as the tokenizer and the word parser return it -/
def sampleTree : Prog :=
  .ok "echo \"$(ls é)\" 🚀".toList
    [.word 0 4 "echo".toList .builtin [.leaf 0 4 .text],
     .word 5 14 "$(ls é)".toList .notFound
       [.dq 0 10 [.sub 1 9 2 (.ok "ls é".toList
          [.word 0 2 "ls".toList .external [.leaf 0 2 .text],
           .word 3 4 "é".toList .notFound [.leaf 0 2 .text]])]],
     .word 15 16 "🚀".toList .notFound [.leaf 0 4 .text]]

theorem sampleTree_wf : wfProg sampleTree = true := by
  simp [sampleTree, wfProg, wfToks, wfPieces, wfPiece, pieceEnd, byteOff, byteLen, Prog.line, Char.utf8Size]

theorem sampleTree_spans : highlightSt sampleTree 7 =
    { spans := [⟨0, 4, .Builtin⟩, ⟨4, 5, .Comment⟩, ⟨5, 6, .Quoted⟩, ⟨6, 8, .CommandSubstitution⟩,
        ⟨8, 10, .ExternalCommand⟩, ⟨10, 11, .CommandSubstitution⟩, ⟨11, 13, .Default⟩,
        ⟨13, 14, .CommandSubstitution⟩, ⟨14, 15, .Quoted⟩, ⟨15, 16, .Quoted⟩, ⟨16, 20, .Default⟩],
      cur := 20, missing := some .Quoted, trap := none } := by
  simp [highlightSt, sampleTree, hlProg, hlToks, hlPieces, hlPiece, appendSpan, skipAhead, setMissing,
    HS.init, byteOff, byteLen, kindForWord, classify, leafKind, Prog.line, Char.utf8Size,
    isBoundary, isBoundaryFrom]

/-- non-vacuity of `spans_tile_line_partial`: a nested, multi-byte tree meets `wfProg` -/
example : wfProg sampleTree = true ∧ (highlight sampleTree 7).length = 11 :=
  ⟨sampleTree_wf, by simp [highlight, sampleTree_spans]⟩

/-- **Char boundaries.**  Unless one of `append_span`'s debug assertions fires (`trap`), every span
endpoint is a char boundary of the line: gap filling introduces no offset of its own. -/
theorem spans_on_char_boundaries_partial (p : Prog) (cursor : Nat)
    (ht : (highlightSt p cursor).trap = none) :
    ∀ s ∈ highlight p cursor, isBoundary p.line s.start = true ∧ isBoundary p.line s.stop = true := by
  have st := step_hlProg p.line cursor p 0 HS.init
  have b0 : BInv p.line HS.init := fun _ => ⟨isBoundary_zero _, by simp [HS.init]⟩
  exact (st.2 b0 ht).2

/-- the full statement: every endpoint is a char boundary, whatever the parsers return -/
def spans_on_char_boundaries_full : Prop :=
  ∀ (p : Prog) (cursor : Nat), ∀ s ∈ highlight p cursor,
    isBoundary p.line s.start = true ∧ isBoundary p.line s.stop = true

/-- the tree of the line `` `\`é` ``: one backquoted substitution [0,6) whose command is
`` `é `` (the word parser has removed the backslash), which does not tokenize -/
def backquoteTree : Prog :=
  .ok "`\\`é`".toList [.word 0 5 "`\\`é`".toList .notFound [.sub 0 6 1 (.failed "`é".toList)]]

theorem backquoteTree_spans : highlightSt backquoteTree 0 =
    { spans := [⟨0, 1, .CommandSubstitution⟩, ⟨1, 4, .Default⟩, ⟨4, 6, .CommandSubstitution⟩],
      cur := 6, missing := some .CommandSubstitution, trap := some 4 } := by
  simp [highlightSt, backquoteTree, hlProg, hlToks, hlPieces, hlPiece, appendSpan, skipAhead, setMissing,
    HS.init, byteOff, byteLen, kindForWord, classify, leafKind, Prog.line, Char.utf8Size,
    isBoundary, isBoundaryFrom]

/-- `` `\`é` ``: the span 1..4 ends inside `é` (bytes 3..5) although the tree is well-formed. -/
theorem spans_on_char_boundaries_cex : ¬ spans_on_char_boundaries_full ∧ wfProg backquoteTree = true := by
  constructor
  · intro h
    have := h backquoteTree 0 ⟨1, 4, .Default⟩ (by simp [highlight, backquoteTree_spans])
    revert this
    simp [backquoteTree, Prog.line, isBoundary, isBoundaryFrom, Char.utf8Size]
  · simp [backquoteTree, wfProg, wfToks, wfPieces, wfPiece, pieceEnd, byteOff, byteLen, Prog.line, Char.utf8Size]

/-- non-vacuity: the sample tree raises no trap -/
example : (highlightSt sampleTree 7).trap = none := by rw [sampleTree_spans]

/-- **Rendering reproduces the text.**  Resolving every span against the line the way
`Highlighted::text` does (`line.get(range).unwrap_or("")`) and concatenating gives back the line. -/
theorem render_reproduces_text_partial (p : Prog) (cursor : Nat) (hw : wfProg p = true)
    (ht : (highlightSt p cursor).trap = none) :
    (highlight p cursor).flatMap (spanText p.line) = p.line := by
  have hb := spans_on_char_boundaries_partial p cursor ht
  have htile := spans_tile_line_partial p cursor hw
  have e : (highlight p cursor).flatMap (spanText p.line) =
      (highlight p cursor).flatMap (fun s => sliceFrom p.line 0 s.start s.stop) := by
    apply flatMap_congr'
    intro s hs
    simp [spanText, hb s hs]
  rw [e, tiles_render p.line 0 0 _ _ htile]
  simpa using slice_full p.line 0

/-- Why the boundary hypothesis is needed for rendering: in `` `\`é` `` the span 1..4 resolves to
nothing, so does 4..6, and only the opening backquote is rendered. -/
theorem render_cex :
    (highlight backquoteTree 0).flatMap (spanText backquoteTree.line) = "`".toList := by
  have e : highlight backquoteTree 0 =
      [⟨0, 1, .CommandSubstitution⟩, ⟨1, 4, .Default⟩, ⟨4, 6, .CommandSubstitution⟩] := by
    simp [highlight, backquoteTree_spans]
  rw [e]
  simp [spanText, backquoteTree, Prog.line, isBoundary, isBoundaryFrom, sliceFrom, Char.utf8Size]

/-- **`append_span` needs monotone input** (the converse of the invariant step): a non-empty range
that starts before `current_byte_index` always breaks the tiling — this is what turns an unordered
token stream into overlapping spans. -/
theorem append_span_monotone_needed (top : Str) (h : HS) (k : Kind) (s e : Nat)
    (hi : TilesFrom 0 h.spans h.cur) (hlt : s < h.cur) (hse : s < e) :
    ¬ TilesFrom 0 (appendSpan top h k s e).spans (appendSpan top h k s e).cur := by
  intro hc
  have hg : ¬ s > h.cur := by omega
  simp only [appendSpan, hg, hse, ↓reduceIte] at hc
  have h1 := (tiles_snoc_inv 0 e ⟨s, e, k⟩ h.spans hc).1
  have := tiles_end_unique 0 _ _ h.spans hi h1
  simp at this
  omega

/-- non-vacuity: after `echo` (0..4) a range starting at 2 -/
example : TilesFrom 0 [⟨0, 4, Kind.Builtin⟩] 4 ∧ (2 : Nat) < 4 := by simp [TilesFrom]

/-- **Fallback.**  When the tokenizer rejects the line, the whole line is one `Default` span. -/
theorem fallback_when_tokenizer_fails (line : Str) (cursor : Nat) (h : 0 < byteLen line) :
    highlight (.failed line) cursor = [⟨0, byteLen line, .Default⟩] := by
  simp [highlight, highlightSt, hlProg, appendSpan, HS.init, h]

example : highlight (.failed "'é".toList) 0 = [⟨0, 3, .Default⟩] := by
  simp [highlight, highlightSt, hlProg, appendSpan, HS.init, byteLen, Char.utf8Size]

/-- **The span boundaries are a function of the line and of what the tokenizer / word parser make of
it — nothing else.**  Two trees with the same geometry (texts, token spans, piece offsets, nesting:
what the parsers compute from the line and their option flags) give the same byte ranges, and the
same debug-assertion outcome, whatever the cursor and however the shell classifies the words
(aliases, functions, builtins, keywords, `PATH`, cwd).  Shell state outside the parser options
and the line editor's cursor can only recolour spans, never move one. -/
theorem ranges_depend_only_on_geometry (p q : Prog) (c c' : Nat) (hg : geomProg p = geomProg q) :
    ranges (highlight p c) = ranges (highlight q c') ∧
      (highlightSt p c).trap = (highlightSt q c').trap := by
  have hl : p.line = q.line := by rw [← geomProg_line p, ← geomProg_line q, hg]
  have s1 := sim_hlProg p.line c 0 p 0 HS.init HS.init (Sim.refl _)
  have s2 := sim_hlProg q.line c' 0 q 0 HS.init HS.init (Sim.refl _)
  rw [hg, hl] at s1
  have s := s1.trans s2.symm
  rw [← hl] at s
  refine ⟨?_, ?_⟩
  · have := s.1
    simpa [highlight, highlightSt, hl] using this
  · have := s.2.2
    simpa [highlightSt, hl] using this

/-- in particular the boundaries do not depend on the cursor (any byte offset, also inside a char) -/
theorem ranges_independent_of_cursor (p : Prog) (c c' : Nat) :
    ranges (highlight p c) = ranges (highlight p c') :=
  (ranges_depend_only_on_geometry p p c c' rfl).1

/-- the sample line in another shell: `echo` is an alias, `ls` is not on `PATH`, `é` names a function -/
def sampleTreeOtherShell : Prog :=
  .ok "echo \"$(ls é)\" 🚀".toList
    [.word 0 4 "echo".toList .alias [.leaf 0 4 .text],
     .word 5 14 "$(ls é)".toList .notFound
       [.dq 0 10 [.sub 1 9 2 (.ok "ls é".toList
          [.word 0 2 "ls".toList .notFound [.leaf 0 2 .text],
           .word 3 4 "é".toList .function [.leaf 0 2 .text]])]],
     .word 15 16 "🚀".toList .notFound [.leaf 0 4 .text]]

/-- non-vacuity: same geometry, different shell state and cursor (12 is inside `é`) — and the kinds
really differ, so the theorem is not about equal inputs -/
example : geomProg sampleTree = geomProg sampleTreeOtherShell ∧
    highlight sampleTree 7 ≠ highlight sampleTreeOtherShell 12 := by
  constructor
  · simp [sampleTree, sampleTreeOtherShell, geomProg, geomToks, geomPieces, geomPiece]
  · have e : highlight sampleTree 7 = (highlightSt sampleTree 7).spans := rfl
    rw [e, sampleTree_spans]
    intro h
    have h0 := congrArg (fun l => l.head?.map (·.kind)) h
    revert h0
    simp [highlight, highlightSt, sampleTreeOtherShell, hlProg, hlToks, hlPieces, hlPiece, appendSpan, skipAhead,
      setMissing, HS.init, byteOff, byteLen, kindForWord, classify, leafKind, Prog.line, Char.utf8Size,
      isBoundary, isBoundaryFrom]

/-! ## The tokenizer (`Model/Tokenizer.lean`, tied to `brush-parser/src/tokenizer.rs` by the `K` requests)

On the fragment the model covers (ordinary chars, blanks, newlines, `#`, operator chars, `'`, `"`, `\`;
everything else is answered `unsupported`), for every line of any length and both option flags.
Indices are char indices, as `SourcePosition::index` is. -/

open BrushVerif.Tokenizer in
/-- tokens in order from `lo`, non-overlapping, each with a non-empty span and a non-empty text that is no
longer than its span, all inside `[0, n]` -/
def TokensOrdered : Nat → List Token → Nat → Prop
  | lo, [], n => lo ≤ n
  | lo, t :: ts, n => lo ≤ t.start.index ∧ t.start.index < t.stop.index ∧ t.text ≠ [] ∧
      t.text.length ≤ t.stop.index - t.start.index ∧ TokensOrdered t.stop.index ts n

open BrushVerif.Tokenizer in
private theorem ordered_of_ok (line : Str) : ∀ (ts : List Token) (lo : Nat), lo ≤ line.length →
    ToksOK line lo ts → TokensOrdered lo ts line.length
  | [], _, h, _ => h
  | t :: ts, _, _, ⟨h1, h2⟩ =>
    ⟨h1.1, h1.2.1, h1.2.2.2.1, h1.2.2.2.2.1, ordered_of_ok line ts _ h1.2.2.1 h2⟩

open BrushVerif.Tokenizer in
private theorem tokenize_ok (o : Opts) (line : Str) (ts : List Token) (h : tokenize o line = .ok ts) :
    ToksOK line 0 ts := by
  have := go_ok o line [] (fresh Pos.origin) 0 ts (inv_fresh [] Pos.origin rfl) h
  simpa using this

open BrushVerif.Tokenizer in
/-- **Token spans are ordered, disjoint, non-empty and inside the line.** -/
theorem tokens_ordered_in_bounds (o : Opts) (line : Str) (ts : List Token)
    (h : tokenize o line = .ok ts) : TokensOrdered 0 ts line.length :=
  ordered_of_ok line ts 0 (Nat.zero_le _) (tokenize_ok o line ts h)

/-- the line `echo 'a b' "c;"|x # hi` (quotes, an operator inside and outside quotes, a comment) -/
def tokSample : Str := "echo 'a b' \"c;\"|x # hi".toList

open BrushVerif.Tokenizer in
/-- non-vacuity: five tokens, the last gap is a comment -/
example : ∃ ts, tokenize Opts.default tokSample = .ok ts ∧ ts.length = 5 ∧
    ts.map (·.text) = ["echo".toList, "'a b'".toList, "\"c;\"".toList, "|".toList, "x".toList] := by
  refine ⟨_, rfl, ?_, ?_⟩ <;> decide

open BrushVerif.Tokenizer in
/-- **Losslessness.**  A token built without swallowing a comment or a backslash-newline pair (`exact`,
a ghost flag of the model) has exactly the text of the line between its span's ends — quotes and
backslashes included. -/
theorem token_text_is_line_slice_partial (o : Opts) (line : Str) (ts : List Token)
    (h : tokenize o line = .ok ts) : ∀ t ∈ ts, t.exact = true →
      t.text = slice line t.start.index t.stop.index := by
  have hk := tokenize_ok o line ts h
  have key : ∀ (ts : List Token) (lo : Nat), ToksOK line lo ts → ∀ t ∈ ts, t.exact = true →
      t.text = slice line t.start.index t.stop.index := by
    intro ts
    induction ts with
    | nil => intro _ _ t ht; cases ht
    | cons a rest ih =>
      intro lo hk t ht he
      rcases List.mem_cons.mp ht with e | hm
      · subst e
        obtain ⟨bl, e1, _, e3⟩ := hk.1.2.2.2.2.2 he
        rw [← e3]
        exact ((slice_split line bl _ lo _ e1).1).symm
      · exact ih _ hk.2 t hm he
  exact key ts 0 hk

open BrushVerif.Tokenizer in
/-- the full statement: every token's text is the slice at its span -/
def token_text_is_line_slice_full : Prop :=
  ∀ (o : Opts) (line : Str) (ts : List Token), tokenize o line = .ok ts →
    ∀ t ∈ ts, t.text = slice line t.start.index t.stop.index

open BrushVerif.Tokenizer in
/-- `#⏎`: the newline operator's span is [0,2) — it starts at the comment, because the comment loop
does not move `start_position` — while its text is the newline alone. -/
theorem token_text_is_line_slice_cex : ¬ token_text_is_line_slice_full := by
  intro h
  have := h Opts.default "#\n".toList [⟨.op, ['\n'], ⟨0, 1, 1⟩, ⟨2, 2, 1⟩, false⟩] (by decide) _
    (List.mem_singleton.mpr rfl)
  revert this
  decide

open BrushVerif.Tokenizer in
/-- non-vacuity: all five tokens of the sample are exact, and `"c;"` is the slice 11..15 -/
example : ∃ ts, tokenize Opts.default tokSample = .ok ts ∧ ts.all (·.exact) = true ∧
    slice tokSample 11 15 = "\"c;\"".toList := by
  refine ⟨_, rfl, ?_, ?_⟩ <;> decide

open BrushVerif.Tokenizer in
/-- every gap in front of an `exact` token consists of blanks only -/
def GapsBlank (line : Str) : Nat → List Token → Prop
  | _, [] => True
  | lo, t :: ts => (t.exact = true → (slice line lo t.start.index).all isBlank = true) ∧
      GapsBlank line t.stop.index ts

open BrushVerif.Tokenizer in
/-- **Nothing but blanks is dropped between tokens** (in front of a token built without a comment or
line continuation): operators and words follow each other with only `is_blank` chars in between, so
no char of the line is silently lost to a gap. -/
theorem gaps_are_blanks_partial (o : Opts) (line : Str) (ts : List Token)
    (h : tokenize o line = .ok ts) : GapsBlank line 0 ts := by
  have hk := tokenize_ok o line ts h
  have key : ∀ (ts : List Token) (lo : Nat), ToksOK line lo ts → GapsBlank line lo ts := by
    intro ts
    induction ts with
    | nil => intro _ _; trivial
    | cons a rest ih =>
      intro lo hk
      refine ⟨?_, ih _ hk.2⟩
      intro he
      obtain ⟨bl, e1, e2, e3⟩ := hk.1.2.2.2.2.2 he
      rw [← e3, (slice_split line bl _ lo _ e1).2]
      exact e2
  exact key ts 0 hk

open BrushVerif.Tokenizer in
/-- text the tokenizer may drop: blanks, backslash-newline pairs, and a comment up to the end of the gap -/
def skippable : Str → Bool
  | [] => true
  | '#' :: r => !r.contains '\n'
  | '\\' :: '\n' :: r => skippable r
  | c :: r => isBlank c && skippable r

open BrushVerif.Tokenizer in
def GapsSkippable (line : Str) : Nat → List Token → Prop
  | _, [] => True
  | lo, t :: ts => skippable (slice line lo t.start.index) = true ∧ GapsSkippable line t.stop.index ts

open BrushVerif.Tokenizer in
/-- the full statement: whatever lies between two token spans (or in front of the first) is blanks,
comment text or backslash-newline pairs — for every token, `exact` or not -/
def gaps_are_skippable_full : Prop :=
  ∀ (o : Opts) (line : Str) (ts : List Token), tokenize o line = .ok ts → GapsSkippable line 0 ts

open BrushVerif.Tokenizer in
/-- ` \⏎ a`: the word `a` (index 4) is given the span [2,5): blanks move `start_position`, the
continuation does not, so the gap [0,2) is a blank and *half* of the backslash-newline pair. -/
theorem gaps_are_skippable_cex : ¬ gaps_are_skippable_full := by
  intro h
  have := (h Opts.default " \\\n a".toList [⟨.word, ['a'], ⟨2, 1, 3⟩, ⟨5, 2, 3⟩, false⟩] (by decide)).1
  revert this
  decide

open BrushVerif.Tokenizer in
/-- non-vacuity: in the sample the gaps in front of the five tokens are `""`, `" "`, `" "`, `""`, `""` -/
example : slice tokSample 4 5 = [' '] ∧ slice tokSample 10 11 = [' '] ∧ slice tokSample 15 15 = [] := by decide

open BrushVerif.Tokenizer in
/-- **The tokenizer never hits its own assertion** (`assert!(state.started_token())` in the operator branch). -/
theorem tokenize_never_panics (o : Opts) (line : Str) : tokenize o line ≠ .panic := by
  have := go_no_panic o line [] (fresh Pos.origin) 0 (inv_fresh [] Pos.origin rfl)
  exact this

/-! ### The bridge: the token layer of `wfProg` is no longer an assumption on the fragment -/

/-- operator?, start, end (char indices) of a token as the highlighter sees it -/
def hlLayer : Tok → Bool × Nat × Nat
  | .op s e => (true, s, e)
  | .wordFail s e _ _ => (false, s, e)
  | .word s e _ _ _ => (false, s, e)

/-- the same of a tokenizer token -/
def tokLayer (t : Tokenizer.Token) : Bool × Nat × Nat :=
  (match t.kind with | .op => true | .word => false, t.start.index, t.stop.index)

/-- the word parser's share of `wfToks`: the pieces of every parsed word are ordered and inside the
word's byte range (still observed per line, not proved) -/
def piecesWf (line : Str) : List Tok → Bool
  | [] => true
  | .word s e _ _ ps :: rest => wfPieces ps 0 (byteOff line e - byteOff line s) && piecesWf line rest
  | .op _ _ :: rest => piecesWf line rest
  | .wordFail _ _ _ _ :: rest => piecesWf line rest

private theorem wfToks_of_ordered (line : Str) : ∀ (hts : List Tok) (ts : List Tokenizer.Token) (lo n : Nat),
    TokensOrdered lo ts n → hts.map hlLayer = ts.map tokLayer → piecesWf line hts = true →
    wfToks line hts lo = true := by
  intro hts
  induction hts with
  | nil => intro _ _ _ _ _ _; simp [wfToks]
  | cons a rest ih =>
    intro ts lo n ho hl hp
    cases ts with
    | nil => simp at hl
    | cons t ts' =>
      simp only [List.map_cons, List.cons.injEq] at hl
      obtain ⟨h1, h2, _, _, h5⟩ := ho
      cases a with
      | op s e =>
        simp only [hlLayer, tokLayer, Prod.mk.injEq] at hl
        obtain ⟨⟨_, hs, he⟩, hr⟩ := hl
        simp only [piecesWf] at hp
        subst hs; subst he
        simp only [wfToks, Bool.and_eq_true, decide_eq_true_eq]
        exact ⟨⟨h1, Nat.le_of_lt h2⟩, ih ts' _ n h5 hr hp⟩
      | wordFail s e w c =>
        simp only [hlLayer, tokLayer, Prod.mk.injEq] at hl
        obtain ⟨⟨_, hs, he⟩, hr⟩ := hl
        simp only [piecesWf] at hp
        subst hs; subst he
        simp only [wfToks, Bool.and_eq_true, decide_eq_true_eq]
        exact ⟨⟨h1, Nat.le_of_lt h2⟩, ih ts' _ n h5 hr hp⟩
      | word s e w c ps =>
        simp only [hlLayer, tokLayer, Prod.mk.injEq] at hl
        obtain ⟨⟨_, hs, he⟩, hr⟩ := hl
        simp only [piecesWf, Bool.and_eq_true] at hp
        subst hs; subst he
        simp only [wfToks, Bool.and_eq_true, decide_eq_true_eq]
        exact ⟨⟨⟨h1, Nat.le_of_lt h2⟩, hp.1⟩, ih ts' _ n h5 hr hp.2⟩

/-- **Bridge.**  Whatever the highlighter builds on the tokenizer's tokens (same kinds and spans; any
classification; any word-parser result whose pieces are well-formed) satisfies `wfProg`: the clauses
of `wfToks` about the tokens themselves — `lo ≤ s`, `s ≤ e`, in order — are theorems on the fragment,
only the `wfPieces` clause (word parser) remains an observed hypothesis. -/
theorem tokenizer_output_is_wf (o : Tokenizer.Opts) (line : Str) (ts : List Tokenizer.Token) (hts : List Tok)
    (h : Tokenizer.tokenize o line = .ok ts) (hl : hts.map hlLayer = ts.map tokLayer)
    (hp : piecesWf line hts = true) : wfProg (.ok line hts) = true := by
  simp only [wfProg]
  exact wfToks_of_ordered line hts ts 0 line.length (tokens_ordered_in_bounds o line ts h) hl hp

/-- **Tiling on the fragment, without the token-layer assumption.** -/
theorem spans_tile_line_on_fragment (o : Tokenizer.Opts) (line : Str) (ts : List Tokenizer.Token)
    (hts : List Tok) (cursor : Nat) (h : Tokenizer.tokenize o line = .ok ts)
    (hl : hts.map hlLayer = ts.map tokLayer) (hp : piecesWf line hts = true) :
    TilesFrom 0 (highlight (.ok line hts) cursor) (byteLen line) :=
  spans_tile_line_partial (.ok line hts) cursor (tokenizer_output_is_wf o line ts hts h hl hp)

/-- what the highlighter sees for `ls 'é'|x # c` — tokens as the tokenizer model returns them -/
def fragTree : List Tok :=
  [.word 0 2 "ls".toList .external [.leaf 0 2 .text], .word 3 6 "'é'".toList .notFound [.leaf 0 4 .quoted],
   .op 6 7, .word 7 8 "x".toList .notFound [.leaf 0 1 .text]]

/-- non-vacuity: the hypotheses hold for a line with a quoted multi-byte char, an operator and a comment,
and the highlighter produces 6 spans for it -/
example : ∃ ts, Tokenizer.tokenize Tokenizer.Opts.default "ls 'é'|x # c".toList = .ok ts ∧
    fragTree.map hlLayer = ts.map tokLayer ∧ piecesWf "ls 'é'|x # c".toList fragTree = true ∧
    (highlight (.ok "ls 'é'|x # c".toList fragTree) 0).length = 6 := by
  refine ⟨_, rfl, by decide, ?_, ?_⟩
  · simp [piecesWf, fragTree, wfPieces, wfPiece, pieceEnd, byteOff, byteLen, Char.utf8Size]
  · simp [highlight, highlightSt, fragTree, hlProg, hlToks, hlPieces, hlPiece, appendSpan, skipAhead,
      HS.init, byteOff, byteLen, kindForWord, classify, leafKind, Prog.line, Char.utf8Size]

end BrushVerif.C19
