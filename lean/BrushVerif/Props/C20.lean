import BrushVerif.Proofs.History
/-!
# C20 — command history is saved once, in order, and reloads as saved

Property theorems over `Model/History.lean` (which mirrors brush's `History`, `save_history`,
`add_to_history` and the `history` builtin).  Quantifiers: every operation sequence of any length,
any number of sessions on the file, any commands satisfying `ValidCmd` (single line, no trailing
CR, not starting with `#` — the commands the property speaks about).

`history -w` (`saveW`) writes the whole list but leaves the items marked unsaved; a later append
(`history -a`, or leaving the shell) writes them again.  So the full statement is false
(`exactly_once_full_cex`) and the proved theorems carry the guard `NoSaveW` (`_partial`).
-/
namespace BrushVerif.C20
open BrushVerif.Wire BrushVerif.History

/-- what an operation records (in recording order) -/
def recordedOp : Op → List Str
  | .add c => if (trim c).isEmpty then [] else [trim c]
  | .addS c => [c]
  | _ => []

def recorded (ops : List Op) : List Str := ops.flatMap recordedOp

/-- operations the property quantifies over: recorded commands are valid, nobody edits the file -/
def OpOk : Op → Prop
  | .add c => (trim c).isEmpty = false → ValidCmd (trim c)
  | .addS c => ValidCmd c
  | .setFile _ => False
  | _ => True

/-- guard of the `_partial` theorems -/
def NoSaveW : Op → Prop
  | .saveW => False
  | _ => True

def dirtyCmds (h : Hist) : List Str := (h.filter (·.dirty)).map (·.cmd)

/-- the invariant: the file is a rendering of good lines; its commands followed by the unsaved
commands form a subsequence of what was recorded; every saved item is in the file -/
def Inv (s : St) (adds : List Str) : Prop :=
  ∃ ls : List Str, s.file = render ls ∧ (∀ l ∈ ls, GoodLine l) ∧
    (ls.filter isCmd ++ dirtyCmds s.hist).Sublist adds ∧
    (s.hist.map (·.cmd)).Sublist adds ∧
    (∀ i ∈ s.hist, ValidCmd i.cmd) ∧
    (∀ i ∈ s.hist, i.dirty = false → i.cmd ∈ ls.filter isCmd)

theorem inv_init : Inv init [] := ⟨[], rfl, by simp, by simp [dirtyCmds, init], by simp [init], by simp [init], by simp [init]⟩

private theorem dirtyCmds_append (h : Hist) (i : Item) (hd : i.dirty = true) :
    dirtyCmds (h ++ [i]) = dirtyCmds h ++ [i.cmd] := by
  simp [dirtyCmds, List.filter_append, hd]

private theorem inv_push (s : St) (adds : List Str) (c : Str) (now : Int) (hv : ValidCmd c)
    (h : Inv s adds) :
    Inv { s with hist := s.hist ++ [{ cmd := c, ts := some now, dirty := true }] } (adds ++ [c]) := by
  obtain ⟨ls, hf, hg, h1, h2, h3, h4⟩ := h
  refine ⟨ls, hf, hg, ?_, ?_, ?_, ?_⟩
  · rw [dirtyCmds_append _ _ rfl, ← List.append_assoc]
    exact List.Sublist.append h1 (List.Sublist.refl _)
  · simp only [List.map_append, List.map_cons, List.map_nil]
    exact List.Sublist.append h2 (List.Sublist.refl _)
  · intro i hi
    rcases List.mem_append.mp hi with hi | hi
    · exact h3 i hi
    · simp at hi; subst hi; exact hv
  · intro i hi hd
    rcases List.mem_append.mp hi with hi | hi
    · exact h4 i hi hd
    · simp at hi; subst hi; simp at hd

private theorem inv_subhist (s : St) (adds : List Str) (h' : Hist) (hs : h'.Sublist s.hist)
    (h : Inv s adds) : Inv { s with hist := h' } adds := by
  obtain ⟨ls, hf, hg, h1, h2, h3, h4⟩ := h
  refine ⟨ls, hf, hg, ?_, ?_, ?_, ?_⟩
  · exact List.Sublist.trans
      (List.Sublist.append (List.Sublist.refl _) ((hs.filter _).map _)) h1
  · exact List.Sublist.trans (hs.map _) h2
  · exact fun i hi => h3 i (hs.subset hi)
  · exact fun i hi => h4 i (hs.subset hi)

private theorem deleteOffset_sublist (h : Hist) (off : Int) : (deleteOffset h off).Sublist h := by
  unfold deleteOffset removeNth
  split
  · exact List.Sublist.refl _
  · split
    · exact List.eraseIdx_sublist _ _
    · simp only []
      split
      · exact List.Sublist.refl _
      · exact List.eraseIdx_sublist _ _

private theorem dirtyCmds_clean (h : Hist) (hc : ∀ i ∈ h, i.dirty = false) : dirtyCmds h = [] := by
  simp only [dirtyCmds, List.map_eq_nil_iff, List.filter_eq_nil_iff]
  intro i hi; simp [hc i hi]

/-- appending the unsaved items (`history -a`, `save_history`) -/
private theorem inv_saveA (s : St) (adds : List Str) (h : Inv s adds) :
    Inv { s with hist := (flush s.hist s.file true true s.tsOn).1,
                 file := (flush s.hist s.file true true s.tsOn).2 } adds := by
  obtain ⟨ls, hf, hg, h1, h2, h3, h4⟩ := h
  have hw : ∀ i ∈ s.hist.filter (·.dirty), ValidCmd i.cmd := fun i hi => h3 i (List.mem_filter.mp hi).1
  refine ⟨ls ++ (s.hist.filter (·.dirty)).flatMap (lineList s.tsOn), ?_, ?_, ?_, ?_, ?_, ?_⟩
  · simp only [flush, Bool.not_true, Bool.false_or, ↓reduceIte]
    rw [hf, render_append, flatMap_itemLines]
  · intro l hl
    rcases List.mem_append.mp hl with hl | hl
    · exact hg l hl
    · exact flatMap_lineList_good _ _ hw l hl
  · have hclean : ∀ i ∈ (flush s.hist s.file true true s.tsOn).1, i.dirty = false := by
      intro i hi; simp [flush] at hi; obtain ⟨a, _, rfl⟩ := hi; rfl
    rw [dirtyCmds_clean _ hclean, List.append_nil, List.filter_append, flatMap_lineList_cmds _ _ hw]
    exact h1
  · simpa [flush, Function.comp_def] using h2
  · intro i hi; simp [flush] at hi; obtain ⟨a, ha, rfl⟩ := hi; exact h3 a ha
  · intro i hi _
    simp [flush] at hi; obtain ⟨a, ha, rfl⟩ := hi
    rw [List.filter_append, flatMap_lineList_cmds _ _ hw]
    cases hd : a.dirty with
    | false => exact List.mem_append_left _ (h4 a ha hd)
    | true =>
      apply List.mem_append_right
      exact List.mem_map.mpr ⟨a, List.mem_filter.mpr ⟨ha, by simp [hd]⟩, rfl⟩

/-- starting a new session on the current file -/
private theorem inv_import (s : St) (adds : List Str) (h : Inv s adds) :
    Inv { file := s.file, hist := importFile s.file, tsOn := false } adds := by
  obtain ⟨ls, hf, hg, h1, _, _, _⟩ := h
  have hi : importFile s.file = importGo none ls := by
    simp [importFile, hf, fileLines_render ls hg]
  have hclean := importGo_clean none ls
  have hsub : (ls.filter isCmd).Sublist adds :=
    List.Sublist.trans (List.sublist_append_left _ _) h1
  refine ⟨ls, hf, hg, ?_, ?_, ?_, ?_⟩
  · rw [hi, dirtyCmds_clean _ hclean, List.append_nil]; exact hsub
  · rw [hi, importGo_cmds]; exact hsub
  · intro i hin
    rw [hi] at hin
    have hm : i.cmd ∈ ls.filter isCmd := by
      rw [← importGo_cmds none ls]; exact List.mem_map.mpr ⟨i, hin, rfl⟩
    have := List.mem_filter.mp hm
    exact ⟨hg _ this.1, this.2⟩
  · intro i hin _
    rw [hi] at hin
    rw [← importGo_cmds none ls]; exact List.mem_map.mpr ⟨i, hin, rfl⟩

theorem inv_step (s : St) (adds : List Str) (op : Op) (hok : OpOk op) (hw : NoSaveW op)
    (h : Inv s adds) : Inv (step s op) (adds ++ recordedOp op) := by
  cases op with
  | add c =>
    simp only [step, addToHistory, recordedOp]
    cases he : (trim c).isEmpty with
    | true => simpa using h
    | false => exact inv_push s adds _ _ (hok he) h
  | addS c => exact inv_push s adds c _ hok h
  | saveA => simpa [step, recordedOp] using inv_saveA s adds h
  | saveW => exact absurd hw (by simp [NoSaveW])
  | exitNew =>
    have := inv_import _ adds (inv_saveA s adds h)
    simpa [step, recordedOp] using this
  | killNew => simpa [step, recordedOp] using inv_import s adds h
  | del off => simpa [step, recordedOp] using inv_subhist s adds _ (deleteOffset_sublist _ _) h
  | clear => simpa [step, recordedOp] using inv_subhist s adds [] (List.nil_sublist _) h
  | toggleTs =>
    obtain ⟨ls, hf, hg, h1, h2, h3, h4⟩ := h
    exact ⟨ls, hf, hg, by simpa [step, recordedOp] using h1, by simpa [step, recordedOp] using h2, h3, h4⟩
  | setFile f => exact absurd hok (by simp [OpOk])

theorem inv_run (ops : List Op) : ∀ (s : St) (adds : List Str), Inv s adds →
    (∀ op ∈ ops, OpOk op) → (∀ op ∈ ops, NoSaveW op) → Inv (run s ops) (adds ++ recorded ops) := by
  induction ops with
  | nil => intro s adds h _ _; simpa [run, recorded] using h
  | cons op ops ih =>
    intro s adds h hok hw
    have h1 := inv_step s adds op (hok op (by simp)) (hw op (by simp)) h
    have := ih (step s op) _ h1 (fun o ho => hok o (by simp [ho])) (fun o ho => hw o (by simp [ho]))
    simpa [run, recorded, List.append_assoc] using this

private theorem cmdLines_of_inv (s : St) (ls : List Str) (hf : s.file = render ls)
    (hg : ∀ l ∈ ls, GoodLine l) : cmdLines s.file = ls.filter isCmd := by
  unfold cmdLines
  rw [hf, fileLines_render ls hg]
  congr 1

/-- **Recording order.**  After any operation sequence (any length, any number of sessions) without
`history -w`, the command lines of the history file form a subsequence of the recorded commands,
in recording order. -/
theorem file_in_recording_order_partial (ops : List Op) (hok : ∀ op ∈ ops, OpOk op)
    (hw : ∀ op ∈ ops, NoSaveW op) : (cmdLines (run init ops).file).Sublist (recorded ops) := by
  obtain ⟨ls, hf, hg, h1, _⟩ := by simpa using inv_run ops init [] inv_init hok hw
  rw [cmdLines_of_inv _ ls hf hg]
  exact List.Sublist.trans (List.sublist_append_left _ _) h1

/-- **Exactly once.**  If the recorded commands are pairwise distinct, no command appears twice in
the file. -/
theorem file_exactly_once_partial (ops : List Op) (hok : ∀ op ∈ ops, OpOk op)
    (hw : ∀ op ∈ ops, NoSaveW op) (hd : (recorded ops).Nodup) :
    (cmdLines (run init ops).file).Nodup :=
  (file_in_recording_order_partial ops hok hw).nodup hd

/-- **Nothing saved is missing.**  Right after a save (`history -a` / leaving the shell), every
command the session holds is in the file. -/
theorem saved_session_in_file_partial (ops : List Op) (hok : ∀ op ∈ ops, OpOk op)
    (hw : ∀ op ∈ ops, NoSaveW op) :
    ∀ i ∈ (run init (ops ++ [Op.saveA])).hist, i.cmd ∈ cmdLines (run init (ops ++ [Op.saveA])).file := by
  have hok' : ∀ op ∈ ops ++ [Op.saveA], OpOk op := by
    intro op ho; rcases List.mem_append.mp ho with ho | ho
    · exact hok op ho
    · simp at ho; subst ho; trivial
  have hw' : ∀ op ∈ ops ++ [Op.saveA], NoSaveW op := by
    intro op ho; rcases List.mem_append.mp ho with ho | ho
    · exact hw op ho
    · simp at ho; subst ho; trivial
  obtain ⟨ls, hf, hg, _, _, _, h4⟩ := by simpa using inv_run _ init [] inv_init hok' hw'
  intro i hi
  rw [cmdLines_of_inv _ ls hf hg]
  apply h4 i hi
  have : run init (ops ++ [Op.saveA]) = step (run init ops) Op.saveA := by simp [run, List.foldl_append]
  rw [this] at hi
  simp [step, flush] at hi
  obtain ⟨a, _, rfl⟩ := hi
  rfl

/-- **Reloading yields what was saved.**  A new session started on the file holds exactly the
file's command lines, in order. -/
theorem reload_yields_file_partial (ops : List Op) (hok : ∀ op ∈ ops, OpOk op)
    (hw : ∀ op ∈ ops, NoSaveW op) :
    (importFile (run init ops).file).map (·.cmd) = cmdLines (run init ops).file := by
  obtain ⟨ls, hf, hg, _⟩ := by simpa using inv_run ops init [] inv_init hok hw
  rw [cmdLines_of_inv _ ls hf hg]
  simp [importFile, hf, fileLines_render ls hg, importGo_cmds]

/-- **Saving again adds nothing** — in every state whatsoever. -/
theorem save_twice_adds_nothing (s : St) : step (step s .saveA) .saveA = step s .saveA := by
  simp only [step, flush, Bool.not_true, Bool.false_or, ↓reduceIte, List.map_map]
  have h1 : ∀ (h : Hist), (h.map (fun i => { i with dirty := false })).filter (·.dirty) = [] := by
    intro h; simp [List.filter_eq_nil_iff]
  simp [h1, Function.comp_def]

/-- Full statement (no guard on `history -w`). -/
def exactly_once_full : Prop :=
  ∀ ops : List Op, (∀ op ∈ ops, OpOk op) → (recorded ops).Nodup → (cmdLines (run init ops).file).Nodup

/-- `add a; history -w; history -a` writes `a` twice. -/
theorem exactly_once_full_cex : ¬ exactly_once_full := by
  intro h
  have := h [.add ['a'], .saveW, .saveA] (by
    intro op ho
    simp at ho
    rcases ho with rfl | rfl | rfl
    · intro _; refine ⟨⟨by decide, by decide⟩, by decide⟩
    · trivial
    · trivial) (by decide)
  revert this
  decide

/-- Why the property excludes commands starting with `#`: they are written but not reloaded. -/
theorem hash_command_not_reloaded :
    (importFile (run init [.addS ['#', 'x'], .saveA]).file).map (·.cmd) = [] ∧
    (run init [.addS ['#', 'x'], .saveA]).file = ['#', 'x', '\n'] := by decide

/-- Why the property excludes multi-line commands: they reload as two commands. -/
theorem multiline_command_splits :
    (importFile (run init [.addS ['a', '\n', 'b'], .saveA]).file).map (·.cmd) = [['a'], ['b']] := by decide

/-- non-vacuity: a concrete sequence (two sessions, deletion, timestamps) meets every hypothesis -/
example : let ops : List Op := [.add "echo a".toList, .toggleTs, .saveA, .add " b ".toList, .exitNew,
                               .del (-1), .addS "c d".toList, .killNew, .add "e".toList, .saveA]
    (∀ op ∈ ops, OpOk op) ∧ (∀ op ∈ ops, NoSaveW op) ∧ (recorded ops).Nodup ∧
    cmdLines (run init ops).file = ["echo a".toList, "b".toList, "e".toList] := by
  refine ⟨?_, ?_, by decide, by decide⟩
  · intro op ho
    simp at ho
    rcases ho with rfl | rfl | rfl | rfl | rfl | rfl | rfl | rfl | rfl | rfl <;>
      first | trivial | (intro _; exact ⟨⟨by decide, by decide⟩, by decide⟩) | exact ⟨⟨by decide, by decide⟩, by decide⟩
  · intro op ho
    simp at ho
    rcases ho with rfl | rfl | rfl | rfl | rfl | rfl | rfl | rfl | rfl | rfl <;> trivial

end BrushVerif.C20
