import BrushVerif.Proofs.Pipe
/-!
# C11 — pipelines and command substitutions move all data, in order, without deadlock

Property theorems over `Model/Pipe.lean`.  Quantifiers: every number of stages, every payload
(any length — no relation to the pipe capacity is assumed), every pipe capacity `cap ≥ 1`, every
schedule (which stage acts next and how large a block it moves), every per-stage behaviour
(byte map, early exit after any number of bytes, consuming without writing, SIGPIPE or not).

brush starts compound-command and function stages *inline* (to completion, before the next stage
is started).  A stage that is not last and writes more than the pipe holds then blocks forever
(`inline_nonfinal_deadlocks`), so liveness is proved under the guard "every stage but the last is
started concurrently, or the payload fits in one pipe" (`pipeline_live_partial`).
A builtin whose write fails with EPIPE merely returns 141, so a stage made of shell code survives
its reader (`early_exit_full_cex`); the SIGPIPE law carries the guard `sigpipe = true`.
-/
namespace BrushVerif.C11
open BrushVerif.Wire BrushVerif.Pipe

/-! ## liveness -/

/-- **Every schedule terminates**, for every pipeline whatsoever (inline or not): there is no
infinite sequence of actions.  So a pipeline either finishes or reaches a state where nobody can move. -/
theorem every_schedule_terminates (cap : Nat) : WellFounded (fun s' s : State => Step cap s s') :=
  Subrelation.wf (fun {a b} h => step_meas cap b a h)
    (InvImage.wf (fun s : State => meas 0 s.cells) Nat.lt_wfRel.wf)

private theorem specs_steps (cap : Nat) (s t : State) (h : Steps cap s t) :
    specsOf t.cells = specsOf s.cells := by
  induction h with
  | refl => rfl
  | tail _ hstep ih =>
    obtain ⟨p, n, h⟩ := hstep
    simp only [act, Option.map_eq_some_iff] at h
    obtain ⟨r, hr, rfl⟩ := h
    rw [← ih]; exact stepAt_specs cap n p true true _ _ r hr

private theorem step_of_isSome (cap p : Nat) (s : State)
    (h : (stepAt cap 0 p true true s.cells s.out).isSome = true) : ∃ s', Step cap s s' := by
  obtain ⟨r, hr⟩ := Option.isSome_iff_exists.mp h
  exact ⟨{ cells := r.1, out := r.2 }, p, 0, by simp [act, hr]⟩

/-- **No deadlock when the stages run concurrently** — whatever the stages do (maps, early exit
after any number of bytes, readers that never read, writers with or without SIGPIPE), whatever
the payload size and the pipe capacity: every reachable state that is not finished can move. -/
theorem concurrent_never_stuck (cap : Nat) (hcap : 1 ≤ cap) (specs : List Spec)
    (hconc : NonFinalConcurrent specs) (input : List Byte) (s : State)
    (hreach : Steps cap (init specs input) s) : ¬ Stuck cap s := by
  intro ⟨hnd, hns⟩
  have hsp : specsOf s.cells = specs := by
    rw [specs_steps cap _ _ hreach]; exact specsOf_mkCells specs input
  rcases progress cap hcap s.out s.cells true (by rw [hsp]; exact hconc) with ⟨p, h⟩ | h | ⟨h, _⟩
  · obtain ⟨s', hs'⟩ := step_of_isSome cap p s h
    exact hns s' hs'
  · exact hnd h
  · cases h

/-- invariant of filter pipelines: nothing lost, duplicated or reordered so far -/
private structure PInv (specs : List Spec) (input : List Byte) (s : State) : Prop where
  hspecs : specsOf s.cells = specs
  hord : Ordered true s.cells
  hcons : s.out ++ future [] s.cells = through specs input

private theorem pinv_preserved (cap : Nat) (specs : List Spec) (hpure : ∀ sp ∈ specs, PureSpec sp)
    (input : List Byte) (s0 s : State) (h : Steps cap s0 s) (h0 : PInv specs input s0) :
    PInv specs input s := by
  induction h with
  | refl => exact h0
  | tail _ hstep ih =>
    have inv := ih
    obtain ⟨p, n, h⟩ := hstep
    simp only [act, Option.map_eq_some_iff] at h
    obtain ⟨r, hr, rfl⟩ := h
    have h1 := stepAt_specs cap n p true true _ _ r hr
    have h2 := stepAt_pure cap n p true true _ _ r [] (by rw [inv.hspecs]; exact hpure) inv.hord hr
    exact ⟨by rw [← inv.hspecs]; exact h1, h2.1, by rw [← inv.hcons]; exact h2.2⟩

private theorem pinv_steps (cap : Nat) (specs : List Spec) (hne : specs ≠ [])
    (hpure : ∀ sp ∈ specs, PureSpec sp) (input : List Byte) (s : State)
    (h : Steps cap (init specs input) s) : PInv specs input s := by
  apply pinv_preserved cap specs hpure input _ s h
  cases specs with
  | nil => exact absurd rfl hne
  | cons sp sps =>
    exact ⟨specsOf_mkCells _ _, ordered_mkCells _ _ _, by simp [init, future_init]⟩

/-- **All data, in order, exactly once, whatever the size and the schedule.**  For a pipeline of
filters (each stage maps bytes; any number of stages) whose stages are started concurrently:
every schedule terminates, no reachable state is a deadlock, and when the pipeline has finished
its output is exactly the input pushed through the stages' maps — for every payload length and
every pipe capacity. -/
theorem all_concurrent_live (cap : Nat) (hcap : 1 ≤ cap) (specs : List Spec) (hne : specs ≠ [])
    (hpure : ∀ sp ∈ specs, PureSpec sp) (hconc : NonFinalConcurrent specs) (input : List Byte) :
    WellFounded (fun s' s : State => Step cap s s') ∧
    ∀ s, Steps cap (init specs input) s →
      ((∃ s', Step cap s s') ∨ Done s) ∧ (Done s → s.out = through specs input) := by
  refine ⟨every_schedule_terminates cap, fun s hreach => ⟨?_, ?_⟩⟩
  · have hns := concurrent_never_stuck cap hcap specs hconc input s hreach
    by_cases hd : Done s
    · exact Or.inr hd
    · left
      apply Classical.byContradiction
      intro hno
      exact hns ⟨hd, fun s' hs' => hno ⟨s', hs'⟩⟩
  · intro hd
    have inv := pinv_steps cap specs hne hpure input s hreach
    have := future_done s.cells true hd inv.hord
    have hc := inv.hcons
    rw [this, List.append_nil] at hc
    exact hc

def catSpec (inline : Bool) : Spec := { inline := inline, f := id, limit := none, emit := true, sigpipe := true }
def trSpec (inline : Bool) : Spec :=
  { inline := inline, f := fun b => if 97 ≤ b ∧ b ≤ 121 then b + 1 else b, limit := none, emit := true, sigpipe := true }

/-- non-vacuity: `cat F | tr a-y b-z | { cat; }` (inline only in last position), capacity 2,
5 bytes: a complete run exists and delivers the mapped input -/
example : let specs := [catSpec false, trSpec false, catSpec true]
    (∀ sp ∈ specs, PureSpec sp) ∧ NonFinalConcurrent specs ∧
    isDone (run 2 7 true 100 (init specs [97, 98, 10, 121, 122])) = true ∧
    (run 2 7 true 100 (init specs [97, 98, 10, 121, 122])).out = [98, 99, 10, 122, 122] := by
  refine ⟨?_, ?_, by decide, by decide⟩
  · intro sp h; simp at h; rcases h with rfl | rfl | rfl <;> exact ⟨rfl, rfl⟩
  · exact ⟨rfl, rfl, trivial⟩

private theorem stepAt_nil (cap n p : Nat) (u v : Bool) (out : List Byte) :
    stepAt cap n p u v [] out = none := by
  cases p <;> simp [stepAt, headAct]

/-- **The recorded defect.**  `{ cat F; } | cat` (a compound command that is not the last stage)
with a payload larger than the pipe: for every capacity and every such payload a deadlock is
reachable — stage 0 has filled the pipe, brush is still executing it and has not started its reader. -/
theorem inline_nonfinal_deadlocks (cap : Nat) (hcap : 1 ≤ cap) (input : List Byte)
    (hbig : cap < input.length) :
    ∃ s, Steps cap (init [catSpec true, catSpec false] input) s ∧ Stuck cap s := by
  let c1 : Cell := { spec := catSpec true, buf := input, st := .running 0 false }
  let d0 : Cell := { spec := catSpec false, buf := [], st := .notStarted }
  let c2 : Cell := { spec := catSpec true, buf := input.drop cap, st := .running (0 + cap) false }
  let d2 : Cell := { spec := catSpec false, buf := [] ++ (input.take cap).map id, st := .notStarted }
  have e1 : act cap 0 0 (init [catSpec true, catSpec false] input) = some { cells := [c1, d0], out := [] } := by
    simp [act, stepAt, headAct, init, mkCells, c1, d0]
  have hlen : (List.take (cap - 1 + 1) input).length = cap := by
    simp [List.length_take]; omega
  have e2 : act cap (cap - 1) 0 { cells := [c1, d0], out := [] } = some { cells := [c2, d2], out := [] } := by
    have hne : input ≠ [] := by intro h; simp [h] at hbig
    have hcc : cap - 1 + 1 = cap := by omega
    simp only [act, stepAt, headAct, c1, d0, c2, d2, catSpec, limitReached, remaining, hlen]
    simp [hne, St.isExited, hcc]
    omega
  refine ⟨{ cells := [c2, d2], out := [] }, ?_, ?_, ?_⟩
  · exact Steps.tail (Steps.tail (Steps.refl _) ⟨0, 0, e1⟩) ⟨0, cap - 1, e2⟩
  · intro hd
    have := hd c2 (by simp)
    simp [c2, St.isExited] at this
  · intro s' ⟨p, n, h⟩
    have hdrop : input.drop cap ≠ [] := by
      intro h0
      have := congrArg List.length h0
      simp [List.length_drop] at this; omega
    have hd2 : d2.buf.length = cap := by simp [d2, List.length_take]; omega
    cases p with
    | zero =>
      simp only [act, stepAt, headAct, c2, catSpec, limitReached, remaining] at h
      simp [hdrop, St.isExited, d2, List.length_take] at h
      omega
    | succ p =>
      cases p with
      | zero => simp [act, stepAt, headAct, spawnOK, c2, d2, catSpec, St.isStarted, St.isExited] at h
      | succ p => simp [act, stepAt, stepAt_nil] at h

private theorem inflight_steps (cap : Nat) (s t : State) (h : Steps cap s t) :
    inFlight t.cells ≤ inFlight s.cells := by
  induction h with
  | refl => exact Nat.le_refl _
  | tail _ hstep ih =>
    obtain ⟨p, n, h⟩ := hstep
    simp only [act, Option.map_eq_some_iff] at h
    obtain ⟨r, hr, rfl⟩ := h
    exact Nat.le_trans (stepAt_inFlight cap n p true true _ _ r hr) ih

/-- **A payload that fits in one pipe never blocks**, however the stages are started (inline
stages anywhere) and whatever they do. -/
theorem small_payload_never_stuck (cap : Nat) (specs : List Spec) (input : List Byte)
    (hfit : input.length ≤ cap) (s : State) (hreach : Steps cap (init specs input) s) : ¬ Stuck cap s := by
  intro ⟨hnd, hns⟩
  have hfl : inFlight s.cells ≤ cap :=
    Nat.le_trans (inflight_steps cap _ _ hreach) (Nat.le_trans (inFlight_mkCells specs input) hfit)
  rcases progress_room cap s.out s.cells true true hfl with ⟨p, h⟩ | h | h
  · obtain ⟨s', hs'⟩ := step_of_isSome cap p s h
    exact hns s' hs'
  · exact hnd h
  · cases hc : s.cells with
    | nil => rw [hc] at h; cases h
    | cons c cs =>
      rw [hc] at h
      rcases h with ⟨h, _⟩ | ⟨h, _⟩ <;> cases h

/-- the unguarded liveness statement: no pipeline ever deadlocks -/
def pipeline_live_full : Prop :=
  ∀ (cap : Nat), 1 ≤ cap → ∀ (specs : List Spec) (input : List Byte) (s : State),
    Steps cap (init specs input) s → ¬ Stuck cap s

theorem pipeline_live_full_cex : ¬ pipeline_live_full := by
  intro h
  obtain ⟨s, hs, hstuck⟩ := inline_nonfinal_deadlocks 1 (by decide) [1, 2] (by decide)
  exact h 1 (by decide) _ _ s hs hstuck

/-- **Liveness under the guard** "every stage that is not last is started concurrently, or the
payload fits in one pipe": for all stage behaviours, payloads, capacities and schedules the
pipeline terminates and never deadlocks. -/
theorem pipeline_live_partial (cap : Nat) (hcap : 1 ≤ cap) (specs : List Spec) (input : List Byte)
    (hguard : NonFinalConcurrent specs ∨ input.length ≤ cap) :
    WellFounded (fun s' s : State => Step cap s s') ∧
    ∀ s, Steps cap (init specs input) s → ¬ Stuck cap s := by
  refine ⟨every_schedule_terminates cap, fun s h => ?_⟩
  rcases hguard with hg | hg
  · exact concurrent_never_stuck cap hcap specs hg input s h
  · exact small_payload_never_stuck cap specs input hg s h

/-- non-vacuity of the second disjunct: `{ cat; } | ( tr ) | cat` (inline stages that are not last)
with 3 bytes and capacity 4 -/
example : (¬ NonFinalConcurrent [catSpec true, trSpec true, catSpec false]) ∧ [1, 2, 3].length ≤ 4 ∧
    isDone (run 4 7 true 100 (init [catSpec true, trSpec true, catSpec false] [97, 98, 10])) = true := by
  refine ⟨fun h => by simp [catSpec] at h; exact absurd h.1 (by decide), by decide, by decide⟩

/-- non-vacuity of the guard with an early-exit reader and a reader that never reads:
`cat F | head -c 1 | :`  -/
example : NonFinalConcurrent [catSpec false, { catSpec false with limit := some 1 },
    { catSpec true with limit := some 0, emit := false }] := ⟨rfl, rfl, trivial⟩

/-! ## a reader that exits early ends its writer -/

/-- **SIGPIPE.**  A running writer that has data to write, whose reader has exited and which dies
of SIGPIPE (`sigpipe`: external programs, single builtins), does exactly one thing, whatever the
scheduler's chunk: it exits with 141, consuming nothing more. -/
theorem early_exit_reader_ends_writer_partial (cap n : Nat) (u v : Bool) (c d : Cell) (ds : List Cell)
    (out : List Byte) (fwd : Nat) (failed : Bool) (hs : c.spec.sigpipe = true)
    (hc : c.st = .running fwd failed) (hd : d.st.isExited = true) (he : c.spec.emit = true)
    (hl : limitReached c fwd = false) (hb : c.buf ≠ []) :
    headAct cap n u v (c :: d :: ds) out = some ({ c with st := .exited 141 } :: d :: ds, out) := by
  have hrem := remaining_pos c fwd n hl
  have htk : (c.buf.take (n + 1)).length ≠ 0 := by
    cases hcb : c.buf with
    | nil => exact absurd hcb hb
    | cons x r => simp
  have hm : min (c.buf.take (n + 1)).length (remaining c fwd n) ≠ 0 := by omega
  have hbe : c.buf.isEmpty = false := by cases hcb : c.buf <;> simp_all
  simp only [headAct, hc, hl, hbe]
  simp [he, hd, hs]
  exact ⟨hb, by omega⟩

/-- the same without the guard `sigpipe = true` -/
def early_exit_full : Prop :=
  ∀ (cap n : Nat) (u v : Bool) (c d : Cell) (ds : List Cell) (out : List Byte) (fwd : Nat) (failed : Bool),
    c.st = .running fwd failed → d.st.isExited = true → c.spec.emit = true →
    limitReached c fwd = false → c.buf ≠ [] →
    headAct cap n u v (c :: d :: ds) out = some ({ c with st := .exited 141 } :: d :: ds, out)

/-- `eval 'while read l; do echo $l; done' | head -n 1`: the failing `echo` returns 141 and the
loop goes on reading — the writer is still running after the action. -/
theorem early_exit_full_cex : ¬ early_exit_full := by
  intro h
  have := h 4 0 false true
    { spec := { catSpec false with sigpipe := false }, buf := [1, 2, 3], st := .running 0 false }
    { spec := catSpec false, buf := [], st := .exited 0 } [] [] 0 false rfl rfl rfl rfl (by decide)
  revert this
  simp [headAct, limitReached, remaining, catSpec, St.isExited]

/-! ## `$?` and `PIPESTATUS` -/

/-- `PIPESTATUS` lists every stage's status, in order. -/
theorem pipestatus_lists_all_stages (pf bang : Bool) (cs : List Nat) : (waitAll pf bang cs).2 = cs := by
  have h : ∀ (cs : List Nat) (a : WaitAcc), (cs.foldl waitOne a).statuses = a.statuses ++ cs := by
    intro cs
    induction cs with
    | nil => intro a; simp
    | cons c cs ih => intro a; simp [List.foldl_cons, ih, waitOne]
  simp [waitAll, h]

/-- bash: "the exit status of the rightmost command to exit with a non-zero status" -/
def rightmostFailure : List Nat → Option Nat
  | [] => none
  | c :: cs =>
    match rightmostFailure cs with
    | some f => some f
    | none => if c ≠ 0 then some c else none

private theorem fold_lastFailure (cs : List Nat) : ∀ a : WaitAcc,
    (cs.foldl waitOne a).lastFailure = (match rightmostFailure cs with | some f => some f | none => a.lastFailure) := by
  induction cs with
  | nil => intro a; simp [rightmostFailure]
  | cons c cs ih =>
    intro a
    simp only [List.foldl_cons, ih, rightmostFailure]
    cases rightmostFailure cs with
    | some f => rfl
    | none => by_cases hc : c = 0 <;> simp [waitOne, hc]

private theorem fold_result (cs : List Nat) : ∀ a : WaitAcc,
    (cs.foldl waitOne a).result = (cs.getLast?).getD a.result := by
  induction cs with
  | nil => intro a; simp
  | cons c cs ih =>
    intro a
    simp only [List.foldl_cons, ih]
    cases cs with
    | nil => simp [waitOne]
    | cons d ds =>
      cases hl : (d :: ds).getLast? with
      | none => simp at hl
      | some l => simp [hl]

private theorem rightmostFailure_none (cs : List Nat) (h : rightmostFailure cs = none) : ∀ c ∈ cs, c = 0 := by
  induction cs with
  | nil => intro c hc; cases hc
  | cons x xs ih =>
    simp only [rightmostFailure] at h
    cases hx : rightmostFailure xs with
    | some f => simp [hx] at h
    | none =>
      simp [hx] at h
      intro c hc
      rcases List.mem_cons.mp hc with rfl | hc
      · exact h
      · exact ih hx c hc

/-- **pipefail.**  With `pipefail`, `$?` is the status of the rightmost failing stage, and 0
exactly when every stage succeeded; without it, the status of the last stage. -/
theorem pipefail_status (cs : List Nat) :
    (waitAll true false cs).1 = (rightmostFailure cs).getD 0 ∧
    ((waitAll true false cs).1 = 0 ↔ ∀ c ∈ cs, c = 0) ∧
    (waitAll false false cs).1 = (cs.getLast?).getD 0 := by
  have h1 : (waitAll true false cs).1 = (rightmostFailure cs).getD 0 := by
    simp only [waitAll, fold_lastFailure, fold_result]
    cases hr : rightmostFailure cs with
    | some f => simp
    | none =>
      have hz := rightmostFailure_none cs hr
      simp
      cases hl : cs.getLast? with
      | none => simp
      | some l => simp; exact hz l (List.mem_of_getLast? hl)
  refine ⟨h1, ?_, by simp [waitAll, fold_result]⟩
  rw [h1]
  constructor
  · intro h0
    cases hr : rightmostFailure cs with
    | none => exact rightmostFailure_none cs hr
    | some f =>
      rw [hr] at h0
      simp at h0
      subst h0
      -- a recorded failure is never 0
      exfalso
      have : ∀ (l : List Nat) (f : Nat), rightmostFailure l = some f → f ≠ 0 := by
        intro l
        induction l with
        | nil => intro f h; simp [rightmostFailure] at h
        | cons x xs ih =>
          intro f h
          simp only [rightmostFailure] at h
          cases hx : rightmostFailure xs with
          | some g => rw [hx] at h; simp at h; subst h; exact ih g hx
          | none =>
            rw [hx] at h
            by_cases hx0 : x = 0
            · simp [hx0] at h
            · simp [hx0] at h; subst h; exact hx0
      exact this cs 0 hr rfl
  · intro hz
    cases hr : rightmostFailure cs with
    | none => simp
    | some f =>
      exfalso
      have : ∀ (l : List Nat) (f : Nat), rightmostFailure l = some f → f ∈ l ∧ f ≠ 0 := by
        intro l
        induction l with
        | nil => intro f h; simp [rightmostFailure] at h
        | cons x xs ih =>
          intro f h
          simp only [rightmostFailure] at h
          cases hx : rightmostFailure xs with
          | some g =>
            rw [hx] at h; simp at h; subst h
            exact ⟨List.mem_cons_of_mem _ (ih g hx).1, (ih g hx).2⟩
          | none =>
            rw [hx] at h
            by_cases hx0 : x = 0
            · simp [hx0] at h
            · simp [hx0] at h; subst h; exact ⟨by simp, hx0⟩
      have := this cs f hr
      exact this.2 (hz f this.1)

example : waitAll true false [3, 5, 0] = (5, [3, 5, 0]) ∧ waitAll false false [3, 5, 0] = (0, [3, 5, 0]) ∧
    waitAll true true [0, 0] = (1, [0, 0]) := by decide

/-! ## `$(cmd)` -/

private theorem dropWhile_replicate_append (k : Nat) (l : Str) :
    (List.replicate k '\n' ++ l).dropWhile (· = '\n') = l.dropWhile (· = '\n') := by
  induction k with
  | zero => simp
  | succ k ih => simp [List.replicate_succ, ih]

/-- **`$(cmd)` is cmd's output minus the trailing newlines** — all of them and nothing else: for
every text `t` that does not end in a newline and every number `k` of newlines after it. -/
theorem cmdsubst_output_minus_trailing_newlines (t : Str) (k : Nat) (h : t.getLast? ≠ some '\n') :
    dropTrailingNewlines (t ++ List.replicate k '\n') = t := by
  unfold dropTrailingNewlines
  rw [List.reverse_append, List.reverse_replicate, dropWhile_replicate_append]
  have : t.reverse.dropWhile (· = '\n') = t.reverse := by
    cases hr : t.reverse with
    | nil => rfl
    | cons x xs =>
      have hx : t.getLast? = some x := by
        rw [List.getLast?_eq_head?_reverse, hr]; rfl
      have : x ≠ '\n' := by intro hx'; subst hx'; exact h hx
      simp [this]
  rw [this, List.reverse_reverse]

example : dropTrailingNewlines "a\nb\n\n\n".toList = "a\nb".toList ∧ dropTrailingNewlines "\n\n".toList = [] := by decide

/-- The substitution's reader drains the pipe while the command runs
(`invoke_command_in_subshell_and_get_output`: the command is a spawned task, the reader is
concurrent): the two-stage instance of `all_concurrent_live` — any output size, any capacity. -/
theorem cmdsubst_drains_any_size (cap : Nat) (hcap : 1 ≤ cap) (f : Byte → Byte) (output : List Byte) (s : State)
    (h : Steps cap (init [{ catSpec false with f := f }, catSpec false] output) s) :
    ((∃ s', Step cap s s') ∨ Done s) ∧ (Done s → s.out = output.map f) := by
  have := (all_concurrent_live cap hcap [{ catSpec false with f := f }, catSpec false] (by simp)
    (by intro sp hsp; simp at hsp; rcases hsp with rfl | rfl <;> exact ⟨rfl, rfl⟩) ⟨rfl, trivial⟩ output).2 s h
  simpa [through, catSpec] using this

/-! ## `read` -/

/-- **`read` consumes exactly one line**: what it returns plus the delimiter plus what is left on
the descriptor is the descriptor's content; the line holds no newline; at EOF nothing is left. -/
theorem read_consumes_exactly_one_line (s : List Char) :
    '\n' ∉ (readLine s).1 ∧
    ((readLine s).2.1 = true → s = (readLine s).1 ++ '\n' :: (readLine s).2.2) ∧
    ((readLine s).2.1 = false → s = (readLine s).1 ∧ (readLine s).2.2 = []) := by
  induction s with
  | nil => simp [readLine]
  | cons c cs ih =>
    by_cases hc : c = '\n'
    · subst hc; simp [readLine]
    · obtain ⟨h1, h2, h3⟩ := ih
      simp only [readLine, hc, ↓reduceIte]
      refine ⟨?_, ?_, ?_⟩
      · intro hm
        rcases List.mem_cons.mp hm with h | h
        · exact hc h.symm
        · exact h1 h
      · intro ht; have := h2 ht; simp only [List.cons_append]; rw [← this]
      · intro hf; have := h3 hf; exact ⟨by rw [← this.1], this.2⟩

/-- successive `read`s on one descriptor see consecutive lines: k reads then the rest re-assemble
the content (when every read found its newline) -/
theorem reads_partition_descriptor (k : Nat) : ∀ (s : List Char),
    (∀ l ∈ (readLines k s).1, '\n' ∉ l) ∧
    ∃ pre, s = pre ++ (readLines k s).2 := by
  induction k with
  | zero => intro s; exact ⟨by simp [readLines], [], by simp [readLines]⟩
  | succ k ih =>
    intro s
    obtain ⟨h1, pre, hpre⟩ := ih (readLine s).2.2
    obtain ⟨r1, r2, r3⟩ := read_consumes_exactly_one_line s
    refine ⟨?_, ?_⟩
    · intro l hl
      simp only [readLines, List.mem_cons] at hl
      rcases hl with rfl | hl
      · exact r1
      · exact h1 l hl
    · cases hb : (readLine s).2.1 with
      | true =>
        refine ⟨(readLine s).1 ++ '\n' :: pre, ?_⟩
        have := r2 hb
        simp only [readLines, List.append_assoc, List.cons_append]
        rw [← hpre]; exact this
      | false =>
        have := r3 hb
        refine ⟨s, ?_⟩
        simp only [readLines]
        rw [this.2] at hpre
        have hnil : (readLines k []).2 = [] := by
          have : pre ++ (readLines k []).2 = [] := hpre.symm
          exact (List.append_eq_nil_iff.mp this).2
        rw [this.2, hnil, List.append_nil]

example : readLines 2 "l1\nl2\nl3\n".toList = (["l1".toList, "l2".toList], "l3\n".toList) := by decide

/-! ## the substitution's value does not depend on how the pipe happened to be read -/

private theorem splitBy_flatten (sizes : List Nat) : ∀ s : List Byte, (splitBy sizes s).flatten = s := by
  induction sizes with
  | nil => intro s; simp [splitBy]
  | cons n ns ih => intro s; simp [splitBy, ih, List.take_append_drop]

/-- **The value of `$(cmd)` is independent of the chunking**: however the output is cut into reads
(any sizes, any number), the reader returns the decoding of the whole output — in particular a
multi-byte character that straddles a read boundary is decoded like any other. -/
theorem chunks_concat_independent_of_chunking (decode : List Byte → Str) (sizes sizes' : List Nat)
    (s : List Byte) :
    readToEnd decode (splitBy sizes s) = decode s ∧
    readToEnd decode (splitBy sizes s) = readToEnd decode (splitBy sizes' s) := by
  simp [readToEnd, splitBy_flatten]

/-- Decoding chunk by chunk is the same thing only for a decoder that distributes over
concatenation (a bytewise one) … -/
theorem chunkwise_ok_for_homomorphic_decoder (decode : List Byte → Str)
    (hnil : decode [] = []) (hom : ∀ a b, decode (a ++ b) = decode a ++ decode b)
    (chunks : List (List Byte)) : readChunkwise decode chunks = readToEnd decode chunks := by
  induction chunks with
  | nil => simp [readChunkwise, readToEnd, hnil]
  | cons c cs ih =>
    simp only [readChunkwise, readToEnd, List.map_cons, List.flatten_cons] at ih ⊢
    rw [hom, ih]

/-- a toy lossy decoder for a two-byte character `200 150`: anything incomplete becomes `?` -/
private def lossyGo : Bool → List Byte → Str
  | false, [] => []
  | true, [] => ['?']
  | false, a :: r => if a = 200 then lossyGo true r else (if a < 128 then Char.ofNat a else '?') :: lossyGo false r
  | true, a :: r => if a = 150 then 'E' :: lossyGo false r else '?' :: '?' :: lossyGo false r

/-- … and a lossy multi-byte decoder is not one: the same output read as one chunk or cut inside
the character gives different values (the regression class "decode each read on its own"). -/
theorem chunkwise_lossy_decoder_cex :
    readToEnd (lossyGo false) (splitBy [0] [200, 150, 97]) = ['E', 'a'] ∧
    readChunkwise (lossyGo false) (splitBy [0] [200, 150, 97]) ≠ readToEnd (lossyGo false) (splitBy [0] [200, 150, 97]) := by
  decide

example : splitBy [1, 0] [1, 2, 3, 4, 5] = [[1, 2], [3], [4, 5]] := by decide

/-! ## `$(cmd)` hands back cmd's status -/

private theorem performSubsts_spec (codes : List Nat) : ∀ r : StatusReg,
    (performSubsts r codes).changes = r.changes + codes.length ∧
    (performSubsts r codes).status = (codes.getLast?).getD r.status := by
  induction codes with
  | nil => intro r; simp [performSubsts]
  | cons c cs ih =>
    intro r
    have := ih (r.set c)
    simp only [performSubsts, List.foldl_cons] at this ⊢
    refine ⟨by rw [this.1]; simp [StatusReg.set]; omega, ?_⟩
    rw [this.2]
    cases cs with
    | nil => simp [StatusReg.set]
    | cons d ds =>
      cases hl : (d :: ds).getLast? with
      | none => simp at hl
      | some l => simp [List.getLast?_cons_cons, hl]

/-- **The status of an assignment-only command is that of the last substitution performed, else 0**
— whatever `$?` was before (in particular when it already equals the substitution's status), for any
number of substitutions in any number of assignment words. -/
theorem assignment_status_is_last_substitution (prior : StatusReg) (codes : List Nat) :
    (statusAfter prior codes .assignOnly).status = (codes.getLast?).getD 0 := by
  have h := performSubsts_spec codes prior
  simp only [statusAfter]
  cases codes with
  | nil => simp [performSubsts, StatusReg.set]
  | cons c cs =>
    have hne : (performSubsts prior (c :: cs)).changes ≠ prior.changes := by rw [h.1]; simp
    simp only [hne, ↓reduceIte, h.2]
    cases hl : (c :: cs).getLast? with
    | none => simp at hl
    | some l => simp

/-- With a command word (`declare`, `local`, `export`, `true`, …) the status is the command's own,
whatever the substitutions in its words returned. -/
theorem command_status_ignores_substitutions (prior : StatusReg) (codes : List Nat) (st : Nat) :
    (statusAfter prior codes (.command st)).status = st := by
  simp [statusAfter, StatusReg.set]

/-- A status register that does not count re-storing the same value breaks the law exactly when the
substitution's status equals the previous `$?`:  `false; x=$(false); echo $?`. -/
theorem assignment_status_needs_every_store_counted :
    (statusAfterAssignVariant { status := 1, changes := 7 } [1]).status = 0 ∧
    (statusAfter { status := 1, changes := 7 } [1] .assignOnly).status = 1 ∧
    (statusAfterAssignVariant { status := 3, changes := 7 } [1]).status = 1 := by decide

example : (statusAfter { status := 3, changes := 0 } [2, 3] .assignOnly).status = 3 ∧
    (statusAfter { status := 3, changes := 0 } [] .assignOnly).status = 0 ∧
    (statusAfter { status := 3, changes := 0 } [3] (.command 0)).status = 0 := by decide

/-! ## consumers sharing a descriptor partition its content -/

private theorem takeUntil_raw (d : Char) (s : List Char) :
    (takeUntil d s).1 ++ (if (takeUntil d s).2.1 then [d] else []) ++ (takeUntil d s).2.2 = s ∧
    d ∉ (takeUntil d s).1 ∧ ((takeUntil d s).2.1 = false → (takeUntil d s).2.2 = []) := by
  induction s with
  | nil => simp [takeUntil]
  | cons c cs ih =>
    by_cases hc : c = d
    · subst hc; simp [takeUntil]
    · obtain ⟨h1, h2, h3⟩ := ih
      simp only [takeUntil, hc, ↓reduceIte]
      refine ⟨by simpa using h1, ?_, h3⟩
      intro hm
      rcases List.mem_cons.mp hm with h | h
      · exact hc h.symm
      · exact h2 h

private theorem takeN_raw (d : Char) (n : Nat) : ∀ s : List Char,
    (takeN d n s).1 ++ (if (takeN d n s).2.1 then [d] else []) ++ (takeN d n s).2.2 = s ∧
    (takeN d n s).1.length ≤ n ∧ d ∉ (takeN d n s).1 := by
  induction n with
  | zero => intro s; simp [takeN]
  | succ n ih =>
    intro s
    cases s with
    | nil => simp [takeN]
    | cons c cs =>
      by_cases hc : c = d
      · subst hc; simp [takeN]
      · obtain ⟨h1, h2, h3⟩ := ih cs
        simp only [takeN, hc, ↓reduceIte]
        refine ⟨by simpa using h1, by simp; omega, ?_⟩
        intro hm
        rcases List.mem_cons.mp hm with h | h
        · exact hc h.symm
        · exact h3 h

private theorem applyOp_raw (op : ReadOp) (s : List Char) : (applyOp op s).1.raw ++ (applyOp op s).2 = s := by
  cases op with
  | line d => simpa [applyOp, pieceOf] using (takeUntil_raw d s).1
  | nchars n => simpa [applyOp, pieceOf] using (takeN_raw '\n' n s).1
  | mapfile1 => simpa [applyOp, pieceOf] using (takeUntil_raw '\n' s).1

/-- **Nothing is lost between consumers of one descriptor**: for every sequence of `read`,
`read -d`, `read -n`, `mapfile -n 1` and every content, what they removed, in order, followed by
what is left for the next reader (`cat`), is the content — whatever the descriptor is. -/
theorem consumers_partition_input (ops : List ReadOp) : ∀ s : List Char,
    ((runOps ops s).1.flatMap (·.raw)) ++ (runOps ops s).2 = s := by
  induction ops with
  | nil => intro s; simp [runOps]
  | cons op ops ih =>
    intro s
    have h1 := applyOp_raw op s
    have h2 := ih (applyOp op s).2
    simp only [runOps, List.flatMap_cons, List.append_assoc]
    rw [h2, h1]

/-- **Each `read` takes exactly one line**: it removes its value plus the delimiter and nothing
else (at end of input: the unterminated tail, leaving nothing); the value holds no delimiter.
`read -n k` removes at most `k` characters (plus the newline if it came first). -/
theorem each_read_takes_exactly_its_line (d : Char) (n : Nat) (s : List Char) :
    ((applyOp (.line d) s).1.raw = (applyOp (.line d) s).1.value ++ [d] ∨
      ((applyOp (.line d) s).1.raw = (applyOp (.line d) s).1.value ∧ (applyOp (.line d) s).2 = [])) ∧
    d ∉ (applyOp (.line d) s).1.value ∧
    (applyOp (.nchars n) s).1.value.length ≤ n ∧ (applyOp (.nchars n) s).1.raw.length ≤ n + 1 := by
  have h := takeUntil_raw d s
  have hn := takeN_raw '\n' n s
  refine ⟨?_, by simpa [applyOp, pieceOf] using h.2.1, by simpa [applyOp, pieceOf] using hn.2.1, ?_⟩
  · cases hb : (takeUntil d s).2.1 with
    | true => left; simp [applyOp, pieceOf, hb]
    | false => right; simp [applyOp, pieceOf, hb, h.2.2 hb]
  · simp only [applyOp, pieceOf]
    split <;> simp <;> omega

example : let r := runOps [.line '\n', .nchars 2, .line ':', .mapfile1] "l1\nabc:d\ne\nf\nrest".toList
    r.1.map (·.value) = ["l1".toList, "ab".toList, "c".toList, "d\n".toList] ∧ r.2 = "e\nf\nrest".toList := by decide

end BrushVerif.C11
