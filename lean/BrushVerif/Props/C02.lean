import BrushVerif.Proofs.FlowRefine
import BrushVerif.Gen.ExitCodes
/-!
# C02 — break / continue / return / exit unwind exactly as in bash

Property theorems over `Model/Flow.lean` (brush's result-value control flow: every command returns a
`Flow` that the enclosing constructs inspect and decrement) against `Spec/FlowBash.lean` (bash's
mechanism: the global counters `loop_level`, `breaking`, `continuing` and non-local `return`/`exit`).

Quantifiers: every program (any nesting of lists, and-or lists, `!`, `if`, `while`/`until`, `for`,
`case` with `;;`/`;&`/`;;&`, groups, subshells, function calls, `set -e`), every function table, every
start state, every fuel (= every terminating run).

The refinement holds on the domain `ws`/`okFuncs` (`Spec/FlowScope.lean`): every `break`/`continue`
count is between 1 and the number of enclosing loops of the same function and subshell.  Outside it
brush differs from bash (`flow_full_cex`): bash clamps a too large count to the loop depth, brush
lets the residual count escape and skip the commands after the outermost loop.
-/
namespace BrushVerif.C02
open BrushVerif.Flow BrushVerif.FlowBash BrushVerif.FlowScope BrushVerif.FlowRefine

/-! ## 1. one command -/

/-- A well-scoped command `c` run by brush under `d` enclosing loops, from any state, with result
`(s', r)`: bash run from the corresponding state ends in the state corresponding to `s'` whose
pending counters/flags encode `r.flow`; a pending loop jump never exceeds the `d` enclosing loops;
and `$?` is the result code. -/
theorem flow_refines_bash_partial (fuel : Nat) (fs : List Cmd) (sup : Bool) (c : Cmd) (s s' : St)
    (r : Res) (d : Nat) (hfs : okFuncs fs) (hws : ws d c = true)
    (h : exec fuel fs sup c s = some (s', r)) :
    spec fuel fs sup c (absB d s .normal) = some (absB d s' r.flow) ∧ okFlow d r.flow ∧
      s'.last = r.code :=
  (exec_refines fuel).1 fs sup c s s' r d hfs hws h

/-- non-vacuity: `f() { return 3; }; while m1; do for i in 1 2; do m2 || break 2; f; continue 2; done; done`
satisfies every hypothesis (with a terminating run) -/
example : let fs : List Cmd := [.ret (some 3)]
    let c : Cmd := .whileU false (.leaf 1 [0, 0, 1])
      (.forIn 2 (.seq (.cons (.andOr (.leaf 2 [0, 1]) (.cons false (.brk (some 2)) .nil))
        (.cons (.call 0) (.cons (.cont (some 2)) .nil)))))
    okFuncs fs ∧ ws 0 c = true ∧
      exec 20 fs false c {} = some
        ({ counts := [(1, 2), (2, 2)], trace := [.m 1, .m 2, .m 1, .m 2], last := 0 },
         { code := 0, flow := .normal }) := by
  refine ⟨?_, by decide, by decide +kernel⟩
  intro body hb
  simp at hb
  subst hb
  decide

/-! ## 2. whole programs -/

/-- Every program inside the guard, with any nesting and for any fuel: if brush's run terminates
with output trace `out.1` and exit status `out.2`, bash's run terminates with the same trace of
markers/probes and the same exit status. -/
theorem program_refines_bash_partial (fuel : Nat) (fs : List Cmd) (main : Cmd)
    (out : List Tr × Nat) (hfs : okFuncs fs) (hws : ws 0 main = true)
    (h : Flow.runProgram fuel fs main = some out) :
    FlowBash.runProgram fuel fs main = some out := by
  unfold Flow.runProgram at h
  split at h
  · simp at h
  · rename_i s r he
    obtain ⟨e, _, l⟩ := (exec_refines fuel).1 fs false main {} s r 0 hfs hws he
    have e' : spec fuel fs false main { st := {} } = some (absB 0 s r.flow) := e
    simp only [FlowBash.runProgram, e']
    simp only [Option.some.injEq] at h
    rw [← h]
    simp [absB, l]

/-- non-vacuity: a guarded program whose brush run terminates, with `set -e`, a subshell, `case`
fall-through, `until`, `!` and a probe of `$?` -/
example : let fs : List Cmd := [.seq (.cons (.leaf 5 [0]) (.cons (.ret none) .nil))]
    let main : Cmd := .seq (.cons (.setOpt .errexit true)
      (.cons (.whileU true (.leaf 1 [1, 0])
        (.case (.cons true (.bang (.leaf 2 [0])) .fallThrough (.cons false (.call 0) .contTest
          (.cons true (.cont none) .exitCase .nil)))))
      (.cons .probe (.cons (.subshell (.exit (some 4))) (.cons (.leaf 3 [0]) .nil)))))
    okFuncs fs ∧ ws 0 main = true ∧
      Flow.runProgram 30 fs main = some ([.m 1, .m 2, .m 5, .m 1, .q 0], 4) := by
  refine ⟨?_, by decide, by decide +kernel⟩
  intro body hb
  simp at hb
  subst hb
  decide

/-! ## 3. the unguarded statement is false -/

/-- the refinement without the scoping guard -/
def flow_refines_bash_full : Prop :=
  ∀ (fuel : Nat) (fs : List Cmd) (main : Cmd) (out : List Tr × Nat),
    Flow.runProgram fuel fs main = some out → FlowBash.runProgram fuel fs main = some out

/-- `for i in 1; do break 2; done; L9`: bash clamps the count to the one enclosing loop and runs
`L9`; brush's residual `break` leaves the list, so `L9` is skipped. -/
theorem flow_full_cex : ¬ flow_refines_bash_full := by
  intro h
  have hb := h 10 [] (.seq (.cons (.forIn 1 (.brk (some 2))) (.cons (.leaf 9 [0]) .nil))) ([], 0)
    (by decide +kernel)
  revert hb
  decide +kernel

/-- the two runs of the witness -/
example :
    Flow.runProgram 10 [] (.seq (.cons (.forIn 1 (.brk (some 2))) (.cons (.leaf 9 [0]) .nil)))
      = some ([], 0) ∧
    FlowBash.runProgram 10 [] (.seq (.cons (.forIn 1 (.brk (some 2))) (.cons (.leaf 9 [0]) .nil)))
      = some ([.m 9], 0) ∧
    viol 0 (.seq (.cons (.forIn 1 (.brk (some 2))) (.cons (.leaf 9 [0]) .nil)))
      = [.levelOutOfScope] := by
  refine ⟨by decide +kernel, by decide +kernel, by decide⟩

/-! ## 4. structural laws of brush's interpreter (all programs, no guard) -/

private theorem post_flow (sup : Bool) (s : St) (r : Res) :
    (post sup s r).2.flow = r.flow ∨
      ((post sup s r).2.flow = .exit ∧ r.flow = .normal ∧ sup = false ∧ s.errexit = true ∧ r.code ≠ 0) := by
  simp only [post]
  split
  · rename_i hc
    simp only [Bool.and_eq_true, Bool.not_eq_true', decide_eq_true_eq] at hc
    obtain ⟨⟨⟨h1, h2⟩, h3⟩, h4⟩ := hc
    right
    refine ⟨rfl, ?_, h1, h2, h3⟩
    cases hf : r.flow <;> simp_all [Flow.isNormal]
  · left; rfl

private theorem post_fields (sup : Bool) (s : St) (r : Res) :
    (post sup s r).1 = { s with last := r.code } ∧ (post sup s r).2.code = r.code := by
  simp only [post]; split <;> exact ⟨rfl, rfl⟩

/-- A subshell never lets `break`/`continue`/`return` (or the child's `exit`) escape: its flow is
normal, or `exit` raised by errexit in the parent (not suppressed, `set -e` on in the parent, status
non-zero).  Only output and status come back: counters, function depth and options are the parent's. -/
theorem subshell_flow_is_normal_or_exit (fuel : Nat) (fs : List Cmd) (sup : Bool) (c : Cmd)
    (s s' : St) (r : Res) (h : exec fuel fs sup (.subshell c) s = some (s', r)) :
    (r.flow = .normal ∨ (r.flow = .exit ∧ sup = false ∧ s.errexit = true ∧ r.code ≠ 0)) ∧
      s'.counts = s.counts ∧ s'.fdepth = s.fdepth ∧ s'.errexit = s.errexit ∧ s'.last = r.code := by
  cases fuel with
  | zero => (rw [exec.eq_def] at h; simp at h)
  | succ fuel =>
    (rw [exec.eq_def] at h; simp only at h)
    split at h
    · simp at h
    · rename_i s1 r1 _
      simp only [Option.some.injEq] at h
      have hf := post_flow sup { s with trace := s1.trace } { code := r1.code, flow := .normal }
      have hp := post_fields sup { s with trace := s1.trace } { code := r1.code, flow := .normal }
      rw [h] at hf hp
      obtain ⟨hp1, hp2⟩ := hp
      simp only at hp1 hp2 hf
      subst hp1
      refine ⟨?_, rfl, rfl, rfl, hp2.symm⟩
      rcases hf with hf | ⟨h1, _, h3, h4, h5⟩
      · exact Or.inl hf
      · exact Or.inr ⟨h1, h3, h4, hp2 ▸ h5⟩

/-- non-vacuity: `(exit 7)` gives status 7 and normal flow; with `set -e` on in the parent the parent
then exits; `for i in 1; do (break); done` — the `break` does not reach the parent's loop -/
example :
    exec 5 [] false (.subshell (.exit (some 7))) {} =
      some ({ last := 7 }, { code := 7, flow := .normal }) ∧
    exec 5 [] false (.subshell (.exit (some 7))) { errexit := true } =
      some ({ last := 7, errexit := true }, { code := 7, flow := .exit }) ∧
    exec 5 [] false (.forIn 1 (.subshell (.brk (some 1)))) {} =
      some ({ last := 0 }, { code := 0, flow := .normal }) := by
  refine ⟨by decide +kernel, by decide +kernel, by decide +kernel⟩

/-- A function call consumes `return` and never lets `break`/`continue` out: its flow is normal or
`exit`. -/
theorem call_consumes_return (fuel : Nat) (fs : List Cmd) (sup : Bool) (f : Nat) (s s' : St) (r : Res)
    (h : exec fuel fs sup (.call f) s = some (s', r)) :
    (r.flow = .normal ∨ r.flow = .exit) ∧ s'.last = r.code := by
  have key : ∀ (s0 : St) (r0 : Res), (r0.flow = .normal ∨ r0.flow = .exit) →
      post sup s0 r0 = (s', r) → (r.flow = .normal ∨ r.flow = .exit) ∧ s'.last = r.code := by
    intro s0 r0 h0 hp
    have hf := post_flow sup s0 r0
    have hq := post_fields sup s0 r0
    rw [hp] at hf hq
    obtain ⟨hq1, hq2⟩ := hq
    simp only at hq1 hq2 hf
    subst hq1
    refine ⟨?_, hq2.symm⟩
    rcases hf with hf | ⟨h1, _⟩
    · rw [hf]; exact h0
    · exact Or.inr h1
  cases fuel with
  | zero => (rw [exec.eq_def] at h; simp at h)
  | succ fuel =>
    (rw [exec.eq_def] at h; simp only at h)
    split at h
    · simp only [Option.some.injEq] at h
      exact key _ _ (Or.inl rfl) h
    · split at h
      · simp at h
      · rename_i s1 r1 _
        split at h
        · simp only [Option.some.injEq] at h; exact key _ _ (Or.inl rfl) h
        · simp only [Option.some.injEq] at h; exact key _ _ (Or.inl rfl) h
        · simp only [Option.some.injEq] at h; exact key _ _ (Or.inl rfl) h
        · rename_i hb hc hr
          simp only [Option.some.injEq] at h
          refine key _ r1 ?_ h
          cases hfl : r1.flow with
          | normal => exact Or.inl rfl
          | exit => exact Or.inr rfl
          | brk k => exact absurd hfl (hb k)
          | cont k => exact absurd hfl (hc k)
          | ret => exact absurd hfl hr

/-- non-vacuity: `f() { m1; return 5; m2; }; f` gives status 5 with normal flow, and
`g() { break; }; for i in 1 2; do g; done` does not leave the loop through the call -/
example :
    exec 9 [.seq (.cons (.leaf 1 [0]) (.cons (.ret (some 5)) (.cons (.leaf 2 [0]) .nil)))] false (.call 0) {}
      = some ({ counts := [(1, 1)], trace := [.m 1], last := 5 }, { code := 5, flow := .normal }) ∧
    exec 9 [.brk none] false (.forIn 2 (.call 0)) {} =
      some ({ last := 99 }, { code := 99, flow := .normal }) := by
  refine ⟨by decide +kernel, by decide +kernel⟩

/-- `! c` runs `c` with errexit suppressed, never changes the flow, and yields status 0/1 (the
inversion of `c`'s status) except when `c` leaves by `return`/`exit`, whose status is kept. -/
theorem bang_inverts_status_keeps_exit (fuel : Nat) (fs : List Cmd) (sup : Bool) (c : Cmd) (s s' : St)
    (r : Res) (h : exec (fuel + 1) fs sup (.bang c) s = some (s', r)) :
    ∃ s1 r1, exec fuel fs true c s = some (s1, r1) ∧ r.flow = r1.flow ∧
      (r1.flow.isRetOrExit = true → r.code = r1.code) ∧
      (r1.flow.isRetOrExit = false → r.code = if r1.code = 0 then 1 else 0) ∧
      s' = { s1 with last := r.code } := by
  (rw [exec.eq_def] at h; simp only at h)
  split at h
  · simp at h
  · rename_i s1 r1 he
    simp only [Option.some.injEq, Prod.mk.injEq] at h
    obtain ⟨rfl, rfl⟩ := h
    refine ⟨s1, r1, he, rfl, ?_, ?_, rfl⟩
    · intro hj; simp [hj]
    · intro hj; simp [hj]

/-- non-vacuity: `! m1` (status 0) gives 1; inside a function `! return 4` keeps 4 -/
example :
    exec 5 [] false (.bang (.leaf 1 [0])) {} =
      some ({ counts := [(1, 1)], trace := [.m 1], last := 1 }, { code := 1, flow := .normal }) ∧
    exec 5 [] false (.bang (.ret (some 4))) { fdepth := 1 } =
      some ({ last := 4, fdepth := 1 }, { code := 4, flow := .ret }) := by
  refine ⟨by decide +kernel, by decide +kernel⟩

/-- An `if` without `else` whose condition fails (normally) and so runs no branch has status 0 and
normal flow — even under `set -e`. -/
theorem if_no_branch_status_zero (fuel : Nat) (fs : List Cmd) (sup : Bool) (cond thn : Cmd)
    (s s1 s' : St) (r1 r : Res)
    (hc : exec fuel fs true cond s = some (s1, r1)) (hn : r1.flow = .normal) (hz : r1.code ≠ 0)
    (h : exec (fuel + 1) fs sup (.if1 cond thn) s = some (s', r)) :
    r = { code := 0, flow := .normal } ∧ s' = { s1 with last := 0 } := by
  rw [exec.eq_def] at h
  simp only [hc, hn, Flow.isNormal, Bool.not_true, Bool.false_eq_true, ↓reduceIte, hz, postC,
    Option.some.injEq, Prod.mk.injEq] at h
  exact ⟨h.2.symm, h.1.symm⟩

/-- non-vacuity: `set -e` on, `if m1(→1); then m2; fi` -/
example :
    exec 4 [] true (.leaf 1 [1]) { errexit := true } =
      some ({ counts := [(1, 1)], trace := [.m 1], last := 1, errexit := true }, { code := 1, flow := .normal }) ∧
    exec 5 [] false (.if1 (.leaf 1 [1]) (.leaf 2 [0])) { errexit := true } =
      some ({ counts := [(1, 1)], trace := [.m 1], last := 0, errexit := true }, { code := 0, flow := .normal }) := by
  refine ⟨by decide +kernel, by decide +kernel⟩

/-- `try_decrement_loop_levels` never underflows: level 0 becomes normal flow, level `k+1` becomes
level `k` of the same kind, everything else (normal, return, exit) is left alone. -/
theorem dec_never_underflows (f : Flow) :
    (f = .brk 0 ∨ f = .cont 0) ∧ f.dec = .normal ∨
    (∃ k, f = .brk (k + 1) ∧ f.dec = .brk k) ∨ (∃ k, f = .cont (k + 1) ∧ f.dec = .cont k) ∨
    ((f = .normal ∨ f = .ret ∨ f = .exit) ∧ f.dec = f) := by
  cases f with
  | normal => simp [Flow.dec]
  | brk k => cases k <;> simp [Flow.dec]
  | cont k => cases k <;> simp [Flow.dec]
  | ret => simp [Flow.dec]
  | exit => simp [Flow.dec]

example : (Flow.brk 2).dec = .brk 1 ∧ (Flow.cont 0).dec = .normal ∧ Flow.ret.dec = .ret := by decide

/-- … and a jump that fits `d + 1` enclosing loops fits `d` after leaving one of them. -/
theorem dec_keeps_scope (d : Nat) (f : Flow) (h : okFlow (d + 1) f) : okFlow d f.dec :=
  okFlow_dec h

example : okFlow 2 (.brk 1) ∧ okFlow 1 (Flow.brk 1).dec := by
  refine ⟨?_, ?_⟩ <;> simp [okFlow, Flow.dec]


/-! ## 5. the exit-status encoding (table regenerated from brush-core/src/results.rs on every run) -/

section ExitCodes
open BrushVerif.Gen.ExitCodes

/-- `u8 → ExecutionExitCode → u8` is the identity: no status is lost or renamed on its way through a result. -/
theorem exitcode_roundtrip (c : Nat) : toU8 (ofU8 c) = c := by
  unfold ofU8
  repeat' split
  all_goals first | (subst_vars; rfl) | rfl

/-- `is_success` (the `Success` variant) means status 0 and nothing else — what the model's `code = 0` tests stand for. -/
theorem exitcode_success_iff_zero (c : Nat) : ofU8 c = .success ↔ c = 0 := by
  unfold ofU8
  constructor
  · intro h
    repeat' split at h
    all_goals first | assumption | (exact absurd h (by simp)) | simp at h
  · intro h; subst h; rfl

/-- the constants the control-flow model uses for builtin diagnostics are the table's -/
theorem model_status_constants :
    toU8 .unimplemented = 99 ∧ toU8 .notFound = 127 ∧ toU8 .invalidUsage = 2 ∧ toU8 .generalError = 1 := by
  decide

end ExitCodes

end BrushVerif.C02
