import BrushVerif.Model.Flow
import BrushVerif.Spec.FlowBash
import BrushVerif.Spec.FlowScope
namespace BrushVerif.C02
open BrushVerif.Flow

/-- `try_decrement_loop_levels` never produces a deeper jump and leaves return/exit alone. -/
theorem dec_cases (f : Flow) :
    (f = .brk 0 ∨ f = .cont 0) ∧ f.dec = .normal ∨
    (∃ k, f = .brk (k + 1) ∧ f.dec = .brk k) ∨ (∃ k, f = .cont (k + 1) ∧ f.dec = .cont k) ∨
    ((f = .normal ∨ f = .ret ∨ f = .exit) ∧ f.dec = f) := by
  cases f with
  | normal => simp [Flow.dec]
  | brk k => cases k <;> simp [Flow.dec]
  | cont k => cases k <;> simp [Flow.dec]
  | ret => simp [Flow.dec]
  | exit => simp [Flow.dec]

end BrushVerif.C02
