import BrushVerif.Proofs.Subshell
import BrushVerif.Spec.Subshell
/-!
# C12 — subshell isolation: nothing done in a subshell changes the parent shell

Two layers.

**The clone table.**  `Gen.ShellFields.shellFields` is regenerated from `pub struct Shell` and
`impl Clone for Shell` (brush-core/src/shell.rs) on every run.  The first four theorems are finite
checks over that table against the hand-written classification `Spec.Subshell.classify`: every field
is classified, every state field is given to the clone by value, no state field's type mentions a
shared-ownership or interior-mutability constructor, and the structs one level down derive `Clone`
without such constructors.  A new field, or a field moved behind `Arc<Mutex<…>>`, stops the build.

**The model.**  `Model/Subshell.lean` runs a mutator sequence of any length on a clone made
according to that table, in each of the eight subshell contexts (the seven of the property, the
pipeline stage in two forms), sharing the process-wide `World`.  `subshell_preserves_parent_partial`
is the property; its guard is "no `umask`/`ulimit` in the subshell" for the `World` half, and the
full statement is refuted by `subshell_cex_umask` / `subshell_cex_ulimit` (`(umask 077); umask`
prints 0077 today).  `nothing_else_flows_back_partial` says the parent afterwards is a function of
its own activity, the subshell's status and its output.  `parent_continues` and
`stage_error_stays_in_stage`: the parent's line goes on after every context, also when a pipeline
stage ends in a Rust `Err` (`cd /nonexistent | true; echo after` — repaired in brush by a653878; the
former counter-example is now this positive theorem).  The `lastpipe` theorems separate the last
command of a pipeline (the parent's own under `shopt -s lastpipe`, its effects persist) from all
earlier stages (always isolated).
`background_control_flow_stays_in_job` / `wait_returns_at_most_a_status`: a background job that ends
through `exit`, `break`, `continue`, `return` or `set -e`, collected by `wait`, `wait %N` or
`wait %1 %2` while the parent is at top level, in a loop, in a function or under `set -e`, gives the
parent a status and nothing else.  `concurrent_child_invisible_partial` covers every interleaving of
a background body with parent activity.
-/
namespace BrushVerif.C12
open BrushVerif.Wire BrushVerif.Subshell BrushVerif.Gen.ShellFields BrushVerif.Spec.Subshell

/-! ## the clone table of the current source -/

/-- Every field of `struct Shell` is classified (a new field breaks this until someone decides what it is). -/
theorem every_field_classified : ∀ f ∈ shellFields, (classify f.1).isSome = true := by decide

/-- Every field holding state the property speaks about is handed to the clone by value. -/
theorem state_fields_value_cloned :
    ∀ f ∈ shellFields, classify f.1 = some Class.state → valueCloned f.2.2 = true := by decide

/-- No state field's type mentions `Arc`, `Rc`, `Mutex`, `RwLock`, `RefCell`, `Cell`, atomics or a reference. -/
theorem state_field_types_not_shared :
    ∀ f ∈ shellFields, classify f.1 = some Class.state → mentionsSharing f.2.1 = false := by decide

/-- One level down: the struct behind each state field has a `Clone` impl and its own fields
mention none of those constructors either. -/
theorem state_component_types_cloned_structurally :
    ∀ c ∈ compTypes, classify c.1 = some Class.state → c.2.2.1 = true ∧ c.2.2.2 = "" := by decide

/-- Every component the model's mutators write is a classified state field of the current source. -/
theorem model_components_are_state_fields :
    ∀ c ∈ Comp.all, classify c.field = some Class.state ∧ (shellFields.any (fun f => f.1 = c.field)) = true := by decide

example : shellFields.length ≥ 20 ∧ (shellFields.filter (fun f => classify f.1 = some Class.state)).length ≥ 10 := by decide

/-! ## isolation of the `Shell` value -/

/-- **The property.**  For every context, every mutator sequence of any length, every parent state:
the parent's `Shell` value afterwards is the result of the parent's *own* activity only (`parentOwn`:
nothing, except a coprocess's pipe ends and — with `shopt -s lastpipe` — the last command of a
pipeline, which is not a subshell); and the process-wide state is unchanged too when the sequence
contains no `umask`/`ulimit`. -/
theorem subshell_preserves_parent_partial (root : List Str) (c : Ctx) (ms : List Mut) (p : ShellPart) (w : World) :
    (exec root c ms p w).shell = parentOwn root c ms p w ∧
    ((∀ m ∈ ms, m.touchesWorld = false) → (exec root c ms p w).world = w) :=
  ⟨exec_shell root c ms p w, exec_world root c ms p w⟩

/-- non-vacuity: a long sequence touching every component, in a rich parent, changes the clone a lot and the parent not at all -/
example :
    let p : ShellPart := { vars := [("v1".toList, { val := "abc".toList, exported := true, readonly := false })],
                           funcs := [], setopts := [], shopts := [], aliases := [("a1".toList, "true".toList)], traps := [],
                           cwd := ["r".toList], args := ["x".toList], fds := [0, 1, 2, 7] }
    let ms : List Mut := [.assign "v1".toList "q".toList, .unset "v1".toList, .defun "f1".toList "A".toList,
      .seto "noglob".toList true, .shopt "nullglob".toList true, .unalias "a1".toList, .trap "INT".toList [':'],
      .cd "..".toList, .setargs [], .fdclose 7, .fdopen 9, .echo "hi".toList, .exit 3]
    (∀ m ∈ ms, m.touchesWorld = false) ∧
    (childRun fresh ["r".toList] ms p ⟨18, 1024⟩).sh ≠ p ∧
    (exec ["r".toList] .paren ms p ⟨18, 1024⟩).shell = p ∧ (exec ["r".toList] .paren ms p ⟨18, 1024⟩).status = 3 := by
  decide

/-- In every context but a pipeline ending in a mutator, the parent's own activity is `prepare`
(nothing, or the coprocess pipe ends): there the parent's `Shell` value is simply unchanged. -/
theorem subshell_preserves_parent_value (root : List Str) (c : Ctx) (ms : List Mut) (p : ShellPart) (w : World)
    (hc : c.parentActs = false) : (exec root c ms p w).shell = prepare c p := by
  rw [exec_shell]
  cases c
  case bgw s f => cases f <;> simp_all [parentOwn, ownErrexit, Ctx.parentActs, prepare]
  all_goals simp_all [parentOwn, Ctx.parentActs]

/-! ## pipelines and `lastpipe` -/

/-- **Non-final stages stay isolated, `lastpipe` or not.**  Whatever the stages before the last one
do (any number of them, any mutators), the parent ends with the same `Shell` value as if they had
done nothing: only the last command can matter. -/
theorem nonfinal_stage_isolated_under_lastpipe (root : List Str) (init init' : List Mut) (l : Mut)
    (p : ShellPart) (w : World) (h : init.isEmpty = init'.isEmpty) :
    (exec root .pl (init ++ [l]) p w).shell = (exec root .pl (init' ++ [l]) p w).shell :=
  pl_init_irrelevant root init init' l p w h

/-- **Under `lastpipe` the last stage is the parent's own command**: its effects persist, its status
and output are the pipeline's, and nothing of the earlier stages is in the result. -/
theorem last_stage_effects_persist_under_lastpipe (root : List Str) (init : List Mut) (l : Mut)
    (p : ShellPart) (w : World) (h : lastpipeOn p = true) :
    (exec root .pl (init ++ [l]) p w).shell = (stepShell root l p).sh ∧
    (exec root .pl (init ++ [l]) p w).status = (stepShell root l p).status ∧
    (exec root .pl (init ++ [l]) p w).out = (stepShell root l p).out :=
  pl_lastpipe root init l p w h

/-- **Without `lastpipe` the last stage of a real pipeline is a subshell too.** -/
theorem last_stage_isolated_without_lastpipe (root : List Str) (init : List Mut) (l : Mut)
    (p : ShellPart) (w : World) (h : lastpipeOn p = false) (hi : init ≠ []) :
    (exec root .pl (init ++ [l]) p w).shell = p :=
  pl_nolastpipe root init l p w h hi

/-- `shopt -s lastpipe; v1=a | f1() …  | v1=c`: only `v1=c` is in the parent afterwards; without lastpipe nothing is -/
example :
    let on : ShellPart := (stepShell [] (.shopt "lastpipe".toList true) (defaultShell [])).sh
    let ms : List Mut := [.assign "v1".toList "a".toList, .defun "f1".toList "A".toList, .assign "v1".toList "c".toList]
    lastpipeOn on = true ∧
    (exec [] .pl ms on ⟨18, 1024⟩).shell = (stepShell [] (.assign "v1".toList "c".toList) on).sh ∧
    (exec [] .pl ms on ⟨18, 1024⟩).shell ≠ on ∧
    (exec [] .pl ms (defaultShell []) ⟨18, 1024⟩).shell = defaultShell [] := by decide

/-- Full statements: the process-wide state too is what it was. -/
def umask_isolation_full : Prop :=
  ∀ (root : List Str) (c : Ctx) (ms : List Mut) (p : ShellPart) (w : World), (exec root c ms p w).world.umask = w.umask
def ulimit_isolation_full : Prop :=
  ∀ (root : List Str) (c : Ctx) (ms : List Mut) (p : ShellPart) (w : World), (exec root c ms p w).world.nofile = w.nofile

/-- `(umask 077); umask` prints 0077. -/
theorem subshell_cex_umask : ¬ umask_isolation_full := by
  intro h
  have := h [] .paren [.umask 63] (defaultShell []) ⟨18, 1024⟩
  revert this; decide

/-- `(ulimit -S -n 256); ulimit -S -n` prints 256. -/
theorem subshell_cex_ulimit : ¬ ulimit_isolation_full := by
  intro h
  have := h [] .cmdsub [.ulimit 256] (defaultShell []) ⟨18, 1024⟩
  revert this; decide

/-- The leak happens in every one of the contexts. -/
theorem umask_leaks_in_every_context :
    ∀ c ∈ Ctx.all, (exec [] c [.umask 63] (defaultShell []) ⟨18, 1024⟩).world.umask = 63 := by decide

/-! ## only status and output come back -/

/-- **The parent's command line always goes on.**  After every subshell context — also after a
pipeline in which a stage ends in a Rust `Err` (`cd /nonexistent | true; echo after` prints `after`) —
the rest of the parent's line runs.  (For a pipeline whose last command is the parent's own see
`pipeline_line_ends_only_by_own_exit`.) -/
theorem parent_continues (root : List Str) (c : Ctx) (ms : List Mut) (p : ShellPart) (w : World)
    (hc : c.parentActs = false) : (exec root c ms p w).aborted = false :=
  exec_aborted root c ms p w hc

/-- **A failing stage fails alone.**  `m1 | … | true` with any stages whatsoever (failing `cd`,
`readonly`/`unset` of a read-only name, `exit`, …): the parent's `Shell` value is unchanged, `$?` is
that of the last stage, nothing is received, the line goes on. -/
theorem stage_error_stays_in_stage (root : List Str) (ms : List Mut) (p : ShellPart) (w : World) :
    (exec root .stages ms p w).shell = p ∧ (exec root .stages ms p w).status = 0 ∧
    (exec root .stages ms p w).out = [] ∧ (exec root .stages ms p w).aborted = false :=
  exec_stages root ms p w

/-- the stage really ends in a Rust `Err` in the witness, and the parent carries on -/
example : (stepShell [] (.cd "nx".toList) (defaultShell [])).err = true ∧
    (exec [] .stages [.cd "nx".toList, .exit 3] (defaultShell []) ⟨18, 1024⟩).aborted = false ∧
    (exec [] .pl [.cd "nx".toList, .true_] (defaultShell []) ⟨18, 1024⟩).aborted = false := by decide

/-- In `m1 | … | { mk; }` the parent's line is abandoned exactly when the last command is the
parent's own (`lastpipe`, or a pipeline of one command) and is an `exit` or an `exec <command>`
(which at clone depth 0 replaces the process): never by a subshell. -/
theorem pipeline_line_ends_only_by_own_exit (root : List Str) (init : List Mut) (l : Mut) (p : ShellPart) (w : World) :
    (exec root .pl (init ++ [l]) p w).aborted =
      ((lastpipeOn p || init.isEmpty) && ((stepShell root l p).exited || execReplaces l)) :=
  pl_aborted root init l p w

/-- **Nothing else flows back.**  If no `umask`/`ulimit` runs in the subshell (and, for a pipeline
whose last command is the parent's own, that command is not an `exit`), then what the parent
observes afterwards — its `Shell` value, the process, `$?`, the text received, and that its line goes
on — is determined by its own activity (its own last pipeline stage, its own `set -e`) together with the subshell's status and output. -/
theorem nothing_else_flows_back_partial (root : List Str) (c : Ctx) (ms : List Mut) (p : ShellPart) (w : World)
    (hw : ∀ m ∈ ms, m.touchesWorld = false)
    (he : c.parentActs = true → (exec root c ms p w).aborted = false) :
    exec root c ms p w =
      { shell := parentOwn root c ms p w, world := w, status := (exec root c ms p w).status,
        out := (exec root c ms p w).out, aborted := false } :=
  exec_eq root c ms p w hw he

/-- Two subshell bodies with the same status and output, under the same own activity of the parent,
are indistinguishable to the parent. -/
theorem only_status_and_output_flow_back (root : List Str) (c : Ctx) (ms₁ ms₂ : List Mut) (p : ShellPart) (w : World)
    (h₁ : ∀ m ∈ ms₁, m.touchesWorld = false) (h₂ : ∀ m ∈ ms₂, m.touchesWorld = false)
    (e₁ : c.parentActs = true → (exec root c ms₁ p w).aborted = false)
    (e₂ : c.parentActs = true → (exec root c ms₂ p w).aborted = false)
    (ho : parentOwn root c ms₁ p w = parentOwn root c ms₂ p w)
    (hs : (exec root c ms₁ p w).status = (exec root c ms₂ p w).status)
    (hout : (exec root c ms₁ p w).out = (exec root c ms₂ p w).out) :
    exec root c ms₁ p w = exec root c ms₂ p w := by
  rw [exec_eq root c ms₁ p w h₁ e₁, exec_eq root c ms₂ p w h₂ e₂, hs, hout, ho]

example :
    let ms₁ : List Mut := [.assign "v1".toList "q".toList, .cd "..".toList, .exit 3]
    let ms₂ : List Mut := [.alias "a1".toList "true".toList, .exit 3]
    exec ["r".toList] .paren ms₁ (defaultShell ["r".toList]) ⟨18, 1024⟩ =
      exec ["r".toList] .paren ms₂ (defaultShell ["r".toList]) ⟨18, 1024⟩ := by decide

/-- An `exit` in a subshell never ends the parent, in any context (the parent's line goes on). -/
theorem exit_stays_in_subshell (root : List Str) (c : Ctx) (n : Nat) (p : ShellPart) (w : World)
    (hc : c.parentActs = false) :
    (exec root c [.exit n] p w).aborted = false ∧ (exec root c [.exit n] p w).shell = prepare c p :=
  ⟨exec_aborted root c _ p w hc, subshell_preserves_parent_value root c _ p w hc⟩

/-! ## `exec <command>` in a subshell -/

/-- What `exec cmd` does when a subshell (a clone) runs it, in brush: the command runs, its status and
output are the command's, the `Shell` value is untouched and the subshell's list goes on — no
execve.  (bash ends the subshell with the command's status; brush goes on to the next command.) -/
theorem exec_in_subshell_is_emulated (root : List Str) (k : Str) (s : ShellPart) :
    (stepShell root (.execCmd k) s).sh = s ∧ (stepShell root (.execCmd k) s).exited = false ∧
    (stepShell root (.execCmd k) s).status = execStatus k ∧ (stepShell root (.execCmd k) s).out = execOut k :=
  ⟨rfl, rfl, rfl, rfl⟩

/-- **A subshell's `exec` stays in the subshell.**  In every context other than a pipeline whose
last command is the parent's own, for every body of any length containing any `exec`s: the parent's
line goes on, its `Shell` value is what it was, and — with no `umask`/`ulimit` in the body — the
whole parent is determined by the status and output that came back. -/
theorem subshell_exec_stays_in_subshell (root : List Str) (c : Ctx) (ms : List Mut) (p : ShellPart) (w : World)
    (hc : c.parentActs = false) :
    (exec root c ms p w).aborted = false ∧ (exec root c ms p w).shell = prepare c p :=
  ⟨exec_aborted root c ms p w hc, subshell_preserves_parent_value root c ms p w hc⟩

/-- In a pipeline an `exec` in any stage but the parent's own last one leaves the parent running:
`exec /bin/echo x | cat; echo alive`, `true | exec /bin/echo x` without `lastpipe`. -/
theorem stage_exec_stays_in_stage (root : List Str) (init : List Mut) (l : Mut) (p : ShellPart) (w : World)
    (h : lastpipeOn p = false) (hi : init ≠ []) :
    (exec root .pl (init ++ [l]) p w).aborted = false := by
  have hi' : init.isEmpty = false := by cases init <;> simp_all
  rw [pl_aborted]; simp [h, hi']

/-- Under `lastpipe` the last stage is the parent itself: `true | exec /bin/echo x` replaces the
shell (as in bash) — the parent's own doing, not a subshell's. -/
theorem own_exec_replaces_the_shell (root : List Str) (init : List Mut) (k : Str) (p : ShellPart) (w : World)
    (h : lastpipeOn p = true) (hk : k ≠ "nosuch".toList) :
    (exec root .pl (init ++ [.execCmd k]) p w).aborted = true := by
  rw [pl_aborted]; simp only [h, execReplaces, Bool.true_or, Bool.true_and, Bool.or_eq_true, bne_iff_ne, ne_eq]
  exact Or.inr hk

example : (∀ c ∈ Ctx.all, c.parentActs = false →
      (exec [] c [.execCmd "echo".toList, .assign "v1".toList "q".toList] (defaultShell []) ⟨18, 1024⟩).aborted = false) ∧
    (exec [] .paren [.execCmd "echo".toList, .echo "y".toList, .exit 3] (defaultShell []) ⟨18, 1024⟩).out = [['x'], ['y']] ∧
    (exec [] .pl [.execCmd "true".toList, .true_] (defaultShell []) ⟨18, 1024⟩).aborted = false ∧
    (exec [] .pl [.true_, .execCmd "true".toList] (defaultShell []) ⟨18, 1024⟩).aborted = false := by decide

/-! ## collecting a background job: the synchronisation step -/

/-- how the body of a background job ends, as the job table records it (`Job::wait` hands out the
task's whole `ExecutionResult`, control-flow request included) -/
def jobEnd (root : List Str) (f : Frame) (ms : List Mut) (p : ShellPart) (w : World) : JobResult :=
  jobResult (bgwRun fresh root f ms p w)

/-- **What comes back through `wait`, `wait %N`, `wait %1 %2` is at most a status.**  Whatever the
collected jobs ended with — an `exit`, `break`, `continue`, `return`, an abort under `set -e` — the
builtin hands the parent's interpreter no control-flow request. -/
theorem wait_returns_at_most_a_status (s : Sync) (jobs : List JobResult) :
    (waitResult s jobs).flow = Flow.normal ∧
    (waitResult s jobs).status = (match s with
      | .every => 0
      | _ => ((jobs.getLast?).map (·.status)).getD 0) := by
  cases s <;> exact ⟨rfl, rfl⟩

/-- **A background job's control flow stays in the job.**  For every synchronisation, every frame
of the parent (top level, loop body, function body, `set -e`), every job body of any length and
every parent state: after the job has been collected the parent has received a status — 0 from a
bare `wait`, the last named job's exit code from `wait %N …` — and nothing else.  Its line / loop /
function goes on and its `Shell` value is unchanged, with one exception that is the parent's own
doing: under its own `set -e` a non-zero status from `wait %N` stops it there (as in bash). -/
theorem background_control_flow_stays_in_job (root : List Str) (s : Sync) (f : Frame) (ms : List Mut)
    (p : ShellPart) (w : World) :
    (exec root (.bgw s f) ms p w).status = (bgwWait fresh root s f ms p w).status ∧
    (exec root (.bgw s f) ms p w).aborted = ownErrexit f (bgwWait fresh root s f ms p w) ∧
    (f ≠ .errexit → (exec root (.bgw s f) ms p w).aborted = false ∧ (exec root (.bgw s f) ms p w).shell = p) ∧
    ((exec root (.bgw s f) ms p w).status = 0 →
      (exec root (.bgw s f) ms p w).aborted = false ∧ (exec root (.bgw s f) ms p w).shell = p) := by
  obtain ⟨h1, h2, h3⟩ := exec_bgw root s f ms p w
  refine ⟨h1, h2, ?_, ?_⟩
  · intro hf
    have := ownErrexit_other f (bgwWait fresh root s f ms p w) hf
    rw [h2, h3, this]; simp
  · intro h0
    rw [h1] at h0
    have : ownErrexit f (bgwWait fresh root s f ms p w) = false := by simp [ownErrexit, h0]
    rw [h2, h3, this]; simp

/-- the status that comes back is the job's: `{ …; exit 7; } & wait %1` gives 7, a bare `wait` 0,
`wait %1 %2` the second job's 5; and under the parent's own `set -e` a failed job stops the parent -/
example :
    (exec [] (.bgw .spec .plain) [.assign "v1".toList "q".toList, .exit 7] (defaultShell []) ⟨18, 1024⟩).status = 7 ∧
    (exec [] (.bgw .every .plain) [.exit 7] (defaultShell []) ⟨18, 1024⟩).status = 0 ∧
    (exec [] (.bgw .spec2 .func) [.return_ 4] (defaultShell []) ⟨18, 1024⟩).status = 5 ∧
    (exec [] (.bgw .spec .func) [.return_ 4] (defaultShell []) ⟨18, 1024⟩).status = 4 ∧
    (exec [] (.bgw .spec .errexit) [.false_] (defaultShell []) ⟨18, 1024⟩).aborted = true ∧
    (exec [] (.bgw .spec .errexit) [.break_] (defaultShell []) ⟨18, 1024⟩).aborted = false ∧
    (exec [] (.bgw .every .errexit) [.false_] (defaultShell []) ⟨18, 1024⟩).aborted = false := by decide

/-- non-vacuity: job bodies do end with every kind of request (and change their clone), in the
frames where the seeded regression would have made the parent act on it -/
example :
    (jobEnd [] .plain [.assign "v1".toList "q".toList, .exit 7] (defaultShell []) ⟨18, 1024⟩) = ⟨7, .exit⟩ ∧
    (jobEnd [] .loop [.break_] (defaultShell []) ⟨18, 1024⟩).flow = .brk ∧
    (jobEnd [] .loop [.echo "x".toList, .continue_] (defaultShell []) ⟨18, 1024⟩).flow = .cont ∧
    (jobEnd [] .func [.return_ 4] (defaultShell []) ⟨18, 1024⟩) = ⟨4, .ret⟩ ∧
    (jobEnd [] .plain [.return_ 4] (defaultShell []) ⟨18, 1024⟩) = ⟨0, .normal⟩ ∧
    (jobEnd [] .errexit [.false_, .assign "v1".toList "q".toList] (defaultShell []) ⟨18, 1024⟩) = ⟨1, .exit⟩ ∧
    (jobEnd [] .plain [.seto "errexit".toList true, .cd "nx".toList, .true_] (defaultShell []) ⟨18, 1024⟩) = ⟨1, .exit⟩ ∧
    (∀ c ∈ Ctx.all, c.parentActs = false →
      (exec [] c [.assign "v1".toList "q".toList, .exit 7] (defaultShell []) ⟨18, 1024⟩).aborted = false) := by
  decide

/-! ## the surrounding execution context does not matter -/

/-- **The parent's outcome does not depend on where it stands.**  The frame (top level, loop body,
function body) changes how the job's body runs — `return` is meaningful only in a function — and so
the status that comes back; yet for every synchronisation, any two such frames, every body and every
parent state, the parent ends with the same `Shell` value and its line goes on.  (Under its own
`set -e` the parent may stop on the status: `background_control_flow_stays_in_job`.) -/
theorem parent_outcome_independent_of_frame (root : List Str) (s : Sync) (f f' : Frame) (ms : List Mut)
    (p : ShellPart) (w : World) (hf : f ≠ .errexit) (hf' : f' ≠ .errexit) :
    (exec root (.bgw s f) ms p w).shell = (exec root (.bgw s f') ms p w).shell ∧
    (exec root (.bgw s f) ms p w).aborted = (exec root (.bgw s f') ms p w).aborted := by
  have h := (background_control_flow_stays_in_job root s f ms p w).2.2.1 hf
  have h' := (background_control_flow_stays_in_job root s f' ms p w).2.2.1 hf'
  exact ⟨h.2.trans h'.2.symm, h.1.trans h'.1.symm⟩

/-- the frames do differ for the job itself: the same body ends differently in them -/
example :
    (jobEnd [] .func [.return_ 4, .assign "v1".toList "q".toList] (defaultShell []) ⟨18, 1024⟩) ≠
      (jobEnd [] .plain [.return_ 4, .assign "v1".toList "q".toList] (defaultShell []) ⟨18, 1024⟩) ∧
    (jobEnd [] .errexit [.false_, .exit 9] (defaultShell []) ⟨18, 1024⟩) ≠
      (jobEnd [] .loop [.false_, .exit 9] (defaultShell []) ⟨18, 1024⟩) := by decide

/-- **A second run in the same shell starts from the same parent.**  After any subshell context
(other than a pipeline ending in the parent's own command) the next context — nested use, a second
run of the same case, another construct — sees exactly the parent that the first one saw, up to the
parent's own preparation (coprocess pipe ends). -/
theorem second_run_sees_the_same_parent (root : List Str) (c₁ c₂ : Ctx) (ms₁ ms₂ : List Mut)
    (p : ShellPart) (w w' : World) (hc : c₁.parentActs = false) :
    exec root c₂ ms₂ (exec root c₁ ms₁ p w).shell w' = exec root c₂ ms₂ (prepare c₁ p) w' := by
  rw [subshell_preserves_parent_value root c₁ ms₁ p w hc]

example :
    let p := defaultShell []
    exec [] .cmdsub [.echo "a".toList] (exec [] .paren [.assign "v1".toList "q".toList, .cd "nx".toList, .exit 3] p ⟨18, 1024⟩).shell ⟨18, 1024⟩ =
      exec [] .cmdsub [.echo "a".toList] p ⟨18, 1024⟩ := by decide

/-! ## a background body interleaved with parent activity -/

/-- **Every schedule.**  Start a background body on a clone; let parent and child commands interleave
in any order.  If the child runs no `umask`/`ulimit`, the parent ends exactly as if it had run its
own commands alone. -/
theorem concurrent_child_invisible_partial (root : List Str) (es : List (Side × Mut)) (p : ShellPart) (w : World)
    (hw : ∀ e ∈ es, e.1 = Side.child → e.2.touchesWorld = false) :
    (runSched shared root es (fork fresh p w)).par = runMuts root (parentCmds es) { sh := p, world := w } :=
  sched_parent root es (fork fresh p w) rfl hw

example :
    let es : List (Side × Mut) := [(.child, .assign "v1".toList "c".toList), (.parent, .assign "v1".toList "p".toList),
      (.child, .cd "..".toList), (.parent, .umask 63), (.child, .unset "v1".toList), (.child, .exit 1),
      (.parent, .alias "a1".toList "true".toList)]
    (∀ e ∈ es, e.1 = Side.child → e.2.touchesWorld = false) ∧
    aget "v1".toList (runSched shared ["r".toList] es (fork fresh (defaultShell ["r".toList]) ⟨18, 1024⟩)).par.sh.vars =
      some { val := "p".toList, exported := false, readonly := false } := by decide

/-- Full statement (no guard) fails: a child's `umask` is seen by the parent mid-flight. -/
def concurrent_isolation_full : Prop :=
  ∀ (root : List Str) (es : List (Side × Mut)) (p : ShellPart) (w : World),
    (runSched shared root es (fork fresh p w)).par.world = (runMuts root (parentCmds es) { sh := p, world := w }).world

theorem concurrent_cex : ¬ concurrent_isolation_full := by
  intro h
  have := h [] [(.child, .umask 63)] (defaultShell []) ⟨18, 1024⟩
  revert this; decide

/-! ## the table matters -/

/-- If `Shell::clone` shared any one of the components instead of copying it, isolation would fail:
the theorem above is not true of an arbitrary clone table, it is true of the one in the source. -/
theorem sharing_breaks_isolation (sh : Comp → Bool) (h : ∃ c, sh c = true) :
    ∃ (ms : List Mut) (p : ShellPart) (w : World),
      (execWith sh (fun _ => false) [] .paren ms p w).shell ≠ prepare .paren p :=
  sharing_leaks sh h

end BrushVerif.C12
