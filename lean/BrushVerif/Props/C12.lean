import BrushVerif.Proofs.Subshell
import BrushVerif.Spec.Subshell
/-!
# C12 — subshell isolation: nothing done in a subshell changes the parent shell

Two layers.

**The clone table.**  `Gen.ShellFields.shellFields` is regenerated from `pub struct Shell` and
`impl Clone for Shell` (brush-core/src/shell.rs) on every run.  The first four theorems are finite
checks over that table against the hand-written classification `Spec.Subshell.classify`: every field
is classified, every state field is given to the clone by value, no state field's type mentions a
shared-ownership or interior-mutability constructor, and the structs one level down derive `Clone`
without such constructors.  A new field, or a field moved behind `Arc<Mutex<…>>`, stops the build.

**The model.**  `Model/Subshell.lean` runs a mutator sequence of any length on a clone made
according to that table, in each of the eight subshell contexts (the seven of the property, the
pipeline stage in two forms), sharing the process-wide `World`.  `subshell_preserves_parent_partial`
is the property; its guard is "no `umask`/`ulimit` in the subshell" for the `World` half, and the
full statement is refuted by `subshell_cex_umask` / `subshell_cex_ulimit` (`(umask 077); umask`
prints 0077 today).  `nothing_else_flows_back_partial` says the parent afterwards is a function of
its state before, the subshell's status and its output — guarded by "no pipeline stage ends in a
Rust `Err`", refuted without the guard by `stage_error_cex` (`cd /nonexistent | true; echo after`).
`concurrent_child_invisible_partial` covers every interleaving of a background body with parent
activity.
-/
namespace BrushVerif.C12
open BrushVerif.Wire BrushVerif.Subshell BrushVerif.Gen.ShellFields BrushVerif.Spec.Subshell

/-! ## the clone table of the current source -/

/-- Every field of `struct Shell` is classified (a new field breaks this until someone decides what it is). -/
theorem every_field_classified : ∀ f ∈ shellFields, (classify f.1).isSome = true := by decide

/-- Every field holding state the property speaks about is handed to the clone by value. -/
theorem state_fields_value_cloned :
    ∀ f ∈ shellFields, classify f.1 = some Class.state → valueCloned f.2.2 = true := by decide

/-- No state field's type mentions `Arc`, `Rc`, `Mutex`, `RwLock`, `RefCell`, `Cell`, atomics or a reference. -/
theorem state_field_types_not_shared :
    ∀ f ∈ shellFields, classify f.1 = some Class.state → mentionsSharing f.2.1 = false := by decide

/-- One level down: the struct behind each state field has a `Clone` impl and its own fields
mention none of those constructors either. -/
theorem state_component_types_cloned_structurally :
    ∀ c ∈ compTypes, classify c.1 = some Class.state → c.2.2.1 = true ∧ c.2.2.2 = "" := by decide

/-- Every component the model's mutators write is a classified state field of the current source. -/
theorem model_components_are_state_fields :
    ∀ c ∈ Comp.all, classify c.field = some Class.state ∧ (shellFields.any (fun f => f.1 = c.field)) = true := by decide

example : shellFields.length ≥ 20 ∧ (shellFields.filter (fun f => classify f.1 = some Class.state)).length ≥ 10 := by decide

/-! ## isolation of the `Shell` value -/

/-- **The property.**  For every context, every mutator sequence of any length, every parent state:
the parent's `Shell` value afterwards is what it was when the clone was made; and the process-wide
state is unchanged too when the sequence contains no `umask`/`ulimit`. -/
theorem subshell_preserves_parent_partial (root : List Str) (c : Ctx) (ms : List Mut) (p : ShellPart) (w : World) :
    (exec root c ms p w).shell = prepare c p ∧
    ((∀ m ∈ ms, m.touchesWorld = false) → (exec root c ms p w).world = w) :=
  ⟨exec_shell root c ms p w, exec_world root c ms p w⟩

/-- non-vacuity: a long sequence touching every component, in a rich parent, changes the clone a lot and the parent not at all -/
example :
    let p : ShellPart := { vars := [("v1".toList, { val := "abc".toList, exported := true, readonly := false })],
                           funcs := [], setopts := [], shopts := [], aliases := [("a1".toList, "true".toList)], traps := [],
                           cwd := ["r".toList], args := ["x".toList], fds := [0, 1, 2, 7] }
    let ms : List Mut := [.assign "v1".toList "q".toList, .unset "v1".toList, .defun "f1".toList "A".toList,
      .seto "noglob".toList true, .shopt "nullglob".toList true, .unalias "a1".toList, .trap "INT".toList [':'],
      .cd "..".toList, .setargs [], .fdclose 7, .fdopen 9, .echo "hi".toList, .exit 3]
    (∀ m ∈ ms, m.touchesWorld = false) ∧
    (childRun fresh ["r".toList] ms p ⟨18, 1024⟩).sh ≠ p ∧
    (exec ["r".toList] .paren ms p ⟨18, 1024⟩).shell = p ∧ (exec ["r".toList] .paren ms p ⟨18, 1024⟩).status = 3 := by
  decide

/-- Full statements: the process-wide state too is what it was. -/
def umask_isolation_full : Prop :=
  ∀ (root : List Str) (c : Ctx) (ms : List Mut) (p : ShellPart) (w : World), (exec root c ms p w).world.umask = w.umask
def ulimit_isolation_full : Prop :=
  ∀ (root : List Str) (c : Ctx) (ms : List Mut) (p : ShellPart) (w : World), (exec root c ms p w).world.nofile = w.nofile

/-- `(umask 077); umask` prints 0077. -/
theorem subshell_cex_umask : ¬ umask_isolation_full := by
  intro h
  have := h [] .paren [.umask 63] (defaultShell []) ⟨18, 1024⟩
  revert this; decide

/-- `(ulimit -S -n 256); ulimit -S -n` prints 256. -/
theorem subshell_cex_ulimit : ¬ ulimit_isolation_full := by
  intro h
  have := h [] .cmdsub [.ulimit 256] (defaultShell []) ⟨18, 1024⟩
  revert this; decide

/-- The leak happens in every one of the contexts. -/
theorem umask_leaks_in_every_context :
    ∀ c ∈ Ctx.all, (exec [] c [.umask 63] (defaultShell []) ⟨18, 1024⟩).world.umask = 63 := by decide

/-! ## only status and output come back -/

/-- **Nothing else flows back.**  If no `umask`/`ulimit` runs in the subshell and no pipeline stage
ends in a Rust `Err`, then what the parent observes afterwards — its `Shell` value, the process,
`$?`, the text received, and whether its command line goes on — is determined by its own earlier
state together with the subshell's status and output, and the command line goes on. -/
theorem nothing_else_flows_back_partial (root : List Str) (c : Ctx) (ms : List Mut) (p : ShellPart) (w : World)
    (hw : ∀ m ∈ ms, m.touchesWorld = false)
    (he : c = .stages → stagesErr fresh root ms (prepare c p) = false) :
    exec root c ms p w =
      { shell := prepare c p, world := w, status := (exec root c ms p w).status,
        out := (exec root c ms p w).out, aborted := false } :=
  exec_eq root c ms p w hw he

/-- Two subshell bodies with the same status and output are indistinguishable to the parent. -/
theorem only_status_and_output_flow_back (root : List Str) (c : Ctx) (ms₁ ms₂ : List Mut) (p : ShellPart) (w : World)
    (h₁ : ∀ m ∈ ms₁, m.touchesWorld = false) (h₂ : ∀ m ∈ ms₂, m.touchesWorld = false)
    (e₁ : c = .stages → stagesErr fresh root ms₁ (prepare c p) = false)
    (e₂ : c = .stages → stagesErr fresh root ms₂ (prepare c p) = false)
    (hs : (exec root c ms₁ p w).status = (exec root c ms₂ p w).status)
    (ho : (exec root c ms₁ p w).out = (exec root c ms₂ p w).out) :
    exec root c ms₁ p w = exec root c ms₂ p w := by
  rw [exec_eq root c ms₁ p w h₁ e₁, exec_eq root c ms₂ p w h₂ e₂, hs, ho]

example :
    let ms₁ : List Mut := [.assign "v1".toList "q".toList, .cd "..".toList, .exit 3]
    let ms₂ : List Mut := [.alias "a1".toList "true".toList, .exit 3]
    exec ["r".toList] .paren ms₁ (defaultShell ["r".toList]) ⟨18, 1024⟩ =
      exec ["r".toList] .paren ms₂ (defaultShell ["r".toList]) ⟨18, 1024⟩ := by decide

/-- Full statement: the parent's command line always goes on after a subshell context. -/
def parent_continues_full : Prop :=
  ∀ (root : List Str) (c : Ctx) (ms : List Mut) (p : ShellPart) (w : World), (exec root c ms p w).aborted = false

/-- `cd nx | true; echo after`: the stage's `Err` abandons the rest of the parent's line. -/
theorem stage_error_cex : ¬ parent_continues_full := by
  intro h
  have := h [] .stages [.cd "nx".toList] (defaultShell []) ⟨18, 1024⟩
  revert this; decide

/-- An `exit` in a subshell never ends the parent, in any context (the parent's line goes on). -/
theorem exit_stays_in_subshell (root : List Str) (c : Ctx) (n : Nat) (p : ShellPart) (w : World) :
    (exec root c [.exit n] p w).aborted = false ∧ (exec root c [.exit n] p w).shell = prepare c p := by
  refine ⟨?_, exec_shell root c _ p w⟩
  cases c <;> simp [exec, execWith, stagesErr, stepShell]

/-! ## a background body interleaved with parent activity -/

/-- **Every schedule.**  Start a background body on a clone; let parent and child commands interleave
in any order.  If the child runs no `umask`/`ulimit`, the parent ends exactly as if it had run its
own commands alone. -/
theorem concurrent_child_invisible_partial (root : List Str) (es : List (Side × Mut)) (p : ShellPart) (w : World)
    (hw : ∀ e ∈ es, e.1 = Side.child → e.2.touchesWorld = false) :
    (runSched shared root es (fork fresh p w)).par = runMuts root (parentCmds es) { sh := p, world := w } :=
  sched_parent root es (fork fresh p w) rfl hw

example :
    let es : List (Side × Mut) := [(.child, .assign "v1".toList "c".toList), (.parent, .assign "v1".toList "p".toList),
      (.child, .cd "..".toList), (.parent, .umask 63), (.child, .unset "v1".toList), (.child, .exit 1),
      (.parent, .alias "a1".toList "true".toList)]
    (∀ e ∈ es, e.1 = Side.child → e.2.touchesWorld = false) ∧
    (runSched shared ["r".toList] es (fork fresh (defaultShell ["r".toList]) ⟨18, 1024⟩)).par.sh.vars =
      [("v1".toList, ⟨"p".toList, false, false⟩)] := by decide

/-- Full statement (no guard) fails: a child's `umask` is seen by the parent mid-flight. -/
def concurrent_isolation_full : Prop :=
  ∀ (root : List Str) (es : List (Side × Mut)) (p : ShellPart) (w : World),
    (runSched shared root es (fork fresh p w)).par.world = (runMuts root (parentCmds es) { sh := p, world := w }).world

theorem concurrent_cex : ¬ concurrent_isolation_full := by
  intro h
  have := h [] [(.child, .umask 63)] (defaultShell []) ⟨18, 1024⟩
  revert this; decide

/-! ## the table matters -/

/-- If `Shell::clone` shared any one of the components instead of copying it, isolation would fail:
the theorem above is not true of an arbitrary clone table, it is true of the one in the source. -/
theorem sharing_breaks_isolation (sh : Comp → Bool) (h : ∃ c, sh c = true) :
    ∃ (ms : List Mut) (p : ShellPart) (w : World),
      (execWith sh (fun _ => false) [] .paren ms p w).shell ≠ prepare .paren p :=
  sharing_leaks sh h

end BrushVerif.C12
